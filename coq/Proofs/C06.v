(* Proofs for property C06 (money literals, currency conversion, money arithmetic, rate updates).

   1. association lists        assoc / assoc_insert (the model of BTreeMap::insert)
   2. convert_money            the conversion rule: operation sequence for any Num, a * rB / rA over Q
   3. calculate on money       + - convert the right operand into the left currency, * / by numbers,
                               money / money
   4. histories                Corr.step / Corr.run: the rate table after any history, one update
                               changes one currency, last write wins, evaluation changes nothing
   5. finite tables            regenerated currency / alias / rate tables: lookups in any letter
                               case, aliases, rates finite and non-zero, all ordered pairs
   6. literals                 Lexer.money_body and every spelling over the currency table
   7. examples                 non-vacuity at binary64
   8. money regexes            for ALL digit strings: the five regexes of parse.money on `digits blanks word`
                               (one match of regex 2, none of the others) and the token the parser adds;
                               the same for `symbol digits` with the currency-symbol aliases (regex 1) *)
From Coq Require Import QArith Qcanon Floats.
From SC.Model Require Import Base Num NumF64 NumQ Types Config Case Chrono Parser RuleFns Items UiTokens Regex Rx Rules Lexer Api Run64 Corr.
From SC.Spec Require Import Money.
From SC.Gen Require Import RustConsts ConfigData Regexes.
From SC.Proofs Require Import RegexLemmas RegexNeeds.

(* 1. association lists *)
Lemma str_eqb_neq a b : a <> b -> str_eqb a b = false.
Proof. intro H. destruct (str_eqb a b) eqn:E; auto. apply str_eqb_eq in E. contradiction. Qed.

Lemma str_eqb_sym a b : str_eqb a b = str_eqb b a.
Proof.
  destruct (str_eqb a b) eqn:E.
  - apply str_eqb_eq in E. subst. symmetry. apply str_eqb_refl.
  - destruct (str_eqb b a) eqn:E'; auto. apply str_eqb_eq in E'. subst. rewrite str_eqb_refl in E. discriminate.
Qed.

Lemma assoc_insert_same {A} k (v : A) l : assoc k (assoc_insert k v l) = Some v.
Proof.
  induction l as [|[k' v'] l IH]; cbn [assoc_insert assoc].
  - rewrite str_eqb_refl. reflexivity.
  - destruct (str_eqb k k') eqn:E.
    + cbn [assoc]. rewrite str_eqb_refl. reflexivity.
    + destruct (str_ltb k k'); cbn [assoc].
      * rewrite str_eqb_refl. reflexivity.
      * rewrite E. exact IH.
Qed.

Lemma assoc_insert_other {A} k k0 (v : A) l : k0 <> k -> assoc k0 (assoc_insert k v l) = assoc k0 l.
Proof.
  intro Hne. pose proof (str_eqb_neq _ _ Hne) as Hf.
  induction l as [|[k' v'] l IH]; cbn [assoc_insert assoc].
  - rewrite Hf. reflexivity.
  - destruct (str_eqb k k') eqn:E.
    + apply str_eqb_eq in E. subst k'. cbn [assoc]. rewrite Hf. reflexivity.
    + destruct (str_ltb k k'); cbn [assoc].
      * rewrite Hf. reflexivity.
      * rewrite IH. reflexivity.
Qed.

Lemma assoc_insert_spec {A} k k0 (v : A) l :
  assoc k0 (assoc_insert k v l) = if str_eqb k0 k then Some v else assoc k0 l.
Proof.
  destruct (str_eqb k0 k) eqn:E.
  - apply str_eqb_eq in E. subst. apply assoc_insert_same.
  - apply assoc_insert_other. intro; subst. rewrite str_eqb_refl in E. discriminate.
Qed.

Lemma assoc_In {A} k (v : A) l : assoc k l = Some v -> In (k, v) l.
Proof.
  induction l as [|[k' v'] l IH]; cbn [assoc]; intro H; [discriminate|].
  destruct (str_eqb k k') eqn:E.
  - apply str_eqb_eq in E. inversion H; subst. left; reflexivity.
  - right. auto.
Qed.

(* 2. conversion *)
Section WithNum.
Context {F : Type} {NF : Num F}.

Lemma get_money_has (vs : vars F) k fs x : get_money vs (s k) fs = Some x -> has k fs = true.
Proof.
  unfold get_money, field_token, has, assoc_mem. destruct (assoc (s k) fs); [reflexivity|discriminate].
Qed.

Lemma get_currency_has (cfg : config F) (vs : vars F) k fs x : get_currency cfg vs (s k) fs = Some x -> has k fs = true.
Proof.
  unfold get_currency, field_token, has, assoc_mem. destruct (assoc (s k) fs); [reflexivity|discriminate].
Qed.

Theorem convert_money_ops : forall (cfg : config F) (vs : vars F) fs a A B rA rB,
  get_money vs (s "money") fs = Some (a, A) ->
  get_currency cfg vs (s "currency") fs = Some B ->
  rate_of cfg A = Some rA -> rate_of cfg B = Some rB ->
  convert_money cfg vs fs = Ok (Some (TMoney (fmul (do_division a rA) rB) B)).
Proof.
  intros cfg vs fs a A B rA rB Hm Hc HA HB. unfold convert_money.
  rewrite (get_money_has _ _ _ _ Hm), (get_currency_has _ _ _ _ _ Hc), Hm, Hc, HA, HB. reflexivity.
Qed.

Theorem convert_money_exact : forall (cfg : config F) (vs : vars F) fs,
  convert_money cfg vs fs =
  match get_money vs (s "money") fs, get_currency cfg vs (s "currency") fs with
  | Some (a, A), Some B =>
    match rate_of cfg A, rate_of cfg B with
    | Some rA, Some rB => Ok (Some (TMoney (fmul (do_division a rA) rB) B))
    | _, _ => Ok None
    end
  | _, _ => Ok None
  end.
Proof.
  intros. unfold convert_money, none, some.
  destruct (get_money vs (s "money") fs) as [[a A]|] eqn:Hm.
  - rewrite (get_money_has _ _ _ _ Hm).
    destruct (get_currency cfg vs (s "currency") fs) as [B|] eqn:Hc.
    + rewrite (get_currency_has _ _ _ _ _ Hc). cbn [andb].
      destruct (rate_of cfg A); [|reflexivity]. destruct (rate_of cfg B); reflexivity.
    + destruct (has "currency" fs); reflexivity.
  - destruct (has "money" fs && has "currency" fs); [|reflexivity].
    destruct (get_currency cfg vs (s "currency") fs); reflexivity.
Qed.

Definition ti_of (t : token F) : token_info F :=
  {| ti_start := 0%N; ti_end := 0%N; ti_ty := Some t; ti_text := []; ti_active := true |}.

End WithNum.

(* Q *)
Lemma do_division_Q (l r : Qc) : do_division l r = (l / r)%Qc.
Proof. reflexivity. Qed.

Lemma conv_ops (rA rB a : Qc) : rA <> Q2Qc 0 -> fmul (do_division a rA) rB = conv rA rB a.
Proof. intro H. rewrite do_division_Q. unfold conv. cbn [fmul NumQ]. field. exact H. Qed.

Lemma conv_id (r a : Qc) : r <> Q2Qc 0 -> conv r r a = a.
Proof. intro H. unfold conv. field. exact H. Qed.

Theorem convert_money_Q : forall (cfg : config Qc) (vs : vars Qc) fs a A B rA rB,
  get_money vs (s "money") fs = Some (a, A) ->
  get_currency cfg vs (s "currency") fs = Some B ->
  rate_of cfg A = Some rA -> rate_of cfg B = Some rB -> rA <> Q2Qc 0 ->
  convert_money cfg vs fs = Ok (Some (TMoney (conv rA rB a) B)).
Proof.
  intros. rewrite (convert_money_ops cfg vs fs a A B rA rB) by assumption.
  rewrite conv_ops by assumption. reflexivity.
Qed.

Theorem convert_money_Q_id : forall (cfg : config Qc) (vs : vars Qc) fs a A rA,
  get_money vs (s "money") fs = Some (a, A) ->
  get_currency cfg vs (s "currency") fs = Some A ->
  rate_of cfg A = Some rA -> rA <> Q2Qc 0 ->
  convert_money cfg vs fs = Ok (Some (TMoney a A)).
Proof.
  intros. rewrite (convert_money_Q cfg vs fs a A A rA rA) by assumption.
  rewrite conv_id by assumption. reflexivity.
Qed.

Section Calc.
Context {F : Type} {NF : Num F}.
Variable bexec : config F -> str -> res (option F).

Theorem convert_currency_ops : forall (cfg : config F) A b B rA rB,
  rate_of cfg A = Some rA -> rate_of cfg B = Some rB ->
  convert_currency cfg A b B = fmul (do_division b rB) rA.
Proof. intros. unfold convert_currency. rewrite H, H0. reflexivity. Qed.

Theorem money_calc_ops : forall (cfg : config F) a A b B n nt,
  calculate bexec cfg (IMoney a A) (IMoney b B) OAdd = Ok (Some (IMoney (fadd a (convert_currency cfg A b B)) A)) /\
  calculate bexec cfg (IMoney a A) (IMoney b B) OSub = Ok (Some (IMoney (fsub a (convert_currency cfg A b B)) A)) /\
  calculate bexec cfg (IMoney a A) (IMoney b B) ODiv = Ok (Some (INumber (do_division a (convert_currency cfg A b B)) Decimal)) /\
  calculate bexec cfg (IMoney a A) (INumber n nt) OMul = Ok (Some (IMoney (fmul a n) A)) /\
  calculate bexec cfg (IMoney a A) (INumber n nt) ODiv = Ok (Some (IMoney (do_division a n) A)).
Proof. intros. repeat split; reflexivity. Qed.
End Calc.

Theorem money_calc_Q : forall bexec (cfg : config Qc) a A b B rA rB n nt,
  rate_of cfg A = Some rA -> rate_of cfg B = Some rB -> rB <> Q2Qc 0 ->
  calculate bexec cfg (IMoney a A) (IMoney b B) OAdd = Ok (Some (IMoney (a + conv rB rA b)%Qc A)) /\
  calculate bexec cfg (IMoney a A) (IMoney b B) OSub = Ok (Some (IMoney (a - conv rB rA b)%Qc A)) /\
  calculate bexec cfg (IMoney a A) (IMoney b B) ODiv = Ok (Some (INumber (a / conv rB rA b)%Qc Decimal)) /\
  calculate bexec cfg (IMoney a A) (INumber n nt) OMul = Ok (Some (IMoney (a * n)%Qc A)) /\
  calculate bexec cfg (IMoney a A) (INumber n nt) ODiv = Ok (Some (IMoney (a / n)%Qc A)).
Proof.
  intros bexec cfg a A b B rA rB n nt HA HB Hnz.
  destruct (money_calc_ops bexec cfg a A b B n nt) as (H1 & H2 & H3 & H4 & H5).
  rewrite H1, H2, H3, H4, H5.
  rewrite (convert_currency_ops cfg A b B rA rB HA HB), (conv_ops rB rA b Hnz).
  repeat split; reflexivity.
Qed.

(* 4. histories *)
Definition state_after (ck : clock) (m : mstate) (ops : list op) : mstate :=
  fold_left (fun m o => fst (step ck m o)) ops m.

Lemma run_app ck ops1 : forall m ops2,
  run ck m (ops1 ++ ops2) = run ck m ops1 ++ run ck (state_after ck m ops1) ops2.
Proof.
  induction ops1 as [|o r IH]; intros m ops2; [reflexivity|].
  cbn [app run state_after fold_left]. destruct (step ck m o) as [m' ob] eqn:E. cbn [fst].
  rewrite IH. reflexivity.
Qed.

Lemma state_after_app ck m ops1 ops2 :
  state_after ck m (ops1 ++ ops2) = state_after ck (state_after ck m ops1) ops2.
Proof. unfold state_after. apply fold_left_app. Qed.

Definition is_update (o : op) : bool := match o with OUpdateCurrency _ _ => true | _ => false end.

(* the part of the configuration that money depends on *)
Definition names_of (c : config F) := (cf_currency c, cf_currency_alias c).

Lemma step_update ck m name r :
  step ck m (OUpdateCurrency name r) =
  match read_currency (m_cfg m) name with
  | Some X => (with_cfg m (set_rates (m_cfg m) (assoc_insert X r (cf_rates (m_cfg m)))), MRet (Some true))
  | None => (m, MRet (Some false))
  end.
Proof. reflexivity. Qed.

Lemma step_other ck m o : is_update o = false ->
  cf_rates (m_cfg (fst (step ck m o))) = cf_rates (m_cfg m) /\
  names_of (m_cfg (fst (step ck m o))) = names_of (m_cfg m).
Proof.
  intro H. destruct o; try discriminate H; unfold step, set_date_rule, bind.
  all: try (split; reflexivity).
  all: try (match goal with |- context [tokenise_patterns ?a ?b ?c ?d ?e] =>
              destruct (tokenise_patterns a b c d e) eqn:?; split; reflexivity end).
  all: repeat match goal with
       | |- context [match ?x with _ => _ end] => destruct x eqn:?; try (split; reflexivity)
       end.
Qed.

Definition updates_of (ops : list op) : list (str * F) :=
  flat_map (fun o => match o with OUpdateCurrency n r => [(n, r)] | _ => [] end) ops.

(* accepted updates, by currency code *)
Definition resolved (cfg : config F) (ops : list op) : list (str * F) :=
  flat_map (fun o => match o with
                     | OUpdateCurrency n r => match read_currency cfg n with Some X => [(X, r)] | None => [] end
                     | _ => [] end) ops.

Lemma read_currency_names (c1 c2 : config F) :
  names_of c1 = names_of c2 -> forall n, read_currency c1 n = read_currency c2 n.
Proof. unfold names_of, read_currency. intros H n. inversion H as [[H1 H2]]. rewrite H1, H2. reflexivity. Qed.

Lemma step_names ck m o : names_of (m_cfg (fst (step ck m o))) = names_of (m_cfg m).
Proof.
  destruct (is_update o) eqn:E.
  - destruct o; try discriminate E. rewrite step_update. destruct (read_currency (m_cfg m) cur); reflexivity.
  - apply step_other. exact E.
Qed.

Theorem names_after ck ops : forall m, names_of (m_cfg (state_after ck m ops)) = names_of (m_cfg m).
Proof.
  induction ops as [|o r IH]; intro m; [reflexivity|].
  change (state_after ck m (o :: r)) with (state_after ck (fst (step ck m o)) r).
  rewrite IH. apply step_names.
Qed.

Theorem read_currency_after ck ops m n :
  read_currency (m_cfg (state_after ck m ops)) n = read_currency (m_cfg m) n.
Proof. apply read_currency_names. apply names_after. Qed.

(* the rate table after any history is the fold of the accepted updates *)
Theorem rates_after_fold ck ops : forall m,
  cf_rates (m_cfg (state_after ck m ops)) =
  fold_left (fun l u => assoc_insert (fst u) (snd u) l) (resolved (m_cfg m) ops) (cf_rates (m_cfg m)).
Proof.
  induction ops as [|o r IH]; intro m; [reflexivity|].
  change (state_after ck m (o :: r)) with (state_after ck (fst (step ck m o)) r).
  rewrite IH.
  assert (Hres : resolved (m_cfg (fst (step ck m o))) r = resolved (m_cfg m) r).
  { unfold resolved. apply flat_map_ext. intros [] ; try reflexivity.
    rewrite (read_currency_names _ _ (step_names ck m o)). reflexivity. }
  rewrite Hres.
  destruct (is_update o) eqn:E.
  - destruct o; try discriminate E. rewrite step_update.
    change (resolved (m_cfg m) (OUpdateCurrency cur rate :: r))
      with ((match read_currency (m_cfg m) cur with Some X => [(X, rate)] | None => [] end) ++ resolved (m_cfg m) r).
    rewrite fold_left_app.
    destruct (read_currency (m_cfg m) cur); reflexivity.
  - destruct (step_other ck m o E) as [Hr _]. rewrite Hr.
    assert (Hn : resolved (m_cfg m) (o :: r) = resolved (m_cfg m) r).
    { destruct o; try discriminate E; reflexivity. }
    rewrite Hn. reflexivity.
Qed.

(* generic facts about the reference tables *)
Section TableLemmas.
Context {R : Type}.
Implicit Types (t : table R) (us : list (str * R)).

Lemma table_after_ext res1 res2 us : (forall n, res1 n = res2 n) ->
  forall t1 t2, (forall Y, t1 Y = t2 Y) -> forall Y, table_after res1 t1 us Y = table_after res2 t2 us Y.
Proof.
  intro Hres. induction us as [|u r IH]; intros t1 t2 Ht Y; cbn [table_after]; [apply Ht|].
  apply IH. intro Z. unfold request. rewrite Hres. destruct (res2 (fst u)); cbn [fst]; [|apply Ht].
  unfold upd. rewrite Ht. reflexivity.
Qed.

Lemma last_write_acc resolve Y us : forall acc : option R,
  last_write resolve Y us acc = match last_write resolve Y us None with Some r => Some r | None => acc end.
Proof.
  induction us as [|u r IH]; intro acc; cbn [last_write]; [reflexivity|].
  destruct (resolve (fst u)) as [X|]; [|apply IH].
  destruct (str_eqb Y X); [|apply IH].
  rewrite (IH (Some (snd u))). destruct (last_write resolve Y r None); reflexivity.
Qed.

Theorem table_after_last_write resolve us : forall t Y,
  table_after resolve t us Y = match last_write resolve Y us None with Some r => Some r | None => t Y end.
Proof.
  induction us as [|u r IH]; intros t Y; cbn [table_after last_write]; [reflexivity|].
  rewrite IH. unfold request. destruct (resolve (fst u)) as [X|]; cbn [fst]; [|reflexivity].
  unfold upd. destruct (str_eqb Y X); [|reflexivity].
  rewrite (last_write_acc resolve Y r (Some (snd u))). destruct (last_write resolve Y r None); reflexivity.
Qed.

Lemma last_write_none resolve Y us :
  (forall n r X, In (n, r) us -> resolve n = Some X -> X <> Y) -> last_write resolve Y us None = None.
Proof.
  induction us as [|[n r] us IH]; intro H; cbn [last_write fst snd]; [reflexivity|].
  destruct (resolve n) as [X|] eqn:E.
  - rewrite str_eqb_neq; [apply IH|].
    + intros n' r' X' Hin. apply (H n' r' X'). right. exact Hin.
    + intro HY. apply (H n r X); [left; reflexivity|exact E|congruence].
  - apply IH. intros n' r' X' Hin. apply (H n' r' X'). right. exact Hin.
Qed.

Theorem table_after_untouched resolve t us Y :
  (forall n r X, In (n, r) us -> resolve n = Some X -> X <> Y) -> table_after resolve t us Y = t Y.
Proof. intro H. rewrite table_after_last_write, last_write_none by exact H. reflexivity. Qed.

Theorem table_after_last_wins resolve t us1 n r us2 X :
  resolve n = Some X ->
  (forall n' r' X', In (n', r') us2 -> resolve n' = Some X' -> X' <> X) ->
  table_after resolve t (us1 ++ (n, r) :: us2) X = Some r.
Proof.
  intros Hn H. revert t. induction us1 as [|u us1 IH]; intro t.
  - cbn [app table_after]. rewrite table_after_untouched by exact H.
    unfold request. cbn [fst snd]. rewrite Hn. cbn [fst]. unfold upd. rewrite str_eqb_refl. reflexivity.
  - cbn [app table_after]. apply IH.
Qed.
End TableLemmas.

Theorem rates_after ck ops : forall m Y,
  rate_of (m_cfg (state_after ck m ops)) Y =
  table_after (read_currency (m_cfg m)) (rate_of (m_cfg m)) (updates_of ops) Y.
Proof.
  induction ops as [|o r IH]; intros m Y; [reflexivity|].
  change (state_after ck m (o :: r)) with (state_after ck (fst (step ck m o)) r).
  rewrite IH.
  destruct (is_update o) eqn:E.
  - destruct o; try discriminate E.
    change (updates_of (OUpdateCurrency cur rate :: r)) with ((cur, rate) :: updates_of r).
    cbn [table_after]. apply table_after_ext.
    + intro n. apply read_currency_names. apply step_names.
    + intro Z. rewrite step_update. unfold request. cbn [fst snd].
      destruct (read_currency (m_cfg m) cur) as [X|]; cbn [fst]; [|reflexivity].
      unfold rate_of, upd. cbn [m_cfg with_cfg set_rates cf_rates]. apply assoc_insert_spec.
  - assert (Hn : updates_of (o :: r) = updates_of r) by (destruct o; try discriminate E; reflexivity).
    rewrite Hn. apply table_after_ext.
    + intro n. apply read_currency_names. apply step_names.
    + intro Z. unfold rate_of. destruct (step_other ck m o E) as [Hr _]. rewrite Hr. reflexivity.
Qed.

Theorem other_ops_keep_rates ck m o :
  (forall name r, o <> OUpdateCurrency name r) ->
  cf_rates (m_cfg (fst (step ck m o))) = cf_rates (m_cfg m) /\
  cf_currency (m_cfg (fst (step ck m o))) = cf_currency (m_cfg m) /\
  cf_currency_alias (m_cfg (fst (step ck m o))) = cf_currency_alias (m_cfg m).
Proof.
  intro H.
  assert (E : is_update o = false) by (destruct o; try reflexivity; exfalso; eapply H; reflexivity).
  destruct (step_other ck m o E) as [Hr Hn]. unfold names_of in Hn. inversion Hn as [[H1 H2]].
  repeat split; assumption.
Qed.

Theorem untouched ck m ops Y :
  (forall n r X, In (n, r) (updates_of ops) -> read_currency (m_cfg m) n = Some X -> X <> Y) ->
  rate_of (m_cfg (state_after ck m ops)) Y = rate_of (m_cfg m) Y.
Proof. intro H. rewrite rates_after. apply table_after_untouched. exact H. Qed.

Theorem last_write_wins ck m pre name r post X :
  read_currency (m_cfg m) name = Some X ->
  (forall n' r' X', In (n', r') (updates_of post) -> read_currency (m_cfg m) n' = Some X' -> X' <> X) ->
  rate_of (m_cfg (state_after ck m (pre ++ OUpdateCurrency name r :: post))) X = Some r.
Proof.
  intros Hn H. rewrite rates_after.
  assert (E : updates_of (pre ++ OUpdateCurrency name r :: post) = updates_of pre ++ (name, r) :: updates_of post).
  { unfold updates_of. rewrite flat_map_app. reflexivity. }
  rewrite E. apply table_after_last_wins; assumption.
Qed.

(* one update request *)
Theorem update_accepted ck m name r X :
  read_currency (m_cfg m) name = Some X ->
  let m' := fst (step ck m (OUpdateCurrency name r)) in
  snd (step ck m (OUpdateCurrency name r)) = MRet (Some true) /\
  rate_of (m_cfg m') X = Some r /\
  (forall Y, Y <> X -> rate_of (m_cfg m') Y = rate_of (m_cfg m) Y) /\
  m_cfg m' = set_rates (m_cfg m) (assoc_insert X r (cf_rates (m_cfg m))) /\
  m_sessions m' = m_sessions m.
Proof.
  intros H m'. subst m'. rewrite step_update, H. cbn [fst snd m_cfg with_cfg m_sessions].
  unfold rate_of. cbn [set_rates cf_rates].
  repeat split.
  - apply assoc_insert_same.
  - intros Y HY. apply assoc_insert_other. exact HY.
Qed.

Theorem update_refused ck m name r :
  read_currency (m_cfg m) name = None ->
  step ck m (OUpdateCurrency name r) = (m, MRet (Some false)).
Proof. intro H. rewrite step_update, H. reflexivity. Qed.

Theorem update_returns_false_iff ck m name r :
  snd (step ck m (OUpdateCurrency name r)) = MRet (Some false) <-> read_currency (m_cfg m) name = None.
Proof.
  rewrite step_update. destruct (read_currency (m_cfg m) name); cbn [snd]; split; intro H; try reflexivity; discriminate H.
Qed.

(* evaluation never changes the calculator's configuration *)
Theorem exec_keeps_state ck m lang text :
  fst (step ck m (OExec lang text)) = m /\
  fst (step ck m (OExecFresh lang text)) = m /\
  snd (step ck m (OExec lang text)) =
    match execute LX ck (m_cfg m) lang text with Ok r => MRes r | Panic st => MPanic st end.
Proof. repeat split; reflexivity. Qed.

Theorem exec_session_keeps_cfg ck m sid : m_cfg (fst (step ck m (OExecSession sid))) = m_cfg m.
Proof.
  unfold step. destruct (sess_get sid (m_sessions m)) as [se|]; [|reflexivity].
  destruct (execute_session LX ck (m_cfg m) se) as [[se' r]|]; reflexivity.
Qed.

(* where an operation sits in a history *)
Theorem update_in_history ck m pre name r post :
  run ck m (pre ++ OUpdateCurrency name r :: post) =
  run ck m pre ++
  MRet (Some (match read_currency (m_cfg m) name with Some _ => true | None => false end)) ::
  run ck (state_after ck m (pre ++ [OUpdateCurrency name r])) post.
Proof.
  rewrite run_app. f_equal. rewrite state_after_app.
  cbn [run state_after fold_left]. rewrite step_update.
  rewrite (read_currency_after ck pre m name).
  destruct (read_currency (m_cfg m) name); reflexivity.
Qed.

Theorem exec_in_history ck m pre lang text post :
  run ck m (pre ++ OExec lang text :: post) =
  run ck m pre ++
  (match execute LX ck (m_cfg (state_after ck m pre)) lang text with Ok r => MRes r | Panic st => MPanic st end) ::
  run ck (state_after ck m pre) post.
Proof. rewrite run_app. reflexivity. Qed.

(* histories of rate updates and evaluations: the whole configuration *)
Definition money_history (ops : list op) : bool :=
  forallb (fun o => match o with OUpdateCurrency _ _ | OExec _ _ | OExecFresh _ _ => true | _ => false end) ops.

Lemma set_rates_same (c : config F) : set_rates c (cf_rates c) = c.
Proof. destruct c; reflexivity. Qed.
Lemma set_rates_twice (c : config F) l1 l2 : set_rates (set_rates c l1) l2 = set_rates c l2.
Proof. reflexivity. Qed.

Theorem money_history_state ck ops : forall m, money_history ops = true ->
  state_after ck m ops =
  with_cfg m (set_rates (m_cfg m)
               (fold_left (fun l u => assoc_insert (fst u) (snd u) l) (resolved (m_cfg m) ops) (cf_rates (m_cfg m)))).
Proof.
  induction ops as [|o r IH]; intros m H.
  - cbn [state_after fold_left resolved flat_map]. rewrite set_rates_same. destruct m; reflexivity.
  - cbn [money_history forallb] in H. apply andb_true_iff in H as [Ho Hr].
    change (state_after ck m (o :: r)) with (state_after ck (fst (step ck m o)) r).
    rewrite (IH _ Hr).
    destruct o; try discriminate Ho.
    + reflexivity.
    + reflexivity.
    + rewrite step_update.
      change (resolved (m_cfg m) (OUpdateCurrency cur rate :: r))
        with ((match read_currency (m_cfg m) cur with Some X => [(X, rate)] | None => [] end) ++ resolved (m_cfg m) r).
      rewrite fold_left_app.
      destruct (read_currency (m_cfg m) cur) as [X|] eqn:E; cbn [fst]; [|reflexivity].
      assert (Hres : resolved (m_cfg (with_cfg m (set_rates (m_cfg m) (assoc_insert X rate (cf_rates (m_cfg m)))))) r
                     = resolved (m_cfg m) r).
      { unfold resolved. apply flat_map_ext. intros []; try reflexivity. }
      rewrite Hres. reflexivity.
Qed.

(* ------------------------------------------------------------------------------------- *)
(* 5. finite-table theorems over the regenerated tables                                   *)
(* ------------------------------------------------------------------------------------- *)
Lemma read_currency_lower {G} (c : config G) n1 n2 :
  to_lowercase n1 = to_lowercase n2 -> read_currency c n1 = read_currency c n2.
Proof. intro H. unfold read_currency. rewrite H. reflexivity. Qed.

Lemma assoc_keys {A} k (l : list (str * A)) : assoc k l <> None -> In k (map fst l).
Proof.
  induction l as [|[k' v] l IH]; cbn [assoc map fst]; intro H; [contradiction|].
  destruct (str_eqb k k') eqn:E.
  - left. symmetry. apply str_eqb_eq. exact E.
  - right. auto.
Qed.

Definition found_as {G} (c : config G) (name code : str) : bool :=
  match read_currency c name with Some X => str_eqb X code | None => false end.

Lemma found_as_eq {G} (c : config G) name code : found_as c name code = true -> read_currency c name = Some code.
Proof.
  unfold found_as. destruct (read_currency c name); [|discriminate]. intro H. apply str_eqb_eq in H. congruence.
Qed.

(* the codes of the currency table *)
Definition table_codes {G} (c : config G) : list str := map (fun kv => c_code (snd kv)) (cf_currency c).

Definition code_check {G} (c : config G) (code : str) : bool :=
  found_as c (to_lowercase code) code && found_as c (to_uppercase code) code && found_as c code code
  && str_eqb (to_lowercase (to_lowercase code)) (to_lowercase code)
  && str_eqb (to_lowercase (to_uppercase code)) (to_lowercase code).

Lemma codes_checked : forallb (code_check default_config) (table_codes default_config) = true.
Proof. vm_compute. reflexivity. Qed.

Lemma rated_are_codes :
  forallb (fun k => mem_str k (table_codes default_config)) (map fst (cf_rates default_config)) = true.
Proof. vm_compute. reflexivity. Qed.

Lemma mem_str_In x l : mem_str x l = true -> In x l.
Proof.
  induction l as [|y l IH]; cbn [mem_str]; intro H; [discriminate|].
  apply orb_true_iff in H as [H|H]; [left; symmetry; apply str_eqb_eq; exact H|right; auto].
Qed.

(* every currency of the table is found under its code, in any letter case *)
Theorem code_found_any_case : forall code name,
  In code (table_codes default_config) ->
  to_lowercase name = to_lowercase code ->
  read_currency default_config name = Some code.
Proof.
  intros code name Hin Hlow.
  pose proof (proj1 (forallb_forall _ _) codes_checked code Hin) as H.
  unfold code_check in H. repeat (apply andb_true_iff in H as [H ?]).
  rewrite (read_currency_lower default_config name code Hlow).
  apply found_as_eq. assumption.
Qed.

Theorem code_found_lower_upper : forall code,
  In code (table_codes default_config) ->
  read_currency default_config (to_lowercase code) = Some code /\
  read_currency default_config (to_uppercase code) = Some code /\
  read_currency default_config code = Some code.
Proof.
  intros code Hin.
  pose proof (proj1 (forallb_forall _ _) codes_checked code Hin) as H.
  unfold code_check in H. repeat (apply andb_true_iff in H as [H ?]).
  repeat split; apply found_as_eq; assumption.
Qed.

Theorem rated_is_code : forall A, rate_of default_config A <> None -> In A (table_codes default_config).
Proof.
  intros A H. apply assoc_keys in H. apply mem_str_In.
  exact (proj1 (forallb_forall _ _) rated_are_codes A H).
Qed.

Theorem rated_found_any_case : forall A name,
  rate_of default_config A <> None ->
  to_lowercase name = to_lowercase A ->
  read_currency default_config name = Some A.
Proof. intros A name H. apply code_found_any_case. apply rated_is_code. exact H. Qed.

(* every alias resolves to a currency of the table that has a rate *)
Definition alias_check {G} (c : config G) (kv : str * str) : bool :=
  match assoc (snd kv) (cf_currency c) with
  | Some cur => found_as c (fst kv) (c_code cur) && found_as c (to_uppercase (fst kv)) (c_code cur)
                && assoc_mem (c_code cur) (cf_rates c)
  | None => false
  end.

Lemma aliases_checked : forallb (alias_check default_config) (cf_currency_alias default_config) = true.
Proof. vm_compute. reflexivity. Qed.

Theorem alias_resolves : forall al key,
  In (al, key) (cf_currency_alias default_config) ->
  exists cur, assoc key (cf_currency default_config) = Some cur /\
              read_currency default_config al = Some (c_code cur) /\
              read_currency default_config (to_uppercase al) = Some (c_code cur) /\
              rate_of default_config (c_code cur) <> None.
Proof.
  intros al key Hin.
  pose proof (proj1 (forallb_forall _ _) aliases_checked (al, key) Hin) as H.
  unfold alias_check in H. cbn [fst snd] in H.
  destruct (assoc key (cf_currency default_config)) as [cur|]; [|discriminate].
  repeat (apply andb_true_iff in H as [H ?]).
  exists cur. repeat split; try (apply found_as_eq; assumption).
  unfold rate_of. unfold assoc_mem in *. destruct (assoc (c_code cur) (cf_rates default_config)); [discriminate|discriminate].
Qed.

(* rates: finite and positive at binary64, non-zero as exact decimals *)
Definition rate_check (kv : str * F) : bool :=
  match fcls (snd kv) with FFinite => fltb f0 (snd kv) | _ => false end.

Lemma rates_checked : forallb rate_check (cf_rates default_config) = true.
Proof. vm_compute. reflexivity. Qed.

Theorem rates_finite_positive : forall A r,
  rate_of default_config A = Some r -> fcls r = FFinite /\ fltb f0 r = true.
Proof.
  intros A r H. apply assoc_In in H.
  pose proof (proj1 (forallb_forall _ _) rates_checked (A, r) H) as H'.
  unfold rate_check in H'. cbn [snd] in H'. destruct (fcls r); try discriminate. split; [reflexivity|exact H'].
Qed.

Theorem default_tables :
  cf_currency default_config = d_currency /\ cf_currency_alias default_config = d_currency_alias /\
  cf_rates default_config = d_rates.
Proof. vm_compute. repeat split; reflexivity. Qed.

(* the same tables over exact rationals (rates as the decimals written in config.json) *)
Definition qconfig : config Qc := base_config.

Lemma q_rates_checked : forallb (fun kv : str * Qc => negb (Qc_eq_bool (snd kv) (Q2Qc 0))) (cf_rates qconfig) = true.
Proof. vm_compute. reflexivity. Qed.

Theorem q_rates_nonzero : forall A r, rate_of qconfig A = Some r -> r <> Q2Qc 0.
Proof.
  intros A r H. apply assoc_In in H.
  pose proof (proj1 (forallb_forall _ _) q_rates_checked (A, r) H) as H'. cbn [snd] in H'.
  intro E. subst r. unfold Qc_eq_bool in H'. destruct (Qc_eq_dec (Q2Qc 0) (Q2Qc 0)); [discriminate|congruence].
Qed.

(* the fields the rule `{MONEY:money} {GROUP:conversion:conversion_group} {TEXT:currency}` binds *)
Definition money_fields {G} {NG : Num G} (a : G) (A : str) (name : str) : fields G :=
  [(s "currency", ti_of (TText name)); (s "money", ti_of (TMoney a A))].

(* all ordered pairs of rated currencies, all amounts, the target written in any letter case *)
Theorem all_pairs_f64 : forall (vs : vars F) (a : F) A B rA rB name,
  rate_of default_config A = Some rA -> rate_of default_config B = Some rB ->
  to_lowercase name = to_lowercase B ->
  convert_money default_config vs (money_fields a A name)
  = Ok (Some (TMoney (fmul (do_division a rA) rB) B)).
Proof.
  intros vs a A B rA rB name HA HB Hn.
  apply (convert_money_ops default_config vs _ a A B rA rB); try assumption; try reflexivity.
  change (read_currency default_config name = Some B).
  apply rated_found_any_case; [congruence|exact Hn].
Qed.

Lemma q_codes_checked : forallb (code_check qconfig) (map fst (cf_rates qconfig)) = true.
Proof. vm_compute. reflexivity. Qed.

Theorem all_pairs_Q : forall (vs : vars Qc) (a : Qc) A B rA rB name,
  rate_of qconfig A = Some rA -> rate_of qconfig B = Some rB ->
  to_lowercase name = to_lowercase B ->
  convert_money qconfig vs (money_fields a A name) = Ok (Some (TMoney (conv rA rB a) B)).
Proof.
  intros vs a A B rA rB name HA HB Hn.
  apply (convert_money_Q qconfig vs _ a A B rA rB); try assumption; try reflexivity.
  - change (read_currency qconfig name = Some B).
    rewrite (read_currency_lower qconfig name B Hn).
    assert (Hin : In B (map fst (cf_rates qconfig))) by (apply assoc_keys; unfold rate_of in HB; congruence).
    pose proof (proj1 (forallb_forall _ _) q_codes_checked B Hin) as H.
    unfold code_check in H. repeat (apply andb_true_iff in H as [H ?]).
    apply found_as_eq. assumption.
  - apply (q_rates_nonzero A). exact HA.
Qed.

(* reachable states: whatever updates were made, a currency that has a rate is a currency of
   the table and is found under its code in any letter case *)
Lemma read_currency_is_code {G} (c : config G) n X :
  read_currency c n = Some X -> In X (table_codes c).
Proof.
  unfold read_currency, table_codes.
  destruct (match assoc (to_lowercase n) (cf_currency_alias c) with
            | Some key => Some key
            | None => if assoc_mem (to_lowercase n) (cf_currency c) then Some (to_lowercase n) else None end) as [key|];
    [|discriminate].
  destruct (assoc key (cf_currency c)) as [cur|] eqn:E; [|discriminate].
  cbn [option_map]. intro H. inversion H; subst. apply assoc_In in E.
  apply (in_map (fun kv => c_code (snd kv)) _ _ E).
Qed.

Definition rated_are_table_codes (c : config F) : Prop :=
  forall A, rate_of c A <> None -> In A (table_codes c).

Lemma table_codes_names (c1 c2 : config F) : names_of c1 = names_of c2 -> table_codes c1 = table_codes c2.
Proof. unfold names_of, table_codes. intro H. inversion H as [[H1 H2]]. rewrite H1. reflexivity. Qed.

Lemma step_rated_codes ck m o :
  rated_are_table_codes (m_cfg m) -> rated_are_table_codes (m_cfg (fst (step ck m o))).
Proof.
  intros Inv A. rewrite (table_codes_names _ _ (step_names ck m o)).
  destruct (is_update o) eqn:E.
  - destruct o; try discriminate E. rewrite step_update.
    destruct (read_currency (m_cfg m) cur) as [X|] eqn:HX; cbn [fst]; [|apply Inv].
    unfold rate_of. cbn [m_cfg with_cfg set_rates cf_rates]. rewrite assoc_insert_spec.
    destruct (str_eqb A X) eqn:EA.
    + intros _. apply str_eqb_eq in EA. subst A. apply (read_currency_is_code _ _ _ HX).
    + apply Inv.
  - unfold rate_of. destruct (step_other ck m o E) as [Hr _]. rewrite Hr. apply Inv.
Qed.

Lemma state_after_rated_codes ck ops : forall m,
  rated_are_table_codes (m_cfg m) -> rated_are_table_codes (m_cfg (state_after ck m ops)).
Proof.
  induction ops as [|o r IH]; intros m Inv; [exact Inv|].
  change (state_after ck m (o :: r)) with (state_after ck (fst (step ck m o)) r).
  apply IH. apply step_rated_codes. exact Inv.
Qed.

Theorem reachable_rated_found ck ops : forall A name,
  rate_of (m_cfg (state_after ck init_state ops)) A <> None ->
  to_lowercase name = to_lowercase A ->
  read_currency (m_cfg (state_after ck init_state ops)) name = Some A.
Proof.
  intros A name H Hn. rewrite read_currency_after. cbn [m_cfg init_state].
  apply code_found_any_case; [|exact Hn].
  pose proof (state_after_rated_codes ck ops init_state rated_is_code A H) as Hin.
  rewrite (table_codes_names _ _ (names_after ck ops init_state)) in Hin. exact Hin.
Qed.

(* ... and so the conversion rule applies between any two currencies that have a rate after
   any history, with the rates current at that point *)
Theorem reachable_all_pairs ck ops : forall (vs : vars F) (a : F) A B rA rB name,
  let cfg := m_cfg (state_after ck init_state ops) in
  rate_of cfg A = Some rA -> rate_of cfg B = Some rB ->
  to_lowercase name = to_lowercase B ->
  convert_money cfg vs (money_fields a A name) = Ok (Some (TMoney (fmul (do_division a rA) rB) B)).
Proof.
  intros vs a A B rA rB name cfg HA HB Hn.
  apply (convert_money_ops cfg vs _ a A B rA rB); try assumption; try reflexivity.
  change (read_currency cfg name = Some B).
  apply reachable_rated_found; [fold cfg; congruence|exact Hn].
Qed.

(* ------------------------------------------------------------------------------------- *)
(* 6. literals: Lexer.money_body, and every spelling over the currency table, end to end  *)
(* ------------------------------------------------------------------------------------- *)
Section Lit.
Context {G : Type} {NG : Num G}.

Theorem money_body_token : forall (cfg : config G) line c cp st psp price0 csp code b e0,
  cap_name c cp "PRICE" = Some psp ->
  read_decimal cfg (slice line psp) = Some price0 ->
  cap_name c cp "CURRENCY" = Some csp ->
  read_currency cfg (slice line csp) = Some code ->
  cap_get cp 0 = Some (b, e0) ->
  let notation := cap_name c cp "NOTATION" in
  let price := match notation with
               | Some nsp => fmul price0 (notation_mult NOTATION_MONEY (slice line nsp))
               | None => price0 end in
  let e := match notation with Some nsp => snd nsp | None => snd csp end in
  exists st', money_body cfg line c cp st = Ok st' /\
    (collides (ts_infos st) b e = false ->
       ts_infos st' = ts_infos st ++ [{| ti_start := b; ti_end := e; ti_ty := Some (TMoney price code);
                                         ti_text := slice line psp; ti_active := true |}]) /\
    (collides (ts_infos st) b e = true -> st' = st).
Proof.
  intros cfg line c cp st psp price0 csp code b e0 Hp Hd Hc Hr H0 notation price e.
  unfold money_body. rewrite Hp. cbn [need bind]. rewrite Hd, Hc, Hr, H0.
  fold notation. fold price. fold e. unfold add_token.
  destruct (collides (ts_infos st) b e) eqn:E.
  - exists st. split; [reflexivity|]. split; [discriminate|reflexivity].
  - eexists. split; [reflexivity|]. split; [|discriminate]. intros _. reflexivity.
Qed.

Theorem money_body_declines : forall (cfg : config G) line c cp st psp,
  cap_name c cp "PRICE" = Some psp ->
  (read_decimal cfg (slice line psp) = None \/
   cap_name c cp "CURRENCY" = None \/
   (exists csp, cap_name c cp "CURRENCY" = Some csp /\ read_currency cfg (slice line csp) = None)) ->
  money_body cfg line c cp st = Ok st.
Proof.
  intros cfg line c cp st psp Hp H. unfold money_body. rewrite Hp. cbn [need bind].
  destruct (read_decimal cfg (slice line psp)); [|reflexivity].
  destruct H as [H|[H|[csp [H1 H2]]]]; [discriminate| rewrite H; reflexivity| rewrite H1, H2; reflexivity].
Qed.

Theorem money_suffixes :
  notation_mult NOTATION_MONEY (s "k") = fofZ 1000 /\
  notation_mult NOTATION_MONEY (s "K") = fofZ 1000 /\
  notation_mult NOTATION_MONEY (s "M") = fofZ 1000000 /\
  notation_mult NOTATION_MONEY [] = f1.
Proof. repeat split; reflexivity. Qed.
End Lit.

Definition obs_value (ob : mobs) : option (token F) :=
  match ob with
  | MRes r => match er_lines r with
              | [Some lo] => match lo_result lo with LOk _ (AItem i) => Some (item_token i) | _ => None end
              | _ => None end
  | _ => None
  end.
Definition ev_in (cfg : config F) (text : str) : option (token F) :=
  match exec64 CK0 cfg (s "en") text with Ok r => obs_value (MRes r) | Panic _ => None end.
Definition ev := ev_in default_config.

(* spellings of a literal: amount then code (0-2 blanks, lower or upper case, sign, decimals,
   thousands separator) *)
Definition plain_spellings : list ((str -> str) * F) :=
  [ (fun c => s "25 " ++ to_lowercase c, 25%float);
    (fun c => s "25" ++ to_lowercase c, 25%float);
    (fun c => s "25  " ++ c, 25%float);
    (fun c => s "25" ++ c, 25%float);
    (fun c => s "-25 " ++ to_lowercase c, (-25)%float);
    (fun c => s "12,5 " ++ to_lowercase c, 12.5%float);
    (fun c => s "1.250,75 " ++ c, 1250.75%float) ].
(* with a suffix: the money token ends at the suffix and the code that follows it triggers the
   conversion rule into the same currency, so a rated currency goes through (x / r) * r *)
Definition suffix_spellings : list ((str -> str) * F) :=
  [ (fun c => s "25k " ++ to_lowercase c, 25000%float);
    (fun c => s "25K  " ++ c, 25000%float);
    (fun c => s "25M " ++ to_lowercase c, 25000000%float) ].
Definition through_rate (cfg : config F) (code : str) (x : F) : F :=
  match rate_of cfg code with Some r => fmul (do_division x r) r | None => x end.

Definition spelled (text : str) (x : F) (code : str) : bool :=
  opt_token_exact (ev text) (Some (TMoney x code)).
Definition plain_ok (code : str) : bool :=
  forallb (fun sp => spelled (fst sp code) (snd sp) code) plain_spellings.
Definition suffix_ok (code : str) : bool :=
  assoc_mem code (cf_timezones default_config) ||
  forallb (fun sp => spelled (fst sp code) (through_rate default_config code (snd sp)) code) suffix_spellings.

Lemma plain_checked : forallb plain_ok (table_codes default_config) = true.
Proof. vm_cast_no_check (eq_refl true). Qed.
Lemma suffix_checked : forallb suffix_ok (table_codes default_config) = true.
Proof. vm_cast_no_check (eq_refl true). Qed.

Theorem literal_spellings : forall code mk x,
  In code (table_codes default_config) -> In (mk, x) plain_spellings ->
  opt_token_exact (ev (mk code)) (Some (TMoney x code)) = true.
Proof.
  intros code mk x Hc Hs.
  pose proof (proj1 (forallb_forall _ _) plain_checked code Hc) as H.
  exact (proj1 (forallb_forall _ _) H (mk, x) Hs).
Qed.

Theorem literal_suffix_spellings : forall code mk x,
  In code (table_codes default_config) -> assoc_mem code (cf_timezones default_config) = false ->
  In (mk, x) suffix_spellings ->
  opt_token_exact (ev (mk code)) (Some (TMoney (through_rate default_config code x) code)) = true.
Proof.
  intros code mk x Hc Htz Hs.
  pose proof (proj1 (forallb_forall _ _) suffix_checked code Hc) as H.
  unfold suffix_ok in H. rewrite Htz in H. cbn [orb] in H.
  exact (proj1 (forallb_forall _ _) H (mk, x) Hs).
Qed.

(* aliases and symbols: every alias made of ASCII letters after the amount, every one-character
   alias (a currency symbol) before and after the amount *)
Definition is_word (a : str) : bool :=
  (2 <=? length a)%nat && forallb (fun c => ((65 <=? c) && (c <=? 90) || (97 <=? c) && (c <=? 122))%N) a.
Definition alias_literal_ok (kv : str * str) : bool :=
  match read_currency default_config (fst kv) with
  | None => false
  | Some code =>
    let al := fst kv in
    if is_word al then
      spelled (s "25 " ++ al) 25%float code && spelled (s "25" ++ to_uppercase al) 25%float code
      && spelled (s "3k " ++ al) (through_rate default_config code 3000%float) code
    else if (length al =? 1)%nat then
      spelled (al ++ s "25") 25%float code && spelled (s "25" ++ al) 25%float code
      && spelled (s "25 " ++ al) 25%float code && spelled (al ++ s "3k") 3000%float code
      && spelled (s "3M " ++ al) 3000000%float code && spelled (al ++ s "1.250,5") 1250.5%float code
    else true
  end.
Lemma alias_literals_checked : forallb alias_literal_ok (cf_currency_alias default_config) = true.
Proof. vm_cast_no_check (eq_refl true). Qed.

Theorem alias_literals : forall kv, In kv (cf_currency_alias default_config) -> alias_literal_ok kv = true.
Proof. intros kv H. exact (proj1 (forallb_forall _ _) alias_literals_checked kv H). Qed.

(* end to end, all ordered pairs of rated currencies x every conversion word of English *)
Definition conversion_words : list str :=
  match assoc (s "en") (cf_word_group default_config) with
  | Some gs => match assoc (s "conversion_group") gs with Some ws => ws | None => [] end
  | None => []
  end.
Definition rated_codes : list str := map fst (cf_rates default_config).
Definition pair_ok (w A B : str) : bool :=
  match rate_of default_config A, rate_of default_config B with
  | Some rA, Some rB =>
    opt_token_exact (ev (s "100 " ++ to_lowercase A ++ s " " ++ w ++ s " " ++ to_lowercase B))
                    (Some (TMoney (fmul (do_division 100%float rA) rB) B))
  | _, _ => false
  end.
Lemma pairs_checked :
  forallb (fun w => forallb (fun A => forallb (fun B => pair_ok w A B) rated_codes) rated_codes) conversion_words = true.
Proof. vm_cast_no_check (eq_refl true). Qed.

Theorem all_pairs_executed : forall w A B,
  In w conversion_words -> In A rated_codes -> In B rated_codes -> pair_ok w A B = true.
Proof.
  intros w A B Hw HA HB.
  pose proof (proj1 (forallb_forall _ _) pairs_checked w Hw) as H1.
  pose proof (proj1 (forallb_forall _ _) H1 A HA) as H2.
  exact (proj1 (forallb_forall _ _) H2 B HB).
Qed.

Theorem pairs_nonvacuous : (1 <=? length conversion_words)%nat && (2 <=? length rated_codes)%nat = true.
Proof. vm_cast_no_check (eq_refl true). Qed.

(* ------------------------------------------------------------------------------------- *)
(* 7. examples (non-vacuity) and the limits of the literal clause                         *)
(* ------------------------------------------------------------------------------------- *)
Definition brief (ob : mobs) : option (token F) + option bool :=
  match ob with MRet b => inr b | _ => inl (obs_value ob) end.

Definition example_history : list op :=
  [ OUpdateCurrency (s "try") 8%float; OUpdateCurrency (s "USD") 2%float; OUpdateCurrency (s "bitcoin") 5%float;
    OExec (s "en") (s "10 usd to try");
    OExec (s "en") (s "$10 + 16 tl");
    OExec (s "en") (s "10 usd - 16 tl");
    OExec (s "en") (s "10 usd * 3");
    OExec (s "en") (s "12 eur / 4");
    OExec (s "en") ([8378%N] ++ s "80 / 5 dollar");
    OExec (s "en") (s "7 eur to EUR");
    OUpdateCurrency [8364%N] 4%float;
    OExec (s "en") (s "1 euro in try");
    OExecFresh (s "en") (s "10 usd to usd") ].

Theorem examples :
  map brief (run CK0 init_state example_history) =
  [ inr (Some true); inr (Some true); inr (Some false);
    inl (Some (TMoney 40%float (s "TRY")));
    inl (Some (TMoney 14%float (s "USD")));
    inl (Some (TMoney 6%float (s "USD")));
    inl (Some (TMoney 30%float (s "USD")));
    inl (Some (TMoney 3%float (s "EUR")));
    inl (Some (TNumber 4%float Decimal));
    inl (Some (TMoney 7%float (s "EUR")));
    inr (Some true);
    inl (Some (TMoney 2%float (s "TRY")));
    inl (Some (TMoney 10%float (s "USD"))) ].
Proof. vm_compute. reflexivity. Qed.

(* where the crate (and so the model) does not follow the literal clause of the statement; the
   generator keeps these inputs under the correspondence check *)
Theorem literal_limits :
  (* amount + suffix + blank + symbol: whatever follows is dropped *)
  ev (s "1k $ * 2") = Some (TMoney 1000%float (s "USD")) /\
  ev (s "1M " ++ [8364%N] ++ s " + 5cny") = Some (TMoney 1000000%float (s "EUR")) /\
  (* a currency symbol that is not a configured alias; the alias in Cyrillic letters *)
  ev ([163%N] ++ s "10") = Some (TNumber 0%float Decimal) /\
  ev (s "10 " ++ [1083%N; 1074%N]) = Some (TNumber 10%float Decimal) /\
  read_currency default_config [1083%N; 1074%N] = Some (s "BGN") /\
  (* a currency code that is also a time-zone abbreviation, after a suffixed amount *)
  ev (s "25k tmt") = None /\ ev (s "25 tmt") = Some (TMoney 25%float (s "TMT")).
Proof. vm_compute. repeat split; reflexivity. Qed.

(* ------------------------------------------------------------------------------------- *)
(* 8. the money regexes on ALL digit strings: `digits blanks word` lexes as one money token *)
(*    (positive runs and the no-match analysis of Proofs/RegexNeeds.v)                     *)
(* ------------------------------------------------------------------------------------- *)
Section MoneyRx.
Local Open Scope N_scope.

Definition notf := set_mem PT false [CRange 107 107; CRange 75 75; CRange 77 77; CRange 71 71; CRange 84 84;
                                     CRange 80 80; CRange 90 90; CRange 89 89].
Definition curf := set_mem PT false [CCurrency].
Definition letter (c : N) : bool := (97 <=? c) && (c <=? 122) || (65 <=? c) && (c <=? 90).

(* the PRICE group shared by the five money regexes *)
Definition MPR : matcher :=
  m_cat (m_rep (m_set signf) 0 (Some 1%nat) true)
        (m_cat (m_rep (m_set digf) 1 None true) (m_rep (m_set dsepf) 0 None true)).
Definition M1 : matcher :=
  m_cat (m_group 1 (m_set curf)) (m_cat (m_group 2 MPR) (m_group 3 (m_rep (m_set notf) 0 (Some 1%nat) true))).
Definition M2 : matcher :=
  m_cat (m_group 1 MPR) (m_cat (m_rep (m_set spf) 0 None true) (m_group 2 (m_rep (m_set letf) 2 None true))).
Definition M3 : matcher :=
  m_cat (m_group 1 MPR) (m_cat (m_rep (m_set spf) 0 None true) (m_group 2 (m_set curf))).
Definition M4 : matcher :=
  m_cat (m_group 1 MPR) (m_cat (m_group 2 (m_set notf))
        (m_cat (m_rep (m_set spf) 1 None true) (m_group 3 (m_rep (m_set letf) 2 None true)))).
Definition M5 : matcher :=
  m_cat (m_group 1 MPR) (m_cat (m_group 2 (m_set notf))
        (m_cat (m_rep (m_set spf) 1 None true) (m_group 3 (m_set curf)))).

Definition MONEY : list cre := cres_of "money".
Definition R1 : cre := nth 0 MONEY dummy_cre.
Definition R2 : cre := nth 1 MONEY dummy_cre.
Definition R3 : cre := nth 2 MONEY dummy_cre.
Definition R4 : cre := nth 3 MONEY dummy_cre.
Definition R5 : cre := nth 4 MONEY dummy_cre.

Lemma MONEY_split : MONEY = [R1; R2; R3; R4; R5]. Proof. reflexivity. Qed.
Lemma R1_matcher : compile PT (cre_rx R1) = M1. Proof. reflexivity. Qed.
Lemma R2_matcher : compile PT (cre_rx R2) = M2. Proof. reflexivity. Qed.
Lemma R3_matcher : compile PT (cre_rx R3) = M3. Proof. reflexivity. Qed.
Lemma R4_matcher : compile PT (cre_rx R4) = M4. Proof. reflexivity. Qed.
Lemma R5_matcher : compile PT (cre_rx R5) = M5. Proof. reflexivity. Qed.
Lemma R_names :
  cre_names R1 = [(s "CURRENCY", 1%nat); (s "NOTATION", 3%nat); (s "PRICE", 2%nat)] /\
  cre_names R2 = [(s "CURRENCY", 2%nat); (s "PRICE", 1%nat)] /\
  cre_n R1 = 3%nat /\ cre_n R2 = 2%nat.
Proof. repeat split; reflexivity. Qed.

Lemma advst_eq xs tail pos prev rem caps : forallb ascii xs = true ->
  advst tail pos prev rem caps xs = MS tail (pos + N.of_nat (length xs)) (lastp xs prev) (rem - length xs)%nat caps.
Proof.
  intros Ha. destruct (advst_fields xs tail pos prev rem caps Ha) as (A & B & C & D).
  pose proof (advst_prev xs tail pos prev rem caps) as E.
  destruct (advst tail pos prev rem caps xs) as [r0 p0 pv0 rm0 c0]. cbn in *. subst. reflexivity.
Qed.

Lemma digits_table : forallb (fun c => negb (notf c) && negb (letf c) && negb (curf c)) (range_list 48 57) = true.
Proof. vm_compute. reflexivity. Qed.

Lemma digit_more c : digit c = true -> notf c = false /\ letf c = false /\ curf c = false.
Proof.
  intros H. unfold digit in H. apply andb_true_iff in H as [H1 H2]. apply N.leb_le in H1. apply N.leb_le in H2.
  pose proof (proj1 (forallb_forall _ _) digits_table c (range_list_In 48 57 c H1 H2)) as T.
  apply andb_true_iff in T as [T T3]. apply andb_true_iff in T as [T1 T2].
  apply negb_true_iff in T1. apply negb_true_iff in T2. apply negb_true_iff in T3. repeat split; assumption.
Qed.

Lemma letter_facts c : letter c = true ->
  letf c = true /\ signf c = false /\ digf c = false /\ dsepf c = false /\ spf c = false /\ ascii c = true.
Proof.
  unfold letter, letf, signf, digf, dsepf, spf, set_mem, ascii. cbn [items_mem cls_mem negb].
  intros H. apply orb_true_iff in H.
  assert (H' : (97 <= c /\ c <= 122) \/ (65 <= c /\ c <= 90)).
  { destruct H as [H|H]; apply andb_true_iff in H as [H1 H2]; apply N.leb_le in H1; apply N.leb_le in H2; lia. }
  clear H.
  repeat match goal with
  | |- context [?a <? ?b] => destruct (N.ltb_spec a b); try lia
  | |- context [?a <=? ?b] => destruct (N.leb_spec a b); try lia
  end; repeat split.
Qed.

Lemma letters_all w : forallb letter w = true -> forallb letf w = true /\ forallb ascii w = true.
Proof.
  induction w as [|c w IH]; intros H; [split; reflexivity|]. cbn [forallb] in *. apply andb_true_iff in H as [Hc Hw].
  destruct (letter_facts c Hc) as (A & _ & _ & _ & _ & B). destruct (IH Hw) as (A' & B'). rewrite A, B, A', B'. split; reflexivity.
Qed.

(* x* over a non-empty run *)
Lemma rep0_run f xs tail pos prev rem caps k r :
  xs <> [] -> forallb f xs = true -> stops f tail -> (length xs <= S (S rem))%nat ->
  k (advst tail pos prev rem caps xs) = Some r ->
  m_rep (m_set f) 0 None true (MS (xs ++ tail) pos prev rem caps) k = Some r.
Proof.
  intros. unfold m_rep, plus_fuel. cbn [ms_rem]. rewrite (plus_run f xs tail pos prev rem caps _ true k r); auto.
Qed.

(* x{2,} over a run of at least two *)
Lemma rep2_run f a xs tail pos prev rem caps k r :
  f a = true -> xs <> [] -> forallb f xs = true -> stops f tail -> (length xs <= S rem)%nat ->
  k (advst tail pos prev rem caps (a :: xs)) = Some r ->
  m_rep (m_set f) 2 None true (MS ((a :: xs) ++ tail) pos prev rem caps) k = Some r.
Proof.
  intros Ha Hne Hx Ht Hl Hk. unfold m_rep. cbn [m_exactly]. unfold m_eps. unfold m_set at 1. cbn [app ms_rest]. rewrite Ha.
  cbn [ms_pos ms_prev ms_rem ms_caps]. unfold plus_fuel. cbn [ms_rem].
  apply plus_run; try assumption. lia.
Qed.
Lemma lastp_app xs ys prev : lastp (xs ++ ys) prev = lastp ys (lastp xs prev).
Proof. revert prev. induction xs as [|c t IH]; intros prev; cbn [app lastp]; [reflexivity|apply IH]. Qed.
End MoneyRx.

Section MoneyLine.
Local Open Scope N_scope.
Variables (ds w : list N) (k : nat).
Hypothesis Hne : ds <> [].
Hypothesis Hd : forallb digit ds = true.
Hypothesis Hw : forallb letter w = true.
Hypothesis Hw2 : (2 <= length w)%nat.

Local Notation n := (N.of_nat (length ds)).
Local Notation pw := (N.of_nat (length ds) + N.of_nat k).
Local Notation tot := (N.of_nat (length ds) + N.of_nat k + N.of_nat (length w)).
Local Notation tailL := (blanks k ++ w).
Local Notation L := (ds ++ blanks k ++ w).

Lemma w_cons : exists a b w', w = a :: b :: w'.
Proof. destruct w as [|a [|b w']]; cbn [length] in Hw2; try lia. eauto. Qed.

(* the head of what follows the digits: a blank or a letter *)
Lemma tailL_head : match tailL with [] => False | h :: _ =>
  signf h = false /\ digf h = false /\ dsepf h = false /\ (h = 32 \/ letter h = true) end.
Proof.
  destruct k as [|k']; cbn [blanks repeat app].
  - destruct w_cons as (a & b & w' & ->). cbn [forallb] in Hw. apply andb_true_iff in Hw as [Ha _].
    destruct (letter_facts a Ha) as (_ & A & B & C & _). repeat split; auto.
  - vm_compute. repeat split. left. reflexivity.
Qed.

Lemma L_ascii : forallb ascii L = true.
Proof.
  rewrite !forallb_app. destruct (digits_all ds Hd) as (_ & A & _). rewrite A.
  unfold blanks. rewrite (forallb_repeat ascii 32 k eq_refl). destruct (letters_all w Hw) as (_ & B). rewrite B. reflexivity.
Qed.

Lemma L_length : N.of_nat (length L) = tot.
Proof. rewrite !app_length, blanks_length. lia. Qed.

(* regex 2 (PRICE blanks CURRENCY) at the start of the line: the whole line *)
Lemma M2_hit prev :
  M2 (MS L 0 prev (length L) []) k_done
  = Some (MS [] tot (lastp L prev) 0%nat [(2%nat, (pw, tot)); (1%nat, (0, n))]).
Proof.
  destruct (digits_all ds Hd) as (Hdf & Ha & _ & _). destruct (letters_all w Hw) as (Hlf & Hla).
  pose proof tailL_head as Hth.
  unfold M2, m_cat. unfold m_group at 1. cbn [ms_pos]. unfold MPR, m_cat.
  (* optional sign *)
  assert (Hs : forall kk, m_rep (m_set signf) 0 (Some 1%nat) true (MS L 0 prev (length L) []) kk
                          = kk (MS L 0 prev (length L) [])).
  { intros kk. unfold m_rep. cbn [Nat.sub m_exactly m_upto]. unfold m_eps, m_set. cbn [ms_rest]. unfold L.
    clear - Hne Hd. destruct ds as [|d ds']; [congruence|]. cbn [app]. cbn [forallb] in Hd. apply andb_true_iff in Hd as [Hd0 _].
    destruct (digit_facts d Hd0) as (_ & S0 & _). rewrite S0. reflexivity. }
  rewrite Hs.
  apply rep1_run; try assumption.
  { destruct tailL as [|h t]; [exact Logic.I|]. exact (proj1 (proj2 Hth)). }
  { rewrite app_length. lia. }
  rewrite (advst_eq ds tailL 0 prev (length L) [] Ha). rewrite N.add_0_l.
  rewrite rep0_none.
  2:{ destruct tailL as [|h t]; [exact Logic.I|]. exact (proj1 (proj2 (proj2 Hth))). }
  cbv beta. cbn [ms_rest ms_pos ms_prev ms_rem ms_caps].
  (* blanks *)
  assert (Hb : forall kk r, kk (MS w pw (lastp (blanks k) (lastp ds prev)) (length L - length ds - k)%nat [(1%nat, (0, n))]) = Some r ->
            m_rep (m_set spf) 0 None true (MS tailL n (lastp ds prev) (length L - length ds)%nat [(1%nat, (0, n))]) kk = Some r).
  { intros kk r Hk. destruct k as [|k'].
    - cbn [blanks repeat app]. rewrite rep0_none.
      + cbn [blanks repeat lastp] in Hk. rewrite N.add_0_r, Nat.sub_0_r in Hk. exact Hk.
      + destruct w_cons as (a & b & w' & ->). cbn [forallb] in Hw. apply andb_true_iff in Hw as [Hwa _].
        exact (proj1 (proj2 (proj2 (proj2 (proj2 (letter_facts a Hwa)))))).
    - apply rep0_run.
      + discriminate.
      + apply forallb_repeat. reflexivity.
      + destruct w_cons as (a & b & w' & ->). cbn [forallb] in Hw. apply andb_true_iff in Hw as [Hwa _].
        exact (proj1 (proj2 (proj2 (proj2 (proj2 (letter_facts a Hwa)))))).
      + rewrite !app_length, blanks_length. lia.
      + rewrite advst_eq by (apply forallb_repeat; reflexivity). rewrite blanks_length.
        replace (length L - length ds - S k')%nat with (length L - length ds - S k')%nat in Hk by reflexivity. exact Hk. }
  apply Hb. clear Hb.
  (* the letters *)
  unfold m_group. cbn [ms_pos].
  destruct w_cons as (a & b & w' & Ew).
  assert (Hwa : letf a = true /\ forallb letf (b :: w') = true).
  { rewrite Ew in Hlf. cbn [forallb] in Hlf. apply andb_true_iff in Hlf. exact Hlf. }
  replace w with ((a :: b :: w') ++ []) at 1 by (rewrite app_nil_r; symmetry; exact Ew).
  apply rep2_run; try tauto.
  { discriminate. }
  { exact Logic.I. }
  { rewrite Ew, !app_length, blanks_length. cbn [length]. lia. }
  rewrite advst_eq by (rewrite <- Ew; exact Hla). cbn [ms_rest ms_pos ms_prev ms_rem ms_caps]. unfold k_done.
  rewrite <- Ew. f_equal. f_equal.
  - rewrite !lastp_app. reflexivity.
  - rewrite !app_length, blanks_length. lia.
Qed.

Lemma M2_nil pos prev rem caps kk : M2 (MS [] pos prev rem caps) kk = None.
Proof. reflexivity. Qed.

Theorem caps_R2 : caps_iter R2 L = [[Some (0, tot); Some (0, n); Some (pw, tot)]].
Proof.
  unfold caps_iter, captures_iter_p. rewrite R2_matcher. change (cre_n R2) with 2%nat.
  rewrite (iter_hit M2 2 _ _ _ _ _ _ _ _ (search_hit _ _ _ _ _ _ (M2_hit None))).
  2:{ cbn [ms_pos]. destruct ds; [congruence|]. cbn [length]. lia. }
  cbn [ms_rest ms_pos ms_prev ms_rem]. unfold render_caps. cbn [ms_pos ms_caps seq map lookup_cap Nat.eqb].
  reflexivity.
Qed.
End MoneyLine.

(* ---- no match: the states "digits, then a fixed tail" ---- *)
Section Fails.
Local Open Scope N_scope.
Variable tailL : list N.

Definition dtail (st : Regex.mstate) : Prop := exists ds2, forallb digit ds2 = true /\ ms_rest st = ds2 ++ tailL.

Lemma keeps_set_cond (I : Regex.mstate -> Prop) f :
  (forall c t pos prev rem caps, I (MS (c :: t) pos prev rem caps) -> f c = true ->
     I (MS t (pos + utf8_width c) (Some c) (Nat.pred rem) caps)) -> keeps I (m_set f).
Proof.
  intros Hs st kk res Hi H. unfold m_set in H. destruct st as [rest pos prev rem caps]. cbn in H.
  destruct rest as [|c t]; [discriminate|]. destruct (f c) eqn:E; [|discriminate].
  eexists. split; [|exact H]. exact (Hs _ _ _ _ _ _ Hi E).
Qed.

Lemma mfails_cat (I : Regex.mstate -> Prop) ma mb : keeps I ma -> mfails I mb -> mfails I (m_cat ma mb).
Proof.
  intros Ha Hb st kk Hi. unfold m_cat. destruct (ma st (fun st' => mb st' kk)) as [r|] eqn:E; [|reflexivity].
  destruct (Ha _ _ _ Hi E) as (st1 & Hi1 & H1). rewrite (Hb _ _ Hi1) in H1. discriminate.
Qed.

Lemma mfails_group (I : Regex.mstate -> Prop) idx mr : mfails I mr -> mfails I (m_group idx mr).
Proof. intros H st kk Hi. unfold m_group. apply H. exact Hi. Qed.

Lemma dtail_cap idx : cap_closed dtail idx.
Proof. intros st p0 H. exact H. Qed.

(* a set that contains no digit and not the head of the tail cannot be passed *)
Lemma dtail_set_fails f : stops f tailL -> (forall d, digit d = true -> f d = false) -> mfails dtail (m_set f).
Proof.
  intros Ht Hdg st kk (ds2 & Hd2 & Hr). destruct st as [rest pos prev rem caps]. cbn in Hr. subst rest.
  unfold m_set. cbn [ms_rest]. destruct ds2 as [|d ds2']; cbn [app].
  - destruct tailL as [|h t]; [reflexivity|]. cbn in Ht. rewrite Ht. reflexivity.
  - cbn [forallb] in Hd2. apply andb_true_iff in Hd2 as [Hd0 _]. rewrite (Hdg d Hd0). reflexivity.
Qed.

(* a set that does not contain the head of the tail keeps the shape *)
Lemma dtail_set_keeps f : stops f tailL -> keeps dtail (m_set f).
Proof.
  intros Ht. apply keeps_set_cond. intros c t pos prev rem caps (ds2 & Hd2 & Hr) Hf. cbn [ms_rest] in Hr.
  destruct ds2 as [|d ds2']; cbn [app] in Hr.
  - destruct tailL as [|h t']; [discriminate|]. inversion Hr; subst. cbn in Ht. congruence.
  - inversion Hr; subst. cbn [forallb] in Hd2. apply andb_true_iff in Hd2 as [_ Hd2]. exists ds2'. split; [exact Hd2|reflexivity].
Qed.

Definition price_stop : Prop := stops signf tailL /\ stops digf tailL /\ stops dsepf tailL.

Lemma dtail_price idx : price_stop -> keeps dtail (m_group idx MPR).
Proof.
  intros (H1 & H2 & H3). apply keeps_group; [apply dtail_cap|]. unfold MPR.
  apply keeps_cat; [apply keeps_rep, dtail_set_keeps, H1|].
  apply keeps_cat; apply keeps_rep, dtail_set_keeps; assumption.
Qed.

Lemma search_dtail mr : mfails dtail mr -> forall ds2 pos prev, forallb digit ds2 = true ->
  search mr (ds2 ++ tailL) pos prev (length (ds2 ++ tailL))
  = search mr tailL (pos + N.of_nat (length ds2)) (lastp ds2 prev) (length tailL).
Proof.
  intros Hf ds2. induction ds2 as [|d ds2' IH]; intros pos prev Hd2.
  - cbn [app length lastp]. rewrite N.add_0_r. reflexivity.
  - cbn [app]. rewrite search_skip1.
    2:{ apply Hf. exists (d :: ds2'). split; [exact Hd2|reflexivity]. }
    cbn [forallb] in Hd2. apply andb_true_iff in Hd2 as [Hd0 Hd2].
    destruct (digit_facts d Hd0) as (_ & _ & _ & _ & _ & Ha). rewrite (ascii_width d Ha).
    rewrite (IH (pos + 1) (Some d) Hd2). cbn [length lastp]. f_equal. lia.
Qed.
End Fails.

(* the PRICE group needs a sign or a digit first *)
Lemma price_rejects idx X : rejects (m_cat (m_group idx MPR) X) (fun c => negb (signf c) && negb (digf c)).
Proof.
  intros c t pos prev rem caps kk H. apply andb_true_iff in H as [H1 H2].
  apply negb_true_iff in H1. apply negb_true_iff in H2.
  unfold m_cat, m_group, MPR, m_cat. unfold m_rep at 1. cbn [Nat.sub m_exactly m_upto]. unfold m_eps.
  unfold m_set at 1. cbn [ms_rest]. rewrite H1.
  apply rep1_stops. exact H2.
Qed.

Lemma price_nil idx X pos prev rem caps kk : m_cat (m_group idx MPR) X (MS [] pos prev rem caps) kk = None.
Proof. reflexivity. Qed.

(* a regex PRICE . X fails everywhere on  digits ++ tail  when X fails after the digits and the tail has no
   sign or digit *)
Lemma price_search_none idx X tailL ds2 pos prev :
  price_stop tailL -> mfails (dtail tailL) X ->
  forallb digit ds2 = true -> forallb (fun c => negb (signf c) && negb (digf c)) tailL = true ->
  forallb ascii tailL = true ->
  search (m_cat (m_group idx MPR) X) (ds2 ++ tailL) pos prev (length (ds2 ++ tailL)) = None.
Proof.
  intros Hp HX Hd2 Ht Ha.
  rewrite (search_dtail tailL _ (mfails_cat _ _ _ (dtail_price tailL idx Hp) HX) ds2 pos prev Hd2).
  pose proof (search_skip_run _ _ (price_rejects idx X) tailL [] (pos + N.of_nat (length ds2)) (lastp ds2 prev) Ht Ha) as E.
  rewrite app_nil_r in E. rewrite E. reflexivity.
Qed.

Section MoneyLine2.
Local Open Scope N_scope.
Variables (ds w : list N) (k : nat).
Hypothesis Hne : ds <> [].
Hypothesis Hd : forallb digit ds = true.
Hypothesis Hw : forallb letter w = true.
Hypothesis Hw2 : (2 <= length w)%nat.
Local Notation tailL := (blanks k ++ w).
Local Notation L := (ds ++ blanks k ++ w).

Lemma tail_price_stop : price_stop tailL.
Proof.
  pose proof (tailL_head w k Hw Hw2) as H. unfold price_stop, stops. destruct tailL as [|h t]; [contradiction|]. tauto.
Qed.

Lemma tail_no_digit : forallb (fun c => negb (signf c) && negb (digf c)) tailL = true /\ forallb ascii tailL = true.
Proof.
  rewrite !forallb_app. unfold blanks. rewrite !forallb_repeat by reflexivity. cbn [andb].
  clear Hw2. induction w as [|c w' IH]; [split; reflexivity|]. cbn [forallb] in *. apply andb_true_iff in Hw as [Hc Hw'].
  destruct (letter_facts c Hc) as (_ & A & B & _ & _ & C). destruct (IH Hw') as (I1 & I2).
  rewrite A, B, C, I1, I2. split; reflexivity.
Qed.

(* regex 4: PRICE NOTATION blank+ CURRENCY.  After the digits comes a blank (not a suffix letter), or the
   first letter of the word, and then a letter where the blank should be *)
Lemma R4_rest_fails Y :
  mfails (dtail tailL) (m_cat (m_group 2 (m_set notf)) (m_cat (m_rep (m_set spf) 1 None true) Y)).
Proof.
  intros st kk (ds2 & Hd2 & Hr). destruct st as [rest pos prev rem caps]. cbn in Hr. subst rest.
  unfold m_cat, m_group. unfold m_set at 1. cbn [ms_rest].
  destruct ds2 as [|d ds2']; cbn [app].
  - destruct k as [|k']; cbn [blanks repeat app].
    + destruct (w_cons w Hw Hw2) as (a & b & w' & Ew). rewrite Ew. destruct (notf a); [|reflexivity].
      cbn [ms_pos ms_prev ms_rem ms_caps]. apply rep1_stops. cbn [ms_rest stops].
      rewrite Ew in Hw. cbn [forallb] in Hw. apply andb_true_iff in Hw as [_ Hb]. apply andb_true_iff in Hb as [Hb _].
      exact (proj1 (proj2 (proj2 (proj2 (proj2 (letter_facts b Hb)))))).
    + reflexivity.
  - cbn [forallb] in Hd2. apply andb_true_iff in Hd2 as [Hd0 _]. rewrite (proj1 (digit_more d Hd0)). reflexivity.
Qed.

Theorem caps_R4 : caps_iter R4 L = [].
Proof.
  unfold caps_iter, captures_iter_p. rewrite R4_matcher. apply iter_none_any. unfold M4.
  destruct tail_no_digit as (T1 & T2).
  exact (price_search_none 1 _ tailL ds 0 None tail_price_stop (R4_rest_fails _) Hd T1 T2).
Qed.

(* regexes 1, 3, 5 need a currency symbol *)
Definition AL : list N := range_list 48 57 ++ [32] ++ range_list 97 122 ++ range_list 65 90.

Lemma AL_table : forallb (fun c => needs_out PT AL (cre_rx c)) [R1; R3; R5] = true.
Proof. vm_compute. reflexivity. Qed.

Lemma digit_AL c : digit c = true -> in_alpha AL c = true.
Proof.
  intros H. unfold digit in H. apply andb_true_iff in H as [H1 H2]. apply N.leb_le in H1. apply N.leb_le in H2.
  apply in_alpha_In. unfold AL. apply in_or_app. left. apply range_list_In; assumption.
Qed.
Lemma letter_AL c : letter c = true -> in_alpha AL c = true.
Proof.
  intros H. unfold letter in H. apply in_alpha_In. unfold AL. apply in_or_app. right. apply in_or_app. right.
  apply in_or_app. apply orb_true_iff in H as [H|H]; apply andb_true_iff in H as [H1 H2];
    apply N.leb_le in H1; apply N.leb_le in H2; [left|right]; apply range_list_In; assumption.
Qed.

Lemma L_over : over AL L.
Proof.
  apply over_app. split.
  - unfold over. rewrite forallb_forall in *. intros c Hc. apply digit_AL. exact (Hd c Hc).
  - apply over_app. split; [apply over_repeat; reflexivity|].
    unfold over. rewrite forallb_forall in *. intros c Hc. apply letter_AL. exact (Hw c Hc).
Qed.

Lemma caps_R135 : caps_iter R1 L = [] /\ caps_iter R3 L = [] /\ caps_iter R5 L = [].
Proof.
  pose proof AL_table as T. cbn [forallb] in T.
  apply andb_true_iff in T as [T1 T]. apply andb_true_iff in T as [T3 T]. apply andb_true_iff in T as [T5 _].
  repeat split; apply (needs_out_caps_iter AL); try assumption; exact L_over.
Qed.
End MoneyLine2.

Section MoneyLexer.
Context {G : Type} {NG : Num G}.
Local Open Scope N_scope.
Variable cfg : config G.
Variables (ds w : list N) (k : nat) (x : G) (code : str).
Hypothesis Hne : ds <> [].
Hypothesis Hd : forallb digit ds = true.
Hypothesis Hw : forallb letter w = true.
Hypothesis Hw2 : (2 <= length w)%nat.
Hypothesis Hx : read_decimal cfg ds = Some x.
Hypothesis Hc : read_currency cfg w = Some code.
Local Notation L := (ds ++ blanks k ++ w).
Local Notation tot := (N.of_nat (length ds) + N.of_nat k + N.of_nat (length w)).

Definition info_shape (t : token_info G) := (ti_start t, ti_end t, ti_ty t, ti_text t, ti_active t).
Definition infos_shape (r : res (@Rules.tstate G)) :=
  match r with Ok st => Some (map info_shape (ts_infos st)) | Panic _ => None end.

Lemma slice_ds : slice L (0, N.of_nat (length ds)) = ds.
Proof.
  destruct (digits_all ds Hd) as (_ & Ha & _).
  exact (slice_mid [] ds (blanks k ++ w) eq_refl Ha).
Qed.

Lemma slice_w : slice L (N.of_nat (length ds) + N.of_nat k, tot) = w.
Proof.
  destruct (digits_all ds Hd) as (_ & Ha & _). destruct (letters_all w Hw) as (_ & Hla).
  pose proof (slice_mid (ds ++ blanks k) w [] ) as H.
  rewrite app_length, blanks_length, Nat2N.inj_add, app_nil_r, <- app_assoc in H. apply H; [|exact Hla].
  rewrite forallb_app, Ha. apply forallb_repeat. reflexivity.
Qed.

Theorem money_literal_parser :
  infos_shape (over_regexes (money_body cfg L) L MONEY empty_state)
  = Some [(0, tot, Some (TMoney x code), ds, true)].
Proof.
  rewrite MONEY_split. cbn [over_regexes].
  destruct (caps_R135 ds w k Hd Hw) as (C1 & C3 & C5).
  rewrite C1, (caps_R2 ds w k Hne Hd Hw Hw2), C3, (caps_R4 ds w k Hd Hw Hw2), C5.
  cbn [over_captures bind].
  destruct (money_body_token cfg L R2 [Some (0, tot); Some (0, N.of_nat (length ds)); Some (N.of_nat (length ds) + N.of_nat k, tot)]
              empty_state (0, N.of_nat (length ds)) x (N.of_nat (length ds) + N.of_nat k, tot) code 0 tot)
    as (st' & E & Hok & _).
  - reflexivity.
  - rewrite slice_ds. exact Hx.
  - reflexivity.
  - rewrite slice_w. exact Hc.
  - reflexivity.
  - rewrite E. cbn [bind infos_shape].
    rewrite (Hok eq_refl). cbn [ts_infos empty_state app map info_shape ti_start ti_end ti_ty ti_text ti_active snd].
    rewrite slice_ds. reflexivity.
Qed.
End MoneyLexer.

Theorem money_regexes_on_literal : forall (ds w : str) (k : nat),
  ds <> [] -> forallb digit ds = true -> forallb letter w = true -> (2 <= length w)%nat ->
  let n := N.of_nat (length ds) in
  let pw := (n + N.of_nat k)%N in
  let tot := (pw + N.of_nat (length w))%N in
  MONEY = [R1; R2; R3; R4; R5] /\
  caps_iter R2 (ds ++ blanks k ++ w) = [[Some (0%N, tot); Some (0%N, n); Some (pw, tot)]] /\
  caps_iter R1 (ds ++ blanks k ++ w) = [] /\ caps_iter R3 (ds ++ blanks k ++ w) = [] /\
  caps_iter R4 (ds ++ blanks k ++ w) = [] /\ caps_iter R5 (ds ++ blanks k ++ w) = [].
Proof.
  intros ds w k Hne Hd Hw Hw2 n pw tot.
  destruct (caps_R135 ds w k Hd Hw) as (C1 & C3 & C5).
  repeat split; try assumption.
  - exact (caps_R2 ds w k Hne Hd Hw Hw2).
  - exact (caps_R4 ds w k Hd Hw Hw2).
Qed.

(* ---- the regenerated tables: every currency code, written in lower or upper case (any mix for a rated one) ---- *)
Definition word_ok (v : str) : bool := forallb letter v && (2 <=? length v)%nat.

Lemma codes_are_words :
  forallb (fun c => word_ok (to_lowercase c) && word_ok (to_uppercase c)) (table_codes default_config) = true.
Proof. vm_compute. reflexivity. Qed.

Theorem money_literal_any_case : forall (ds : str) (k : nat) (name A : str) (x : float),
  ds <> [] -> forallb digit ds = true ->
  forallb letter name = true -> (2 <= length name)%nat ->
  In A (table_codes default_config) -> to_lowercase name = to_lowercase A ->
  read_decimal default_config ds = Some x ->
  infos_shape (over_regexes (money_body default_config (ds ++ blanks k ++ name)) (ds ++ blanks k ++ name) MONEY empty_state)
  = Some [(0%N, (N.of_nat (length ds) + N.of_nat k + N.of_nat (length name))%N, Some (TMoney x A), ds, true)].
Proof.
  intros ds k name A x Hne Hd Hl H2 HA Hn Hx.
  apply money_literal_parser; try assumption.
  apply code_found_any_case; assumption.
Qed.

Theorem money_literal_codes : forall (ds : str) (k : nat) (A : str) (x : float),
  ds <> [] -> forallb digit ds = true -> In A (table_codes default_config) ->
  read_decimal default_config ds = Some x ->
  forall name, name = to_lowercase A \/ name = to_uppercase A ->
  infos_shape (over_regexes (money_body default_config (ds ++ blanks k ++ name)) (ds ++ blanks k ++ name) MONEY empty_state)
  = Some [(0%N, (N.of_nat (length ds) + N.of_nat k + N.of_nat (length name))%N, Some (TMoney x A), ds, true)].
Proof.
  intros ds k A x Hne Hd HA Hx name Hn.
  pose proof (proj1 (forallb_forall _ _) codes_are_words A HA) as Hw.
  apply andb_true_iff in Hw as [Hlo Hup].
  destruct (code_found_lower_upper A HA) as (Rlo & Rup & _).
  destruct Hn as [-> | ->].
  - unfold word_ok in Hlo. apply andb_true_iff in Hlo as [L1 L2]. apply Nat.leb_le in L2.
    apply money_literal_parser; assumption.
  - unfold word_ok in Hup. apply andb_true_iff in Hup as [L1 L2]. apply Nat.leb_le in L2.
    apply money_literal_parser; assumption.
Qed.

Theorem money_literal_nonvacuous :
  read_decimal default_config (s "250") = Some 250%float /\ forallb digit (s "0123456789") = true /\
  mem_str (s "USD") (table_codes default_config) = true /\ word_ok (s "usd") = true /\
  length (table_codes default_config) = length (cf_currency default_config).
Proof. vm_compute. repeat split; reflexivity. Qed.

(* ---- the symbol-before form  `sym digits`  ---- *)
Section SymbolLine.
Local Open Scope N_scope.
Variables (c wc : N) (ds : list N).
Hypothesis Hcur : curf c = true.
Hypothesis Hsg : signf c = false.
Hypothesis Hdg : digf c = false.
Hypothesis Hwc : utf8_width c = wc.
Hypothesis Hwc' : utf8_w c = wc.
Hypothesis Hwc0 : wc <> 0.
Hypothesis Hne : ds <> [].
Hypothesis Hd : forallb digit ds = true.
Local Notation e := (wc + N.of_nat (length ds)).
Local Notation LS := (c :: ds).

Lemma M1_hit :
  M1 (MS LS 0 None (length LS) []) k_done
  = Some (MS [] e (lastp ds (Some c)) (Nat.pred (length LS) - length ds)%nat [(3%nat, (e, e)); (2%nat, (wc, e)); (1%nat, (0, wc))]).
Proof.
  destruct (digits_all ds Hd) as (Hdf & Ha & _ & _).
  unfold M1, m_cat. unfold m_group at 1. unfold m_set at 1. cbn [ms_rest ms_pos ms_prev ms_rem ms_caps]. rewrite Hcur.
  rewrite Hwc, N.add_0_l. unfold m_group at 1. cbn [ms_pos]. unfold MPR, m_cat.
  assert (Hs : forall st kk, ms_rest st = ds -> m_rep (m_set signf) 0 (Some 1%nat) true st kk = kk st).
  { intros st kk Hr. unfold m_rep. cbn [Nat.sub m_exactly m_upto]. unfold m_eps, m_set. rewrite Hr.
    clear - Hne Hd. destruct ds as [|d ds']; [congruence|]. cbn [forallb] in Hd. apply andb_true_iff in Hd as [Hd0 _].
    destruct (digit_facts d Hd0) as (_ & S0 & _). rewrite S0. reflexivity. }
  rewrite Hs by reflexivity.
  replace ds with (ds ++ []) at 1 by apply app_nil_r.
  apply rep1_run; try assumption.
  { exact Logic.I. }
  { cbn [length]. lia. }
  rewrite (advst_eq ds [] wc (Some c) _ _ Ha).
  rewrite rep0_none by exact Logic.I. cbv beta. cbn [ms_rest ms_pos ms_prev ms_rem ms_caps].
  unfold m_group. cbn [ms_pos]. unfold m_rep. cbn [Nat.sub m_exactly m_upto]. unfold m_eps, m_set. cbn [ms_rest].
  unfold k_done. reflexivity.
Qed.

Theorem caps_R1_sym : caps_iter R1 LS = [[Some (0, e); Some (0, wc); Some (wc, e); Some (e, e)]].
Proof.
  unfold caps_iter, captures_iter_p. rewrite R1_matcher. change (cre_n R1) with 3%nat.
  rewrite (iter_hit M1 3 _ _ _ _ _ _ _ _ (search_hit _ _ _ _ _ _ M1_hit)).
  2:{ cbn [ms_pos]. lia. }
  cbn [ms_rest ms_pos ms_prev ms_rem]. unfold render_caps. cbn [ms_pos ms_caps seq map lookup_cap Nat.eqb].
  reflexivity.
Qed.

(* regex 3 (PRICE blanks SYMBOL): after the digits nothing follows *)
Theorem caps_R3_sym : caps_iter R3 LS = [].
Proof.
  unfold caps_iter, captures_iter_p. rewrite R3_matcher. apply iter_none_any. unfold M3.
  rewrite search_skip1.
  2:{ apply price_rejects. rewrite Hsg, Hdg. reflexivity. }
  pose proof (price_search_none 1 (m_cat (m_rep (m_set spf) 0 None true) (m_group 2 (m_set curf))) [] ds
                (0 + utf8_width c) (Some c)) as H.
  rewrite app_nil_r in H. apply H.
  - repeat split.
  - apply mfails_cat.
    + apply keeps_rep, dtail_set_keeps. exact Logic.I.
    + apply mfails_group, dtail_set_fails; [exact Logic.I|]. intros d Hd0. exact (proj2 (proj2 (digit_more d Hd0))).
  - exact Hd.
  - reflexivity.
  - reflexivity.
Qed.
End SymbolLine.

Definition sym_ok (c : N) : bool :=
  curf c && negb (signf c) && negb (digf c) && N.eqb (utf8_width c) (utf8_w c) && negb (N.eqb (utf8_width c) 0)
  && forallb (fun r => needs_out PT (c :: range_list 48 57) (cre_rx r)) [R2; R4; R5].

Section SymbolLexer.
Context {G : Type} {NG : Num G}.
Local Open Scope N_scope.
Variable cfg : config G.
Variables (c : N) (ds : list N) (x : G) (code : str).
Hypothesis Hc : sym_ok c = true.
Hypothesis Hne : ds <> [].
Hypothesis Hd : forallb digit ds = true.
Hypothesis Hx : read_decimal cfg ds = Some x.
Hypothesis Hr : read_currency cfg [c] = Some code.
Local Notation wc := (utf8_width c).
Local Notation e := (utf8_width c + N.of_nat (length ds)).

Lemma sym_facts : curf c = true /\ signf c = false /\ digf c = false /\ utf8_w c = wc /\ wc <> 0 /\
  needs_out PT (c :: range_list 48 57) (cre_rx R2) = true /\
  needs_out PT (c :: range_list 48 57) (cre_rx R4) = true /\
  needs_out PT (c :: range_list 48 57) (cre_rx R5) = true.
Proof.
  unfold sym_ok in Hc.
  apply andb_true_iff in Hc as [Hc H6]. apply andb_true_iff in Hc as [Hc H5]. apply andb_true_iff in Hc as [Hc H4].
  apply andb_true_iff in Hc as [Hc H3]. apply andb_true_iff in Hc as [H1 H2].
  cbn [forallb] in H6. apply andb_true_iff in H6 as [N2 H6]. apply andb_true_iff in H6 as [N4 H6].
  apply andb_true_iff in H6 as [N5 _].
  apply negb_true_iff in H2. apply negb_true_iff in H3. apply negb_true_iff in H5.
  apply N.eqb_eq in H4. apply N.eqb_neq in H5.
  repeat split; auto.
Qed.

Lemma sym_line_over : over (c :: range_list 48 57) (c :: ds).
Proof.
  apply over_cons. split.
  - unfold in_alpha. cbn [existsb]. rewrite N.eqb_refl. reflexivity.
  - unfold over. rewrite forallb_forall in *. intros d Hin. specialize (Hd d Hin).
    unfold digit in Hd. apply andb_true_iff in Hd as [H1 H2]. apply N.leb_le in H1. apply N.leb_le in H2.
    apply in_alpha_In. right. apply range_list_In; assumption.
Qed.

Lemma take0 (l : list N) : take_bytes l 0 = [].
Proof. destruct l; reflexivity. Qed.

Lemma slice_sym : slice (c :: ds) (0, wc) = [c] /\ slice (c :: ds) (wc, e) = ds /\ slice (c :: ds) (e, e) = [].
Proof.
  destruct sym_facts as (_ & _ & _ & Hw & Hw0 & _).
  destruct (digits_all ds Hd) as (_ & Ha & _).
  apply N.eqb_neq in Hw0.
  unfold slice. cbn [fst snd]. repeat split.
  - cbn [drop_bytes N.eqb]. rewrite N.sub_0_r. cbn [take_bytes]. rewrite Hw0, Hw, N.sub_diag, take0. reflexivity.
  - cbn [drop_bytes]. rewrite Hw0, Hw, N.sub_diag.
    replace (drop_bytes ds 0) with ds by (destruct ds; reflexivity).
    replace (wc + N.of_nat (length ds) - wc) with (N.of_nat (length ds)) by lia.
    pose proof (take_ascii ds [] Ha) as T. rewrite app_nil_r in T. exact T.
  - rewrite N.sub_diag. apply take0.
Qed.

Theorem money_symbol_parser :
  infos_shape (over_regexes (money_body cfg (c :: ds)) (c :: ds) MONEY empty_state)
  = Some [(0, e, Some (TMoney (fmul x f1) code), ds, true)].
Proof.
  destruct sym_facts as (F1 & F2 & F3 & F4 & F5 & N2 & N4 & N5).
  destruct slice_sym as (S1 & S2 & S3).
  rewrite MONEY_split. cbn [over_regexes].
  rewrite (caps_R1_sym c wc ds F1 eq_refl F4 F5 Hne Hd), (caps_R3_sym c ds F2 F3 Hd).
  rewrite (needs_out_caps_iter _ R2 _ N2 sym_line_over), (needs_out_caps_iter _ R4 _ N4 sym_line_over),
          (needs_out_caps_iter _ R5 _ N5 sym_line_over).
  cbn [over_captures bind].
  destruct (money_body_token cfg (c :: ds) R1 [Some (0, e); Some (0, wc); Some (wc, e); Some (e, e)]
              empty_state (wc, e) x (0, wc) code 0 e) as (st' & E & Hok & _).
  - reflexivity.
  - rewrite S2. exact Hx.
  - reflexivity.
  - rewrite S1. exact Hr.
  - reflexivity.
  - rewrite E. cbn [bind infos_shape].
    rewrite (Hok eq_refl).
    change (cap_name R1 [Some (0, e); Some (0, wc); Some (wc, e); Some (e, e)] "NOTATION") with (Some (e, e)).
    cbn [ts_infos empty_state app map info_shape ti_start ti_end ti_ty ti_text ti_active snd].
    rewrite S2, S3. reflexivity.
Qed.
End SymbolLexer.

(* the one-character currency-symbol keys of the alias table *)
Definition alias_symbols {G} (cfg : config G) : list N :=
  flat_map (fun kv : str * str => match fst kv with [c] => if curf c then [c] else [] | _ => [] end) (cf_currency_alias cfg).

Lemma alias_symbols_ok :
  forallb (fun c => sym_ok c && found_as default_config [c] (match read_currency default_config [c] with Some a => a | None => [] end)
                    && match read_currency default_config [c] with Some a => assoc_mem a (cf_rates default_config) | None => false end)
          (alias_symbols default_config) = true.
Proof. vm_compute. reflexivity. Qed.

Theorem money_symbol_table : forall (c : N) (ds : str) (x : float),
  In c (alias_symbols default_config) -> ds <> [] -> forallb digit ds = true ->
  read_decimal default_config ds = Some x ->
  exists A, read_currency default_config [c] = Some A /\ rate_of default_config A <> None /\
    infos_shape (over_regexes (money_body default_config (c :: ds)) (c :: ds) MONEY empty_state)
    = Some [(0%N, (utf8_width c + N.of_nat (length ds))%N, Some (TMoney (fmul x f1) A), ds, true)].
Proof.
  intros c ds x Hin Hne Hd Hx.
  pose proof (proj1 (forallb_forall _ _) alias_symbols_ok c Hin) as H.
  apply andb_true_iff in H as [H H3]. apply andb_true_iff in H as [H1 H2].
  destruct (read_currency default_config [c]) as [A|] eqn:E; [|discriminate].
  exists A. split; [reflexivity|]. split.
  - unfold rate_of. unfold assoc_mem in H3. destruct (assoc A (cf_rates default_config)); [discriminate|discriminate].
  - apply money_symbol_parser; assumption.
Qed.

Theorem money_symbol_nonvacuous :
  alias_symbols default_config <> [] /\ mem_str [36%N] (map (fun c => [c]) (alias_symbols default_config)) = true.
Proof. vm_compute. split; [discriminate|reflexivity]. Qed.
