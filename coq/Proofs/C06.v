(* Proofs for property C06 (money literals, currency conversion, money arithmetic, rate updates).

   1. association lists        assoc / assoc_insert (the model of BTreeMap::insert)
   2. convert_money            the conversion rule: operation sequence for any Num, a * rB / rA over Q
   3. calculate on money       + - convert the right operand into the left currency, * / by numbers,
                               money / money
   4. histories                Corr.step / Corr.run: the rate table after any history, one update
                               changes one currency, last write wins, evaluation changes nothing
   5. finite tables            regenerated currency / alias / rate tables: lookups in any letter
                               case, aliases, rates finite and non-zero, all ordered pairs
   6. literals                 Lexer.money_body and every spelling over the currency table
   7. examples                 non-vacuity at binary64 *)
From Coq Require Import QArith Qcanon Floats.
From SC.Model Require Import Base Num NumF64 NumQ Types Config Case Chrono Parser RuleFns Items UiTokens Rx Rules Lexer Api Run64 Corr.
From SC.Spec Require Import Money.
From SC.Gen Require Import RustConsts ConfigData.

(* 1. association lists *)
Lemma str_eqb_neq a b : a <> b -> str_eqb a b = false.
Proof. intro H. destruct (str_eqb a b) eqn:E; auto. apply str_eqb_eq in E. contradiction. Qed.

Lemma str_eqb_sym a b : str_eqb a b = str_eqb b a.
Proof.
  destruct (str_eqb a b) eqn:E.
  - apply str_eqb_eq in E. subst. symmetry. apply str_eqb_refl.
  - destruct (str_eqb b a) eqn:E'; auto. apply str_eqb_eq in E'. subst. rewrite str_eqb_refl in E. discriminate.
Qed.

Lemma assoc_insert_same {A} k (v : A) l : assoc k (assoc_insert k v l) = Some v.
Proof.
  induction l as [|[k' v'] l IH]; cbn [assoc_insert assoc].
  - rewrite str_eqb_refl. reflexivity.
  - destruct (str_eqb k k') eqn:E.
    + cbn [assoc]. rewrite str_eqb_refl. reflexivity.
    + destruct (str_ltb k k'); cbn [assoc].
      * rewrite str_eqb_refl. reflexivity.
      * rewrite E. exact IH.
Qed.

Lemma assoc_insert_other {A} k k0 (v : A) l : k0 <> k -> assoc k0 (assoc_insert k v l) = assoc k0 l.
Proof.
  intro Hne. pose proof (str_eqb_neq _ _ Hne) as Hf.
  induction l as [|[k' v'] l IH]; cbn [assoc_insert assoc].
  - rewrite Hf. reflexivity.
  - destruct (str_eqb k k') eqn:E.
    + apply str_eqb_eq in E. subst k'. cbn [assoc]. rewrite Hf. reflexivity.
    + destruct (str_ltb k k'); cbn [assoc].
      * rewrite Hf. reflexivity.
      * rewrite IH. reflexivity.
Qed.

Lemma assoc_insert_spec {A} k k0 (v : A) l :
  assoc k0 (assoc_insert k v l) = if str_eqb k0 k then Some v else assoc k0 l.
Proof.
  destruct (str_eqb k0 k) eqn:E.
  - apply str_eqb_eq in E. subst. apply assoc_insert_same.
  - apply assoc_insert_other. intro; subst. rewrite str_eqb_refl in E. discriminate.
Qed.

Lemma assoc_In {A} k (v : A) l : assoc k l = Some v -> In (k, v) l.
Proof.
  induction l as [|[k' v'] l IH]; cbn [assoc]; intro H; [discriminate|].
  destruct (str_eqb k k') eqn:E.
  - apply str_eqb_eq in E. inversion H; subst. left; reflexivity.
  - right. auto.
Qed.

(* 2. conversion *)
Section WithNum.
Context {F : Type} {NF : Num F}.

Lemma get_money_has (vs : vars F) k fs x : get_money vs (s k) fs = Some x -> has k fs = true.
Proof.
  unfold get_money, field_token, has, assoc_mem. destruct (assoc (s k) fs); [reflexivity|discriminate].
Qed.

Lemma get_currency_has (cfg : config F) (vs : vars F) k fs x : get_currency cfg vs (s k) fs = Some x -> has k fs = true.
Proof.
  unfold get_currency, field_token, has, assoc_mem. destruct (assoc (s k) fs); [reflexivity|discriminate].
Qed.

Theorem convert_money_ops : forall (cfg : config F) (vs : vars F) fs a A B rA rB,
  get_money vs (s "money") fs = Some (a, A) ->
  get_currency cfg vs (s "currency") fs = Some B ->
  rate_of cfg A = Some rA -> rate_of cfg B = Some rB ->
  convert_money cfg vs fs = Ok (Some (TMoney (fmul (do_division a rA) rB) B)).
Proof.
  intros cfg vs fs a A B rA rB Hm Hc HA HB. unfold convert_money.
  rewrite (get_money_has _ _ _ _ Hm), (get_currency_has _ _ _ _ _ Hc), Hm, Hc, HA, HB. reflexivity.
Qed.

Theorem convert_money_exact : forall (cfg : config F) (vs : vars F) fs,
  convert_money cfg vs fs =
  match get_money vs (s "money") fs, get_currency cfg vs (s "currency") fs with
  | Some (a, A), Some B =>
    match rate_of cfg A, rate_of cfg B with
    | Some rA, Some rB => Ok (Some (TMoney (fmul (do_division a rA) rB) B))
    | _, _ => Ok None
    end
  | _, _ => Ok None
  end.
Proof.
  intros. unfold convert_money, none, some.
  destruct (get_money vs (s "money") fs) as [[a A]|] eqn:Hm.
  - rewrite (get_money_has _ _ _ _ Hm).
    destruct (get_currency cfg vs (s "currency") fs) as [B|] eqn:Hc.
    + rewrite (get_currency_has _ _ _ _ _ Hc). cbn [andb].
      destruct (rate_of cfg A); [|reflexivity]. destruct (rate_of cfg B); reflexivity.
    + destruct (has "currency" fs); reflexivity.
  - destruct (has "money" fs && has "currency" fs); [|reflexivity].
    destruct (get_currency cfg vs (s "currency") fs); reflexivity.
Qed.

Definition ti_of (t : token F) : token_info F :=
  {| ti_start := 0%N; ti_end := 0%N; ti_ty := Some t; ti_text := []; ti_active := true |}.

End WithNum.

(* Q *)
Lemma do_division_Q (l r : Qc) : do_division l r = (l / r)%Qc.
Proof. reflexivity. Qed.

Lemma conv_ops (rA rB a : Qc) : rA <> Q2Qc 0 -> fmul (do_division a rA) rB = conv rA rB a.
Proof. intro H. rewrite do_division_Q. unfold conv. cbn [fmul NumQ]. field. exact H. Qed.

Lemma conv_id (r a : Qc) : r <> Q2Qc 0 -> conv r r a = a.
Proof. intro H. unfold conv. field. exact H. Qed.

Theorem convert_money_Q : forall (cfg : config Qc) (vs : vars Qc) fs a A B rA rB,
  get_money vs (s "money") fs = Some (a, A) ->
  get_currency cfg vs (s "currency") fs = Some B ->
  rate_of cfg A = Some rA -> rate_of cfg B = Some rB -> rA <> Q2Qc 0 ->
  convert_money cfg vs fs = Ok (Some (TMoney (conv rA rB a) B)).
Proof.
  intros. rewrite (convert_money_ops cfg vs fs a A B rA rB) by assumption.
  rewrite conv_ops by assumption. reflexivity.
Qed.

Theorem convert_money_Q_id : forall (cfg : config Qc) (vs : vars Qc) fs a A rA,
  get_money vs (s "money") fs = Some (a, A) ->
  get_currency cfg vs (s "currency") fs = Some A ->
  rate_of cfg A = Some rA -> rA <> Q2Qc 0 ->
  convert_money cfg vs fs = Ok (Some (TMoney a A)).
Proof.
  intros. rewrite (convert_money_Q cfg vs fs a A A rA rA) by assumption.
  rewrite conv_id by assumption. reflexivity.
Qed.

Section Calc.
Context {F : Type} {NF : Num F}.
Variable bexec : config F -> str -> res (option F).

Theorem convert_currency_ops : forall (cfg : config F) A b B rA rB,
  rate_of cfg A = Some rA -> rate_of cfg B = Some rB ->
  convert_currency cfg A b B = fmul (do_division b rB) rA.
Proof. intros. unfold convert_currency. rewrite H, H0. reflexivity. Qed.

Theorem money_calc_ops : forall (cfg : config F) a A b B n nt,
  calculate bexec cfg (IMoney a A) (IMoney b B) OAdd = Ok (Some (IMoney (fadd a (convert_currency cfg A b B)) A)) /\
  calculate bexec cfg (IMoney a A) (IMoney b B) OSub = Ok (Some (IMoney (fsub a (convert_currency cfg A b B)) A)) /\
  calculate bexec cfg (IMoney a A) (IMoney b B) ODiv = Ok (Some (INumber (do_division a (convert_currency cfg A b B)) Decimal)) /\
  calculate bexec cfg (IMoney a A) (INumber n nt) OMul = Ok (Some (IMoney (fmul a n) A)) /\
  calculate bexec cfg (IMoney a A) (INumber n nt) ODiv = Ok (Some (IMoney (do_division a n) A)).
Proof. intros. repeat split; reflexivity. Qed.
End Calc.

Theorem money_calc_Q : forall bexec (cfg : config Qc) a A b B rA rB n nt,
  rate_of cfg A = Some rA -> rate_of cfg B = Some rB -> rB <> Q2Qc 0 ->
  calculate bexec cfg (IMoney a A) (IMoney b B) OAdd = Ok (Some (IMoney (a + conv rB rA b)%Qc A)) /\
  calculate bexec cfg (IMoney a A) (IMoney b B) OSub = Ok (Some (IMoney (a - conv rB rA b)%Qc A)) /\
  calculate bexec cfg (IMoney a A) (IMoney b B) ODiv = Ok (Some (INumber (a / conv rB rA b)%Qc Decimal)) /\
  calculate bexec cfg (IMoney a A) (INumber n nt) OMul = Ok (Some (IMoney (a * n)%Qc A)) /\
  calculate bexec cfg (IMoney a A) (INumber n nt) ODiv = Ok (Some (IMoney (a / n)%Qc A)).
Proof.
  intros bexec cfg a A b B rA rB n nt HA HB Hnz.
  destruct (money_calc_ops bexec cfg a A b B n nt) as (H1 & H2 & H3 & H4 & H5).
  rewrite H1, H2, H3, H4, H5.
  rewrite (convert_currency_ops cfg A b B rA rB HA HB), (conv_ops rB rA b Hnz).
  repeat split; reflexivity.
Qed.

(* 4. histories *)
Definition state_after (ck : clock) (m : mstate) (ops : list op) : mstate :=
  fold_left (fun m o => fst (step ck m o)) ops m.

Lemma run_app ck ops1 : forall m ops2,
  run ck m (ops1 ++ ops2) = run ck m ops1 ++ run ck (state_after ck m ops1) ops2.
Proof.
  induction ops1 as [|o r IH]; intros m ops2; [reflexivity|].
  cbn [app run state_after fold_left]. destruct (step ck m o) as [m' ob] eqn:E. cbn [fst].
  rewrite IH. reflexivity.
Qed.

Lemma state_after_app ck m ops1 ops2 :
  state_after ck m (ops1 ++ ops2) = state_after ck (state_after ck m ops1) ops2.
Proof. unfold state_after. apply fold_left_app. Qed.

Definition is_update (o : op) : bool := match o with OUpdateCurrency _ _ => true | _ => false end.

(* the part of the configuration that money depends on *)
Definition names_of (c : config F) := (cf_currency c, cf_currency_alias c).

Lemma step_update ck m name r :
  step ck m (OUpdateCurrency name r) =
  match read_currency (m_cfg m) name with
  | Some X => (with_cfg m (set_rates (m_cfg m) (assoc_insert X r (cf_rates (m_cfg m)))), MRet (Some true))
  | None => (m, MRet (Some false))
  end.
Proof. reflexivity. Qed.

Lemma step_other ck m o : is_update o = false ->
  cf_rates (m_cfg (fst (step ck m o))) = cf_rates (m_cfg m) /\
  names_of (m_cfg (fst (step ck m o))) = names_of (m_cfg m).
Proof.
  intro H. destruct o; try discriminate H; unfold step, set_date_rule, bind.
  all: try (split; reflexivity).
  all: try (match goal with |- context [tokenise_patterns ?a ?b ?c ?d ?e] =>
              destruct (tokenise_patterns a b c d e) eqn:?; split; reflexivity end).
  all: repeat match goal with
       | |- context [match ?x with _ => _ end] => destruct x eqn:?; try (split; reflexivity)
       end.
Qed.

Definition updates_of (ops : list op) : list (str * F) :=
  flat_map (fun o => match o with OUpdateCurrency n r => [(n, r)] | _ => [] end) ops.

(* accepted updates, by currency code *)
Definition resolved (cfg : config F) (ops : list op) : list (str * F) :=
  flat_map (fun o => match o with
                     | OUpdateCurrency n r => match read_currency cfg n with Some X => [(X, r)] | None => [] end
                     | _ => [] end) ops.

Lemma read_currency_names (c1 c2 : config F) :
  names_of c1 = names_of c2 -> forall n, read_currency c1 n = read_currency c2 n.
Proof. unfold names_of, read_currency. intros H n. inversion H as [[H1 H2]]. rewrite H1, H2. reflexivity. Qed.

Lemma step_names ck m o : names_of (m_cfg (fst (step ck m o))) = names_of (m_cfg m).
Proof.
  destruct (is_update o) eqn:E.
  - destruct o; try discriminate E. rewrite step_update. destruct (read_currency (m_cfg m) cur); reflexivity.
  - apply step_other. exact E.
Qed.

Theorem names_after ck ops : forall m, names_of (m_cfg (state_after ck m ops)) = names_of (m_cfg m).
Proof.
  induction ops as [|o r IH]; intro m; [reflexivity|].
  change (state_after ck m (o :: r)) with (state_after ck (fst (step ck m o)) r).
  rewrite IH. apply step_names.
Qed.

Theorem read_currency_after ck ops m n :
  read_currency (m_cfg (state_after ck m ops)) n = read_currency (m_cfg m) n.
Proof. apply read_currency_names. apply names_after. Qed.

(* the rate table after any history is the fold of the accepted updates *)
Theorem rates_after_fold ck ops : forall m,
  cf_rates (m_cfg (state_after ck m ops)) =
  fold_left (fun l u => assoc_insert (fst u) (snd u) l) (resolved (m_cfg m) ops) (cf_rates (m_cfg m)).
Proof.
  induction ops as [|o r IH]; intro m; [reflexivity|].
  change (state_after ck m (o :: r)) with (state_after ck (fst (step ck m o)) r).
  rewrite IH.
  assert (Hres : resolved (m_cfg (fst (step ck m o))) r = resolved (m_cfg m) r).
  { unfold resolved. apply flat_map_ext. intros [] ; try reflexivity.
    rewrite (read_currency_names _ _ (step_names ck m o)). reflexivity. }
  rewrite Hres.
  destruct (is_update o) eqn:E.
  - destruct o; try discriminate E. rewrite step_update.
    change (resolved (m_cfg m) (OUpdateCurrency cur rate :: r))
      with ((match read_currency (m_cfg m) cur with Some X => [(X, rate)] | None => [] end) ++ resolved (m_cfg m) r).
    rewrite fold_left_app.
    destruct (read_currency (m_cfg m) cur); reflexivity.
  - destruct (step_other ck m o E) as [Hr _]. rewrite Hr.
    assert (Hn : resolved (m_cfg m) (o :: r) = resolved (m_cfg m) r).
    { destruct o; try discriminate E; reflexivity. }
    rewrite Hn. reflexivity.
Qed.

(* generic facts about the reference tables *)
Section TableLemmas.
Context {R : Type}.
Implicit Types (t : table R) (us : list (str * R)).

Lemma table_after_ext res1 res2 us : (forall n, res1 n = res2 n) ->
  forall t1 t2, (forall Y, t1 Y = t2 Y) -> forall Y, table_after res1 t1 us Y = table_after res2 t2 us Y.
Proof.
  intro Hres. induction us as [|u r IH]; intros t1 t2 Ht Y; cbn [table_after]; [apply Ht|].
  apply IH. intro Z. unfold request. rewrite Hres. destruct (res2 (fst u)); cbn [fst]; [|apply Ht].
  unfold upd. rewrite Ht. reflexivity.
Qed.

Lemma last_write_acc resolve Y us : forall acc : option R,
  last_write resolve Y us acc = match last_write resolve Y us None with Some r => Some r | None => acc end.
Proof.
  induction us as [|u r IH]; intro acc; cbn [last_write]; [reflexivity|].
  destruct (resolve (fst u)) as [X|]; [|apply IH].
  destruct (str_eqb Y X); [|apply IH].
  rewrite (IH (Some (snd u))). destruct (last_write resolve Y r None); reflexivity.
Qed.

Theorem table_after_last_write resolve us : forall t Y,
  table_after resolve t us Y = match last_write resolve Y us None with Some r => Some r | None => t Y end.
Proof.
  induction us as [|u r IH]; intros t Y; cbn [table_after last_write]; [reflexivity|].
  rewrite IH. unfold request. destruct (resolve (fst u)) as [X|]; cbn [fst]; [|reflexivity].
  unfold upd. destruct (str_eqb Y X); [|reflexivity].
  rewrite (last_write_acc resolve Y r (Some (snd u))). destruct (last_write resolve Y r None); reflexivity.
Qed.

Lemma last_write_none resolve Y us :
  (forall n r X, In (n, r) us -> resolve n = Some X -> X <> Y) -> last_write resolve Y us None = None.
Proof.
  induction us as [|[n r] us IH]; intro H; cbn [last_write fst snd]; [reflexivity|].
  destruct (resolve n) as [X|] eqn:E.
  - rewrite str_eqb_neq; [apply IH|].
    + intros n' r' X' Hin. apply (H n' r' X'). right. exact Hin.
    + intro HY. apply (H n r X); [left; reflexivity|exact E|congruence].
  - apply IH. intros n' r' X' Hin. apply (H n' r' X'). right. exact Hin.
Qed.

Theorem table_after_untouched resolve t us Y :
  (forall n r X, In (n, r) us -> resolve n = Some X -> X <> Y) -> table_after resolve t us Y = t Y.
Proof. intro H. rewrite table_after_last_write, last_write_none by exact H. reflexivity. Qed.

Theorem table_after_last_wins resolve t us1 n r us2 X :
  resolve n = Some X ->
  (forall n' r' X', In (n', r') us2 -> resolve n' = Some X' -> X' <> X) ->
  table_after resolve t (us1 ++ (n, r) :: us2) X = Some r.
Proof.
  intros Hn H. revert t. induction us1 as [|u us1 IH]; intro t.
  - cbn [app table_after]. rewrite table_after_untouched by exact H.
    unfold request. cbn [fst snd]. rewrite Hn. cbn [fst]. unfold upd. rewrite str_eqb_refl. reflexivity.
  - cbn [app table_after]. apply IH.
Qed.
End TableLemmas.

Theorem rates_after ck ops : forall m Y,
  rate_of (m_cfg (state_after ck m ops)) Y =
  table_after (read_currency (m_cfg m)) (rate_of (m_cfg m)) (updates_of ops) Y.
Proof.
  induction ops as [|o r IH]; intros m Y; [reflexivity|].
  change (state_after ck m (o :: r)) with (state_after ck (fst (step ck m o)) r).
  rewrite IH.
  destruct (is_update o) eqn:E.
  - destruct o; try discriminate E.
    change (updates_of (OUpdateCurrency cur rate :: r)) with ((cur, rate) :: updates_of r).
    cbn [table_after]. apply table_after_ext.
    + intro n. apply read_currency_names. apply step_names.
    + intro Z. rewrite step_update. unfold request. cbn [fst snd].
      destruct (read_currency (m_cfg m) cur) as [X|]; cbn [fst]; [|reflexivity].
      unfold rate_of, upd. cbn [m_cfg with_cfg set_rates cf_rates]. apply assoc_insert_spec.
  - assert (Hn : updates_of (o :: r) = updates_of r) by (destruct o; try discriminate E; reflexivity).
    rewrite Hn. apply table_after_ext.
    + intro n. apply read_currency_names. apply step_names.
    + intro Z. unfold rate_of. destruct (step_other ck m o E) as [Hr _]. rewrite Hr. reflexivity.
Qed.

Theorem other_ops_keep_rates ck m o :
  (forall name r, o <> OUpdateCurrency name r) ->
  cf_rates (m_cfg (fst (step ck m o))) = cf_rates (m_cfg m) /\
  cf_currency (m_cfg (fst (step ck m o))) = cf_currency (m_cfg m) /\
  cf_currency_alias (m_cfg (fst (step ck m o))) = cf_currency_alias (m_cfg m).
Proof.
  intro H.
  assert (E : is_update o = false) by (destruct o; try reflexivity; exfalso; eapply H; reflexivity).
  destruct (step_other ck m o E) as [Hr Hn]. unfold names_of in Hn. inversion Hn as [[H1 H2]].
  repeat split; assumption.
Qed.

Theorem untouched ck m ops Y :
  (forall n r X, In (n, r) (updates_of ops) -> read_currency (m_cfg m) n = Some X -> X <> Y) ->
  rate_of (m_cfg (state_after ck m ops)) Y = rate_of (m_cfg m) Y.
Proof. intro H. rewrite rates_after. apply table_after_untouched. exact H. Qed.

Theorem last_write_wins ck m pre name r post X :
  read_currency (m_cfg m) name = Some X ->
  (forall n' r' X', In (n', r') (updates_of post) -> read_currency (m_cfg m) n' = Some X' -> X' <> X) ->
  rate_of (m_cfg (state_after ck m (pre ++ OUpdateCurrency name r :: post))) X = Some r.
Proof.
  intros Hn H. rewrite rates_after.
  assert (E : updates_of (pre ++ OUpdateCurrency name r :: post) = updates_of pre ++ (name, r) :: updates_of post).
  { unfold updates_of. rewrite flat_map_app. reflexivity. }
  rewrite E. apply table_after_last_wins; assumption.
Qed.

(* one update request *)
Theorem update_accepted ck m name r X :
  read_currency (m_cfg m) name = Some X ->
  let m' := fst (step ck m (OUpdateCurrency name r)) in
  snd (step ck m (OUpdateCurrency name r)) = MRet (Some true) /\
  rate_of (m_cfg m') X = Some r /\
  (forall Y, Y <> X -> rate_of (m_cfg m') Y = rate_of (m_cfg m) Y) /\
  m_cfg m' = set_rates (m_cfg m) (assoc_insert X r (cf_rates (m_cfg m))) /\
  m_sessions m' = m_sessions m.
Proof.
  intros H m'. subst m'. rewrite step_update, H. cbn [fst snd m_cfg with_cfg m_sessions].
  unfold rate_of. cbn [set_rates cf_rates].
  repeat split.
  - apply assoc_insert_same.
  - intros Y HY. apply assoc_insert_other. exact HY.
Qed.

Theorem update_refused ck m name r :
  read_currency (m_cfg m) name = None ->
  step ck m (OUpdateCurrency name r) = (m, MRet (Some false)).
Proof. intro H. rewrite step_update, H. reflexivity. Qed.

Theorem update_returns_false_iff ck m name r :
  snd (step ck m (OUpdateCurrency name r)) = MRet (Some false) <-> read_currency (m_cfg m) name = None.
Proof.
  rewrite step_update. destruct (read_currency (m_cfg m) name); cbn [snd]; split; intro H; try reflexivity; discriminate H.
Qed.

(* evaluation never changes the calculator's configuration *)
Theorem exec_keeps_state ck m lang text :
  fst (step ck m (OExec lang text)) = m /\
  fst (step ck m (OExecFresh lang text)) = m /\
  snd (step ck m (OExec lang text)) =
    match execute LX ck (m_cfg m) lang text with Ok r => MRes r | Panic st => MPanic st end.
Proof. repeat split; reflexivity. Qed.

Theorem exec_session_keeps_cfg ck m sid : m_cfg (fst (step ck m (OExecSession sid))) = m_cfg m.
Proof.
  unfold step. destruct (sess_get sid (m_sessions m)) as [se|]; [|reflexivity].
  destruct (execute_session LX ck (m_cfg m) se) as [[se' r]|]; reflexivity.
Qed.

(* where an operation sits in a history *)
Theorem update_in_history ck m pre name r post :
  run ck m (pre ++ OUpdateCurrency name r :: post) =
  run ck m pre ++
  MRet (Some (match read_currency (m_cfg m) name with Some _ => true | None => false end)) ::
  run ck (state_after ck m (pre ++ [OUpdateCurrency name r])) post.
Proof.
  rewrite run_app. f_equal. rewrite state_after_app.
  cbn [run state_after fold_left]. rewrite step_update.
  rewrite (read_currency_after ck pre m name).
  destruct (read_currency (m_cfg m) name); reflexivity.
Qed.

Theorem exec_in_history ck m pre lang text post :
  run ck m (pre ++ OExec lang text :: post) =
  run ck m pre ++
  (match execute LX ck (m_cfg (state_after ck m pre)) lang text with Ok r => MRes r | Panic st => MPanic st end) ::
  run ck (state_after ck m pre) post.
Proof. rewrite run_app. reflexivity. Qed.

(* histories of rate updates and evaluations: the whole configuration *)
Definition money_history (ops : list op) : bool :=
  forallb (fun o => match o with OUpdateCurrency _ _ | OExec _ _ | OExecFresh _ _ => true | _ => false end) ops.

Lemma set_rates_same (c : config F) : set_rates c (cf_rates c) = c.
Proof. destruct c; reflexivity. Qed.
Lemma set_rates_twice (c : config F) l1 l2 : set_rates (set_rates c l1) l2 = set_rates c l2.
Proof. reflexivity. Qed.

Theorem money_history_state ck ops : forall m, money_history ops = true ->
  state_after ck m ops =
  with_cfg m (set_rates (m_cfg m)
               (fold_left (fun l u => assoc_insert (fst u) (snd u) l) (resolved (m_cfg m) ops) (cf_rates (m_cfg m)))).
Proof.
  induction ops as [|o r IH]; intros m H.
  - cbn [state_after fold_left resolved flat_map]. rewrite set_rates_same. destruct m; reflexivity.
  - cbn [money_history forallb] in H. apply andb_true_iff in H as [Ho Hr].
    change (state_after ck m (o :: r)) with (state_after ck (fst (step ck m o)) r).
    rewrite (IH _ Hr).
    destruct o; try discriminate Ho.
    + reflexivity.
    + reflexivity.
    + rewrite step_update.
      change (resolved (m_cfg m) (OUpdateCurrency cur rate :: r))
        with ((match read_currency (m_cfg m) cur with Some X => [(X, rate)] | None => [] end) ++ resolved (m_cfg m) r).
      rewrite fold_left_app.
      destruct (read_currency (m_cfg m) cur) as [X|] eqn:E; cbn [fst]; [|reflexivity].
      assert (Hres : resolved (m_cfg (with_cfg m (set_rates (m_cfg m) (assoc_insert X rate (cf_rates (m_cfg m)))))) r
                     = resolved (m_cfg m) r).
      { unfold resolved. apply flat_map_ext. intros []; try reflexivity. }
      rewrite Hres. reflexivity.
Qed.

(* ------------------------------------------------------------------------------------- *)
(* 5. finite-table theorems over the regenerated tables                                   *)
(* ------------------------------------------------------------------------------------- *)
Lemma read_currency_lower {G} (c : config G) n1 n2 :
  to_lowercase n1 = to_lowercase n2 -> read_currency c n1 = read_currency c n2.
Proof. intro H. unfold read_currency. rewrite H. reflexivity. Qed.

Lemma assoc_keys {A} k (l : list (str * A)) : assoc k l <> None -> In k (map fst l).
Proof.
  induction l as [|[k' v] l IH]; cbn [assoc map fst]; intro H; [contradiction|].
  destruct (str_eqb k k') eqn:E.
  - left. symmetry. apply str_eqb_eq. exact E.
  - right. auto.
Qed.

Definition found_as {G} (c : config G) (name code : str) : bool :=
  match read_currency c name with Some X => str_eqb X code | None => false end.

Lemma found_as_eq {G} (c : config G) name code : found_as c name code = true -> read_currency c name = Some code.
Proof.
  unfold found_as. destruct (read_currency c name); [|discriminate]. intro H. apply str_eqb_eq in H. congruence.
Qed.

(* the codes of the currency table *)
Definition table_codes {G} (c : config G) : list str := map (fun kv => c_code (snd kv)) (cf_currency c).

Definition code_check {G} (c : config G) (code : str) : bool :=
  found_as c (to_lowercase code) code && found_as c (to_uppercase code) code && found_as c code code
  && str_eqb (to_lowercase (to_lowercase code)) (to_lowercase code)
  && str_eqb (to_lowercase (to_uppercase code)) (to_lowercase code).

Lemma codes_checked : forallb (code_check default_config) (table_codes default_config) = true.
Proof. vm_compute. reflexivity. Qed.

Lemma rated_are_codes :
  forallb (fun k => mem_str k (table_codes default_config)) (map fst (cf_rates default_config)) = true.
Proof. vm_compute. reflexivity. Qed.

Lemma mem_str_In x l : mem_str x l = true -> In x l.
Proof.
  induction l as [|y l IH]; cbn [mem_str]; intro H; [discriminate|].
  apply orb_true_iff in H as [H|H]; [left; symmetry; apply str_eqb_eq; exact H|right; auto].
Qed.

(* every currency of the table is found under its code, in any letter case *)
Theorem code_found_any_case : forall code name,
  In code (table_codes default_config) ->
  to_lowercase name = to_lowercase code ->
  read_currency default_config name = Some code.
Proof.
  intros code name Hin Hlow.
  pose proof (proj1 (forallb_forall _ _) codes_checked code Hin) as H.
  unfold code_check in H. repeat (apply andb_true_iff in H as [H ?]).
  rewrite (read_currency_lower default_config name code Hlow).
  apply found_as_eq. assumption.
Qed.

Theorem code_found_lower_upper : forall code,
  In code (table_codes default_config) ->
  read_currency default_config (to_lowercase code) = Some code /\
  read_currency default_config (to_uppercase code) = Some code /\
  read_currency default_config code = Some code.
Proof.
  intros code Hin.
  pose proof (proj1 (forallb_forall _ _) codes_checked code Hin) as H.
  unfold code_check in H. repeat (apply andb_true_iff in H as [H ?]).
  repeat split; apply found_as_eq; assumption.
Qed.

Theorem rated_is_code : forall A, rate_of default_config A <> None -> In A (table_codes default_config).
Proof.
  intros A H. apply assoc_keys in H. apply mem_str_In.
  exact (proj1 (forallb_forall _ _) rated_are_codes A H).
Qed.

Theorem rated_found_any_case : forall A name,
  rate_of default_config A <> None ->
  to_lowercase name = to_lowercase A ->
  read_currency default_config name = Some A.
Proof. intros A name H. apply code_found_any_case. apply rated_is_code. exact H. Qed.

(* every alias resolves to a currency of the table that has a rate *)
Definition alias_check {G} (c : config G) (kv : str * str) : bool :=
  match assoc (snd kv) (cf_currency c) with
  | Some cur => found_as c (fst kv) (c_code cur) && found_as c (to_uppercase (fst kv)) (c_code cur)
                && assoc_mem (c_code cur) (cf_rates c)
  | None => false
  end.

Lemma aliases_checked : forallb (alias_check default_config) (cf_currency_alias default_config) = true.
Proof. vm_compute. reflexivity. Qed.

Theorem alias_resolves : forall al key,
  In (al, key) (cf_currency_alias default_config) ->
  exists cur, assoc key (cf_currency default_config) = Some cur /\
              read_currency default_config al = Some (c_code cur) /\
              read_currency default_config (to_uppercase al) = Some (c_code cur) /\
              rate_of default_config (c_code cur) <> None.
Proof.
  intros al key Hin.
  pose proof (proj1 (forallb_forall _ _) aliases_checked (al, key) Hin) as H.
  unfold alias_check in H. cbn [fst snd] in H.
  destruct (assoc key (cf_currency default_config)) as [cur|]; [|discriminate].
  repeat (apply andb_true_iff in H as [H ?]).
  exists cur. repeat split; try (apply found_as_eq; assumption).
  unfold rate_of. unfold assoc_mem in *. destruct (assoc (c_code cur) (cf_rates default_config)); [discriminate|discriminate].
Qed.

(* rates: finite and positive at binary64, non-zero as exact decimals *)
Definition rate_check (kv : str * F) : bool :=
  match fcls (snd kv) with FFinite => fltb f0 (snd kv) | _ => false end.

Lemma rates_checked : forallb rate_check (cf_rates default_config) = true.
Proof. vm_compute. reflexivity. Qed.

Theorem rates_finite_positive : forall A r,
  rate_of default_config A = Some r -> fcls r = FFinite /\ fltb f0 r = true.
Proof.
  intros A r H. apply assoc_In in H.
  pose proof (proj1 (forallb_forall _ _) rates_checked (A, r) H) as H'.
  unfold rate_check in H'. cbn [snd] in H'. destruct (fcls r); try discriminate. split; [reflexivity|exact H'].
Qed.

Theorem default_tables :
  cf_currency default_config = d_currency /\ cf_currency_alias default_config = d_currency_alias /\
  cf_rates default_config = d_rates.
Proof. vm_compute. repeat split; reflexivity. Qed.

(* the same tables over exact rationals (rates as the decimals written in config.json) *)
Definition qconfig : config Qc := base_config.

Lemma q_rates_checked : forallb (fun kv : str * Qc => negb (Qc_eq_bool (snd kv) (Q2Qc 0))) (cf_rates qconfig) = true.
Proof. vm_compute. reflexivity. Qed.

Theorem q_rates_nonzero : forall A r, rate_of qconfig A = Some r -> r <> Q2Qc 0.
Proof.
  intros A r H. apply assoc_In in H.
  pose proof (proj1 (forallb_forall _ _) q_rates_checked (A, r) H) as H'. cbn [snd] in H'.
  intro E. subst r. unfold Qc_eq_bool in H'. destruct (Qc_eq_dec (Q2Qc 0) (Q2Qc 0)); [discriminate|congruence].
Qed.

(* the fields the rule `{MONEY:money} {GROUP:conversion:conversion_group} {TEXT:currency}` binds *)
Definition money_fields {G} {NG : Num G} (a : G) (A : str) (name : str) : fields G :=
  [(s "currency", ti_of (TText name)); (s "money", ti_of (TMoney a A))].

(* all ordered pairs of rated currencies, all amounts, the target written in any letter case *)
Theorem all_pairs_f64 : forall (vs : vars F) (a : F) A B rA rB name,
  rate_of default_config A = Some rA -> rate_of default_config B = Some rB ->
  to_lowercase name = to_lowercase B ->
  convert_money default_config vs (money_fields a A name)
  = Ok (Some (TMoney (fmul (do_division a rA) rB) B)).
Proof.
  intros vs a A B rA rB name HA HB Hn.
  apply (convert_money_ops default_config vs _ a A B rA rB); try assumption; try reflexivity.
  change (read_currency default_config name = Some B).
  apply rated_found_any_case; [congruence|exact Hn].
Qed.

Lemma q_codes_checked : forallb (code_check qconfig) (map fst (cf_rates qconfig)) = true.
Proof. vm_compute. reflexivity. Qed.

Theorem all_pairs_Q : forall (vs : vars Qc) (a : Qc) A B rA rB name,
  rate_of qconfig A = Some rA -> rate_of qconfig B = Some rB ->
  to_lowercase name = to_lowercase B ->
  convert_money qconfig vs (money_fields a A name) = Ok (Some (TMoney (conv rA rB a) B)).
Proof.
  intros vs a A B rA rB name HA HB Hn.
  apply (convert_money_Q qconfig vs _ a A B rA rB); try assumption; try reflexivity.
  - change (read_currency qconfig name = Some B).
    rewrite (read_currency_lower qconfig name B Hn).
    assert (Hin : In B (map fst (cf_rates qconfig))) by (apply assoc_keys; unfold rate_of in HB; congruence).
    pose proof (proj1 (forallb_forall _ _) q_codes_checked B Hin) as H.
    unfold code_check in H. repeat (apply andb_true_iff in H as [H ?]).
    apply found_as_eq. assumption.
  - apply (q_rates_nonzero A). exact HA.
Qed.

(* reachable states: whatever updates were made, a currency that has a rate is a currency of
   the table and is found under its code in any letter case *)
Lemma read_currency_is_code {G} (c : config G) n X :
  read_currency c n = Some X -> In X (table_codes c).
Proof.
  unfold read_currency, table_codes.
  destruct (match assoc (to_lowercase n) (cf_currency_alias c) with
            | Some key => Some key
            | None => if assoc_mem (to_lowercase n) (cf_currency c) then Some (to_lowercase n) else None end) as [key|];
    [|discriminate].
  destruct (assoc key (cf_currency c)) as [cur|] eqn:E; [|discriminate].
  cbn [option_map]. intro H. inversion H; subst. apply assoc_In in E.
  apply (in_map (fun kv => c_code (snd kv)) _ _ E).
Qed.

Definition rated_are_table_codes (c : config F) : Prop :=
  forall A, rate_of c A <> None -> In A (table_codes c).

Lemma table_codes_names (c1 c2 : config F) : names_of c1 = names_of c2 -> table_codes c1 = table_codes c2.
Proof. unfold names_of, table_codes. intro H. inversion H as [[H1 H2]]. rewrite H1. reflexivity. Qed.

Lemma step_rated_codes ck m o :
  rated_are_table_codes (m_cfg m) -> rated_are_table_codes (m_cfg (fst (step ck m o))).
Proof.
  intros Inv A. rewrite (table_codes_names _ _ (step_names ck m o)).
  destruct (is_update o) eqn:E.
  - destruct o; try discriminate E. rewrite step_update.
    destruct (read_currency (m_cfg m) cur) as [X|] eqn:HX; cbn [fst]; [|apply Inv].
    unfold rate_of. cbn [m_cfg with_cfg set_rates cf_rates]. rewrite assoc_insert_spec.
    destruct (str_eqb A X) eqn:EA.
    + intros _. apply str_eqb_eq in EA. subst A. apply (read_currency_is_code _ _ _ HX).
    + apply Inv.
  - unfold rate_of. destruct (step_other ck m o E) as [Hr _]. rewrite Hr. apply Inv.
Qed.

Lemma state_after_rated_codes ck ops : forall m,
  rated_are_table_codes (m_cfg m) -> rated_are_table_codes (m_cfg (state_after ck m ops)).
Proof.
  induction ops as [|o r IH]; intros m Inv; [exact Inv|].
  change (state_after ck m (o :: r)) with (state_after ck (fst (step ck m o)) r).
  apply IH. apply step_rated_codes. exact Inv.
Qed.

Theorem reachable_rated_found ck ops : forall A name,
  rate_of (m_cfg (state_after ck init_state ops)) A <> None ->
  to_lowercase name = to_lowercase A ->
  read_currency (m_cfg (state_after ck init_state ops)) name = Some A.
Proof.
  intros A name H Hn. rewrite read_currency_after. cbn [m_cfg init_state].
  apply code_found_any_case; [|exact Hn].
  pose proof (state_after_rated_codes ck ops init_state rated_is_code A H) as Hin.
  rewrite (table_codes_names _ _ (names_after ck ops init_state)) in Hin. exact Hin.
Qed.

(* ... and so the conversion rule applies between any two currencies that have a rate after
   any history, with the rates current at that point *)
Theorem reachable_all_pairs ck ops : forall (vs : vars F) (a : F) A B rA rB name,
  let cfg := m_cfg (state_after ck init_state ops) in
  rate_of cfg A = Some rA -> rate_of cfg B = Some rB ->
  to_lowercase name = to_lowercase B ->
  convert_money cfg vs (money_fields a A name) = Ok (Some (TMoney (fmul (do_division a rA) rB) B)).
Proof.
  intros vs a A B rA rB name cfg HA HB Hn.
  apply (convert_money_ops cfg vs _ a A B rA rB); try assumption; try reflexivity.
  change (read_currency cfg name = Some B).
  apply reachable_rated_found; [fold cfg; congruence|exact Hn].
Qed.

(* ------------------------------------------------------------------------------------- *)
(* 6. literals: Lexer.money_body, and every spelling over the currency table, end to end  *)
(* ------------------------------------------------------------------------------------- *)
Section Lit.
Context {G : Type} {NG : Num G}.

Theorem money_body_token : forall (cfg : config G) line c cp st psp price0 csp code b e0,
  cap_name c cp "PRICE" = Some psp ->
  read_decimal cfg (slice line psp) = Some price0 ->
  cap_name c cp "CURRENCY" = Some csp ->
  read_currency cfg (slice line csp) = Some code ->
  cap_get cp 0 = Some (b, e0) ->
  let notation := cap_name c cp "NOTATION" in
  let price := match notation with
               | Some nsp => fmul price0 (notation_mult NOTATION_MONEY (slice line nsp))
               | None => price0 end in
  let e := match notation with Some nsp => snd nsp | None => snd csp end in
  exists st', money_body cfg line c cp st = Ok st' /\
    (collides (ts_infos st) b e = false ->
       ts_infos st' = ts_infos st ++ [{| ti_start := b; ti_end := e; ti_ty := Some (TMoney price code);
                                         ti_text := slice line psp; ti_active := true |}]) /\
    (collides (ts_infos st) b e = true -> st' = st).
Proof.
  intros cfg line c cp st psp price0 csp code b e0 Hp Hd Hc Hr H0 notation price e.
  unfold money_body. rewrite Hp. cbn [need bind]. rewrite Hd, Hc, Hr, H0.
  fold notation. fold price. fold e. unfold add_token.
  destruct (collides (ts_infos st) b e) eqn:E.
  - exists st. split; [reflexivity|]. split; [discriminate|reflexivity].
  - eexists. split; [reflexivity|]. split; [|discriminate]. intros _. reflexivity.
Qed.

Theorem money_body_declines : forall (cfg : config G) line c cp st psp,
  cap_name c cp "PRICE" = Some psp ->
  (read_decimal cfg (slice line psp) = None \/
   cap_name c cp "CURRENCY" = None \/
   (exists csp, cap_name c cp "CURRENCY" = Some csp /\ read_currency cfg (slice line csp) = None)) ->
  money_body cfg line c cp st = Ok st.
Proof.
  intros cfg line c cp st psp Hp H. unfold money_body. rewrite Hp. cbn [need bind].
  destruct (read_decimal cfg (slice line psp)); [|reflexivity].
  destruct H as [H|[H|[csp [H1 H2]]]]; [discriminate| rewrite H; reflexivity| rewrite H1, H2; reflexivity].
Qed.

Theorem money_suffixes :
  notation_mult NOTATION_MONEY (s "k") = fofZ 1000 /\
  notation_mult NOTATION_MONEY (s "K") = fofZ 1000 /\
  notation_mult NOTATION_MONEY (s "M") = fofZ 1000000 /\
  notation_mult NOTATION_MONEY [] = f1.
Proof. repeat split; reflexivity. Qed.
End Lit.

Definition obs_value (ob : mobs) : option (token F) :=
  match ob with
  | MRes r => match er_lines r with
              | [Some lo] => match lo_result lo with LOk _ (AItem i) => Some (item_token i) | _ => None end
              | _ => None end
  | _ => None
  end.
Definition ev_in (cfg : config F) (text : str) : option (token F) :=
  match exec64 CK0 cfg (s "en") text with Ok r => obs_value (MRes r) | Panic _ => None end.
Definition ev := ev_in default_config.

(* spellings of a literal: amount then code (0-2 blanks, lower or upper case, sign, decimals,
   thousands separator) *)
Definition plain_spellings : list ((str -> str) * F) :=
  [ (fun c => s "25 " ++ to_lowercase c, 25%float);
    (fun c => s "25" ++ to_lowercase c, 25%float);
    (fun c => s "25  " ++ c, 25%float);
    (fun c => s "25" ++ c, 25%float);
    (fun c => s "-25 " ++ to_lowercase c, (-25)%float);
    (fun c => s "12,5 " ++ to_lowercase c, 12.5%float);
    (fun c => s "1.250,75 " ++ c, 1250.75%float) ].
(* with a suffix: the money token ends at the suffix and the code that follows it triggers the
   conversion rule into the same currency, so a rated currency goes through (x / r) * r *)
Definition suffix_spellings : list ((str -> str) * F) :=
  [ (fun c => s "25k " ++ to_lowercase c, 25000%float);
    (fun c => s "25K  " ++ c, 25000%float);
    (fun c => s "25M " ++ to_lowercase c, 25000000%float) ].
Definition through_rate (cfg : config F) (code : str) (x : F) : F :=
  match rate_of cfg code with Some r => fmul (do_division x r) r | None => x end.

Definition spelled (text : str) (x : F) (code : str) : bool :=
  opt_token_exact (ev text) (Some (TMoney x code)).
Definition plain_ok (code : str) : bool :=
  forallb (fun sp => spelled (fst sp code) (snd sp) code) plain_spellings.
Definition suffix_ok (code : str) : bool :=
  assoc_mem code (cf_timezones default_config) ||
  forallb (fun sp => spelled (fst sp code) (through_rate default_config code (snd sp)) code) suffix_spellings.

Lemma plain_checked : forallb plain_ok (table_codes default_config) = true.
Proof. vm_cast_no_check (eq_refl true). Qed.
Lemma suffix_checked : forallb suffix_ok (table_codes default_config) = true.
Proof. vm_cast_no_check (eq_refl true). Qed.

Theorem literal_spellings : forall code mk x,
  In code (table_codes default_config) -> In (mk, x) plain_spellings ->
  opt_token_exact (ev (mk code)) (Some (TMoney x code)) = true.
Proof.
  intros code mk x Hc Hs.
  pose proof (proj1 (forallb_forall _ _) plain_checked code Hc) as H.
  exact (proj1 (forallb_forall _ _) H (mk, x) Hs).
Qed.

Theorem literal_suffix_spellings : forall code mk x,
  In code (table_codes default_config) -> assoc_mem code (cf_timezones default_config) = false ->
  In (mk, x) suffix_spellings ->
  opt_token_exact (ev (mk code)) (Some (TMoney (through_rate default_config code x) code)) = true.
Proof.
  intros code mk x Hc Htz Hs.
  pose proof (proj1 (forallb_forall _ _) suffix_checked code Hc) as H.
  unfold suffix_ok in H. rewrite Htz in H. cbn [orb] in H.
  exact (proj1 (forallb_forall _ _) H (mk, x) Hs).
Qed.

(* aliases and symbols: every alias made of ASCII letters after the amount, every one-character
   alias (a currency symbol) before and after the amount *)
Definition is_word (a : str) : bool :=
  (2 <=? length a)%nat && forallb (fun c => ((65 <=? c) && (c <=? 90) || (97 <=? c) && (c <=? 122))%N) a.
Definition alias_literal_ok (kv : str * str) : bool :=
  match read_currency default_config (fst kv) with
  | None => false
  | Some code =>
    let al := fst kv in
    if is_word al then
      spelled (s "25 " ++ al) 25%float code && spelled (s "25" ++ to_uppercase al) 25%float code
      && spelled (s "3k " ++ al) (through_rate default_config code 3000%float) code
    else if (length al =? 1)%nat then
      spelled (al ++ s "25") 25%float code && spelled (s "25" ++ al) 25%float code
      && spelled (s "25 " ++ al) 25%float code && spelled (al ++ s "3k") 3000%float code
      && spelled (s "3M " ++ al) 3000000%float code && spelled (al ++ s "1.250,5") 1250.5%float code
    else true
  end.
Lemma alias_literals_checked : forallb alias_literal_ok (cf_currency_alias default_config) = true.
Proof. vm_cast_no_check (eq_refl true). Qed.

Theorem alias_literals : forall kv, In kv (cf_currency_alias default_config) -> alias_literal_ok kv = true.
Proof. intros kv H. exact (proj1 (forallb_forall _ _) alias_literals_checked kv H). Qed.

(* end to end, all ordered pairs of rated currencies x every conversion word of English *)
Definition conversion_words : list str :=
  match assoc (s "en") (cf_word_group default_config) with
  | Some gs => match assoc (s "conversion_group") gs with Some ws => ws | None => [] end
  | None => []
  end.
Definition rated_codes : list str := map fst (cf_rates default_config).
Definition pair_ok (w A B : str) : bool :=
  match rate_of default_config A, rate_of default_config B with
  | Some rA, Some rB =>
    opt_token_exact (ev (s "100 " ++ to_lowercase A ++ s " " ++ w ++ s " " ++ to_lowercase B))
                    (Some (TMoney (fmul (do_division 100%float rA) rB) B))
  | _, _ => false
  end.
Lemma pairs_checked :
  forallb (fun w => forallb (fun A => forallb (fun B => pair_ok w A B) rated_codes) rated_codes) conversion_words = true.
Proof. vm_cast_no_check (eq_refl true). Qed.

Theorem all_pairs_executed : forall w A B,
  In w conversion_words -> In A rated_codes -> In B rated_codes -> pair_ok w A B = true.
Proof.
  intros w A B Hw HA HB.
  pose proof (proj1 (forallb_forall _ _) pairs_checked w Hw) as H1.
  pose proof (proj1 (forallb_forall _ _) H1 A HA) as H2.
  exact (proj1 (forallb_forall _ _) H2 B HB).
Qed.

Theorem pairs_nonvacuous : (1 <=? length conversion_words)%nat && (2 <=? length rated_codes)%nat = true.
Proof. vm_cast_no_check (eq_refl true). Qed.

(* ------------------------------------------------------------------------------------- *)
(* 7. examples (non-vacuity) and the limits of the literal clause                         *)
(* ------------------------------------------------------------------------------------- *)
Definition brief (ob : mobs) : option (token F) + option bool :=
  match ob with MRet b => inr b | _ => inl (obs_value ob) end.

Definition example_history : list op :=
  [ OUpdateCurrency (s "try") 8%float; OUpdateCurrency (s "USD") 2%float; OUpdateCurrency (s "bitcoin") 5%float;
    OExec (s "en") (s "10 usd to try");
    OExec (s "en") (s "$10 + 16 tl");
    OExec (s "en") (s "10 usd - 16 tl");
    OExec (s "en") (s "10 usd * 3");
    OExec (s "en") (s "12 eur / 4");
    OExec (s "en") ([8378%N] ++ s "80 / 5 dollar");
    OExec (s "en") (s "7 eur to EUR");
    OUpdateCurrency [8364%N] 4%float;
    OExec (s "en") (s "1 euro in try");
    OExecFresh (s "en") (s "10 usd to usd") ].

Theorem examples :
  map brief (run CK0 init_state example_history) =
  [ inr (Some true); inr (Some true); inr (Some false);
    inl (Some (TMoney 40%float (s "TRY")));
    inl (Some (TMoney 14%float (s "USD")));
    inl (Some (TMoney 6%float (s "USD")));
    inl (Some (TMoney 30%float (s "USD")));
    inl (Some (TMoney 3%float (s "EUR")));
    inl (Some (TNumber 4%float Decimal));
    inl (Some (TMoney 7%float (s "EUR")));
    inr (Some true);
    inl (Some (TMoney 2%float (s "TRY")));
    inl (Some (TMoney 10%float (s "USD"))) ].
Proof. vm_compute. reflexivity. Qed.

(* where the crate (and so the model) does not follow the literal clause of the statement; the
   generator keeps these inputs under the correspondence check *)
Theorem literal_limits :
  (* amount + suffix + blank + symbol: whatever follows is dropped *)
  ev (s "1k $ * 2") = Some (TMoney 1000%float (s "USD")) /\
  ev (s "1M " ++ [8364%N] ++ s " + 5cny") = Some (TMoney 1000000%float (s "EUR")) /\
  (* a currency symbol that is not a configured alias; the alias in Cyrillic letters *)
  ev ([163%N] ++ s "10") = Some (TNumber 0%float Decimal) /\
  ev (s "10 " ++ [1083%N; 1074%N]) = Some (TNumber 10%float Decimal) /\
  read_currency default_config [1083%N; 1074%N] = Some (s "BGN") /\
  (* a currency code that is also a time-zone abbreviation, after a suffixed amount *)
  ev (s "25k tmt") = None /\ ev (s "25 tmt") = Some (TMoney 25%float (s "TMT")).
Proof. vm_compute. repeat split; reflexivity. Qed.
