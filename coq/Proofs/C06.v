(* Proofs for property C06. *)
From SC.Model Require Import Base.
