(* Proofs for property C08. *)
From SC.Model Require Import Base.
