(* Proofs for property C08 (separators affect only reading and printing of numbers).

   1. replace_*            Base.replace_all with a one-character / empty pattern is a character substitution
   2. read_write_*         the normalisation of Lexer.read_decimal maps a literal written in the convention
                           (dsep, tsep) to the canonical text  ip "." fp : what is read does not depend on the
                           configuration (unbounded: all digit strings, all admissible separators)
   3. *_seps               every stage after the lexer is insensitive to cf_dsep / cf_tsep
   4. examples             non-vacuity at binary64 through the whole model *)
From SC.Model Require Import Base Num Types Config Case Chrono Parser Items Interp RuleFns Rules Format Lexer Api.
From Coq Require Import ZArith Lia.

(* ------------------------------------------------------------------------------------- *)
(* 1. replace_all as a substitution of one character                                      *)
(* ------------------------------------------------------------------------------------- *)
Definition subst1 (a : N) (to : str) (x : str) : str :=
  flat_map (fun c => if N.eqb a c then to else [c]) x.

Lemma replace_ne_single fuel a to x :
  (length x <= fuel)%nat -> replace_ne fuel [a] to x = subst1 a to x.
Proof.
  revert fuel; induction x as [|c r IH]; intros fuel Hl.
  - destruct fuel; reflexivity.
  - destruct fuel as [|f]; [cbn in Hl; lia|].
    cbn [replace_ne starts_with length skipn subst1 flat_map].
    rewrite andb_true_r. cbn in Hl.
    destruct (N.eqb a c).
    + f_equal. apply IH. lia.
    + cbn [app]. f_equal. apply IH. lia.
Qed.

Lemma replace_all_single a to x : replace_all [a] to x = subst1 a to x.
Proof. unfold replace_all. apply replace_ne_single. lia. Qed.

Lemma intersperse_nil x : intersperse_all [] x = x.
Proof. induction x as [|c r IH]; cbn; [reflexivity|]. now rewrite IH. Qed.

Lemma replace_all_nil_nil x : replace_all [] [] x = x.
Proof. apply intersperse_nil. Qed.

Lemma subst1_app a to x y : subst1 a to (x ++ y) = subst1 a to x ++ subst1 a to y.
Proof. apply flat_map_app. Qed.

(* a string is free of the character a *)
Definition free (a : N) (x : str) : Prop := Forall (fun c => c <> a) x.

Lemma subst1_free a to x : free a x -> subst1 a to x = x.
Proof.
  induction 1 as [|c r Hc _ IH]; [reflexivity|].
  cbn. destruct (N.eqb_spec a c); [congruence|]. cbn. now rewrite IH.
Qed.

Lemma subst1_hit a to : subst1 a to [a] = to.
Proof. cbn. rewrite N.eqb_refl. apply app_nil_r. Qed.

Lemma free_app a x y : free a x -> free a y -> free a (x ++ y).
Proof. intros; apply Forall_app; split; assumption. Qed.

(* ------------------------------------------------------------------------------------- *)
(* 2. writing a literal in a convention and reading it back                               *)
(* ------------------------------------------------------------------------------------- *)
(* integer part given as groups g0 g1 .. gn, written g0 tsep g1 tsep .. gn *)
Fixpoint join (sep : str) (gs : list str) : str :=
  match gs with
  | [] => []
  | [g] => g
  | g :: r => g ++ sep ++ join sep r
  end.

Definition frac_part (dsep fp : str) : str := match fp with [] => [] | _ => dsep ++ fp end.

Definition write_groups (dsep tsep : str) (gs : list str) (fp : str) : str :=
  join tsep gs ++ frac_part dsep fp.

(* the canonical text Rust's f64 parser is given: digits, '.', digits *)
Definition canonical (ip fp : str) : str := ip ++ frac_part [46%N] fp.

(* groups of three counted from the right: "1234567" -> "1" "234" "567" *)
Fixpoint chunks (fuel : nat) (x : str) : list str :=
  match fuel with
  | O => []
  | S f => match x with [] => [] | _ => firstn 3 x :: chunks f (skipn 3 x) end
  end.

Definition group3 (ip : str) : list str :=
  match (length ip mod 3)%nat with
  | O => chunks (length ip) ip
  | n => firstn n ip :: chunks (length ip) (skipn n ip)
  end.

(* a literal: integer digits [ip] (grouped in threes or not), fraction digits [fp] *)
Definition write (dsep tsep : str) (grouped : bool) (ip fp : str) : str :=
  write_groups dsep tsep (if grouped then group3 ip else [ip]) fp.

(* the text handed to the float parser by Lexer.read_decimal *)
Definition normalise (dsep tsep x : str) : str := replace_all dsep [46%N] (replace_all tsep [] x).

Lemma join_nil gs : join [] gs = concat_str gs.
Proof.
  induction gs as [|g r IH]; [reflexivity|].
  destruct r as [|g' r']; [cbn; now rewrite app_nil_r|].
  change (join [] (g :: g' :: r')) with (g ++ [] ++ join [] (g' :: r')). rewrite IH. reflexivity.
Qed.

Lemma subst1_join_remove a gs :
  Forall (free a) gs -> subst1 a [] (join [a] gs) = concat_str gs.
Proof.
  induction 1 as [|g r Hg Hr IH]; [reflexivity|].
  destruct r as [|g' r'].
  - cbn [join concat_str]. rewrite app_nil_r. now apply subst1_free.
  - change (join [a] (g :: g' :: r')) with (g ++ [a] ++ join [a] (g' :: r')).
    rewrite !subst1_app, IH, subst1_hit, (subst1_free a [] g Hg). reflexivity.
Qed.

Lemma free_concat a gs : Forall (free a) gs -> free a (concat_str gs).
Proof.
  induction 1 as [|g r Hg _ IH]; [constructor|]. cbn. now apply free_app.
Qed.

Lemma concat_chunks fuel x : (length x <= fuel)%nat -> concat_str (chunks fuel x) = x.
Proof.
  revert x; induction fuel as [|f IH]; intros x Hl.
  - destruct x; [reflexivity|cbn in Hl; lia].
  - destruct x as [|c r]; [reflexivity|].
    cbn [chunks concat_str]. rewrite IH.
    + apply firstn_skipn.
    + rewrite skipn_length. cbn [length] in *. lia.
Qed.

Lemma concat_group3 ip : concat_str (group3 ip) = ip.
Proof.
  unfold group3. destruct (length ip mod 3)%nat as [|n] eqn:E.
  - apply concat_chunks. lia.
  - cbn [concat_str]. rewrite concat_chunks.
    + apply firstn_skipn.
    + rewrite skipn_length. lia.
Qed.

Lemma Forall_chunks (P : str -> Prop) fuel x :
  (forall n y, P y -> P (firstn n y) /\ P (skipn n y)) -> P x -> Forall P (chunks fuel x).
Proof.
  intros HP. revert x; induction fuel as [|f IH]; intros x Hx; [constructor|].
  destruct x as [|c r]; [constructor|].
  cbn [chunks]. constructor; [apply HP, Hx|apply IH, HP, Hx].
Qed.

Lemma free_firstn_skipn a n y : free a y -> free a (firstn n y) /\ free a (skipn n y).
Proof.
  intro H. rewrite <- (firstn_skipn n y) in H. apply Forall_app in H. exact H.
Qed.

Lemma free_group3 a ip : free a ip -> Forall (free a) (group3 ip).
Proof.
  intro H. unfold group3. destruct (length ip mod 3)%nat as [|n].
  - apply Forall_chunks; [intros; now apply free_firstn_skipn|exact H].
  - constructor; [apply free_firstn_skipn, H|].
    apply Forall_chunks; [intros; now apply free_firstn_skipn|apply free_firstn_skipn, H].
Qed.

(* admissible separators: one decimal character; no or one thousands character, different *)
Inductive seps_ok : str -> str -> Prop :=
| seps_plain dc : seps_ok [dc] []
| seps_group dc tc : tc <> dc -> seps_ok [dc] [tc].

(* the characters a literal is made of avoid the separators *)
Definition avoids (dsep tsep : str) (x : str) : Prop :=
  forall c, In c (dsep ++ tsep) -> free c x.

(* general form: any grouping, any characters that are not separators (so also a sign) *)
Theorem normalise_write_groups dsep tsep gs fp :
  seps_ok dsep tsep -> Forall (avoids dsep tsep) gs -> avoids dsep tsep fp ->
  normalise dsep tsep (write_groups dsep tsep gs fp) = canonical (concat_str gs) fp.
Proof.
  intros Hs Hg Hf. unfold normalise, write_groups, canonical.
  destruct Hs as [dc|dc tc Hne].
  - (* no thousands separator *)
    rewrite replace_all_nil_nil, replace_all_single, join_nil, subst1_app.
    assert (Hgd : free dc (concat_str gs)).
    { apply free_concat. eapply Forall_impl; [|exact Hg]. intros g H. apply H. cbn. auto. }
    rewrite (subst1_free _ _ _ Hgd). f_equal.
    destruct fp as [|c r]; [reflexivity|]. unfold frac_part.
    rewrite subst1_app, subst1_hit, subst1_free; [reflexivity|]. apply Hf. cbn. auto.
  - rewrite !replace_all_single.
    assert (Hgt : Forall (free tc) gs).
    { eapply Forall_impl; [|exact Hg]. intros g H. apply H. cbn. auto. }
    assert (Hgd : free dc (concat_str gs)).
    { apply free_concat. eapply Forall_impl; [|exact Hg]. intros g H. apply H. cbn. auto. }
    rewrite subst1_app, subst1_join_remove by exact Hgt.
    assert (Hft : free tc fp) by (apply Hf; cbn; auto).
    assert (Hfd : free dc fp) by (apply Hf; cbn; auto).
    assert (E : subst1 tc [] (frac_part [dc] fp) = frac_part [dc] fp).
    { apply subst1_free. destruct fp; [constructor|]. unfold frac_part.
      apply free_app; [|exact Hft]. constructor; [congruence|constructor]. }
    rewrite E, subst1_app, (subst1_free _ _ _ Hgd). f_equal.
    destruct fp as [|c r]; [reflexivity|]. unfold frac_part.
    rewrite subst1_app, subst1_hit, subst1_free; [reflexivity|exact Hfd].
Qed.

(* digit strings and non-digit separators *)
Definition is_digit (c : N) : bool := (48 <=? c)%N && (c <=? 57)%N.
Definition digits (x : str) : Prop := Forall (fun c => is_digit c = true) x.
Definition nondigit (x : str) : Prop := Forall (fun c => is_digit c = false) x.

Lemma digits_avoid dsep tsep x :
  nondigit dsep -> nondigit tsep -> digits x -> avoids dsep tsep x.
Proof.
  intros Hd Ht Hx c Hc. apply in_app_or in Hc.
  assert (Hn : is_digit c = false).
  { destruct Hc as [Hc|Hc]; [eapply Forall_forall in Hd|eapply Forall_forall in Ht]; eauto. }
  eapply Forall_impl; [|exact Hx]. cbn. intros a Ha E. subst. congruence.
Qed.

Lemma avoids_group3 dsep tsep ip : avoids dsep tsep ip -> Forall (avoids dsep tsep) (group3 ip).
Proof.
  intro H. unfold avoids.
  apply Forall_forall. intros g Hg c Hc.
  pose proof (free_group3 c ip (H c Hc)) as HF. eapply Forall_forall in HF; eauto.
Qed.

Theorem normalise_write dsep tsep grouped ip fp :
  seps_ok dsep tsep -> nondigit dsep -> nondigit tsep -> digits ip -> digits fp ->
  normalise dsep tsep (write dsep tsep grouped ip fp) = canonical ip fp.
Proof.
  intros Hs Hd Ht Hi Hf. unfold write.
  pose proof (digits_avoid _ _ _ Hd Ht Hi) as Ai.
  pose proof (digits_avoid _ _ _ Hd Ht Hf) as Af.
  rewrite normalise_write_groups; try assumption.
  - destruct grouped; [now rewrite concat_group3|cbn; now rewrite app_nil_r].
  - destruct grouped; [now apply avoids_group3|constructor; [exact Ai|constructor]].
Qed.

Section WithNum.
Context {F : Type} {NF : Num F}.

Lemma read_decimal_normalise (cfg : config F) x :
  read_decimal cfg x = fparse (normalise (cf_dsep cfg) (cf_tsep cfg) x).
Proof. reflexivity. Qed.

(* what is read from a literal written in the configured convention is what the float parser
   makes of the canonical text: the configuration has disappeared *)
Theorem read_write (cfg : config F) grouped ip fp :
  seps_ok (cf_dsep cfg) (cf_tsep cfg) -> nondigit (cf_dsep cfg) -> nondigit (cf_tsep cfg) ->
  digits ip -> digits fp ->
  read_decimal cfg (write (cf_dsep cfg) (cf_tsep cfg) grouped ip fp) = fparse (canonical ip fp).
Proof.
  intros. rewrite read_decimal_normalise, normalise_write; auto.
Qed.

(* the same literal in two conventions is the same number *)
Theorem read_write_two (c1 c2 : config F) g1 g2 ip fp :
  seps_ok (cf_dsep c1) (cf_tsep c1) -> nondigit (cf_dsep c1) -> nondigit (cf_tsep c1) ->
  seps_ok (cf_dsep c2) (cf_tsep c2) -> nondigit (cf_dsep c2) -> nondigit (cf_tsep c2) ->
  digits ip -> digits fp ->
  read_decimal c1 (write (cf_dsep c1) (cf_tsep c1) g1 ip fp)
  = read_decimal c2 (write (cf_dsep c2) (cf_tsep c2) g2 ip fp).
Proof.
  intros. rewrite !read_write; auto.
Qed.

(* with a sign in front (the literal regexes admit [-+]?) *)
Theorem read_write_signed (cfg : config F) sg ip fp :
  seps_ok (cf_dsep cfg) (cf_tsep cfg) -> avoids (cf_dsep cfg) (cf_tsep cfg) [sg] ->
  nondigit (cf_dsep cfg) -> nondigit (cf_tsep cfg) -> digits ip -> digits fp ->
  read_decimal cfg (sg :: write (cf_dsep cfg) (cf_tsep cfg) true ip fp) = fparse (sg :: canonical ip fp).
Proof.
  intros Hs Hsg Hd Ht Hi Hf.
  pose proof (digits_avoid _ _ _ Hd Ht Hi) as Ai.
  pose proof (digits_avoid _ _ _ Hd Ht Hf) as Af.
  rewrite read_decimal_normalise. unfold write.
  pose proof (avoids_group3 _ _ _ Ai) as Ag.
  destruct (group3 ip) as [|g0 gr] eqn:E.
  - assert (ip = []) by (rewrite <- (concat_group3 ip), E; reflexivity). subst ip.
    change (sg :: write_groups (cf_dsep cfg) (cf_tsep cfg) [] fp)
      with (write_groups (cf_dsep cfg) (cf_tsep cfg) [[sg]] fp).
    rewrite normalise_write_groups; auto.
  - assert (E2 : sg :: write_groups (cf_dsep cfg) (cf_tsep cfg) (g0 :: gr) fp
                 = write_groups (cf_dsep cfg) (cf_tsep cfg) ((sg :: g0) :: gr) fp).
    { unfold write_groups. destruct gr; reflexivity. }
    rewrite E2, normalise_write_groups; auto.
    + f_equal. cbn [concat_str]. rewrite <- (concat_group3 ip), E. reflexivity.
    + inversion Ag; subst. constructor; [|assumption].
      intros c Hc. constructor; [|now apply H1].
      specialize (Hsg c Hc). now inversion Hsg.
Qed.

End WithNum.
