(* Proofs for property C08 (separators affect only reading and printing of numbers).

   1. replace_*            Base.replace_all with a one-character / empty pattern is a character substitution
   2. read_write_*         the normalisation of Lexer.read_decimal maps a literal written in the convention
                           (dsep, tsep) to the canonical text  ip "." fp : what is read does not depend on the
                           configuration (unbounded: all digit strings, all admissible separators)
   3. *_seps               every stage after the lexer is insensitive to cf_dsep / cf_tsep
   4. examples             non-vacuity at binary64 through the whole model *)
From SC.Model Require Import Base Num FloatIO Types Config Case Chrono UiTokens Rx Post Parser Items Interp RuleFns Rules Format
     Lexer Api.
From Coq Require Import ZArith Lia.

(* ------------------------------------------------------------------------------------- *)
(* 1. replace_all as a substitution of one character                                      *)
(* ------------------------------------------------------------------------------------- *)
Definition subst1 (a : N) (to : str) (x : str) : str :=
  flat_map (fun c => if N.eqb a c then to else [c]) x.

Lemma replace_ne_single fuel a to x :
  (length x <= fuel)%nat -> replace_ne fuel [a] to x = subst1 a to x.
Proof.
  revert fuel; induction x as [|c r IH]; intros fuel Hl.
  - destruct fuel; reflexivity.
  - destruct fuel as [|f]; [cbn in Hl; lia|].
    cbn [replace_ne starts_with length skipn subst1 flat_map].
    rewrite andb_true_r. cbn in Hl.
    destruct (N.eqb a c).
    + f_equal. apply IH. lia.
    + cbn [app]. f_equal. apply IH. lia.
Qed.

Lemma replace_all_single a to x : replace_all [a] to x = subst1 a to x.
Proof. unfold replace_all. apply replace_ne_single. lia. Qed.

Lemma intersperse_nil x : intersperse_all [] x = x.
Proof. induction x as [|c r IH]; cbn; [reflexivity|]. now rewrite IH. Qed.

Lemma replace_all_nil_nil x : replace_all [] [] x = x.
Proof. apply intersperse_nil. Qed.

Lemma subst1_app a to x y : subst1 a to (x ++ y) = subst1 a to x ++ subst1 a to y.
Proof. apply flat_map_app. Qed.

(* a string is free of the character a *)
Definition free (a : N) (x : str) : Prop := Forall (fun c => c <> a) x.

Lemma subst1_free a to x : free a x -> subst1 a to x = x.
Proof.
  induction 1 as [|c r Hc _ IH]; [reflexivity|].
  unfold subst1 in *. cbn [flat_map]. destruct (N.eqb_spec a c); [congruence|]. rewrite IH. reflexivity.
Qed.

Lemma subst1_hit a to : subst1 a to [a] = to.
Proof. unfold subst1. cbn [flat_map]. rewrite N.eqb_refl. apply app_nil_r. Qed.

Lemma free_app a x y : free a x -> free a y -> free a (x ++ y).
Proof. intros; apply Forall_app; split; assumption. Qed.

(* ------------------------------------------------------------------------------------- *)
(* 2. writing a literal in a convention and reading it back                               *)
(* ------------------------------------------------------------------------------------- *)
(* integer part given as groups g0 g1 .. gn, written g0 tsep g1 tsep .. gn *)
Fixpoint join (sep : str) (gs : list str) : str :=
  match gs with
  | [] => []
  | [g] => g
  | g :: r => g ++ sep ++ join sep r
  end.

Definition frac_part (dsep fp : str) : str := match fp with [] => [] | _ => dsep ++ fp end.

Definition write_groups (dsep tsep : str) (gs : list str) (fp : str) : str :=
  join tsep gs ++ frac_part dsep fp.

(* the canonical text Rust's f64 parser is given: digits, '.', digits *)
Definition canonical (ip fp : str) : str := ip ++ frac_part [46%N] fp.

(* groups of three counted from the right: "1234567" -> "1" "234" "567" *)
Fixpoint chunks (fuel : nat) (x : str) : list str :=
  match fuel with
  | O => []
  | S f => match x with [] => [] | _ => firstn 3 x :: chunks f (skipn 3 x) end
  end.

Definition group3 (ip : str) : list str :=
  match (length ip mod 3)%nat with
  | O => chunks (length ip) ip
  | n => firstn n ip :: chunks (length ip) (skipn n ip)
  end.

(* a literal: integer digits [ip] (grouped in threes or not), fraction digits [fp] *)
Definition write (dsep tsep : str) (grouped : bool) (ip fp : str) : str :=
  write_groups dsep tsep (if grouped then group3 ip else [ip]) fp.

(* the text handed to the float parser by Lexer.read_decimal *)
Definition normalise (dsep tsep x : str) : str := replace_all dsep [46%N] (replace_all tsep [] x).

Lemma join_nil gs : join [] gs = concat_str gs.
Proof.
  induction gs as [|g r IH]; [reflexivity|].
  destruct r as [|g' r']; [cbn; now rewrite app_nil_r|].
  change (join [] (g :: g' :: r')) with (g ++ [] ++ join [] (g' :: r')). rewrite IH. reflexivity.
Qed.

Lemma subst1_join_remove a gs :
  Forall (free a) gs -> subst1 a [] (join [a] gs) = concat_str gs.
Proof.
  induction 1 as [|g r Hg Hr IH]; [reflexivity|].
  destruct r as [|g' r'].
  - cbn [join concat_str]. rewrite app_nil_r. now apply subst1_free.
  - change (join [a] (g :: g' :: r')) with (g ++ [a] ++ join [a] (g' :: r')).
    rewrite !subst1_app, IH, subst1_hit, (subst1_free a [] g Hg). reflexivity.
Qed.

Lemma free_concat a gs : Forall (free a) gs -> free a (concat_str gs).
Proof.
  induction 1 as [|g r Hg _ IH]; [constructor|]. cbn. now apply free_app.
Qed.

Lemma concat_chunks fuel x : (length x <= fuel)%nat -> concat_str (chunks fuel x) = x.
Proof.
  revert x; induction fuel as [|f IH]; intros x Hl.
  - destruct x; [reflexivity|cbn in Hl; lia].
  - destruct x as [|c r]; [reflexivity|].
    cbn [chunks concat_str]. rewrite IH.
    + apply firstn_skipn.
    + rewrite skipn_length. cbn [length] in *. lia.
Qed.

Lemma concat_group3 ip : concat_str (group3 ip) = ip.
Proof.
  unfold group3. destruct (length ip mod 3)%nat as [|n] eqn:E.
  - apply concat_chunks. lia.
  - cbn [concat_str]. rewrite concat_chunks.
    + apply firstn_skipn.
    + rewrite skipn_length. lia.
Qed.

Lemma Forall_chunks (P : str -> Prop) fuel x :
  (forall n y, P y -> P (firstn n y) /\ P (skipn n y)) -> P x -> Forall P (chunks fuel x).
Proof.
  intros HP. revert x; induction fuel as [|f IH]; intros x Hx; [constructor|].
  destruct x as [|c r]; [constructor|].
  cbn [chunks]. constructor; [apply HP, Hx|apply IH, HP, Hx].
Qed.

Lemma free_firstn_skipn a n y : free a y -> free a (firstn n y) /\ free a (skipn n y).
Proof.
  intro H. rewrite <- (firstn_skipn n y) in H. apply Forall_app in H. exact H.
Qed.

Lemma free_group3 a ip : free a ip -> Forall (free a) (group3 ip).
Proof.
  intro H. unfold group3. destruct (length ip mod 3)%nat as [|n].
  - apply Forall_chunks; [intros; now apply free_firstn_skipn|exact H].
  - constructor; [apply free_firstn_skipn, H|].
    apply Forall_chunks; [intros; now apply free_firstn_skipn|apply free_firstn_skipn, H].
Qed.

(* admissible separators: one decimal character; no or one thousands character, different *)
Inductive seps_ok : str -> str -> Prop :=
| seps_plain dc : seps_ok [dc] []
| seps_group dc tc : tc <> dc -> seps_ok [dc] [tc].

(* the characters a literal is made of avoid the separators *)
Definition avoids (dsep tsep : str) (x : str) : Prop :=
  forall c, In c (dsep ++ tsep) -> free c x.

(* general form: any grouping, any characters that are not separators (so also a sign) *)
Theorem normalise_write_groups dsep tsep gs fp :
  seps_ok dsep tsep -> Forall (avoids dsep tsep) gs -> avoids dsep tsep fp ->
  normalise dsep tsep (write_groups dsep tsep gs fp) = canonical (concat_str gs) fp.
Proof.
  intros Hs Hg Hf. unfold normalise, write_groups, canonical.
  destruct Hs as [dc|dc tc Hne].
  - (* no thousands separator *)
    rewrite replace_all_nil_nil, replace_all_single, join_nil, subst1_app.
    assert (Hgd : free dc (concat_str gs)).
    { apply free_concat. eapply Forall_impl; [|exact Hg]. intros g H. apply H. cbn. auto. }
    rewrite (subst1_free _ _ _ Hgd). f_equal.
    destruct fp as [|c r]; [reflexivity|]. unfold frac_part.
    rewrite subst1_app, subst1_hit, subst1_free; [reflexivity|]. apply Hf. cbn. auto.
  - rewrite !replace_all_single.
    assert (Hgt : Forall (free tc) gs).
    { eapply Forall_impl; [|exact Hg]. intros g H. apply H. cbn. auto. }
    assert (Hgd : free dc (concat_str gs)).
    { apply free_concat. eapply Forall_impl; [|exact Hg]. intros g H. apply H. cbn. auto. }
    rewrite subst1_app, subst1_join_remove by exact Hgt.
    assert (Hft : free tc fp) by (apply Hf; cbn; auto).
    assert (Hfd : free dc fp) by (apply Hf; cbn; auto).
    assert (E : subst1 tc [] (frac_part [dc] fp) = frac_part [dc] fp).
    { apply subst1_free. destruct fp; [constructor|]. unfold frac_part.
      apply free_app; [|exact Hft]. constructor; [congruence|constructor]. }
    rewrite E, subst1_app, (subst1_free _ _ _ Hgd). f_equal.
    destruct fp as [|c r]; [reflexivity|]. unfold frac_part.
    rewrite subst1_app, subst1_hit, subst1_free; [reflexivity|exact Hfd].
Qed.

(* digit strings and non-digit separators *)
Definition digits (x : str) : Prop := Forall (fun c => FloatIO.is_digit c = true) x.
Definition nondigit (x : str) : Prop := Forall (fun c => FloatIO.is_digit c = false) x.

Lemma digits_avoid dsep tsep x :
  nondigit dsep -> nondigit tsep -> digits x -> avoids dsep tsep x.
Proof.
  intros Hd Ht Hx c Hc. apply in_app_or in Hc.
  assert (Hn : FloatIO.is_digit c = false).
  { destruct Hc as [Hc|Hc]; [eapply Forall_forall in Hd|eapply Forall_forall in Ht]; eauto. }
  eapply Forall_impl; [|exact Hx]. cbn. intros a Ha E. subst. congruence.
Qed.

Lemma avoids_group3 dsep tsep ip : avoids dsep tsep ip -> Forall (avoids dsep tsep) (group3 ip).
Proof.
  intro H. unfold avoids.
  apply Forall_forall. intros g Hg c Hc.
  pose proof (free_group3 c ip (H c Hc)) as HF. eapply Forall_forall in HF; eauto.
Qed.

Theorem normalise_write dsep tsep grouped ip fp :
  seps_ok dsep tsep -> nondigit dsep -> nondigit tsep -> digits ip -> digits fp ->
  normalise dsep tsep (write dsep tsep grouped ip fp) = canonical ip fp.
Proof.
  intros Hs Hd Ht Hi Hf. unfold write.
  pose proof (digits_avoid _ _ _ Hd Ht Hi) as Ai.
  pose proof (digits_avoid _ _ _ Hd Ht Hf) as Af.
  rewrite normalise_write_groups; try assumption.
  - destruct grouped; [now rewrite concat_group3|cbn; now rewrite app_nil_r].
  - destruct grouped; [now apply avoids_group3|constructor; [exact Ai|constructor]].
Qed.

Section WithNum.
Context {F : Type} {NF : Num F}.

Lemma read_decimal_normalise (cfg : config F) x :
  read_decimal cfg x = fparse (normalise (cf_dsep cfg) (cf_tsep cfg) x).
Proof. reflexivity. Qed.

(* what is read from a literal written in the configured convention is what the float parser
   makes of the canonical text: the configuration has disappeared *)
Theorem read_write (cfg : config F) grouped ip fp :
  seps_ok (cf_dsep cfg) (cf_tsep cfg) -> nondigit (cf_dsep cfg) -> nondigit (cf_tsep cfg) ->
  digits ip -> digits fp ->
  read_decimal cfg (write (cf_dsep cfg) (cf_tsep cfg) grouped ip fp) = fparse (canonical ip fp).
Proof.
  intros. rewrite read_decimal_normalise, normalise_write; auto.
Qed.

(* the same literal in two conventions is the same number *)
Theorem read_write_two (c1 c2 : config F) g1 g2 ip fp :
  seps_ok (cf_dsep c1) (cf_tsep c1) -> nondigit (cf_dsep c1) -> nondigit (cf_tsep c1) ->
  seps_ok (cf_dsep c2) (cf_tsep c2) -> nondigit (cf_dsep c2) -> nondigit (cf_tsep c2) ->
  digits ip -> digits fp ->
  read_decimal c1 (write (cf_dsep c1) (cf_tsep c1) g1 ip fp)
  = read_decimal c2 (write (cf_dsep c2) (cf_tsep c2) g2 ip fp).
Proof.
  intros. rewrite !read_write; auto.
Qed.

(* with a sign in front (the literal regexes admit [-+]?) *)
Theorem read_write_signed (cfg : config F) sg ip fp :
  seps_ok (cf_dsep cfg) (cf_tsep cfg) -> avoids (cf_dsep cfg) (cf_tsep cfg) [sg] ->
  nondigit (cf_dsep cfg) -> nondigit (cf_tsep cfg) -> digits ip -> digits fp ->
  read_decimal cfg (sg :: write (cf_dsep cfg) (cf_tsep cfg) true ip fp) = fparse (sg :: canonical ip fp).
Proof.
  intros Hs Hsg Hd Ht Hi Hf.
  pose proof (digits_avoid _ _ _ Hd Ht Hi) as Ai.
  pose proof (digits_avoid _ _ _ Hd Ht Hf) as Af.
  rewrite read_decimal_normalise. unfold write.
  pose proof (avoids_group3 _ _ _ Ai) as Ag.
  destruct (group3 ip) as [|g0 gr] eqn:E.
  - assert (ip = []) by (rewrite <- (concat_group3 ip), E; reflexivity). subst ip.
    change (sg :: write_groups (cf_dsep cfg) (cf_tsep cfg) [] fp)
      with (write_groups (cf_dsep cfg) (cf_tsep cfg) [[sg]] fp).
    rewrite normalise_write_groups; auto.
  - assert (E2 : sg :: write_groups (cf_dsep cfg) (cf_tsep cfg) (g0 :: gr) fp
                 = write_groups (cf_dsep cfg) (cf_tsep cfg) ((sg :: g0) :: gr) fp).
    { unfold write_groups. destruct gr; reflexivity. }
    rewrite E2, normalise_write_groups; auto.
    + f_equal. cbn [concat_str]. rewrite <- (concat_group3 ip), E. reflexivity.
    + inversion Ag; subst. constructor; [|assumption].
      intros c Hc. constructor; [|now apply H1].
      specialize (Hsg c Hc). now inversion Hsg.
Qed.

End WithNum.

(* ------------------------------------------------------------------------------------- *)
(* 3. the stages after the lexer do not read the separators                               *)
(* ------------------------------------------------------------------------------------- *)
Section Seps.
Context {F : Type} {NF : Num F}.

(* two configurations that differ at most in the two separators *)
Definition same_but_seps (c c' : config F) : Prop :=
  exists d t, c' = set_fmt c (cf_money c) (cf_number c) (cf_percent c) d t (cf_tz c).

Lemma same_but_seps_refl c : same_but_seps c c.
Proof. exists (cf_dsep c), (cf_tsep c). destruct c; reflexivity. Qed.

Lemma same_but_seps_sym c c' : same_but_seps c c' -> same_but_seps c' c.
Proof. intros (d & t & ->). exists (cf_dsep c), (cf_tsep c). destruct c; reflexivity. Qed.

Lemma same_but_seps_trans c1 c2 c3 : same_but_seps c1 c2 -> same_but_seps c2 c3 -> same_but_seps c1 c3.
Proof. intros (d & t & ->) (d' & t' & ->). exists d', t'. reflexivity. Qed.

(* the API mutators of the separators produce such configurations *)
Lemma same_but_seps_set c d t :
  same_but_seps c (set_fmt c (cf_money c) (cf_number c) (cf_percent c) d t (cf_tz c)).
Proof. exists d, t. reflexivity. Qed.

Section Pair.
Variables c c' : config F.
Hypothesis H : same_but_seps c c'.

Lemma sbs_currency : cf_currency c' = cf_currency c. Proof. destruct H as (d & t & ->). reflexivity. Qed.
Lemma sbs_currency_alias : cf_currency_alias c' = cf_currency_alias c. Proof. destruct H as (d & t & ->). reflexivity. Qed.
Lemma sbs_rates : cf_rates c' = cf_rates c. Proof. destruct H as (d & t & ->). reflexivity. Qed.
Lemma sbs_timezones : cf_timezones c' = cf_timezones c. Proof. destruct H as (d & t & ->). reflexivity. Qed.
Lemma sbs_word_group : cf_word_group c' = cf_word_group c. Proof. destruct H as (d & t & ->). reflexivity. Qed.
Lemma sbs_constant_pair : cf_constant_pair c' = cf_constant_pair c. Proof. destruct H as (d & t & ->). reflexivity. Qed.
Lemma sbs_rules : cf_rules c' = cf_rules c. Proof. destruct H as (d & t & ->). reflexivity. Qed.
Lemma sbs_types : cf_types c' = cf_types c. Proof. destruct H as (d & t & ->). reflexivity. Qed.
Lemma sbs_type_conv : cf_type_conv c' = cf_type_conv c. Proof. destruct H as (d & t & ->). reflexivity. Qed.
Lemma sbs_months : cf_months c' = cf_months c. Proof. destruct H as (d & t & ->). reflexivity. Qed.
Lemma sbs_format : cf_format c' = cf_format c. Proof. destruct H as (d & t & ->). reflexivity. Qed.
Lemma sbs_type_group : cf_type_group c' = cf_type_group c. Proof. destruct H as (d & t & ->). reflexivity. Qed.
Lemma sbs_money : cf_money c' = cf_money c. Proof. destruct H as (d & t & ->). reflexivity. Qed.
Lemma sbs_number : cf_number c' = cf_number c. Proof. destruct H as (d & t & ->). reflexivity. Qed.
Lemma sbs_percent : cf_percent c' = cf_percent c. Proof. destruct H as (d & t & ->). reflexivity. Qed.
Lemma sbs_tz : cf_tz c' = cf_tz c. Proof. destruct H as (d & t & ->). reflexivity. Qed.

Ltac projs :=
  rewrite ?sbs_currency, ?sbs_currency_alias, ?sbs_rates, ?sbs_timezones, ?sbs_word_group, ?sbs_constant_pair,
          ?sbs_rules, ?sbs_types, ?sbs_type_conv, ?sbs_months, ?sbs_format, ?sbs_type_group, ?sbs_money,
          ?sbs_number, ?sbs_percent, ?sbs_tz.

(* functions that only look fields up *)
Lemma rate_of_seps code : rate_of c' code = rate_of c code.
Proof. unfold rate_of. projs. reflexivity. Qed.

Lemma convert_currency_seps sc lp lc : convert_currency c' sc lp lc = convert_currency c sc lp lc.
Proof. unfold convert_currency. rewrite !rate_of_seps. reflexivity. Qed.

Lemma unit_of_seps u : unit_of c' u = unit_of c u.
Proof. unfold unit_of. projs. reflexivity. Qed.

Lemma read_currency_seps name : read_currency c' name = read_currency c name.
Proof. unfold read_currency. projs. reflexivity. Qed.

Lemma get_currency_seps vs k fs : get_currency c' vs k fs = get_currency c vs k fs.
Proof. unfold get_currency. destruct (field_token vs k fs) as [[]|]; try reflexivity. apply read_currency_seps. Qed.

Lemma get_time_offset_seps : get_time_offset c' = get_time_offset c.
Proof. unfold get_time_offset. projs. reflexivity. Qed.

Lemma constant_of_seps lang w : constant_of c' lang w = constant_of c lang w.
Proof. unfold constant_of, lang_constants. projs. reflexivity. Qed.

Lemma lang_rules_seps lang : lang_rules c' lang = lang_rules c lang.
Proof. unfold lang_rules. projs. reflexivity. Qed.

Lemma all_units_seps : all_units c' = all_units c.
Proof. unfold all_units. projs. reflexivity. Qed.

Lemma api_call_seps r fs : api_call c' r fs = api_call c r fs.
Proof. unfold api_call. projs. reflexivity. Qed.

(* ---- stages that call basic_execute: parametric in an insensitive [bexec] ---- *)
Variable bexec : config F -> str -> res (option F).
Hypothesis Hb : forall code, bexec c' code = bexec c code.

Lemma unit_loop_seps fuel group up ti number next si :
  unit_loop bexec fuel c' group up ti number next si = unit_loop bexec fuel c group up ti number next si.
Proof.
  revert number next si; induction fuel as [|f IH]; intros; [reflexivity|].
  cbn [unit_loop]. rewrite Hb.
  destruct (bexec c _) as [[n'|]|]; cbn [bind]; try reflexivity.
  destruct (nassoc _ group) as [nx|]; try reflexivity.
  destruct (N.eqb _ ti); try reflexivity.
  destruct (negb up && (si =? 0)); try reflexivity.
  apply IH.
Qed.

Lemma calculate_unit_seps number src tgt group :
  calculate_unit bexec c' number src tgt group = calculate_unit bexec c number src tgt group.
Proof.
  unfold calculate_unit. destruct (N.eqb _ _); [reflexivity|].
  destruct (nassoc _ group); [|reflexivity]. apply unit_loop_seps.
Qed.

Lemma dyn_convert_seps number src target :
  dyn_convert bexec c' number src target = dyn_convert bexec c number src target.
Proof.
  unfold dyn_convert. projs.
  destruct (assoc (dt_group src) (cf_types c)) as [group|]; [|reflexivity].
  destruct (find_by_name target (map snd group)) as [tg|].
  { destruct (N.eqb _ _); [reflexivity|]. rewrite calculate_unit_seps. reflexivity. }
  destruct (find _ (cf_type_conv c)) as [tc|]; [|reflexivity].
  destruct (if str_eqb (tc_src_name tc) (dt_group src) then _ else _) as [si ti].
  destruct (nassoc si group) as [bridge|]; [|reflexivity].
  rewrite calculate_unit_seps.
  destruct (calculate_unit bexec c number src bridge group) as [[n1|]|]; cbn [bind]; try reflexivity.
  rewrite Hb.
  destruct (bexec c _) as [[n2|]|]; cbn [bind]; try reflexivity.
  repeat match goal with
         | |- ?x = ?x => reflexivity
         | |- context [calculate_unit bexec c' ?a ?b ?d ?e] => rewrite (calculate_unit_seps a b d e)
         | |- context [match ?e with _ => _ end] => destruct e
         end.
Qed.

(* DataItem::calculate *)
Theorem calculate_seps l r op : calculate bexec c' l r op = calculate bexec c l r op.
Proof.
  destruct l, r; try reflexivity; cbn [calculate].
  - rewrite convert_currency_seps. reflexivity.
  - rewrite !unit_of_seps.
    destruct (unit_of c u) as [du|]; [|reflexivity].
    destruct (unit_of c u0) as [du'|]; [|reflexivity].
    destruct (dt_names du) as [|name0 ?]; [reflexivity|].
    rewrite dyn_convert_seps. reflexivity.
Qed.

Lemma calculate_item_seps op l r : calculate_item bexec c' op l r = calculate_item bexec c op l r.
Proof.
  unfold calculate_item. destruct l; try reflexivity. destruct r; try reflexivity.
  rewrite !calculate_seps. reflexivity.
Qed.

(* the interpreter: value AND the variables it stores *)
Theorem execute_ast_seps a : forall vs, execute_ast bexec c' vs a = execute_ast bexec c vs a.
Proof.
  induction a as [| | | |l IHl op r IHr|op e IHe|name ntoks e IHe| |]; intros vs; try reflexivity.
  - cbn [execute_ast]. rewrite IHl.
    destruct (execute_ast bexec c vs l) as [[[cl|m] vs1]|]; cbn [bind]; try reflexivity.
    rewrite IHr.
    destruct (execute_ast bexec c vs1 r) as [[[cr|m] vs2]|]; cbn [bind]; try reflexivity.
    destruct cl, cr; try reflexivity; rewrite calculate_item_seps; reflexivity.
  - cbn [execute_ast]. rewrite IHe. reflexivity.
  - cbn [execute_ast]. rewrite IHe. reflexivity.
Qed.

(* the rule functions *)
Lemma money_or_number_seps vs k fs x : money_or_number c' vs k fs x = money_or_number c vs k fs x.
Proof. unfold money_or_number. rewrite get_currency_seps. reflexivity. Qed.

Theorem call_rule_seps yr lang vs fname fs :
  call_rule bexec yr c' lang vs fname fs = call_rule bexec yr c lang vs fname fs.
Proof.
  unfold call_rule.
  repeat match goal with |- (if ?b then _ else _) = _ => destruct b end; try reflexivity.
  all: unfold from_unixtime, convert_money, number_on, number_of, number_off, duration_parse, as_duration,
       find_total_from_percent, dynamic_type_convert, small_date.
  all: repeat match goal with
         | |- ?x = ?x => reflexivity
         | |- context [get_time_offset c'] => rewrite get_time_offset_seps
         | |- context [get_currency c' ?a ?b ?d] => rewrite (get_currency_seps a b d)
         | |- context [rate_of c' ?a] => rewrite (rate_of_seps a)
         | |- context [money_or_number c' ?a ?b ?d ?e] => rewrite (money_or_number_seps a b d e)
         | |- context [constant_of c' ?a ?b] => rewrite (constant_of_seps a b)
         | |- context [unit_of c' ?a] => rewrite (unit_of_seps a)
         | |- context [dyn_convert bexec c' ?a ?b ?d] => rewrite (dyn_convert_seps a b d)
         | |- context [match ?e with _ => _ end] => destruct e
         end.
Qed.

(* ---- the rule loop and the unit recogniser (Rules.v) ---- *)
Lemma rule_try_patterns_seps yr line lang vs r pats st :
  rule_try_patterns bexec yr line c' lang vs r pats st = rule_try_patterns bexec yr line c lang vs r pats st.
Proof.
  induction pats as [|pat rest IH]; [reflexivity|].
  cbn [rule_try_patterns].
  destruct (find_match vs pat (ts_infos st)) as [m|]; cbn [bind]; [|reflexivity].
  destruct (Nat.eqb _ _); [|exact IH].
  destruct r as [fname ps|ps ar].
  - rewrite call_rule_seps.
    destruct (call_rule bexec yr c lang vs fname (fm_fields m)) as [[tok|]|]; cbn [bind]; try reflexivity.
    exact IH.
  - rewrite api_call_seps. destruct (api_call c ar (fm_fields m)); [reflexivity|exact IH].
Qed.

Lemma rule_sweep_seps yr line lang vs rules : forall st fired,
  rule_sweep bexec yr line c' lang vs rules st fired = rule_sweep bexec yr line c lang vs rules st fired.
Proof.
  induction rules as [|r rest IH]; intros; [reflexivity|].
  cbn [rule_sweep]. rewrite rule_try_patterns_seps.
  destruct (rule_try_patterns bexec yr line c lang vs r (rule_patterns r) st) as [[st'|]|]; cbn [bind];
    try reflexivity; apply IH.
Qed.

Lemma rule_loop_seps yr fuel line lang vs rules : forall st,
  rule_loop bexec yr fuel line c' lang vs rules st = rule_loop bexec yr fuel line c lang vs rules st.
Proof.
  induction fuel as [|f IH]; intros; [reflexivity|].
  cbn [rule_loop]. rewrite rule_sweep_seps.
  destruct (rule_sweep bexec yr line c lang vs rules st false) as [[st' fired]|]; cbn [bind]; [|reflexivity].
  destruct fired; [apply IH|reflexivity].
Qed.

Theorem rule_tokinizer_seps yr fuel line lang vs st :
  rule_tokinizer bexec yr fuel line c' lang vs st = rule_tokinizer bexec yr fuel line c lang vs st.
Proof.
  unfold rule_tokinizer. rewrite lang_rules_seps.
  destruct (lang_rules c lang); [apply rule_loop_seps|reflexivity].
Qed.

Theorem dyn_loop_seps fuel line vs : forall st, dyn_loop fuel line c' vs st = dyn_loop fuel line c vs st.
Proof.
  induction fuel as [|f IH]; intros; [reflexivity|].
  cbn [dyn_loop]. rewrite all_units_seps.
  destruct (dyn_sweep_units line vs (all_units c) st false) as [[st' fired]|]; cbn [bind]; [|reflexivity].
  destruct fired; [apply IH|reflexivity].
Qed.

End Pair.
End Seps.

(* ---- the real basic_execute overrides the separators: it is insensitive itself ---- *)
Section Real.
Context {F : Type} {NF : Num F}.
Variable lx : lexdata.
Variable ck : clock.

Theorem basic_execute_seps (c c' : config F) code :
  same_but_seps c c' -> basic_execute lx ck c' code = basic_execute lx ck c code.
Proof.
  intros H. unfold basic_execute.
  destruct (split_lines code []) as [|line [|]]; try reflexivity.
  destruct line as [|ch0 rest]; [reflexivity|].
  cbv zeta.
  assert (E : set_fmt c' (cf_money c') (cf_number c') (cf_percent c') [46%N] [] (cf_tz c')
              = set_fmt c (cf_money c) (cf_number c) (cf_percent c) [46%N] [] (cf_tz c)).
  { destruct H as (d & t & ->). reflexivity. }
  rewrite E.
  destruct (regex_tokinizer lx (ck_today ck) _ (s "en") (ch0 :: rest) empty_state) as [st1|]; cbn [bind];
    [|reflexivity].
  destruct (alias_tokinizer lx (ck_today ck) _ (s "en") st1) as [st2|]; cbn [bind]; [|reflexivity].
  destruct (ts_infos st2) as [|i0 infos]; [reflexivity|].
  destruct (parse _ []) as [[a|m|] vs]; try reflexivity.
  rewrite (execute_ast_seps c c' H no_bexec (fun _ => eq_refl)). reflexivity.
Qed.

(* the stages as they are composed in Api.tokinize / Api.execute_text *)
Theorem calculate_real (c c' : config F) l r op :
  same_but_seps c c' ->
  calculate (basic_execute lx ck) c' l r op = calculate (basic_execute lx ck) c l r op.
Proof. intro H. apply (calculate_seps c c' H). intro. now apply basic_execute_seps. Qed.

Theorem execute_ast_real (c c' : config F) vs a :
  same_but_seps c c' ->
  execute_ast (basic_execute lx ck) c' vs a = execute_ast (basic_execute lx ck) c vs a.
Proof. intro H. apply (execute_ast_seps c c' H). intro. now apply basic_execute_seps. Qed.

Theorem call_rule_real (c c' : config F) lang vs fname fs :
  same_but_seps c c' ->
  call_rule (basic_execute lx ck) (ck_year ck) c' lang vs fname fs
  = call_rule (basic_execute lx ck) (ck_year ck) c lang vs fname fs.
Proof. intro H. apply (call_rule_seps c c' H). intro. now apply basic_execute_seps. Qed.

Theorem rule_tokinizer_real (c c' : config F) fuel line lang vs st :
  same_but_seps c c' ->
  rule_tokinizer (basic_execute lx ck) (ck_year ck) fuel line c' lang vs st
  = rule_tokinizer (basic_execute lx ck) (ck_year ck) fuel line c lang vs st.
Proof. intro H. apply (rule_tokinizer_seps c c' H). intro. now apply basic_execute_seps. Qed.

(* values stored in variables are items (asts), not text: several lines evaluated one after the
   other, each seeing the variables left by the previous ones *)
Fixpoint execute_lines (bexec : config F -> str -> res (option F)) (cfg : config F) (vs : vars F)
         (lines : list (ast F)) : res (list ires * vars F) :=
  match lines with
  | [] => Ok ([], vs)
  | a :: rest =>
    do r <- execute_ast bexec cfg vs a;
    do rs <- execute_lines bexec cfg (snd r) rest;
    Ok (fst r :: fst rs, snd rs)
  end.

Theorem execute_lines_real (c c' : config F) lines : forall vs,
  same_but_seps c c' ->
  execute_lines (basic_execute lx ck) c' vs lines = execute_lines (basic_execute lx ck) c vs lines.
Proof.
  induction lines as [|a rest IH]; intros vs H; [reflexivity|].
  cbn [execute_lines]. rewrite (execute_ast_real c c' vs a H).
  destruct (execute_ast (basic_execute lx ck) c vs a) as [r|]; cbn [bind]; [|reflexivity].
  rewrite (IH _ H). reflexivity.
Qed.

(* reading a variable returns the stored ast whatever the configuration is (any two configurations) *)
Theorem variable_read_any_config bexec (c c' : config F) vs name :
  execute_ast bexec c vs (AVariable name) = Ok (IOk (var_value vs name), vs) /\
  execute_ast bexec c' vs (AVariable name) = execute_ast bexec c vs (AVariable name).
Proof. split; reflexivity. Qed.

(* an assignment stores the computed ast: the same one under both configurations *)
Lemma assoc_insert_same_c08 {A} (k : str) (w0 : A) : forall l, assoc k (assoc_insert k w0 l) = Some w0.
Proof.
  induction l as [|[k' w] r IH]; cbn [assoc_insert assoc].
  - rewrite str_eqb_refl. reflexivity.
  - destruct (str_eqb k k') eqn:Ek.
    + cbn [assoc]. rewrite str_eqb_refl. reflexivity.
    + destruct (str_ltb k k'); cbn [assoc]; [rewrite str_eqb_refl; reflexivity|].
      rewrite Ek. exact IH.
Qed.

Theorem assignment_stores_value (c c' : config F) vs name toks e v vs1 :
  same_but_seps c c' ->
  execute_ast (basic_execute lx ck) c vs e = Ok (IOk v, vs1) ->
  exists vs2 vs2',
    execute_ast (basic_execute lx ck) c vs (AAssignment name toks e) = Ok (IOk v, vs2) /\
    execute_ast (basic_execute lx ck) c' vs (AAssignment name toks e) = Ok (IOk v, vs2') /\
    vs2 = vs2' /\
    option_map (@v_data F) (assoc (match assoc name vs1 with Some _ => name | None => var_key vs1 toks end) vs2) = Some v.
Proof.
  intros H E.
  rewrite (execute_ast_real c c' vs (AAssignment name toks e) H).
  cbn [execute_ast]. rewrite E. cbn [bind].
  destruct (assoc name vs1) as [vi|] eqn:Ea; do 2 eexists; repeat split;
    rewrite assoc_insert_same_c08; reflexivity.
Qed.

End Real.

(* ---- the lexer reads the separators only through read_decimal ---- *)
Section LexerSeps.
Context {F : Type} {NF : Num F}.
Variable lx : lexdata.
Variables c c' : config F.
Hypothesis H : same_but_seps c c'.

Ltac projs :=
  rewrite ?(sbs_currency c c' H), ?(sbs_currency_alias c c' H), ?(sbs_rates c c' H), ?(sbs_timezones c c' H),
          ?(sbs_word_group c c' H), ?(sbs_constant_pair c c' H), ?(sbs_rules c c' H), ?(sbs_types c c' H),
          ?(sbs_type_conv c c' H), ?(sbs_months c c' H), ?(sbs_format c c' H), ?(sbs_type_group c c' H),
          ?(sbs_money c c' H), ?(sbs_number c c' H), ?(sbs_percent c c' H), ?(sbs_tz c c' H).

Lemma over_captures_ext (b1 b2 : @parser_body F) :
  (forall c0 cp st, b1 c0 cp st = b2 c0 cp st) ->
  forall c0 cps st, over_captures b1 c0 cps st = over_captures b2 c0 cps st.
Proof.
  intros E c0 cps. induction cps as [|cp r IH]; intros st; [reflexivity|].
  cbn [over_captures]. rewrite E. destruct (b2 c0 cp st); cbn [bind]; [apply IH|reflexivity].
Qed.

Lemma over_regexes_ext (b1 b2 : @parser_body F) :
  (forall c0 cp st, b1 c0 cp st = b2 c0 cp st) ->
  forall data rs st, over_regexes b1 data rs st = over_regexes b2 data rs st.
Proof.
  intros E data rs. induction rs as [|c0 r IH]; intros st; [reflexivity|].
  cbn [over_regexes]. rewrite (over_captures_ext b1 b2 E).
  destruct (over_captures b2 c0 _ st); cbn [bind]; [apply IH|reflexivity].
Qed.

Lemma get_atom_seps today data rs : get_atom today c' data rs = get_atom today c data rs.
Proof.
  unfold get_atom, atom_of, get_time_offset. projs. reflexivity.
Qed.

Lemma alias_apply_seps today aliases t :
  alias_apply lx today c' aliases t = alias_apply lx today c aliases t.
Proof.
  induction aliases as [|[c0 data] r IH]; [reflexivity|].
  cbn [alias_apply]. rewrite get_atom_seps, IH. reflexivity.
Qed.

Lemma mapM_ext {A B} (f g : A -> res B) l : (forall x, f x = g x) -> mapM f l = mapM g l.
Proof.
  intro E. induction l as [|x r IH]; [reflexivity|]. cbn [mapM]. rewrite E, IH. reflexivity.
Qed.

Theorem alias_tokinizer_seps today lang st :
  alias_tokinizer lx today c' lang st = alias_tokinizer lx today c lang st.
Proof.
  unfold alias_tokinizer.
  rewrite (mapM_ext _ _ (ts_infos st) (alias_apply_seps today (lx_alias lx))).
  destruct (mapM _ (ts_infos st)) as [infos1|]; cbn [bind]; [|reflexivity].
  destruct (assoc lang (lx_lang_alias lx)) as [al|]; [|reflexivity].
  rewrite (mapM_ext _ _ infos1 (alias_apply_seps today al)). reflexivity.
Qed.

Theorem language_tokinizer_seps lang line st :
  language_tokinizer lx c' lang line st = language_tokinizer lx c lang line st.
Proof. reflexivity. Qed.

Variable line : str.
(* the literals of the line are read alike (e.g. the line contains no separator character) *)
Hypothesis Hrd : forall sp, read_decimal c' (slice line sp) = read_decimal c (slice line sp).

Ltac crush :=
  repeat match goal with
         | |- ?x = ?x => reflexivity
         | |- context [read_decimal c' (slice line ?sp)] => rewrite (Hrd sp)
         | |- context [bind ?e _] => destruct e; cbn [bind]
         | |- context [match ?e with _ => _ end] => destruct e
         end.

Lemma run_parser_seps today lang key rs st :
  run_parser today c' lang line key rs st = run_parser today c lang line key rs st.
Proof.
  unfold run_parser.
  repeat match goal with |- (if ?b then _ else _) = _ => destruct b end; try reflexivity.
  - apply over_regexes_ext. intros. unfold field_body, get_field_type, lang_groups. projs. reflexivity.
  - apply over_regexes_ext. intros. unfold money_body, read_currency. projs. crush.
  - unfold atom_parser. rewrite get_atom_seps. reflexivity.
  - apply over_regexes_ext. intros. unfold percent_body. crush.
  - apply over_regexes_ext. intros. unfold timezone_body, parse_timezone. projs. reflexivity.
  - apply over_regexes_ext. intros. unfold time_body, get_time_offset. projs. reflexivity.
  - apply over_regexes_ext. intros. unfold number_body. crush.
  - apply over_regexes_ext. intros. unfold text_body, lang_constants, get_time_offset, read_currency. projs. reflexivity.
Qed.

Theorem regex_tokinizer_seps today lang st :
  regex_tokinizer lx today c' lang line st = regex_tokinizer lx today c lang line st.
Proof.
  unfold regex_tokinizer. f_equal. revert st.
  induction RustConsts.PARSER_ORDER as [|k r IH]; intros st; [reflexivity|].
  destruct (assoc k (lx_parse lx)) as [rs|]; [|apply IH].
  rewrite run_parser_seps. destruct (run_parser today c lang line k rs st); cbn [bind]; [apply IH|reflexivity].
Qed.

End LexerSeps.

(* the whole of Api.tokinize: on a line whose literals are read alike nothing depends on the separators *)
Section TokinizeSeps.
Context {F : Type} {NF : Num F}.
Variable lx : lexdata.
Variable ck : clock.

Theorem tokinize_seps (c c' : config F) lang vs line :
  same_but_seps c c' ->
  (forall sp, read_decimal c' (slice line sp) = read_decimal c (slice line sp)) ->
  tokinize lx ck c' lang vs line = tokinize lx ck c lang vs line.
Proof.
  intros H Hrd. unfold tokinize.
  rewrite (language_tokinizer_seps lx c c' lang line).
  destruct (language_tokinizer lx c lang line empty_state) as [st1|]; cbn [bind]; [|reflexivity].
  rewrite (regex_tokinizer_seps lx c c' H line Hrd).
  destruct (regex_tokinizer lx (ck_today ck) c lang line st1) as [st2|]; cbn [bind]; [|reflexivity].
  rewrite (alias_tokinizer_seps lx c c' H).
  destruct (alias_tokinizer lx (ck_today ck) c lang st2) as [st3|]; cbn [bind]; [|reflexivity].
  destruct (unfuel (update_token_variables line vs st3)) as [st4|]; cbn [bind]; [|reflexivity].
  rewrite (dyn_loop_seps c c' H).
  destruct (unfuel (dyn_loop (loop_fuel st4) line c vs st4)) as [st5|]; cbn [bind]; [|reflexivity].
  rewrite (rule_tokinizer_real lx ck c c' _ _ _ _ _ H). reflexivity.
Qed.

End TokinizeSeps.

(* Api.execute_text: everything but the printed text (value or error, variables, highlighting, tokens)
   is the same; the formatter is the only other reader of the separators *)
Section TextSeps.
Context {F : Type} {NF : Num F}.
Variable lx : lexdata.
Variable ck : clock.

Definition result_value (r : line_result (F:=F)) : str + ast F :=
  match r with LErr m => inl m | LOk _ v => inr v end.

Definition obs_value (o : option (line_obs (F:=F))) :=
  option_map (fun o => (result_value (lo_result o), lo_ui o, lo_tokens o, lo_infos o)) o.

Theorem execute_text_seps (c c' : config F) lang vs line o o' vs1 vs1' :
  same_but_seps c c' ->
  (forall sp, read_decimal c' (slice line sp) = read_decimal c (slice line sp)) ->
  execute_text lx ck c lang vs line = Ok (o, vs1) ->
  execute_text lx ck c' lang vs line = Ok (o', vs1') ->
  obs_value o' = obs_value o /\ vs1' = vs1.
Proof.
  intros H Hrd E E'. unfold execute_text in E, E'.
  destruct line as [|ch0 rest]; [inversion E; inversion E'; subst; split; reflexivity|].
  rewrite (tokinize_seps lx ck c c' lang vs _ H Hrd) in E'.
  destruct (tokinize lx ck c lang vs (ch0 :: rest)) as [[st tokens]|]; cbn [bind] in E, E'; [|discriminate].
  destruct (ts_infos st) as [|i0 infos]; [inversion E; inversion E'; subst; split; reflexivity|].
  destruct (parse tokens vs) as [[a|m|] vs2]; try discriminate.
  - rewrite (execute_ast_real lx ck c c' vs2 a H) in E'.
    destruct (execute_ast (basic_execute lx ck) c vs2 a) as [[[v|m] vs3]|]; cbn [bind] in E, E'; try discriminate.
    + destruct (format_result c lang (ck_year ck) v); cbn [bind] in E; [|discriminate].
      destruct (format_result c' lang (ck_year ck) v); cbn [bind] in E'; [|discriminate].
      inversion E; inversion E'; subst; split; reflexivity.
    + inversion E; inversion E'; subst; split; reflexivity.
  - inversion E; inversion E'; subst; split; reflexivity.
Qed.

End TextSeps.

(* a string without the separator characters is left alone by the normalisation: the hypothesis of
   tokinize_seps holds for every line that contains no separator character of either configuration *)
Lemma normalise_free dsep tsep x :
  seps_ok dsep tsep -> avoids dsep tsep x -> normalise dsep tsep x = x.
Proof.
  intros Hs Ha. unfold normalise. destruct Hs as [dc|dc tc Hne].
  - rewrite replace_all_nil_nil, replace_all_single. apply subst1_free. apply Ha. cbn. auto.
  - rewrite !replace_all_single. rewrite (subst1_free tc) by (apply Ha; cbn; auto).
    apply subst1_free. apply Ha. cbn. auto.
Qed.

Lemma free_drop_bytes a x : forall n, free a x -> free a (drop_bytes x n).
Proof.
  induction x as [|ch r IH]; intros n Hx; [constructor|].
  cbn [drop_bytes]. destruct (N.eqb n 0); [exact Hx|]. apply IH. now inversion Hx.
Qed.

Lemma free_take_bytes a x : forall n, free a x -> free a (take_bytes x n).
Proof.
  induction x as [|ch r IH]; intros n Hx; [constructor|].
  cbn [take_bytes]. destruct (N.eqb n 0); [constructor|].
  inversion Hx; subst. constructor; [assumption|]. now apply IH.
Qed.

Lemma avoids_slice dsep tsep x sp : avoids dsep tsep x -> avoids dsep tsep (slice x sp).
Proof.
  intros Hx ch Hc. unfold slice. apply free_take_bytes, free_drop_bytes, Hx, Hc.
Qed.

Section FreeLine.
Context {F : Type} {NF : Num F}.

(* a line that contains no separator character of either configuration is read alike *)
Theorem read_decimal_free_line (c c' : config F) line :
  seps_ok (cf_dsep c) (cf_tsep c) -> seps_ok (cf_dsep c') (cf_tsep c') ->
  avoids (cf_dsep c) (cf_tsep c) line -> avoids (cf_dsep c') (cf_tsep c') line ->
  forall sp, read_decimal c' (slice line sp) = read_decimal c (slice line sp).
Proof.
  intros Hs Hs' Ha Ha' sp. rewrite !read_decimal_normalise.
  rewrite !normalise_free; auto using avoids_slice.
Qed.

End FreeLine.

(* ------------------------------------------------------------------------------------- *)
(* 4. binary64: the number read is the correctly rounded decimal D * 10^-k                *)
(* ------------------------------------------------------------------------------------- *)
From Coq Require Import Floats.
From SC.Model Require Import NumF64.

(* the integer a digit string denotes *)
Fixpoint dec_val (acc : Z) (x : str) : Z :=
  match x with
  | [] => acc
  | c :: r => dec_val (10 * acc + digit_val c) r
  end.

Lemma dec_val_app acc x y : dec_val acc (x ++ y) = dec_val (dec_val acc x) y.
Proof. revert acc; induction x as [|c r IH]; intros; [reflexivity|]. cbn. apply IH. Qed.

Lemma take_digits_digits x : forall rest acc cnt,
  digits x -> match rest with [] => True | c :: _ => FloatIO.is_digit c = false end ->
  take_digits (x ++ rest) acc cnt = (dec_val acc x, cnt + Z.of_nat (length x), rest).
Proof.
  induction x as [|c r IH]; intros rest acc cnt Hx Hr.
  - cbn [app dec_val length]. rewrite Z.add_0_r.
    destruct rest as [|c0 r0]; [reflexivity|]. cbn [take_digits]. rewrite Hr. reflexivity.
  - inversion Hx as [|? ? Hc Hx']; subst.
    cbn [app take_digits]. rewrite Hc. rewrite IH by assumption.
    cbn [dec_val]. rewrite !Z.shiftl_mul_pow2 by lia.
    f_equal. f_equal.
    + f_equal. change (2 ^ 3) with 8. change (2 ^ 1) with 2. lia.
    + cbn [length]. lia.
Qed.

Lemma digit_not_sign c : FloatIO.is_digit c = true -> (c =? ch_minus)%N = false /\ (c =? ch_plus)%N = false.
Proof.
  unfold FloatIO.is_digit, ch_minus, ch_plus. intro H. apply andb_true_iff in H as [H1 H2].
  apply N.leb_le in H1. split; apply N.eqb_neq; lia.
Qed.

Theorem f64_parse_canonical ip fp :
  digits ip -> ip <> [] -> digits fp ->
  f64_parse (canonical ip fp) = Some (f64_of_decimal false (dec_val 0 (ip ++ fp)) (- Z.of_nat (length fp))).
Proof.
  intros Hi Hne Hf.
  destruct ip as [|c0 ip']; [congruence|].
  inversion Hi as [|? ? Hc0 Hi']; subst.
  destruct (digit_not_sign c0 Hc0) as [Hm Hp].
  unfold f64_parse, canonical. cbn [app]. rewrite Hm, Hp.
  change (c0 :: ip' ++ frac_part [46%N] fp) with ((c0 :: ip') ++ frac_part [46%N] fp).
  unfold parse_decimal.
  destruct fp as [|d fr].
  - cbn [frac_part]. rewrite (take_digits_digits (c0 :: ip') [] 0 0 Hi I).
    replace (0 + Z.of_nat (length (c0 :: ip')) + 0 =? 0) with false
      by (symmetry; apply Z.eqb_neq; cbn [length]; lia).
    rewrite ?app_nil_r. reflexivity.
  - cbn [frac_part]. change ([46%N] ++ d :: fr) with (46%N :: d :: fr).
    rewrite (take_digits_digits (c0 :: ip') (46%N :: d :: fr) 0 0 Hi eq_refl).
    change (46 =? ch_dot)%N with true. cbv iota.
    rewrite <- (app_nil_r (d :: fr)) at 1.
    rewrite (take_digits_digits (d :: fr) [] _ 0 Hf I).
    replace (0 + Z.of_nat (length (c0 :: ip')) + (0 + Z.of_nat (length (d :: fr))) =? 0) with false
      by (symmetry; apply Z.eqb_neq; cbn [length]; lia).
    change (c0 :: ip' ++ d :: fr) with ((c0 :: ip') ++ d :: fr).
    rewrite dec_val_app, Z.add_0_l. reflexivity.
Qed.

(* a literal  ip dsep fp  (ip grouped or not) is read as the correctly rounded binary64 of the
   decimal number  <ip fp> * 10^-|fp|,  under every admissible separator configuration *)
Theorem read_write_f64 (cfg : config float) grouped ip fp :
  seps_ok (cf_dsep cfg) (cf_tsep cfg) -> nondigit (cf_dsep cfg) -> nondigit (cf_tsep cfg) ->
  digits ip -> ip <> [] -> digits fp ->
  read_decimal cfg (write (cf_dsep cfg) (cf_tsep cfg) grouped ip fp)
  = Some (f64_of_decimal false (dec_val 0 (ip ++ fp)) (- Z.of_nat (length fp))).
Proof.
  intros. rewrite read_write by assumption. apply f64_parse_canonical; assumption.
Qed.

(* ------------------------------------------------------------------------------------- *)
(* 5. non-vacuity, computed through the whole model at binary64                           *)
(* ------------------------------------------------------------------------------------- *)
From SC.Model Require Run64 Corr.

Example group3_example :
  group3 (s "1234567") = [s "1"; s "234"; s "567"] /\ group3 (s "123456") = [s "123"; s "456"] /\
  group3 (s "12") = [s "12"] /\
  write (s ",") (s ".") true (s "1234567") (s "5") = s "1.234.567,5" /\
  write (s ".") (s ",") true (s "1234567") (s "5") = s "1,234,567.5" /\
  write (s ".") [] true (s "1234567") (s "5") = s "1234567.5" /\
  write (s ",") (s "'") true (s "1234567") [] = s "1'234'567" /\
  normalise (s ",") (s ".") (s "1.234.567,5") = s "1234567.5".
Proof. vm_compute. repeat split; reflexivity. Qed.

(* (type name, bits of the number) of every line of an execution *)
Definition value_bits (m : Corr.mobs) : list (option (str * Z)) :=
  match m with
  | Corr.MRes r =>
    map (fun l => match l with
                  | Some o => match lo_result o with
                              | LOk _ (AItem i) => Some (item_type_name i, f64_to_bits (underlying_number i))
                              | _ => None
                              end
                  | None => None
                  end) (er_lines r)
  | _ => []
  end.

Definition run_under (d t : string) (line : string) : list (option (str * Z)) :=
  value_bits (last (Corr.run Run64.CK0 Corr.init_state
                             [Corr.OSetDec (s d); Corr.OSetThou (s t); Corr.OExec (s "en") (s line)])
                   (Corr.MRet None)).

Definition b64 (m k : Z) : Z := f64_to_bits (f64_dec m k).

Example examples_units :
  run_under "," "." "1 inch to mm" = [Some (s "DYNAMIC_TYPE", b64 254 1)] /\
  run_under "." "," "1 inch to mm" = [Some (s "DYNAMIC_TYPE", b64 254 1)] /\
  run_under "," "." "1 m to km" = [Some (s "DYNAMIC_TYPE", b64 1 3)] /\
  run_under "." "," "1 m to km" = [Some (s "DYNAMIC_TYPE", b64 1 3)] /\
  run_under "," "." "1,5 km to m" = [Some (s "DYNAMIC_TYPE", b64 1500 0)] /\
  run_under "." "," "1.5 km to m" = [Some (s "DYNAMIC_TYPE", b64 1500 0)].
Proof. vm_compute. repeat split; reflexivity. Qed.

Example examples_literals :
  run_under "," "." "1.234,5 * 2" = [Some (s "NUMBER", b64 2469 0)] /\
  run_under "." "," "1,234.5 * 2" = [Some (s "NUMBER", b64 2469 0)] /\
  run_under "." "" "1234.5 * 2" = [Some (s "NUMBER", b64 2469 0)] /\
  run_under "," "'" "1234,5 * 2" = [Some (s "NUMBER", b64 2469 0)] /\
  run_under "," "." "x = 1.234,5
x * 2" = [Some (s "NUMBER", b64 12345 1); Some (s "NUMBER", b64 2469 0)] /\
  run_under "." "," "x = 1,234.5
x * 2" = [Some (s "NUMBER", b64 12345 1); Some (s "NUMBER", b64 2469 0)] /\
  run_under "," "." "12,5%" = [Some (s "PERCENT", b64 125 1)] /\
  run_under "." "," "12.5%" = [Some (s "PERCENT", b64 125 1)] /\
  run_under "," "." "1.234,5 usd" = [Some (s "MONEY", b64 12345 1)] /\
  run_under "." "," "1,234.5 usd" = [Some (s "MONEY", b64 12345 1)] /\
  run_under "," "." "10 usd to try" = run_under "." "," "10 usd to try" /\
  run_under "," "." "10 usd to try" <> [None].
Proof. vm_compute. repeat split; try reflexivity. discriminate. Qed.

(* Known finding C08-K1: the reader function reads a literal grouped by ' ' as intended (read_write), but the literal
   regexes of config.json admit only [0-9.,] inside a literal, so the lexer never hands it such a literal: under
   (',' ' ') the line "1 234,5" is two numbers, 1 and 234,5, and evaluates to 235,5 *)
Definition cfg_with (d t : string) : config float :=
  set_fmt Run64.default_config (cf_money Run64.default_config) (cf_number Run64.default_config)
          (cf_percent Run64.default_config) (s d) (s t) (cf_tz Run64.default_config).

Example grouping_refuted :
  write (s ",") (s " ") true (s "1234") (s "5") = s "1 234,5" /\
  option_map f64_to_bits (read_decimal (cfg_with "," " ") (s "1 234,5")) = Some (b64 12345 1) /\
  run_under "," " " "1 234,5" = [Some (s "NUMBER", b64 2355 1)] /\
  run_under "," "." "1.234,5" = [Some (s "NUMBER", b64 12345 1)] /\
  b64 2355 1 <> b64 12345 1 /\
  write (s ",") (s "'") true (s "1234") (s "5") = s "1'234,5" /\
  run_under "," "'" "1'234,5 * 2" = [Some (s "NUMBER", b64 1 0)].
Proof. vm_compute. repeat split; try reflexivity. discriminate. Qed.
