(* SC.Proofs.C02_Parser -- property C02 (arithmetic): the recursive-descent parser reads the
   explicit rendering of a well-formed expression tree back as that tree, the interpreter
   computes its value under the usual rules, and the post-processing steps leave explicit
   renderings alone outside the known defect class [known_paren3].

   Everything is polymorphic in the number algebra.  No axioms. *)
From SC.Model Require Import Base Num Types Config Case Post Parser Items Interp.
From SC.Spec Require Import Expr.
From Coq Require Import Arith Lia.

Local Open Scope nat_scope.

Section WithNum.
Context {F : Type} {NF : Num F}.

(* ================================================================== *)
(* 0. Unfolding equations of the mutual fixpoint                       *)
(* ================================================================== *)

Lemma parse_level_S f l (ts : list (token F)) :
  parse_level (S f) l ts =
  match parse_sub f l ts with
  | (PAst ANone, r) => (PAst ANone, r)
  | (PAst lft, r) => binary_loop f l lft r
  | r => r
  end.
Proof. reflexivity. Qed.

Lemma parse_sub_S f l (ts : list (token F)) :
  parse_sub (S f) l ts =
  match l with
  | LAddSub => parse_level f LModulo ts
  | LModulo => parse_level f LMulDiv ts
  | LMulDiv => parse_unary f ts
  end.
Proof. reflexivity. Qed.

Lemma binary_loop_S f l lft (ts : list (token F)) :
  binary_loop (S f) l lft ts =
  match match_operator (level_ops l) ts with
  | Some op =>
    match right_loop f l (tl ts) with
    | (PAst r, rest) => binary_loop f l (ABinary lft op r) rest
    | e => e
    end
  | None => (PAst lft, ts)
  end.
Proof. reflexivity. Qed.

Lemma right_loop_S f l (ts : list (token F)) :
  right_loop (S f) l ts =
  match parse_sub f l ts with
  | (PAst ANone, r) => right_loop f l r
  | r => r
  end.
Proof. reflexivity. Qed.

Lemma parse_unary_S f (ts : list (token F)) :
  parse_unary (S f) ts =
  match parse_prefix_unary ts with
  | (PAst ANone, ts1) =>
    match match_operator [OP_LP] ts1 with
    | Some _ =>
      match parse_level f LAddSub (tl ts1) with
      | (PFuel, r) => (PFuel, r)
      | (PAst ANone, _) => (PErr E_INVALID, ts1)
      | (PErr m, _) => (PErr m, ts1)
      | (PAst a, r) =>
        match match_operator [OP_RP] r with
        | Some _ => (PAst a, tl r)
        | None => (PErr E_PAREN, ts1)
        end
      end
    | None => parse_basic ts1
    end
  | r => r
  end.
Proof. reflexivity. Qed.

Lemma parse_level_0 l (ts : list (token F)) : parse_level 0 l ts = (PFuel, ts).
Proof. reflexivity. Qed.
Lemma parse_sub_0 l (ts : list (token F)) : parse_sub 0 l ts = (PFuel, ts).
Proof. reflexivity. Qed.
Lemma binary_loop_0 l lft (ts : list (token F)) : binary_loop 0 l lft ts = (PFuel, ts).
Proof. reflexivity. Qed.
Lemma right_loop_0 l (ts : list (token F)) : right_loop 0 l ts = (PFuel, ts).
Proof. reflexivity. Qed.
Lemma parse_unary_0 (ts : list (token F)) : parse_unary 0 ts = (PFuel, ts).
Proof. reflexivity. Qed.

(* ================================================================== *)
(* 1. Fuel monotonicity                                                *)
(* ================================================================== *)

Definition nofuel (r : @pres F * list (token F)) : Prop := fst r <> PFuel.

Definition mono_at (f : nat) : Prop :=
  (forall l ts f', f <= f' -> nofuel (parse_level f l ts) -> parse_level f' l ts = parse_level f l ts) /\
  (forall l ts f', f <= f' -> nofuel (parse_sub f l ts) -> parse_sub f' l ts = parse_sub f l ts) /\
  (forall l lft ts f', f <= f' -> nofuel (binary_loop f l lft ts) ->
                       binary_loop f' l lft ts = binary_loop f l lft ts) /\
  (forall l ts f', f <= f' -> nofuel (right_loop f l ts) -> right_loop f' l ts = right_loop f l ts) /\
  (forall ts f', f <= f' -> nofuel (parse_unary f ts) -> parse_unary f' ts = parse_unary f ts).

Lemma fuel_mono_all : forall f, mono_at f.
Proof.
  induction f as [|f IH].
  - unfold mono_at, nofuel; repeat split; intros; exfalso; simpl in *; congruence.
  - destruct IH as (IHpl & IHps & IHbl & IHrl & IHpu).
    unfold mono_at. repeat split.
    + (* parse_level *)
      intros l ts f' Hle Hnf. destruct f' as [|f']; [lia|]. assert (Hle' : f <= f') by lia.
      rewrite parse_level_S in Hnf. rewrite !parse_level_S.
      destruct (parse_sub f l ts) as [p r] eqn:E.
      assert (Hs : nofuel (parse_sub f l ts)).
      { rewrite E. unfold nofuel in *. destruct p as [a| |]; simpl in *; try congruence.  }
      rewrite (IHps l ts f' Hle' Hs), E.
      destruct p as [a|m|]; try reflexivity.
      destruct a; try reflexivity; apply IHbl; assumption.
    + (* parse_sub *)
      intros l ts f' Hle Hnf. destruct f' as [|f']; [lia|]. assert (Hle' : f <= f') by lia.
      rewrite parse_sub_S in Hnf. rewrite !parse_sub_S.
      destruct l; [apply IHpl | apply IHpl | apply IHpu]; assumption.
    + (* binary_loop *)
      intros l lft ts f' Hle Hnf. destruct f' as [|f']; [lia|]. assert (Hle' : f <= f') by lia.
      rewrite binary_loop_S in Hnf. rewrite !binary_loop_S.
      destruct (match_operator (level_ops l) ts) as [op|]; [|reflexivity].
      destruct (right_loop f l (tl ts)) as [p r] eqn:E.
      assert (Hs : nofuel (right_loop f l (tl ts))).
      { rewrite E. unfold nofuel in *. destruct p as [a| |]; simpl in *; congruence. }
      rewrite (IHrl l (tl ts) f' Hle' Hs), E.
      destruct p as [a|m|]; try reflexivity.
      apply IHbl; assumption.
    + (* right_loop *)
      intros l ts f' Hle Hnf. destruct f' as [|f']; [lia|]. assert (Hle' : f <= f') by lia.
      rewrite right_loop_S in Hnf. rewrite !right_loop_S.
      destruct (parse_sub f l ts) as [p r] eqn:E.
      assert (Hs : nofuel (parse_sub f l ts)).
      { rewrite E. unfold nofuel in *. destruct p as [a| |]; simpl in *; congruence. }
      rewrite (IHps l ts f' Hle' Hs), E.
      destruct p as [a|m|]; try reflexivity.
      destruct a; try reflexivity; apply IHrl; assumption.
    + (* parse_unary *)
      intros ts f' Hle Hnf. destruct f' as [|f']; [lia|]. assert (Hle' : f <= f') by lia.
      rewrite parse_unary_S in Hnf. rewrite !parse_unary_S.
      destruct (parse_prefix_unary ts) as [p ts1].
      destruct p as [a|m|]; try reflexivity.
      destruct a; try reflexivity.
      destruct (match_operator [OP_LP] ts1) as [op|]; [|reflexivity].
      destruct (parse_level f LAddSub (tl ts1)) as [p r] eqn:E.
      assert (Hs : nofuel (parse_level f LAddSub (tl ts1))).
      { rewrite E. unfold nofuel in *. destruct p as [a| |]; simpl in *; congruence. }
      rewrite (IHpl LAddSub (tl ts1) f' Hle' Hs), E.
      reflexivity.
Qed.

(* fuel monotonicity, for each of the five mutual functions: a run that does not run out of
   fuel returns the same result with any larger fuel *)
Theorem parse_level_mono : forall f f' l ts, f <= f' ->
  fst (parse_level f l ts) <> PFuel -> parse_level f' l ts = parse_level f l ts.
Proof. intros f f' l ts. apply (fuel_mono_all f). Qed.
Theorem parse_sub_mono : forall f f' l ts, f <= f' ->
  fst (parse_sub f l ts) <> PFuel -> parse_sub f' l ts = parse_sub f l ts.
Proof. intros f f' l ts. apply (fuel_mono_all f). Qed.
Theorem binary_loop_mono : forall f f' l lft ts, f <= f' ->
  fst (binary_loop f l lft ts) <> PFuel -> binary_loop f' l lft ts = binary_loop f l lft ts.
Proof. intros f f' l lft ts. apply (fuel_mono_all f). Qed.
Theorem right_loop_mono : forall f f' l ts, f <= f' ->
  fst (right_loop f l ts) <> PFuel -> right_loop f' l ts = right_loop f l ts.
Proof. intros f f' l ts. apply (fuel_mono_all f). Qed.
Theorem parse_unary_mono : forall f f' ts, f <= f' ->
  fst (parse_unary f ts) <> PFuel -> parse_unary f' ts = parse_unary f ts.
Proof. intros f f' ts. apply (fuel_mono_all f). Qed.


(* ================================================================== *)
(* 2. The parser reads explicit renderings back                        *)
(* ================================================================== *)

Lemma ast_of_not_none : forall e : expr F, ast_of e <> ANone.
Proof. induction e as [x|e IH|o l IHl r IHr]; simpl; try congruence. Qed.

Lemma parse_level_step f l (ts : list (token F)) a r :
  parse_sub f l ts = (PAst a, r) -> a <> ANone ->
  parse_level (S f) l ts = binary_loop f l a r.
Proof.
  intros Hs Ha. rewrite parse_level_S, Hs. destruct a; try reflexivity; congruence.
Qed.

Lemma right_loop_step f l (ts : list (token F)) a r :
  parse_sub f l ts = (PAst a, r) -> a <> ANone ->
  right_loop (S f) l ts = (PAst a, r).
Proof.
  intros Hs Ha. rewrite right_loop_S, Hs. destruct a; try reflexivity; congruence.
Qed.

(* fuel measure: an upper bound on the nesting of calls per node *)
Fixpoint cost (e : expr F) : nat :=
  match e with
  | Lit _ => 1
  | Par e => cost e + 9
  | Bin _ l r => cost l + cost r + 8
  end.

Lemma cost_le_length : forall e, cost e <= 9 * length (toks_of e).
Proof.
  induction e as [x|e IH|o l IHl r IHr]; cbn [cost toks_of].
  - simpl. lia.
  - cbn [length]. rewrite app_length. cbn [length]. lia.
  - rewrite app_length. cbn [length]. lia.
Qed.

(* the suffix does not continue a multiplicative (or modulo) chain *)
Definition nomul (suf : list (token F)) : Prop :=
  match_operator (level_ops LMulDiv) suf = None /\ match_operator (level_ops LModulo) suf = None.

Lemma level_of_bin o (l r : expr F) : level_of (Bin o l r) = bop_level o.
Proof. destruct o; reflexivity. Qed.

Lemma bop_level_cases o : bop_level o = 0 \/ bop_level o = 2.
Proof. destruct o; simpl; auto. Qed.

Lemma level_of_cases (e : expr F) : level_of e = 0 \/ level_of e = 2 \/ level_of e = 3.
Proof. destruct e as [x|e|o l r]; simpl; auto. destruct o; auto. Qed.

Lemma match_mul o (r : list (token F)) : bop_level o = 2 ->
  match_operator (level_ops LMulDiv) (TOperator (bop_char o) :: r) = Some (bop_char o).
Proof. destruct o; simpl; intro H; try discriminate; reflexivity. Qed.

Lemma match_add o (r : list (token F)) : bop_level o = 0 ->
  match_operator (level_ops LAddSub) (TOperator (bop_char o) :: r) = Some (bop_char o).
Proof. destruct o; simpl; intro H; try discriminate; reflexivity. Qed.

Lemma nomul_add o (r : list (token F)) : bop_level o = 0 -> nomul (TOperator (bop_char o) :: r).
Proof. destruct o; simpl; intro H; try discriminate; split; reflexivity. Qed.

Lemma nomul_rp (r : list (token F)) : nomul (TOperator OP_RP :: r).
Proof. split; reflexivity. Qed.

(* the three levels of the statement *)
(* an atom is read by parse_unary, whatever follows *)
Definition U (e : expr F) : Prop :=
  forall suf f, cost e <= f -> parse_unary f (toks_of e ++ suf) = (PAst (ast_of e), suf).
(* a multiplicative chain, whatever follows: reading it at level * / amounts to continuing
   the loop of that level from the accumulated left operand [ast_of e] *)
Definition M (e : expr F) : Prop :=
  forall suf n, nofuel (binary_loop n LMulDiv (ast_of e) suf) ->
  forall f, n + cost e + 2 <= f ->
  parse_level f LMulDiv (toks_of e ++ suf) = binary_loop n LMulDiv (ast_of e) suf.
(* an additive chain followed by something that is not * / % *)
Definition A (e : expr F) : Prop :=
  forall suf, nomul suf ->
  forall n, nofuel (binary_loop n LAddSub (ast_of e) suf) ->
  forall f, n + cost e + 7 <= f ->
  parse_level f LAddSub (toks_of e ++ suf) = binary_loop n LAddSub (ast_of e) suf.

Lemma U_Lit x : U (Lit x).
Proof.
  intros suf f Hf. simpl in Hf. destruct f as [|f]; [lia|].
  rewrite parse_unary_S. reflexivity.
Qed.

Lemma U_Par e : A e -> U (Par e).
Proof.
  intros HA suf f Hf. cbn [cost] in Hf. destruct f as [|f]; [lia|].
  cbn [toks_of ast_of]. rewrite <- app_comm_cons, <- app_assoc. cbn [app].
  rewrite parse_unary_S.
  change (parse_prefix_unary (TOperator OP_LP :: toks_of e ++ TOperator OP_RP :: suf))
    with (@PAst F ANone, TOperator OP_LP :: toks_of e ++ TOperator OP_RP :: suf).
  cbv iota beta.
  change (match_operator [OP_LP] (TOperator OP_LP :: toks_of e ++ TOperator OP_RP :: suf))
    with (Some OP_LP).
  cbv iota beta. cbn [tl].
  rewrite (HA (TOperator OP_RP :: suf) (nomul_rp suf) 1).
  - pose proof (ast_of_not_none e) as Hn.
    rewrite binary_loop_S.
    change (match_operator (level_ops LAddSub) (TOperator OP_RP :: suf)) with (@None N).
    cbv iota beta.
    destruct (ast_of e); try congruence; reflexivity.
  - unfold nofuel. rewrite binary_loop_S. simpl. congruence.
  - lia.
Qed.

Lemma M_of_U e : U e -> M e.
Proof.
  intros HU suf n Hnf f Hf. destruct f as [|[|f]]; try lia.
  rewrite (parse_level_step (S f) LMulDiv _ (ast_of e) suf).
  - apply binary_loop_mono; [lia|exact Hnf].
  - rewrite parse_sub_S. apply HU. lia.
  - apply ast_of_not_none.
Qed.

Lemma M_Bin o l r : bop_level o = 2 -> M l -> U r -> M (Bin o l r).
Proof.
  intros Ho HMl HUr suf n Hnf f Hf. cbn [toks_of ast_of cost] in *.
  rewrite <- app_assoc, <- app_comm_cons.
  assert (Hstep : binary_loop (n + cost r + 3) LMulDiv (ast_of l)
                              (TOperator (bop_char o) :: toks_of r ++ suf)
                  = binary_loop n LMulDiv (ABinary (ast_of l) (bop_char o) (ast_of r)) suf).
  { replace (n + cost r + 3) with (S (S (S (n + cost r)))) by lia.
    rewrite binary_loop_S, (match_mul o _ Ho). cbn [tl].
    rewrite (right_loop_step _ _ _ (ast_of r) suf).
    - apply binary_loop_mono; [lia|exact Hnf].
    - rewrite parse_sub_S. apply HUr. lia.
    - apply ast_of_not_none. }
  rewrite <- Hstep. apply HMl.
  - rewrite Hstep. exact Hnf.
  - lia.
Qed.

(* a multiplicative chain read at the (unused) modulo level *)
Lemma T_of_M e : M e -> forall suf, nomul suf -> forall f, cost e + 5 <= f ->
  parse_level f LModulo (toks_of e ++ suf) = (PAst (ast_of e), suf).
Proof.
  intros HM suf [Hmul Hmod] f Hf. destruct f as [|[|f]]; try lia.
  assert (Hb : binary_loop 1 LMulDiv (ast_of e) suf = (PAst (ast_of e), suf)).
  { rewrite binary_loop_S, Hmul. reflexivity. }
  rewrite (parse_level_step (S f) LModulo _ (ast_of e) suf).
  - rewrite binary_loop_S, Hmod. reflexivity.
  - rewrite parse_sub_S. rewrite (HM suf 1).
    + exact Hb.
    + rewrite Hb. unfold nofuel. simpl. congruence.
    + lia.
  - apply ast_of_not_none.
Qed.

Lemma A_of_M e : M e -> A e.
Proof.
  intros HM suf Hsuf n Hnf f Hf. destruct f as [|[|f]]; try lia.
  rewrite (parse_level_step (S f) LAddSub _ (ast_of e) suf).
  - apply binary_loop_mono; [lia|exact Hnf].
  - rewrite parse_sub_S. apply (T_of_M e HM suf Hsuf). lia.
  - apply ast_of_not_none.
Qed.

Lemma A_Bin o l r : bop_level o = 0 -> A l -> M r -> A (Bin o l r).
Proof.
  intros Ho HAl HMr suf Hsuf n Hnf f Hf. cbn [toks_of ast_of cost] in *.
  rewrite <- app_assoc, <- app_comm_cons.
  assert (Hstep : binary_loop (n + cost r + 8) LAddSub (ast_of l)
                              (TOperator (bop_char o) :: toks_of r ++ suf)
                  = binary_loop n LAddSub (ABinary (ast_of l) (bop_char o) (ast_of r)) suf).
  { replace (n + cost r + 8) with (S (S (S (n + cost r + 5)))) by lia.
    rewrite binary_loop_S, (match_add o _ Ho). cbn [tl].
    rewrite (right_loop_step _ _ _ (ast_of r) suf).
    - apply binary_loop_mono; [lia|exact Hnf].
    - rewrite parse_sub_S. apply (T_of_M r HMr suf Hsuf). lia.
    - apply ast_of_not_none. }
  rewrite <- Hstep. apply HAl.
  - apply nomul_add. exact Ho.
  - rewrite Hstep. exact Hnf.
  - lia.
Qed.

Lemma parse_main : forall e : expr F, wf e = true ->
  (level_of e = 3 -> U e) /\ (2 <= level_of e -> M e) /\ A e.
Proof.
  induction e as [x|e IH|o l IHl r IHr]; intro Hwf.
  - pose proof (U_Lit x) as HU. pose proof (M_of_U _ HU) as HM.
    repeat split; intros; auto using A_of_M.
  - cbn [wf] in Hwf. destruct (IH Hwf) as (_ & _ & HA).
    pose proof (U_Par e HA) as HU. pose proof (M_of_U _ HU) as HM.
    repeat split; intros; auto using A_of_M.
  - cbn [wf] in Hwf.
    apply andb_true_iff in Hwf as [Hwf Hr]. apply andb_true_iff in Hwf as [Hwf Hl].
    apply andb_true_iff in Hwf as [Hwl Hwr].
    apply Nat.leb_le in Hl. apply Nat.ltb_lt in Hr.
    destruct (IHl Hwl) as (_ & HMl & HAl). destruct (IHr Hwr) as (HUr & HMr & _).
    rewrite level_of_bin.
    assert (HM : bop_level o = 2 -> M (Bin o l r)).
    { intro Ho. apply M_Bin; [exact Ho| apply HMl; lia |apply HUr].
      destruct (level_of_cases r) as [H|[H|H]]; lia. }
    split; [|split].
    + intro H3. destruct (bop_level_cases o); lia.
    + intro H2. apply HM. destruct (bop_level_cases o); lia.
    + destruct (bop_level_cases o) as [Ho|Ho].
      * apply A_Bin; [exact Ho|exact HAl|]. apply HMr.
        destruct (level_of_cases r) as [H|[H|H]]; lia.
      * apply A_of_M. apply HM. exact Ho.
Qed.

(* the suffix does not start with one of + - * / % *)
Definition stop_tok (suf : list (token F)) : bool :=
  match suf with
  | TOperator c :: _ =>
    negb (N.eqb c OP_PLUS || N.eqb c OP_MINUS || N.eqb c OP_MUL || N.eqb c OP_DIV || N.eqb c OP_MOD)
  | _ => true
  end.

Lemma stop_tok_spec suf : stop_tok suf = true ->
  nomul suf /\ match_operator (level_ops LAddSub) suf = None.
Proof.
  unfold nomul. destruct suf as [|t r]; [repeat split|].
  destruct t; try (repeat split; reflexivity).
  unfold stop_tok, match_operator, level_ops, List.find.
  destruct (N.eqb c OP_PLUS), (N.eqb c OP_MINUS), (N.eqb c OP_MUL), (N.eqb c OP_DIV), (N.eqb c OP_MOD);
    simpl; intro H; try discriminate; repeat split; reflexivity.
Qed.

(* General form: the rendering followed by any suffix that does not continue the expression
   (the empty suffix, a closing parenthesis, ...), with any fuel above an explicit bound. *)
Theorem c02_parse_level_cost : forall (e : expr F) (suf : list (token F)) fuel,
  wf e = true -> stop_tok suf = true -> cost e + 8 <= fuel ->
  parse_level fuel LAddSub (toks_of e ++ suf) = (PAst (ast_of e), suf).
Proof.
  intros e suf fuel Hwf Hstop Hf.
  destruct (stop_tok_spec suf Hstop) as [Hnm Hadd].
  destruct (parse_main e Hwf) as (_ & _ & HA).
  assert (Hb : binary_loop 1 LAddSub (ast_of e) suf = (PAst (ast_of e), suf)).
  { rewrite binary_loop_S, Hadd. reflexivity. }
  rewrite (HA suf Hnm 1).
  - exact Hb.
  - rewrite Hb. unfold nofuel. simpl. congruence.
  - lia.
Qed.

Theorem c02_parse_level_suffix : forall (e : expr F) (suf : list (token F)) fuel,
  wf e = true -> stop_tok suf = true -> 9 * length (toks_of e) + 8 <= fuel ->
  parse_level fuel LAddSub (toks_of e ++ suf) = (PAst (ast_of e), suf).
Proof.
  intros e suf fuel Hwf Hstop Hf. apply c02_parse_level_cost; auto.
  pose proof (cost_le_length e). lia.
Qed.

(* 1. with the fuel the model actually uses *)
Theorem c02_parse_level : forall (e : expr F), wf e = true ->
  parse_level (parse_fuel (toks_of e)) LAddSub (toks_of e) = (PAst (ast_of e), []).
Proof.
  intros e Hwf.
  pose proof (c02_parse_level_suffix e [] (parse_fuel (toks_of e)) Hwf eq_refl) as H.
  rewrite app_nil_r in H. apply H. unfold parse_fuel. lia.
Qed.


(* ================================================================== *)
(* 3. The interpreter computes the value                               *)
(* ================================================================== *)

Theorem c02_eval : forall bexec cfg vs (e : expr F),
  execute_ast bexec cfg vs (ast_of e) = Ok (IOk (AItem (INumber (denote e) Decimal)), vs).
Proof.
  intros bexec cfg vs e. induction e as [x|e IH|o l IHl r IHr]; cbn [ast_of denote].
  - reflexivity.
  - exact IH.
  - cbn [execute_ast]. rewrite IHl. cbn [bind]. rewrite IHr. cbn [bind].
    destruct o; reflexivity.
Qed.

(* ================================================================== *)
(* 4. Post-processing leaves explicit renderings alone                 *)
(* ================================================================== *)

(* -- add_missing inserts nothing when no two operands are adjacent -- *)
Fixpoint alt_ok (ts : list (token F)) (b : bool) : bool :=
  match ts with
  | [] => true
  | t :: r => if is_any_op t then alt_ok r false else negb b && alt_ok r true
  end.

Lemma add_missing_id : forall ts b, alt_ok ts b = true -> add_missing ts b = ts.
Proof.
  induction ts as [|t r IH]; intros b H; simpl in *; [reflexivity|].
  destruct (is_any_op t).
  - f_equal. apply IH. exact H.
  - destruct b; simpl in H; [discriminate|]. f_equal. apply IH. exact H.
Qed.

Lemma alt_ok_weaken ts : alt_ok ts true = true -> alt_ok ts false = true.
Proof.
  destruct ts as [|t r]; simpl; auto. destruct (is_any_op t); auto. simpl. discriminate.
Qed.

Lemma alt_ok_toks : forall (e : expr F) suf,
  alt_ok suf true = true -> alt_ok (toks_of e ++ suf) false = true.
Proof.
  induction e as [x|e IH|o l IHl r IHr]; intros suf H; cbn [toks_of].
  - simpl. exact H.
  - rewrite <- app_comm_cons, <- app_assoc. simpl. apply IH. simpl. apply alt_ok_weaken, H.
  - rewrite <- app_assoc, <- app_comm_cons. apply IHl. simpl. apply IHr, H.
Qed.

Lemma alt_ok_skipn : forall k ts b, alt_ok ts b = true -> alt_ok (skipn k ts) false = true.
Proof.
  induction k as [|k IH]; intros ts b H.
  - simpl. destruct b; auto using alt_ok_weaken.
  - destruct ts as [|t r]; simpl; [reflexivity|]. simpl in H.
    destruct (is_any_op t).
    + eapply IH; eauto.
    + apply andb_true_iff in H as [_ H]. eapply IH; eauto.
Qed.

(* -- what follows an opening parenthesis -- *)
Definition sel (t : token F) : bool := is_op OP_EQ t || is_op OP_LP t.
Definition open_ok (t : token F) : bool := negb (is_any_op t) || is_op OP_LP t.
Definition first_ok (ts : list (token F)) : bool :=
  match ts with t :: _ => open_ok t | [] => false end.
Fixpoint lp_ok (ts : list (token F)) : bool :=
  match ts with
  | [] => true
  | t :: r => (if is_op OP_LP t then first_ok r else true) && lp_ok r
  end.
Definition noeq (ts : list (token F)) : bool := forallb (fun t => negb (is_op OP_EQ t)) ts.

Lemma first_ok_toks : forall (e : expr F) suf, first_ok (toks_of e ++ suf) = true.
Proof.
  induction e as [x|e IH|o l IHl r IHr]; intros suf; cbn [toks_of].
  - reflexivity.
  - reflexivity.
  - rewrite <- app_assoc. apply IHl.
Qed.

Lemma lp_ok_toks : forall (e : expr F) suf, lp_ok suf = true -> lp_ok (toks_of e ++ suf) = true.
Proof.
  induction e as [x|e IH|o l IHl r IHr]; intros suf H; cbn [toks_of].
  - simpl. exact H.
  - rewrite <- app_comm_cons, <- app_assoc. cbn [lp_ok]. apply andb_true_iff. split.
    + simpl. apply first_ok_toks.
    + apply IH. simpl. exact H.
  - rewrite <- app_assoc, <- app_comm_cons. apply IHl. cbn [lp_ok].
    apply andb_true_iff. split.
    + destruct o; reflexivity.
    + apply IHr, H.
Qed.

Lemma noeq_toks : forall (e : expr F), noeq (toks_of e) = true.
Proof.
  unfold noeq.
  induction e as [x|e IH|o l IHl r IHr]; cbn [toks_of].
  - reflexivity.
  - cbn [forallb]. rewrite forallb_app, IH. reflexivity.
  - rewrite forallb_app. cbn [forallb]. rewrite IHl, IHr. destruct o; reflexivity.
Qed.

Lemma find_index_none {A} (p : A -> bool) ts :
  forallb (fun t => negb (p t)) ts = true -> find_index p ts = None.
Proof.
  induction ts as [|t r IH]; simpl; [reflexivity|]. intro H.
  apply andb_true_iff in H as [H1 H2]. destruct (p t); [discriminate|].
  rewrite (IH H2). reflexivity.
Qed.

Lemma find_eq_toks (e : expr F) : find_index (is_op OP_EQ) (toks_of e) = None.
Proof. apply find_index_none. apply noeq_toks. Qed.

Lemma is_op_any c (t : token F) : is_op c t = true -> is_any_op t = true.
Proof. destruct t; simpl; congruence. Qed.

Lemma after_first_lp : forall ts i,
  find_index sel ts = Some i -> noeq ts = true -> lp_ok ts = true ->
  exists t, nth_opt ts (S i) = Some t /\ open_ok t = true.
Proof.
  induction ts as [|t r IH]; intros i Hf Hn Hl; simpl in Hf; [discriminate|].
  simpl in Hn. apply andb_true_iff in Hn as [Hn1 Hn2].
  cbn [lp_ok] in Hl. apply andb_true_iff in Hl as [Hl1 Hl2].
  destruct (sel t) eqn:Es.
  - inversion Hf; subst i. unfold sel in Es.
    destruct (is_op OP_EQ t); [discriminate|]. simpl in Es. rewrite Es in Hl1.
    destruct r as [|t' r']; simpl in Hl1; [discriminate|].
    exists t'. split; [reflexivity|exact Hl1].
  - destruct (find_index sel r) as [i'|] eqn:E; simpl in Hf; [|discriminate].
    inversion Hf; subst i. destruct (IH i' eq_refl Hn2 Hl2) as (t' & Ht & Ho).
    exists t'. split; [exact Ht|exact Ho].
Qed.

Lemma find_index_none_hd {A} (p : A -> bool) t r : find_index p (t :: r) = None -> p t = false.
Proof. simpl. destruct (p t); [discriminate|reflexivity]. Qed.

Lemma nth_opt_lt {A} : forall (ts : list A) k, k < length ts -> exists t, nth_opt ts k = Some t.
Proof.
  induction ts as [|t r IH]; intros k H; simpl in H; [lia|].
  destruct k as [|k]; simpl; [eauto|]. apply IH. lia.
Qed.

Lemma skipn_nth {A} : forall (ts : list A) k t, nth_opt ts k = Some t ->
  skipn k ts = t :: skipn (S k) ts.
Proof.
  induction ts as [|x r IH]; intros k t H; [destruct k; discriminate|].
  destruct k as [|k]; simpl in *.
  - congruence.
  - apply IH. exact H.
Qed.

(* the body of missing_token_adder, as a function of the first index *)
Definition mta_from (ts : list (token F)) (index : nat) : list (token F) :=
  if Nat.leb (length ts) (index + 1) then ts
  else
    let index' := match nth_opt ts index with
                  | Some t => if is_op OP_LP t then S index else index
                  | None => index end in
    match skipn index' ts with
    | [] => ts
    | t :: _ =>
      firstn index' ts ++
      add_missing (if is_any_op t then TNumber f0 Decimal :: skipn index' ts else skipn index' ts) false
    end.

Lemma mta_eq ts : missing_token_adder ts =
  match ts with
  | [] => []
  | _ => mta_from ts (match find_index sel ts with Some i => S i | None => 0 end)
  end.
Proof. destruct ts; reflexivity. Qed.

Lemma mta_tail ts k t :
  nth_opt ts k = Some t -> is_any_op t = false -> alt_ok ts false = true ->
  match skipn k ts with
  | [] => ts
  | t :: _ =>
    firstn k ts ++
    add_missing (if is_any_op t then TNumber f0 Decimal :: skipn k ts else skipn k ts) false
  end = ts.
Proof.
  intros Hn Hop Halt. pose proof (skipn_nth ts k t Hn) as Hs.
  pose proof (alt_ok_skipn k ts false Halt) as Hsk.
  pose proof (firstn_skipn k ts) as Hfs.
  destruct (skipn k ts) as [|t' r']; [reflexivity|].
  assert (Ht : t' = t) by congruence. subst t'. clear Hs.
  rewrite Hop. rewrite add_missing_id; [exact Hfs|exact Hsk].
Qed.

(* the general fact, for any token list in which operands alternate with operators, there is
   no '=', and every '(' is followed by an operand or another '(' *)
Lemma mta_id_core ts :
  alt_ok ts false = true ->
  (forall i, find_index sel ts = Some i ->
             exists t, nth_opt ts (S i) = Some t /\ open_ok t = true) ->
  (find_index sel ts = None -> first_ok ts = true) ->
  known_paren3 ts = false -> missing_token_adder ts = ts.
Proof.
  intros Halt Hafter Hfirst Hk. rewrite mta_eq.
  destruct ts as [|t0 r0] eqn:Ets; [reflexivity|]. rewrite <- Ets in *.
  unfold known_paren3 in Hk. fold sel in Hk.
  unfold mta_from.
  destruct (find_index sel ts) as [i|] eqn:Efi.
  - destruct (Hafter i eq_refl) as (t1 & Ht1 & Ho1).
    destruct (Nat.leb (length ts) (S i + 1)) eqn:Elen; [reflexivity|].
    apply Nat.leb_gt in Elen.
    rewrite Ht1 in *. cbv zeta.
    destruct (is_op OP_LP t1) eqn:Elp.
    + destruct (nth_opt_lt ts (S (S i))) as (t2 & Ht2); [lia|].
      rewrite Ht2 in Hk. simpl in Hk.
      apply (mta_tail ts (S (S i)) t2); assumption.
    + apply (mta_tail ts (S i) t1); try assumption.
      unfold open_ok in Ho1. rewrite Elp, orb_false_r in Ho1.
      apply negb_true_iff in Ho1. exact Ho1.
  - destruct (Nat.leb (length ts) (0 + 1)) eqn:Elen; [reflexivity|].
    assert (Hn0 : nth_opt ts 0 = Some t0) by (rewrite Ets; reflexivity).
    assert (Hop0 : is_any_op t0 = false).
    { specialize (Hfirst eq_refl).
      rewrite Ets in Efi, Hfirst. apply find_index_none_hd in Efi. simpl in Hfirst.
      unfold sel in Efi. apply orb_false_iff in Efi as [_ Efi].
      unfold open_ok in Hfirst. rewrite Efi, orb_false_r in Hfirst.
      apply negb_true_iff in Hfirst. exact Hfirst. }
    rewrite Hn0. cbv zeta.
    assert (Hlp0 : is_op OP_LP t0 = false).
    { destruct (is_op OP_LP t0) eqn:E; [|reflexivity].
      apply is_op_any in E. congruence. }
    rewrite Hlp0. apply (mta_tail ts 0 t0); assumption.
Qed.

Lemma mta_id_gen ts :
  alt_ok ts false = true -> noeq ts = true -> lp_ok ts = true -> first_ok ts = true ->
  known_paren3 ts = false -> missing_token_adder ts = ts.
Proof.
  intros Halt Hne Hlp Hfirst Hk. apply mta_id_core; auto.
  intros i Hi. apply after_first_lp; assumption.
Qed.

Theorem c02_missing_token_adder_id : forall (e : expr F),
  wf e = true -> known_paren3 (toks_of e) = false ->
  missing_token_adder (toks_of e) = toks_of e.
Proof.
  intros e _ Hk. apply mta_id_gen; try exact Hk.
  - rewrite <- (app_nil_r (toks_of e)). apply alt_ok_toks. reflexivity.
  - apply noeq_toks.
  - rewrite <- (app_nil_r (toks_of e)). apply lp_ok_toks. reflexivity.
  - rewrite <- (app_nil_r (toks_of e)). apply first_ok_toks.
Qed.

Lemma filter_notext : forall (e : expr F),
  filter (fun t => negb (is_text t)) (toks_of e) = toks_of e.
Proof.
  induction e as [x|e IH|o l IHl r IHr]; cbn [toks_of].
  - reflexivity.
  - cbn [filter is_text negb]. rewrite filter_app, IH. reflexivity.
  - rewrite filter_app. cbn [filter is_text negb]. rewrite IHl, IHr. reflexivity.
Qed.

Theorem c02_token_cleaner_id : forall infos (e : expr F),
  find_index info_is_eq infos = None ->
  token_cleaner infos (toks_of e) = toks_of e.
Proof.
  intros infos e H. unfold token_cleaner. rewrite H. cbn [firstn skipn app].
  apply filter_notext.
Qed.

(* ================================================================== *)
(* 5. The whole token-level pipeline                                   *)
(* ================================================================== *)

Lemma parse_expr_line : forall vs (e : expr F), wf e = true ->
  parse (toks_of e) vs = (PAst (ast_of e), vs).
Proof.
  intros vs e Hwf. unfold parse, parse_assignment. rewrite find_eq_toks.
  rewrite (c02_parse_level e Hwf). reflexivity.
Qed.

Theorem c02_token_level : forall bexec cfg vs infos (e : expr F),
  wf e = true -> known_paren3 (toks_of e) = false -> find_index info_is_eq infos = None ->
  let tokens := missing_token_adder (token_cleaner infos (toks_of e)) in
  exists vs', parse tokens vs = (PAst (ast_of e), vs') /\ vs' = vs /\
  execute_ast bexec cfg vs' (ast_of e) = Ok (IOk (AItem (INumber (denote e) Decimal)), vs').
Proof.
  intros bexec cfg vs infos e Hwf Hk Hinf tokens. subst tokens.
  rewrite (c02_token_cleaner_id infos e Hinf), (c02_missing_token_adder_id e Hwf Hk).
  exists vs. split; [apply parse_expr_line; exact Hwf|]. split; [reflexivity|apply c02_eval].
Qed.

(* ================================================================== *)
(* 6. parenthesise                                                     *)
(* ================================================================== *)

Lemma bop_level_le3 o : Nat.leb (bop_level o) 3 = true.
Proof. destruct o; reflexivity. Qed.
Lemma bop_level_lt3 o : Nat.ltb (bop_level o) 3 = true.
Proof. destruct o; reflexivity. Qed.

Theorem c02_parenthesise_wf : forall (e : expr F), wf (parenthesise e) = true.
Proof.
  induction e as [x|e IH|o l IHl r IHr]; cbn [parenthesise wf].
  - reflexivity.
  - exact IH.
  - destruct (Nat.leb (bop_level o) (level_of (parenthesise l))) eqn:El;
    destruct (Nat.ltb (bop_level o) (level_of (parenthesise r))) eqn:Er;
    cbn [wf level_of]; rewrite ?IHl, ?IHr, ?El, ?Er, ?bop_level_le3, ?bop_level_lt3; reflexivity.
Qed.

Theorem c02_parenthesise_denote : forall (e : expr F), denote (parenthesise e) = denote e.
Proof.
  induction e as [x|e IH|o l IHl r IHr]; cbn [parenthesise denote].
  - reflexivity.
  - exact IH.
  - destruct (Nat.leb (bop_level o) (level_of (parenthesise l)));
    destruct (Nat.ltb (bop_level o) (level_of (parenthesise r)));
    destruct o; cbn [denote]; rewrite IHl, IHr; reflexivity.
Qed.


(* ================================================================== *)
(* 7. Bonus: [known_paren3] is exactly the defect class                *)
(* ================================================================== *)

Lemma add_missing_length : forall (ts : list (token F)) b, length ts <= length (add_missing ts b).
Proof.
  induction ts as [|t r IH]; intros b; simpl; [lia|].
  destruct (is_any_op t); [|destruct b]; simpl.
  - specialize (IH false). lia.
  - specialize (IH true). lia.
  - specialize (IH true). lia.
Qed.

Lemma nth_opt_some_lt {A} : forall (ts : list A) k t, nth_opt ts k = Some t -> k < length ts.
Proof.
  induction ts as [|x r IH]; intros k t H; [destruct k; discriminate|].
  destruct k as [|k]; simpl in *; [lia|]. apply IH in H. lia.
Qed.

Lemma mta_paren3_longer (ts : list (token F)) :
  known_paren3 ts = true -> length ts < length (missing_token_adder ts).
Proof.
  unfold known_paren3. fold sel. intro Hk.
  destruct (find_index sel ts) as [i|] eqn:Efi; [|discriminate].
  destruct (nth_opt ts (S i)) as [a|] eqn:Ha; [|discriminate].
  destruct (nth_opt ts (S (S i))) as [b|] eqn:Hb; [|discriminate].
  apply andb_true_iff in Hk as [Hlp Hop].
  pose proof (nth_opt_some_lt _ _ _ Hb) as Hlen.
  rewrite mta_eq. destruct ts as [|t0 r0] eqn:Ets; [discriminate|]. rewrite <- Ets in *.
  rewrite Efi. unfold mta_from.
  destruct (Nat.leb (length ts) (S i + 1)) eqn:Elen; [apply Nat.leb_le in Elen; lia|].
  rewrite Ha, Hlp. cbv zeta.
  pose proof (skipn_nth ts (S (S i)) b Hb) as Hs.
  pose proof (skipn_length (S (S i)) ts) as Hsl.
  pose proof (firstn_length_le ts (n := S (S i))) as Hfl.
  destruct (skipn (S (S i)) ts) as [|b' r']; [discriminate|].
  assert (Hbb : b' = b) by congruence. subst b'. rewrite Hop.
  rewrite app_length.
  change (add_missing (TNumber f0 Decimal :: b :: r') false)
    with (TNumber f0 Decimal :: add_missing (b :: r') true).
  pose proof (add_missing_length (b :: r') true) as Hal. cbn [length] in Hal, Hsl |- *.
  rewrite Hfl by lia. lia.
Qed.

Theorem c02_missing_token_adder_iff : forall (e : expr F),
  missing_token_adder (toks_of e) = toks_of e <-> known_paren3 (toks_of e) = false.
Proof.
  intro e. split.
  - intro Heq. destruct (known_paren3 (toks_of e)) eqn:Hk; [|reflexivity].
    apply mta_paren3_longer in Hk. rewrite Heq in Hk. lia.
  - intro Hk. apply mta_id_gen; try exact Hk.
    + rewrite <- (app_nil_r (toks_of e)). apply alt_ok_toks. reflexivity.
    + apply noeq_toks.
    + rewrite <- (app_nil_r (toks_of e)). apply lp_ok_toks. reflexivity.
    + rewrite <- (app_nil_r (toks_of e)). apply first_ok_toks.
Qed.

(* ================================================================== *)
(* Stretch (a): assignment  "name = e"                                 *)
(* ================================================================== *)

Definition assign_toks (n : str) (e : expr F) : list (token F) :=
  TText n :: TOperator OP_EQ :: toks_of e.

(* parsing: the right-hand side is read back as the tree and the variable is registered
   (with no value yet) unless the session already has it *)
Theorem c02_assign_parse : forall vs n (e : expr F), wf e = true ->
  parse (assign_toks n e) vs =
  (PAst (AAssignment (to_lowercase n) (ast_of e)),
   if assoc_mem (to_lowercase n) vs then vs
   else assoc_insert (to_lowercase n) {| v_tokens := [TText n]; v_data := ANone |} vs).
Proof.
  intros vs n e Hwf. unfold parse, parse_assignment, assign_toks.
  change (find_index (is_op OP_EQ) (TText n :: TOperator OP_EQ :: toks_of e)) with (Some 1).
  cbv iota beta.
  change (nth_opt (TText n :: TOperator OP_EQ :: toks_of e) 0) with (Some (@TText F n)).
  cbv iota beta.
  change (assign_name_loop (S (length (TText n :: TOperator OP_EQ :: toks_of e)))
                           (TText n :: TOperator OP_EQ :: toks_of e) vs 0
                           (to_lowercase (token_to_string vs (TText n))))
    with (2, to_lowercase n).
  cbv iota beta. cbn [skipn Nat.pred firstn].
  pose proof (c02_parse_level_suffix e []
                (parse_fuel (TText n :: TOperator OP_EQ :: toks_of e)) Hwf eq_refl) as Hp.
  rewrite app_nil_r in Hp. rewrite Hp by (unfold parse_fuel; cbn [length]; lia).
  pose proof (ast_of_not_none e) as Hn.
  destruct (ast_of e); try congruence; reflexivity.
Qed.

Lemma assoc_insert_same {A} (k : str) (v : A) : forall l, assoc k (assoc_insert k v l) = Some v.
Proof.
  induction l as [|[k' v'] r IH]; simpl.
  - rewrite str_eqb_refl. reflexivity.
  - destruct (str_eqb k k') eqn:E.
    + simpl. rewrite str_eqb_refl. reflexivity.
    + destruct (str_ltb k k').
      * simpl. rewrite str_eqb_refl. reflexivity.
      * simpl. rewrite E. exact IH.
Qed.

(* execution: the computed value is stored in the registered variable *)
Theorem c02_assign_exec : forall bexec cfg vs name vi (e : expr F),
  assoc name vs = Some vi ->
  execute_ast bexec cfg vs (AAssignment name (ast_of e)) =
  Ok (IOk (AItem (INumber (denote e) Decimal)),
      assoc_insert name {| v_tokens := v_tokens vi;
                           v_data := AItem (INumber (denote e) Decimal) |} vs).
Proof.
  intros bexec cfg vs name vi e Hvi. cbn [execute_ast]. rewrite c02_eval. cbn [bind].
  rewrite Hvi. reflexivity.
Qed.

Theorem c02_assignment : forall bexec cfg vs n (e : expr F),
  wf e = true -> assoc_mem (to_lowercase n) vs = false ->
  let name := to_lowercase n in
  exists vs1 vs2,
    parse (assign_toks n e) vs = (PAst (AAssignment name (ast_of e)), vs1) /\
    assoc name vs1 = Some {| v_tokens := [TText n]; v_data := ANone |} /\
    execute_ast bexec cfg vs1 (AAssignment name (ast_of e)) =
      Ok (IOk (AItem (INumber (denote e) Decimal)), vs2) /\
    assoc name vs2 =
      Some {| v_tokens := [TText n]; v_data := AItem (INumber (denote e) Decimal) |}.
Proof.
  intros bexec cfg vs n e Hwf Hmem name. subst name.
  rewrite (c02_assign_parse vs n e Hwf), Hmem.
  eexists. eexists. split; [reflexivity|]. split; [apply assoc_insert_same|].
  split.
  - apply c02_assign_exec. apply assoc_insert_same.
  - cbn [v_tokens]. apply assoc_insert_same.
Qed.

(* post-processing of the assignment line: the '=' is what missing_token_adder keys on, so
   the defect class is the same predicate on the whole line ("x = ((1+2))" is in it) *)
Lemma forallb_skipn {A} (p : A -> bool) : forall k l, forallb p l = true -> forallb p (skipn k l) = true.
Proof.
  induction k as [|k IH]; intros l H; [exact H|]. destruct l as [|x r]; [reflexivity|].
  simpl in *. apply andb_true_iff in H as [_ H]. apply IH, H.
Qed.

Lemma filter_id {A} (p : A -> bool) : forall l, forallb p l = true -> filter p l = l.
Proof.
  induction l as [|x r IH]; simpl; [reflexivity|]. intro H.
  apply andb_true_iff in H as [H1 H2]. rewrite H1, (IH H2). reflexivity.
Qed.

Lemma notext_toks : forall (e : expr F), forallb (fun t => negb (is_text t)) (toks_of e) = true.
Proof.
  induction e as [x|e IH|o l IHl r IHr]; cbn [toks_of].
  - reflexivity.
  - cbn [forallb is_text negb andb]. rewrite forallb_app, IH. reflexivity.
  - rewrite forallb_app. cbn [forallb is_text negb andb]. rewrite IHl, IHr. reflexivity.
Qed.

Theorem c02_assign_token_cleaner_id : forall infos i n (e : expr F),
  find_index info_is_eq infos = Some i ->
  token_cleaner infos (assign_toks n e) = assign_toks n e.
Proof.
  intros infos i n e H. unfold token_cleaner, assign_toks. rewrite H.
  cbn [firstn skipn]. rewrite filter_id.
  - rewrite <- app_comm_cons. f_equal. apply firstn_skipn.
  - apply forallb_skipn. cbn [forallb is_text negb andb]. apply notext_toks.
Qed.

Theorem c02_assign_missing_token_adder_id : forall n (e : expr F),
  known_paren3 (assign_toks n e) = false ->
  missing_token_adder (assign_toks n e) = assign_toks n e.
Proof.
  intros n e Hk. apply mta_id_core; try exact Hk.
  - unfold assign_toks. cbn [alt_ok is_any_op negb andb].
    rewrite <- (app_nil_r (toks_of e)). apply alt_ok_toks. reflexivity.
  - intros i Hi. unfold assign_toks in *.
    change (find_index sel (TText n :: TOperator OP_EQ :: toks_of e)) with (Some 1) in Hi.
    inversion Hi; subst i. cbn [nth_opt].
    pose proof (first_ok_toks e []) as Hf. rewrite app_nil_r in Hf.
    destruct (toks_of e) as [|t r]; [discriminate|]. exists t. split; [reflexivity|exact Hf].
  - unfold assign_toks.
    change (find_index sel (TText n :: TOperator OP_EQ :: toks_of e)) with (Some 1).
    discriminate.
Qed.

(* ================================================================== *)
(* Stretch (b): juxtaposition  "x1 x2 ... xn"  is the left-to-right sum *)
(* ================================================================== *)

Definition nums (xs : list F) : list (token F) := map (fun x => TNumber x Decimal) xs.

Fixpoint plus_chain (acc : expr F) (xs : list F) : expr F :=
  match xs with
  | [] => acc
  | y :: r => plus_chain (Bin BAdd acc (Lit y)) r
  end.

Definition plus_toks (xs : list F) : list (token F) :=
  flat_map (fun y => [TOperator OP_PLUS; TNumber y Decimal]) xs.

Lemma add_missing_nums : forall xs, add_missing (nums xs) true = plus_toks xs.
Proof. induction xs as [|y r IH]; simpl; [reflexivity|]. rewrite IH. reflexivity. Qed.

Lemma toks_plus_chain : forall xs acc, toks_of (plus_chain acc xs) = toks_of acc ++ plus_toks xs.
Proof.
  induction xs as [|y r IH]; intros acc; simpl.
  - rewrite app_nil_r. reflexivity.
  - rewrite IH. cbn [toks_of bop_char]. rewrite <- app_assoc. reflexivity.
Qed.

Lemma wf_plus_chain : forall xs acc, wf acc = true -> wf (plus_chain acc xs) = true.
Proof.
  induction xs as [|y r IH]; intros acc H; simpl; [exact H|].
  apply IH. cbn [wf bop_level level_of]. rewrite H. reflexivity.
Qed.

Lemma denote_plus_chain : forall xs acc, denote (plus_chain acc xs) = fold_left fadd xs (denote acc).
Proof. induction xs as [|y r IH]; intros acc; simpl; [reflexivity|]. rewrite IH. reflexivity. Qed.

Lemma find_sel_nums : forall xs, find_index sel (nums xs) = None.
Proof. induction xs as [|y r IH]; simpl; [reflexivity|]. rewrite IH. reflexivity. Qed.

(* missing_token_adder writes the '+' between consecutive numbers *)
Theorem c02_juxtaposition_tokens : forall x xs,
  missing_token_adder (nums (x :: xs)) = toks_of (plus_chain (Lit x) xs).
Proof.
  intros x xs. rewrite toks_plus_chain, mta_eq. cbn [nums map].
  fold (nums xs). change (TNumber x Decimal :: nums xs) with (nums (x :: xs)).
  rewrite find_sel_nums. destruct xs as [|y r]; [reflexivity|].
  unfold mta_from. cbn [nums map length Nat.leb Nat.add nth_opt is_op skipn firstn app is_any_op].
  cbn [add_missing is_any_op]. fold (nums r). rewrite add_missing_nums. reflexivity.
Qed.

Theorem c02_juxtaposition : forall bexec cfg vs x xs,
  let tokens := missing_token_adder (nums (x :: xs)) in
  exists a, parse tokens vs = (PAst a, vs) /\
  execute_ast bexec cfg vs a = Ok (IOk (AItem (INumber (fold_left fadd xs x) Decimal)), vs).
Proof.
  intros bexec cfg vs x xs tokens. subst tokens. rewrite c02_juxtaposition_tokens.
  exists (ast_of (plus_chain (Lit x) xs)). split.
  - apply parse_expr_line. apply wf_plus_chain. reflexivity.
  - rewrite c02_eval, denote_plus_chain. reflexivity.
Qed.

End WithNum.

Print Assumptions parse_level_mono.
Print Assumptions parse_sub_mono.
Print Assumptions binary_loop_mono.
Print Assumptions right_loop_mono.
Print Assumptions parse_unary_mono.
Print Assumptions c02_parse_level_cost.
Print Assumptions c02_parse_level_suffix.
Print Assumptions c02_parse_level.
Print Assumptions c02_eval.
Print Assumptions c02_missing_token_adder_id.
Print Assumptions c02_token_cleaner_id.
Print Assumptions c02_token_level.
Print Assumptions c02_parenthesise_wf.
Print Assumptions c02_parenthesise_denote.
Print Assumptions c02_missing_token_adder_iff.
Print Assumptions c02_assign_parse.
Print Assumptions c02_assign_exec.
Print Assumptions c02_assignment.
Print Assumptions c02_assign_token_cleaner_id.
Print Assumptions c02_assign_missing_token_adder_id.
Print Assumptions c02_juxtaposition_tokens.
Print Assumptions c02_juxtaposition.
