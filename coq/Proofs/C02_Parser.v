(* SC.Proofs.C02_Parser -- property C02 (arithmetic): the recursive-descent parser reads the
   explicit rendering of a well-formed expression tree back as that tree, the interpreter
   computes its value under the usual rules, and the post-processing steps leave explicit
   renderings alone, write the '+' between adjacent operands (juxtaposition), supply the 0 in
   front of a leading sign and leave detached signs in operand position to the parser.

   There is no known-defect hypothesis any more.
   Everything is polymorphic in the number algebra.  No axioms. *)
From SC.Model Require Import Base Num Types Config Case Post Parser Items Interp.
From SC.Spec Require Import Expr.
From Coq Require Import Arith Lia.

Local Open Scope nat_scope.

Section WithNum.
Context {F : Type} {NF : Num F}.

(* ================================================================== *)
(* 0. Unfolding equations of the mutual fixpoint (six functions)       *)
(* ================================================================== *)

Lemma parse_level_S f l (ts : list (token F)) :
  parse_level (S f) l ts =
  match parse_sub f l ts with
  | (PAst ANone, r) => (PAst ANone, r)
  | (PAst lft, r) => binary_loop f l lft r
  | r => r
  end.
Proof. reflexivity. Qed.

Lemma parse_sub_S f l (ts : list (token F)) :
  parse_sub (S f) l ts =
  match l with
  | LAddSub => parse_level f LModulo ts
  | LModulo => parse_level f LMulDiv ts
  | LMulDiv => parse_unary f ts
  end.
Proof. reflexivity. Qed.

Lemma binary_loop_S f l lft (ts : list (token F)) :
  binary_loop (S f) l lft ts =
  match match_operator (level_ops l) ts with
  | Some op =>
    match right_loop f l (tl ts) with
    | (PAst r, rest) => binary_loop f l (ABinary lft op r) rest
    | e => e
    end
  | None => (PAst lft, ts)
  end.
Proof. reflexivity. Qed.

Lemma right_loop_S f l (ts : list (token F)) :
  right_loop (S f) l ts =
  match parse_sub f l ts with
  | (PAst ANone, r) => right_loop f l r
  | r => r
  end.
Proof. reflexivity. Qed.

Lemma parse_unary_S f (ts : list (token F)) :
  parse_unary (S f) ts =
  match match_operator [OP_MINUS; OP_PLUS] ts with
  | Some op =>
    match tl ts with
    | t :: r' =>
      let opt := if N.eqb op OP_PLUS then f1 else fm1 in
      match t with
      | TNumber x nt => (PAst (AItem (INumber (fmul x opt) nt)), r')
      | TVariable v => (PAst (APrefixUnary op (AVariable v)), r')
      | TPercent x => (PAst (APrefixUnary op (AItem (IPercent x))), r')
      | TMoney x c => (PAst (APrefixUnary op (APrefixUnary op (AItem (IMoney x c)))), r')
      | TOperator c =>
        if N.eqb c OP_LP then
          match parse_paren f (tl ts) with
          | (PAst a, rest) => (PAst (APrefixUnary op a), rest)
          | e => e
          end
        else (PErr E_UNARY, ts)
      | _ => (PErr E_UNARY, ts)
      end
    | [] => parse_basic []
    end
  | None =>
    match match_operator [OP_LP] ts with
    | Some _ => parse_paren f ts
    | None => parse_basic ts
    end
  end.
Proof. reflexivity. Qed.

Lemma parse_paren_S f (ts : list (token F)) :
  parse_paren (S f) ts =
  match parse_level f LAddSub (tl ts) with
  | (PFuel, r) => (PFuel, r)
  | (PAst ANone, _) => (PErr E_INVALID, ts)
  | (PErr m, _) => (PErr m, ts)
  | (PAst a, r) =>
    match match_operator [OP_RP] r with
    | Some _ => (PAst a, tl r)
    | None => (PErr E_PAREN, ts)
    end
  end.
Proof. reflexivity. Qed.

Lemma parse_level_0 l (ts : list (token F)) : parse_level 0 l ts = (PFuel, ts).
Proof. reflexivity. Qed.
Lemma parse_sub_0 l (ts : list (token F)) : parse_sub 0 l ts = (PFuel, ts).
Proof. reflexivity. Qed.
Lemma binary_loop_0 l lft (ts : list (token F)) : binary_loop 0 l lft ts = (PFuel, ts).
Proof. reflexivity. Qed.
Lemma right_loop_0 l (ts : list (token F)) : right_loop 0 l ts = (PFuel, ts).
Proof. reflexivity. Qed.
Lemma parse_unary_0 (ts : list (token F)) : parse_unary 0 ts = (PFuel, ts).
Proof. reflexivity. Qed.
Lemma parse_paren_0 (ts : list (token F)) : parse_paren 0 ts = (PFuel, ts).
Proof. reflexivity. Qed.

(* the three shapes of parse_unary used below *)
Lemma parse_unary_lp f (r : list (token F)) :
  parse_unary (S f) (TOperator OP_LP :: r) = parse_paren f (TOperator OP_LP :: r).
Proof. reflexivity. Qed.

Lemma parse_unary_sign_num f m x nt (r : list (token F)) :
  parse_unary (S f) (TOperator (sign_char m) :: TNumber x nt :: r) =
  (PAst (AItem (INumber (fmul x (if m then fm1 else f1)) nt)), r).
Proof. destruct m; reflexivity. Qed.

Lemma parse_unary_sign_lp f m (r : list (token F)) :
  parse_unary (S f) (TOperator (sign_char m) :: TOperator OP_LP :: r) =
  match parse_paren f (TOperator OP_LP :: r) with
  | (PAst a, rest) => (PAst (APrefixUnary (sign_char m) a), rest)
  | e => e
  end.
Proof. destruct m; reflexivity. Qed.

(* ================================================================== *)
(* 1. Fuel monotonicity                                                *)
(* ================================================================== *)

Definition nofuel (r : @pres F * list (token F)) : Prop := fst r <> PFuel.

Definition mono_at (f : nat) : Prop :=
  (forall l ts f', f <= f' -> nofuel (parse_level f l ts) -> parse_level f' l ts = parse_level f l ts) /\
  (forall l ts f', f <= f' -> nofuel (parse_sub f l ts) -> parse_sub f' l ts = parse_sub f l ts) /\
  (forall l lft ts f', f <= f' -> nofuel (binary_loop f l lft ts) ->
                       binary_loop f' l lft ts = binary_loop f l lft ts) /\
  (forall l ts f', f <= f' -> nofuel (right_loop f l ts) -> right_loop f' l ts = right_loop f l ts) /\
  (forall ts f', f <= f' -> nofuel (parse_unary f ts) -> parse_unary f' ts = parse_unary f ts) /\
  (forall ts f', f <= f' -> nofuel (parse_paren f ts) -> parse_paren f' ts = parse_paren f ts).

Lemma fuel_mono_all : forall f, mono_at f.
Proof.
  induction f as [|f IH].
  - unfold mono_at, nofuel; repeat split; intros; exfalso; simpl in *; congruence.
  - destruct IH as (IHpl & IHps & IHbl & IHrl & IHpu & IHpp).
    unfold mono_at. repeat split.
    + (* parse_level *)
      intros l ts f' Hle Hnf. destruct f' as [|f']; [lia|]. assert (Hle' : f <= f') by lia.
      rewrite parse_level_S in Hnf. rewrite !parse_level_S.
      destruct (parse_sub f l ts) as [p r] eqn:E.
      assert (Hs : nofuel (parse_sub f l ts)).
      { rewrite E. unfold nofuel in *. destruct p as [a| |]; simpl in *; try congruence.  }
      rewrite (IHps l ts f' Hle' Hs), E.
      destruct p as [a|m|]; try reflexivity.
      destruct a; try reflexivity; apply IHbl; assumption.
    + (* parse_sub *)
      intros l ts f' Hle Hnf. destruct f' as [|f']; [lia|]. assert (Hle' : f <= f') by lia.
      rewrite parse_sub_S in Hnf. rewrite !parse_sub_S.
      destruct l; [apply IHpl | apply IHpl | apply IHpu]; assumption.
    + (* binary_loop *)
      intros l lft ts f' Hle Hnf. destruct f' as [|f']; [lia|]. assert (Hle' : f <= f') by lia.
      rewrite binary_loop_S in Hnf. rewrite !binary_loop_S.
      destruct (match_operator (level_ops l) ts) as [op|]; [|reflexivity].
      destruct (right_loop f l (tl ts)) as [p r] eqn:E.
      assert (Hs : nofuel (right_loop f l (tl ts))).
      { rewrite E. unfold nofuel in *. destruct p as [a| |]; simpl in *; congruence. }
      rewrite (IHrl l (tl ts) f' Hle' Hs), E.
      destruct p as [a|m|]; try reflexivity.
      apply IHbl; assumption.
    + (* right_loop *)
      intros l ts f' Hle Hnf. destruct f' as [|f']; [lia|]. assert (Hle' : f <= f') by lia.
      rewrite right_loop_S in Hnf. rewrite !right_loop_S.
      destruct (parse_sub f l ts) as [p r] eqn:E.
      assert (Hs : nofuel (parse_sub f l ts)).
      { rewrite E. unfold nofuel in *. destruct p as [a| |]; simpl in *; congruence. }
      rewrite (IHps l ts f' Hle' Hs), E.
      destruct p as [a|m|]; try reflexivity.
      destruct a; try reflexivity; apply IHrl; assumption.
    + (* parse_unary *)
      intros ts f' Hle Hnf. destruct f' as [|f']; [lia|]. assert (Hle' : f <= f') by lia.
      rewrite parse_unary_S in Hnf. rewrite !parse_unary_S.
      destruct (match_operator [OP_MINUS; OP_PLUS] ts) as [op|].
      * destruct (tl ts) as [|t r']; [reflexivity|]. cbv zeta in *.
        destruct t; try reflexivity.
        destruct (N.eqb c OP_LP); [|reflexivity].
        destruct (parse_paren f (TOperator c :: r')) as [p r] eqn:E.
        assert (Hs : nofuel (parse_paren f (TOperator c :: r'))).
        { rewrite E. unfold nofuel in *. destruct p as [a| |]; simpl in *; congruence. }
        rewrite (IHpp (TOperator c :: r') f' Hle' Hs), E. reflexivity.
      * destruct (match_operator [OP_LP] ts) as [op|]; [|reflexivity].
        apply IHpp; assumption.
    + (* parse_paren *)
      intros ts f' Hle Hnf. destruct f' as [|f']; [lia|]. assert (Hle' : f <= f') by lia.
      rewrite parse_paren_S in Hnf. rewrite !parse_paren_S.
      destruct (parse_level f LAddSub (tl ts)) as [p r] eqn:E.
      assert (Hs : nofuel (parse_level f LAddSub (tl ts))).
      { rewrite E. unfold nofuel in *. destruct p as [a| |]; simpl in *; congruence. }
      rewrite (IHpl LAddSub (tl ts) f' Hle' Hs), E.
      reflexivity.
Qed.

(* fuel monotonicity, for each of the six mutual functions: a run that does not run out of
   fuel returns the same result with any larger fuel *)
Theorem parse_level_mono : forall f f' l ts, f <= f' ->
  fst (parse_level f l ts) <> PFuel -> parse_level f' l ts = parse_level f l ts.
Proof. intros f f' l ts. apply (fuel_mono_all f). Qed.
Theorem parse_sub_mono : forall f f' l ts, f <= f' ->
  fst (parse_sub f l ts) <> PFuel -> parse_sub f' l ts = parse_sub f l ts.
Proof. intros f f' l ts. apply (fuel_mono_all f). Qed.
Theorem binary_loop_mono : forall f f' l lft ts, f <= f' ->
  fst (binary_loop f l lft ts) <> PFuel -> binary_loop f' l lft ts = binary_loop f l lft ts.
Proof. intros f f' l lft ts. apply (fuel_mono_all f). Qed.
Theorem right_loop_mono : forall f f' l ts, f <= f' ->
  fst (right_loop f l ts) <> PFuel -> right_loop f' l ts = right_loop f l ts.
Proof. intros f f' l ts. apply (fuel_mono_all f). Qed.
Theorem parse_unary_mono : forall f f' ts, f <= f' ->
  fst (parse_unary f ts) <> PFuel -> parse_unary f' ts = parse_unary f ts.
Proof. intros f f' ts. apply (fuel_mono_all f). Qed.
Theorem parse_paren_mono : forall f f' ts, f <= f' ->
  fst (parse_paren f ts) <> PFuel -> parse_paren f' ts = parse_paren f ts.
Proof. intros f f' ts. apply (fuel_mono_all f). Qed.


(* ================================================================== *)
(* 2. The parser reads explicit renderings back                        *)
(* ================================================================== *)
(* The proof is carried out once, for trees with detached sign prefixes ([sexpr]); plain
   trees ([expr]) are the sign-free ones (embedding [inj]).  For the parser the position of
   a sign prefix does not matter (it is the tokenizer that treats a sign at an expression
   start differently), so the parser statement uses the weaker well-formedness [pwf]. *)

Fixpoint pwf (e : sexpr F) : bool :=
  match e with
  | SLit _ => true
  | SPar e => pwf e
  | SBin o l r =>
    pwf l && pwf r && Nat.leb (bop_level o) (slevel_of l) && Nat.ltb (bop_level o) (slevel_of r)
  | SNeg _ e => is_atom e && pwf e
  end.

Lemma swf_pwf : forall e : sexpr F, swf e = true -> pwf e = true.
Proof.
  induction e as [x|e IH|o l IHl r IHr|m e IH]; cbn [swf pwf]; intro H.
  - reflexivity.
  - apply andb_true_iff in H as [H _]. auto.
  - apply andb_true_iff in H as [H _].
    apply andb_true_iff in H as [H Hr]. apply andb_true_iff in H as [H Hl].
    apply andb_true_iff in H as [Hwl Hwr].
    rewrite (IHl Hwl), (IHr Hwr), Hl, Hr. reflexivity.
  - apply andb_true_iff in H as [Ha H]. rewrite Ha, (IH H). reflexivity.
Qed.

Fixpoint inj (e : expr F) : sexpr F :=
  match e with
  | Lit x => SLit x
  | Par e => SPar (inj e)
  | Bin o l r => SBin o (inj l) (inj r)
  end.

Lemma stoks_inj : forall e : expr F, stoks_of (inj e) = toks_of e.
Proof.
  induction e as [x|e IH|o l IHl r IHr]; cbn [inj stoks_of toks_of];
    rewrite ?IH, ?IHl, ?IHr; reflexivity.
Qed.

Lemma sast_inj : forall e : expr F, sast_of (inj e) = ast_of e.
Proof.
  induction e as [x|e IH|o l IHl r IHr]; cbn [inj sast_of ast_of];
    rewrite ?IH, ?IHl, ?IHr; reflexivity.
Qed.

Lemma slevel_inj : forall e : expr F, slevel_of (inj e) = level_of e.
Proof. destruct e as [x|e|o l r]; reflexivity. Qed.

Lemma pwf_inj : forall e : expr F, pwf (inj e) = wf e.
Proof.
  induction e as [x|e IH|o l IHl r IHr]; cbn [inj pwf wf].
  - reflexivity.
  - exact IH.
  - rewrite IHl, IHr, !slevel_inj. reflexivity.
Qed.

Lemma sdenote_inj : forall e : expr F, sdenote (inj e) = denote e.
Proof.
  induction e as [x|e IH|o l IHl r IHr]; cbn [inj sdenote denote].
  - reflexivity.
  - exact IH.
  - rewrite IHl, IHr. reflexivity.
Qed.

Lemma sast_of_not_none : forall e : sexpr F, sast_of e <> ANone.
Proof.
  induction e as [x|e IH|o l IHl r IHr|m e IH]; cbn [sast_of]; try congruence.
  destruct e; congruence.
Qed.

Lemma ast_of_not_none : forall e : expr F, ast_of e <> ANone.
Proof. intro e. rewrite <- sast_inj. apply sast_of_not_none. Qed.

Lemma parse_level_step f l (ts : list (token F)) a r :
  parse_sub f l ts = (PAst a, r) -> a <> ANone ->
  parse_level (S f) l ts = binary_loop f l a r.
Proof.
  intros Hs Ha. rewrite parse_level_S, Hs. destruct a; try reflexivity; congruence.
Qed.

Lemma right_loop_step f l (ts : list (token F)) a r :
  parse_sub f l ts = (PAst a, r) -> a <> ANone ->
  right_loop (S f) l ts = (PAst a, r).
Proof.
  intros Hs Ha. rewrite right_loop_S, Hs. destruct a; try reflexivity; congruence.
Qed.

(* fuel measure: an upper bound on the nesting of calls per node *)
Fixpoint cost (e : sexpr F) : nat :=
  match e with
  | SLit _ => 1
  | SPar e => cost e + 10
  | SBin _ l r => cost l + cost r + 8
  | SNeg _ e => cost e + 1
  end.

Lemma cost_le_length : forall e, cost e <= 9 * length (stoks_of e).
Proof.
  induction e as [x|e IH|o l IHl r IHr|m e IH]; cbn [cost stoks_of].
  - simpl. lia.
  - cbn [length]. rewrite app_length. cbn [length]. lia.
  - rewrite app_length. cbn [length]. lia.
  - cbn [length]. lia.
Qed.

(* the suffix does not continue a multiplicative (or modulo) chain *)
Definition nomul (suf : list (token F)) : Prop :=
  match_operator (level_ops LMulDiv) suf = None /\ match_operator (level_ops LModulo) suf = None.

Lemma slevel_of_bin o (l r : sexpr F) : slevel_of (SBin o l r) = bop_level o.
Proof. destruct o; reflexivity. Qed.

Lemma bop_level_cases o : bop_level o = 0 \/ bop_level o = 2.
Proof. destruct o; simpl; auto. Qed.

Lemma slevel_of_cases (e : sexpr F) : slevel_of e = 0 \/ slevel_of e = 2 \/ slevel_of e = 3.
Proof. destruct e as [x|e|o l r|m e]; simpl; auto. destruct o; auto. Qed.

Lemma match_mul o (r : list (token F)) : bop_level o = 2 ->
  match_operator (level_ops LMulDiv) (TOperator (bop_char o) :: r) = Some (bop_char o).
Proof. destruct o; simpl; intro H; try discriminate; reflexivity. Qed.

Lemma match_add o (r : list (token F)) : bop_level o = 0 ->
  match_operator (level_ops LAddSub) (TOperator (bop_char o) :: r) = Some (bop_char o).
Proof. destruct o; simpl; intro H; try discriminate; reflexivity. Qed.

Lemma nomul_add o (r : list (token F)) : bop_level o = 0 -> nomul (TOperator (bop_char o) :: r).
Proof. destruct o; simpl; intro H; try discriminate; split; reflexivity. Qed.

Lemma nomul_rp (r : list (token F)) : nomul (TOperator OP_RP :: r).
Proof. split; reflexivity. Qed.

(* the three levels of the statement *)
(* an atom (a literal, a parenthesis, a signed atom) is read by parse_unary, whatever follows *)
Definition U (e : sexpr F) : Prop :=
  forall suf f, cost e <= f -> parse_unary f (stoks_of e ++ suf) = (PAst (sast_of e), suf).
(* a multiplicative chain, whatever follows: reading it at level * / amounts to continuing
   the loop of that level from the accumulated left operand [sast_of e] *)
Definition M (e : sexpr F) : Prop :=
  forall suf n, nofuel (binary_loop n LMulDiv (sast_of e) suf) ->
  forall f, n + cost e + 2 <= f ->
  parse_level f LMulDiv (stoks_of e ++ suf) = binary_loop n LMulDiv (sast_of e) suf.
(* an additive chain followed by something that is not * / % *)
Definition A (e : sexpr F) : Prop :=
  forall suf, nomul suf ->
  forall n, nofuel (binary_loop n LAddSub (sast_of e) suf) ->
  forall f, n + cost e + 7 <= f ->
  parse_level f LAddSub (stoks_of e ++ suf) = binary_loop n LAddSub (sast_of e) suf.

Lemma U_Lit x : U (SLit x).
Proof.
  intros suf f Hf. simpl in Hf. destruct f as [|f]; [lia|].
  rewrite parse_unary_S. reflexivity.
Qed.

(* parse_parenthesis on "( e ) suf" *)
Lemma P_Par e : A e -> forall suf f, cost e + 9 <= f ->
  parse_paren f (TOperator OP_LP :: stoks_of e ++ TOperator OP_RP :: suf) = (PAst (sast_of e), suf).
Proof.
  intros HA suf f Hf. destruct f as [|f]; [lia|].
  rewrite parse_paren_S. cbn [tl].
  rewrite (HA (TOperator OP_RP :: suf) (nomul_rp suf) 1).
  - pose proof (sast_of_not_none e) as Hn.
    rewrite binary_loop_S.
    change (match_operator (level_ops LAddSub) (TOperator OP_RP :: suf)) with (@None N).
    cbv iota beta.
    destruct (sast_of e); try congruence; reflexivity.
  - unfold nofuel. rewrite binary_loop_S. simpl. congruence.
  - lia.
Qed.

Lemma U_Par e : A e -> U (SPar e).
Proof.
  intros HA suf f Hf. cbn [cost] in Hf. destruct f as [|f]; [lia|].
  cbn [stoks_of sast_of]. rewrite <- app_comm_cons, <- app_assoc. cbn [app].
  rewrite parse_unary_lp. apply P_Par; [exact HA|lia].
Qed.

(* a sign in front of an atom: the literal is negated in place, a parenthesis is wrapped *)
Lemma U_Neg m e : is_atom e = true -> U e -> U (SNeg m e).
Proof.
  intros Hat HU suf f Hf. cbn [cost] in Hf. destruct f as [|f]; [lia|].
  destruct e as [x|e'|o l r|m' e']; simpl in Hat; try discriminate.
  - cbn [stoks_of sast_of app]. apply parse_unary_sign_num.
  - assert (Hc : cost (SPar e') <= S f) by lia.
    pose proof (HU suf (S f) Hc) as H.
    cbn [stoks_of sast_of app] in H |- *.
    rewrite parse_unary_lp in H. rewrite parse_unary_sign_lp, H. reflexivity.
Qed.

Lemma M_of_U e : U e -> M e.
Proof.
  intros HU suf n Hnf f Hf. destruct f as [|[|f]]; try lia.
  rewrite (parse_level_step (S f) LMulDiv _ (sast_of e) suf).
  - apply binary_loop_mono; [lia|exact Hnf].
  - rewrite parse_sub_S. apply HU. lia.
  - apply sast_of_not_none.
Qed.

Lemma M_Bin o l r : bop_level o = 2 -> M l -> U r -> M (SBin o l r).
Proof.
  intros Ho HMl HUr suf n Hnf f Hf. cbn [stoks_of sast_of cost] in *.
  rewrite <- app_assoc, <- app_comm_cons.
  assert (Hstep : binary_loop (n + cost r + 3) LMulDiv (sast_of l)
                              (TOperator (bop_char o) :: stoks_of r ++ suf)
                  = binary_loop n LMulDiv (ABinary (sast_of l) (bop_char o) (sast_of r)) suf).
  { replace (n + cost r + 3) with (S (S (S (n + cost r)))) by lia.
    rewrite binary_loop_S, (match_mul o _ Ho). cbn [tl].
    rewrite (right_loop_step _ _ _ (sast_of r) suf).
    - apply binary_loop_mono; [lia|exact Hnf].
    - rewrite parse_sub_S. apply HUr. lia.
    - apply sast_of_not_none. }
  rewrite <- Hstep. apply HMl.
  - rewrite Hstep. exact Hnf.
  - lia.
Qed.

(* a multiplicative chain read at the (unused) modulo level *)
Lemma T_of_M e : M e -> forall suf, nomul suf -> forall f, cost e + 5 <= f ->
  parse_level f LModulo (stoks_of e ++ suf) = (PAst (sast_of e), suf).
Proof.
  intros HM suf [Hmul Hmod] f Hf. destruct f as [|[|f]]; try lia.
  assert (Hb : binary_loop 1 LMulDiv (sast_of e) suf = (PAst (sast_of e), suf)).
  { rewrite binary_loop_S, Hmul. reflexivity. }
  rewrite (parse_level_step (S f) LModulo _ (sast_of e) suf).
  - rewrite binary_loop_S, Hmod. reflexivity.
  - rewrite parse_sub_S. rewrite (HM suf 1).
    + exact Hb.
    + rewrite Hb. unfold nofuel. simpl. congruence.
    + lia.
  - apply sast_of_not_none.
Qed.

Lemma A_of_M e : M e -> A e.
Proof.
  intros HM suf Hsuf n Hnf f Hf. destruct f as [|[|f]]; try lia.
  rewrite (parse_level_step (S f) LAddSub _ (sast_of e) suf).
  - apply binary_loop_mono; [lia|exact Hnf].
  - rewrite parse_sub_S. apply (T_of_M e HM suf Hsuf). lia.
  - apply sast_of_not_none.
Qed.

Lemma A_Bin o l r : bop_level o = 0 -> A l -> M r -> A (SBin o l r).
Proof.
  intros Ho HAl HMr suf Hsuf n Hnf f Hf. cbn [stoks_of sast_of cost] in *.
  rewrite <- app_assoc, <- app_comm_cons.
  assert (Hstep : binary_loop (n + cost r + 8) LAddSub (sast_of l)
                              (TOperator (bop_char o) :: stoks_of r ++ suf)
                  = binary_loop n LAddSub (ABinary (sast_of l) (bop_char o) (sast_of r)) suf).
  { replace (n + cost r + 8) with (S (S (S (n + cost r + 5)))) by lia.
    rewrite binary_loop_S, (match_add o _ Ho). cbn [tl].
    rewrite (right_loop_step _ _ _ (sast_of r) suf).
    - apply binary_loop_mono; [lia|exact Hnf].
    - rewrite parse_sub_S. apply (T_of_M r HMr suf Hsuf). lia.
    - apply sast_of_not_none. }
  rewrite <- Hstep. apply HAl.
  - apply nomul_add. exact Ho.
  - rewrite Hstep. exact Hnf.
  - lia.
Qed.

Lemma parse_main : forall e : sexpr F, pwf e = true ->
  (slevel_of e = 3 -> U e) /\ (2 <= slevel_of e -> M e) /\ A e.
Proof.
  induction e as [x|e IH|o l IHl r IHr|m e IH]; intro Hwf.
  - pose proof (U_Lit x) as HU. pose proof (M_of_U _ HU) as HM.
    repeat split; intros; auto using A_of_M.
  - cbn [pwf] in Hwf. destruct (IH Hwf) as (_ & _ & HA).
    pose proof (U_Par e HA) as HU. pose proof (M_of_U _ HU) as HM.
    repeat split; intros; auto using A_of_M.
  - cbn [pwf] in Hwf.
    apply andb_true_iff in Hwf as [Hwf Hr]. apply andb_true_iff in Hwf as [Hwf Hl].
    apply andb_true_iff in Hwf as [Hwl Hwr].
    apply Nat.leb_le in Hl. apply Nat.ltb_lt in Hr.
    destruct (IHl Hwl) as (_ & HMl & HAl). destruct (IHr Hwr) as (HUr & HMr & _).
    rewrite slevel_of_bin.
    assert (HM : bop_level o = 2 -> M (SBin o l r)).
    { intro Ho. apply M_Bin; [exact Ho| apply HMl; lia |apply HUr].
      destruct (slevel_of_cases r) as [H|[H|H]]; lia. }
    split; [|split].
    + intro H3. destruct (bop_level_cases o); lia.
    + intro H2. apply HM. destruct (bop_level_cases o); lia.
    + destruct (bop_level_cases o) as [Ho|Ho].
      * apply A_Bin; [exact Ho|exact HAl|]. apply HMr.
        destruct (slevel_of_cases r) as [H|[H|H]]; lia.
      * apply A_of_M. apply HM. exact Ho.
  - cbn [pwf] in Hwf. apply andb_true_iff in Hwf as [Hat Hwf].
    destruct (IH Hwf) as (HUe & _ & _).
    assert (H3 : slevel_of e = 3) by (destruct e; simpl in Hat; try discriminate; reflexivity).
    pose proof (U_Neg m e Hat (HUe H3)) as HU. pose proof (M_of_U _ HU) as HM.
    repeat split; intros; auto using A_of_M.
Qed.

(* the suffix does not start with one of + - * / % *)
Definition stop_tok (suf : list (token F)) : bool :=
  match suf with
  | TOperator c :: _ =>
    negb (N.eqb c OP_PLUS || N.eqb c OP_MINUS || N.eqb c OP_MUL || N.eqb c OP_DIV || N.eqb c OP_MOD)
  | _ => true
  end.

Lemma stop_tok_spec suf : stop_tok suf = true ->
  nomul suf /\ match_operator (level_ops LAddSub) suf = None.
Proof.
  unfold nomul. destruct suf as [|t r]; [repeat split|].
  destruct t; try (repeat split; reflexivity).
  unfold stop_tok, match_operator, level_ops, List.find.
  destruct (N.eqb c OP_PLUS), (N.eqb c OP_MINUS), (N.eqb c OP_MUL), (N.eqb c OP_DIV), (N.eqb c OP_MOD);
    simpl; intro H; try discriminate; repeat split; reflexivity.
Qed.

(* General form, with sign prefixes: the rendering followed by any suffix that does not
   continue the expression (the empty suffix, a closing parenthesis, ...), with any fuel above
   an explicit bound. *)
Theorem c02_sparse_level_cost : forall (e : sexpr F) (suf : list (token F)) fuel,
  pwf e = true -> stop_tok suf = true -> cost e + 8 <= fuel ->
  parse_level fuel LAddSub (stoks_of e ++ suf) = (PAst (sast_of e), suf).
Proof.
  intros e suf fuel Hwf Hstop Hf.
  destruct (stop_tok_spec suf Hstop) as [Hnm Hadd].
  destruct (parse_main e Hwf) as (_ & _ & HA).
  assert (Hb : binary_loop 1 LAddSub (sast_of e) suf = (PAst (sast_of e), suf)).
  { rewrite binary_loop_S, Hadd. reflexivity. }
  rewrite (HA suf Hnm 1).
  - exact Hb.
  - rewrite Hb. unfold nofuel. simpl. congruence.
  - lia.
Qed.

Theorem c02_sparse_level_suffix : forall (e : sexpr F) (suf : list (token F)) fuel,
  pwf e = true -> stop_tok suf = true -> 9 * length (stoks_of e) + 8 <= fuel ->
  parse_level fuel LAddSub (stoks_of e ++ suf) = (PAst (sast_of e), suf).
Proof.
  intros e suf fuel Hwf Hstop Hf. apply c02_sparse_level_cost; auto.
  pose proof (cost_le_length e). lia.
Qed.

(* the parser half of c02_sign_parse needs no restriction on where the signs stand *)
Theorem c02_sparse_level : forall (e : sexpr F), pwf e = true ->
  parse_level (parse_fuel (stoks_of e)) LAddSub (stoks_of e) = (PAst (sast_of e), []).
Proof.
  intros e Hwf.
  pose proof (c02_sparse_level_suffix e [] (parse_fuel (stoks_of e)) Hwf eq_refl) as H.
  rewrite app_nil_r in H. apply H. unfold parse_fuel. lia.
Qed.

(* the same for plain trees *)
Theorem c02_parse_level_cost : forall (e : expr F) (suf : list (token F)) fuel,
  wf e = true -> stop_tok suf = true -> cost (inj e) + 8 <= fuel ->
  parse_level fuel LAddSub (toks_of e ++ suf) = (PAst (ast_of e), suf).
Proof.
  intros e suf fuel Hwf Hstop Hf. rewrite <- stoks_inj, <- sast_inj.
  apply c02_sparse_level_cost; auto. rewrite pwf_inj. exact Hwf.
Qed.

Theorem c02_parse_level_suffix : forall (e : expr F) (suf : list (token F)) fuel,
  wf e = true -> stop_tok suf = true -> 9 * length (toks_of e) + 8 <= fuel ->
  parse_level fuel LAddSub (toks_of e ++ suf) = (PAst (ast_of e), suf).
Proof.
  intros e suf fuel Hwf Hstop Hf. rewrite <- stoks_inj, <- sast_inj.
  apply c02_sparse_level_suffix; auto.
  - rewrite pwf_inj. exact Hwf.
  - rewrite stoks_inj. exact Hf.
Qed.

(* 1. with the fuel the model actually uses *)
Theorem c02_parse_level : forall (e : expr F), wf e = true ->
  parse_level (parse_fuel (toks_of e)) LAddSub (toks_of e) = (PAst (ast_of e), []).
Proof.
  intros e Hwf.
  pose proof (c02_parse_level_suffix e [] (parse_fuel (toks_of e)) Hwf eq_refl) as H.
  rewrite app_nil_r in H. apply H. unfold parse_fuel. lia.
Qed.


(* ================================================================== *)
(* 3. The interpreter computes the value                               *)
(* ================================================================== *)

Theorem c02_eval : forall bexec cfg vs (e : expr F),
  execute_ast bexec cfg vs (ast_of e) = Ok (IOk (AItem (INumber (denote e) Decimal)), vs).
Proof.
  intros bexec cfg vs e. induction e as [x|e IH|o l IHl r IHr]; cbn [ast_of denote].
  - reflexivity.
  - exact IH.
  - cbn [execute_ast]. rewrite IHl. cbn [bind]. rewrite IHr. cbn [bind].
    destruct o; reflexivity.
Qed.

(* with sign prefixes; no well-formedness is needed at all *)
Theorem c02_sign_eval_any : forall bexec cfg vs (e : sexpr F),
  execute_ast bexec cfg vs (sast_of e) = Ok (IOk (AItem (INumber (sdenote e) Decimal)), vs).
Proof.
  intros bexec cfg vs e. induction e as [x|e IH|o l IHl r IHr|m e IH].
  - reflexivity.
  - exact IH.
  - cbn [sast_of sdenote execute_ast]. rewrite IHl. cbn [bind]. rewrite IHr. cbn [bind].
    destruct o; reflexivity.
  - assert (H : execute_ast bexec cfg vs (APrefixUnary (sign_char m) (sast_of e)) =
                Ok (IOk (AItem (INumber (if m then fmul fm1 (sdenote e) else sdenote e) Decimal)), vs)).
    { cbn [execute_ast]. rewrite IH. cbn [bind]. destruct m; reflexivity. }
    destruct e; try exact H. reflexivity.
Qed.

Theorem c02_sign_eval : forall bexec cfg vs (e : sexpr F), swf e = true ->
  execute_ast bexec cfg vs (sast_of e) = Ok (IOk (AItem (INumber (sdenote e) Decimal)), vs).
Proof. intros bexec cfg vs e _. apply c02_sign_eval_any. Qed.

(* ================================================================== *)
(* 4. Post-processing                                                  *)
(* ================================================================== *)

(* -- add_missing, token by token -- *)
Lemma add_missing_num x nt (r : list (token F)) es opr :
  add_missing (TNumber x nt :: r) es opr =
  (if opr then [TOperator OP_PLUS] else []) ++ TNumber x nt :: add_missing r false true.
Proof. reflexivity. Qed.

Lemma add_missing_lp (r : list (token F)) es opr :
  add_missing (TOperator OP_LP :: r) es opr =
  (if opr then [TOperator OP_PLUS] else []) ++ TOperator OP_LP :: add_missing r true false.
Proof. reflexivity. Qed.

Lemma add_missing_rp (r : list (token F)) es opr :
  add_missing (TOperator OP_RP :: r) es opr = TOperator OP_RP :: add_missing r false true.
Proof. reflexivity. Qed.

Lemma add_missing_bop o (r : list (token F)) es opr :
  add_missing (TOperator (bop_char o) :: r) es opr =
  (if es then [TNumber f0 Decimal] else []) ++ TOperator (bop_char o) :: add_missing r false false.
Proof. destruct o; reflexivity. Qed.

Lemma add_missing_sign m (r : list (token F)) es opr :
  add_missing (TOperator (sign_char m) :: r) es opr =
  (if es then [TNumber f0 Decimal] else []) ++ TOperator (sign_char m) :: add_missing r false false.
Proof. destruct m; reflexivity. Qed.

Lemma add_missing_plus (r : list (token F)) es opr :
  add_missing (TOperator OP_PLUS :: r) es opr =
  (if es then [TNumber f0 Decimal] else []) ++ TOperator OP_PLUS :: add_missing r false false.
Proof. reflexivity. Qed.

(* -- explicit renderings: nothing is missing -- *)
Lemma add_missing_toks : forall (e : expr F) suf es,
  add_missing (toks_of e ++ suf) es false = toks_of e ++ add_missing suf false true.
Proof.
  induction e as [x|e IH|o l IHl r IHr]; intros suf es; cbn [toks_of].
  - cbn [app]. rewrite add_missing_num. reflexivity.
  - rewrite <- !app_comm_cons, <- !app_assoc. cbn [app].
    rewrite add_missing_lp, IH, add_missing_rp. reflexivity.
  - rewrite <- !app_assoc, <- !app_comm_cons.
    rewrite IHl, add_missing_bop, IHr. reflexivity.
Qed.

Lemma add_missing_toks_nil (e : expr F) es : add_missing (toks_of e) es false = toks_of e.
Proof.
  pose proof (add_missing_toks e [] es) as H. rewrite !app_nil_r in H. exact H.
Qed.

(* -- no '=' in a rendering -- *)
Definition noeq (ts : list (token F)) : bool := forallb (fun t => negb (is_op OP_EQ t)) ts.

Lemma noeq_stoks : forall (e : sexpr F), noeq (stoks_of e) = true.
Proof.
  unfold noeq.
  induction e as [x|e IH|o l IHl r IHr|m e IH]; cbn [stoks_of].
  - reflexivity.
  - cbn [forallb]. rewrite forallb_app, IH. reflexivity.
  - rewrite forallb_app. cbn [forallb]. rewrite IHl, IHr. destruct o; reflexivity.
  - cbn [forallb]. rewrite IH. destruct m; reflexivity.
Qed.

Lemma noeq_toks : forall (e : expr F), noeq (toks_of e) = true.
Proof. intro e. rewrite <- stoks_inj. apply noeq_stoks. Qed.

Lemma find_index_none {A} (p : A -> bool) ts :
  forallb (fun t => negb (p t)) ts = true -> find_index p ts = None.
Proof.
  induction ts as [|t r IH]; simpl; [reflexivity|]. intro H.
  apply andb_true_iff in H as [H1 H2]. destruct (p t); [discriminate|].
  rewrite (IH H2). reflexivity.
Qed.

Lemma find_eq_toks (e : expr F) : find_index (is_op OP_EQ) (toks_of e) = None.
Proof. apply find_index_none. apply noeq_toks. Qed.

Lemma find_eq_stoks (e : sexpr F) : find_index (is_op OP_EQ) (stoks_of e) = None.
Proof. apply find_index_none. apply noeq_stoks. Qed.

(* without '=' the scan starts at the first token *)
Lemma mta_noeq ts : noeq ts = true -> missing_token_adder ts = add_missing ts true false.
Proof.
  intro H. unfold missing_token_adder. rewrite (find_index_none _ _ H). reflexivity.
Qed.

Theorem c02_missing_token_adder_id : forall (e : expr F),
  missing_token_adder (toks_of e) = toks_of e.
Proof.
  intro e. rewrite (mta_noeq _ (noeq_toks e)). apply add_missing_toks_nil.
Qed.

Lemma forallb_filter_id {A} (p : A -> bool) : forall l, forallb p l = true -> filter p l = l.
Proof.
  induction l as [|x r IH]; simpl; [reflexivity|]. intro H.
  apply andb_true_iff in H as [H1 H2]. rewrite H1, (IH H2). reflexivity.
Qed.

Lemma notext_stoks : forall (e : sexpr F), forallb (fun t => negb (is_text t)) (stoks_of e) = true.
Proof.
  induction e as [x|e IH|o l IHl r IHr|m e IH]; cbn [stoks_of].
  - reflexivity.
  - cbn [forallb is_text negb andb]. rewrite forallb_app, IH. reflexivity.
  - rewrite forallb_app. cbn [forallb is_text negb andb]. rewrite IHl, IHr. reflexivity.
  - cbn [forallb is_text negb andb]. exact IH.
Qed.

Lemma notext_toks : forall (e : expr F), forallb (fun t => negb (is_text t)) (toks_of e) = true.
Proof. intro e. rewrite <- stoks_inj. apply notext_stoks. Qed.

Lemma filter_notext : forall (e : expr F),
  filter (fun t => negb (is_text t)) (toks_of e) = toks_of e.
Proof. intro e. apply forallb_filter_id, notext_toks. Qed.

Theorem c02_token_cleaner_id : forall infos (e : expr F),
  find_index info_is_eq infos = None ->
  token_cleaner infos (toks_of e) = toks_of e.
Proof.
  intros infos e H. unfold token_cleaner. rewrite H. cbn [firstn skipn app].
  apply filter_notext.
Qed.

(* ================================================================== *)
(* 5. The whole token-level pipeline                                   *)
(* ================================================================== *)

Lemma parse_expr_line : forall vs (e : expr F), wf e = true ->
  parse (toks_of e) vs = (PAst (ast_of e), vs).
Proof.
  intros vs e Hwf. unfold parse, parse_assignment. rewrite find_eq_toks.
  rewrite (c02_parse_level e Hwf). reflexivity.
Qed.

Theorem c02_token_level : forall bexec cfg vs infos (e : expr F),
  wf e = true -> find_index info_is_eq infos = None ->
  let tokens := missing_token_adder (token_cleaner infos (toks_of e)) in
  parse tokens vs = (PAst (ast_of e), vs) /\
  execute_ast bexec cfg vs (ast_of e) = Ok (IOk (AItem (INumber (denote e) Decimal)), vs).
Proof.
  intros bexec cfg vs infos e Hwf Hinf tokens. subst tokens.
  rewrite (c02_token_cleaner_id infos e Hinf), (c02_missing_token_adder_id e).
  split; [apply parse_expr_line; exact Hwf|apply c02_eval].
Qed.

(* ================================================================== *)
(* 6. parenthesise                                                     *)
(* ================================================================== *)

Lemma bop_level_le3 o : Nat.leb (bop_level o) 3 = true.
Proof. destruct o; reflexivity. Qed.
Lemma bop_level_lt3 o : Nat.ltb (bop_level o) 3 = true.
Proof. destruct o; reflexivity. Qed.

Theorem c02_parenthesise_wf : forall (e : expr F), wf (parenthesise e) = true.
Proof.
  induction e as [x|e IH|o l IHl r IHr]; cbn [parenthesise wf].
  - reflexivity.
  - exact IH.
  - destruct (Nat.leb (bop_level o) (level_of (parenthesise l))) eqn:El;
    destruct (Nat.ltb (bop_level o) (level_of (parenthesise r))) eqn:Er;
    cbn [wf level_of]; rewrite ?IHl, ?IHr, ?El, ?Er, ?bop_level_le3, ?bop_level_lt3; reflexivity.
Qed.

Theorem c02_parenthesise_denote : forall (e : expr F), denote (parenthesise e) = denote e.
Proof.
  induction e as [x|e IH|o l IHl r IHr]; cbn [parenthesise denote].
  - reflexivity.
  - exact IH.
  - destruct (Nat.leb (bop_level o) (level_of (parenthesise l)));
    destruct (Nat.ltb (bop_level o) (level_of (parenthesise r)));
    destruct o; cbn [denote]; rewrite IHl, IHr; reflexivity.
Qed.


(* ================================================================== *)
(* 7. Juxtaposition: a '+' left out between adjacent operands          *)
(* ================================================================== *)

(* The scan cannot tell a list with such a '+' left out from the list that has it: in every
   state it produces the same output for both.  This holds for arbitrary token lists (it is
   not specific to renderings), also at ')' '(' , ')' x and x '(' boundaries. *)
Lemma elided_add_missing : forall (ts' ts : list (token F)), elided ts' ts ->
  forall es opr, add_missing ts' es opr = add_missing ts es opr.
Proof.
  induction 1 as [|t ts' ts H IH|a b ts' ts Ha Hb H IH]; intros es opr.
  - reflexivity.
  - cbn [add_missing]. rewrite !IH. reflexivity.
  - assert (Hb' : forall es', add_missing (b :: ts') false true
                              = TOperator OP_PLUS :: add_missing (b :: ts) es' false).
    { intro es'. rewrite IH.
      destruct b; simpl in Hb; try discriminate.
      - rewrite !add_missing_num. reflexivity.
      - apply N.eqb_eq in Hb. rewrite Hb. rewrite !add_missing_lp. reflexivity. }
    destruct a; simpl in Ha; try discriminate.
    + rewrite !add_missing_num, add_missing_plus, (Hb' false). reflexivity.
    + apply N.eqb_eq in Ha. rewrite Ha.
      rewrite !add_missing_rp, add_missing_plus, (Hb' false). reflexivity.
Qed.

Lemma elided_forallb (p : token F -> bool) : forall ts' ts, elided ts' ts ->
  forallb p ts = true -> forallb p ts' = true.
Proof.
  induction 1 as [|t ts' ts H IH|a b ts' ts Ha Hb H IH]; intro Hp.
  - reflexivity.
  - cbn [forallb] in *. apply andb_true_iff in Hp as [H1 H2]. rewrite H1, (IH H2). reflexivity.
  - cbn [forallb] in Hp. apply andb_true_iff in Hp as [H1 H2]. apply andb_true_iff in H2 as [_ H2].
    change (forallb p (a :: b :: ts')) with (p a && forallb p (b :: ts')).
    rewrite H1, (IH H2). reflexivity.
Qed.

(* for any list without '=': the post-processed lists coincide *)
Theorem c02_elided_gen : forall (ts' ts : list (token F)), noeq ts = true -> elided ts' ts ->
  missing_token_adder ts' = missing_token_adder ts.
Proof.
  intros ts' ts Hn H.
  rewrite (mta_noeq ts Hn), (mta_noeq ts' (elided_forallb _ _ _ H Hn)).
  apply elided_add_missing, H.
Qed.

Theorem c02_elided : forall (e : expr F) ts', elided ts' (toks_of e) ->
  missing_token_adder ts' = toks_of e.
Proof.
  intros e ts' H. rewrite (c02_elided_gen ts' (toks_of e) (noeq_toks e) H).
  apply c02_missing_token_adder_id.
Qed.

Theorem c02_juxtaposition_level : forall bexec cfg vs (e : expr F) ts',
  wf e = true -> elided ts' (toks_of e) ->
  parse (missing_token_adder ts') vs = (PAst (ast_of e), vs) /\
  execute_ast bexec cfg vs (ast_of e) = Ok (IOk (AItem (INumber (denote e) Decimal)), vs).
Proof.
  intros bexec cfg vs e ts' Hwf H. rewrite (c02_elided e ts' H).
  split; [apply parse_expr_line; exact Hwf|apply c02_eval].
Qed.

(* the special case of a row of numbers "x1 x2 ... xn": the left-to-right sum *)
Definition nums (xs : list F) : list (token F) := map (fun x => TNumber x Decimal) xs.

Fixpoint plus_chain (acc : expr F) (xs : list F) : expr F :=
  match xs with
  | [] => acc
  | y :: r => plus_chain (Bin BAdd acc (Lit y)) r
  end.

Definition plus_toks (xs : list F) : list (token F) :=
  flat_map (fun y => [TOperator OP_PLUS; TNumber y Decimal]) xs.

Lemma toks_plus_chain : forall xs acc, toks_of (plus_chain acc xs) = toks_of acc ++ plus_toks xs.
Proof.
  induction xs as [|y r IH]; intros acc; simpl.
  - rewrite app_nil_r. reflexivity.
  - rewrite IH. cbn [toks_of bop_char]. rewrite <- app_assoc. reflexivity.
Qed.

Lemma wf_plus_chain : forall xs acc, wf acc = true -> wf (plus_chain acc xs) = true.
Proof.
  induction xs as [|y r IH]; intros acc H; simpl; [exact H|].
  apply IH. cbn [wf bop_level level_of]. rewrite H. reflexivity.
Qed.

Lemma denote_plus_chain : forall xs acc, denote (plus_chain acc xs) = fold_left fadd xs (denote acc).
Proof. induction xs as [|y r IH]; intros acc; simpl; [reflexivity|]. rewrite IH. reflexivity. Qed.

Lemma elided_refl : forall ts : list (token F), elided ts ts.
Proof. induction ts; constructor; assumption. Qed.

Lemma elided_nums : forall xs x, elided (nums (x :: xs)) (TNumber x Decimal :: plus_toks xs).
Proof.
  induction xs as [|y r IH]; intro x.
  - apply elided_refl.
  - cbn [nums map plus_toks flat_map app]. apply el_drop; [reflexivity|reflexivity|]. apply IH.
Qed.

Theorem c02_juxtaposition_tokens : forall x xs,
  missing_token_adder (nums (x :: xs)) = toks_of (plus_chain (Lit x) xs).
Proof.
  intros x xs. apply c02_elided. rewrite toks_plus_chain. apply elided_nums.
Qed.

Theorem c02_juxtaposition : forall bexec cfg vs x xs,
  let tokens := missing_token_adder (nums (x :: xs)) in
  parse tokens vs = (PAst (ast_of (plus_chain (Lit x) xs)), vs) /\
  execute_ast bexec cfg vs (ast_of (plus_chain (Lit x) xs))
  = Ok (IOk (AItem (INumber (fold_left fadd xs x) Decimal)), vs).
Proof.
  intros bexec cfg vs x xs tokens. subst tokens. rewrite c02_juxtaposition_tokens.
  split.
  - apply parse_expr_line. apply wf_plus_chain. reflexivity.
  - rewrite c02_eval, denote_plus_chain. reflexivity.
Qed.

(* ================================================================== *)
(* 8. A sign at an expression start: a 0 is supplied                   *)
(* ================================================================== *)

Theorem c02_leading_sign : forall (e : expr F) (minus : bool),
  missing_token_adder (TOperator (sign_char minus) :: toks_of e)
  = TNumber f0 Decimal :: TOperator (sign_char minus) :: toks_of e.
Proof.
  intros e minus. rewrite mta_noeq.
  - rewrite add_missing_sign, add_missing_toks_nil. reflexivity.
  - unfold noeq. cbn [forallb]. fold (noeq (toks_of e)). rewrite noeq_toks.
    destruct minus; reflexivity.
Qed.

(* ... so the line is read as "0 - e1 ..." / "0 + e1 ...": the tree with 0 hung at the far
   left of the additive chain *)
Definition sign_bop (minus : bool) : bop := if minus then BSub else BAdd.

Fixpoint lead (minus : bool) (e : expr F) : expr F :=
  match e with
  | Bin o l r =>
    if Nat.eqb (bop_level o) 0 then Bin o (lead minus l) r
    else Bin (sign_bop minus) (Lit f0) e
  | _ => Bin (sign_bop minus) (Lit f0) e
  end.

Lemma bop_char_sign minus : bop_char (sign_bop minus) = sign_char minus.
Proof. destruct minus; reflexivity. Qed.

Lemma toks_lead : forall minus (e : expr F),
  toks_of (lead minus e) = TNumber f0 Decimal :: TOperator (sign_char minus) :: toks_of e.
Proof.
  intros minus e. induction e as [x|e IH|o l IHl r IHr]; cbn [lead].
  - cbn [toks_of app]. rewrite bop_char_sign. reflexivity.
  - cbn [toks_of app]. rewrite bop_char_sign. reflexivity.
  - destruct (Nat.eqb (bop_level o) 0).
    + cbn [toks_of]. rewrite IHl. reflexivity.
    + cbn [toks_of app]. rewrite bop_char_sign. reflexivity.
Qed.

Lemma wf_lead : forall minus (e : expr F), wf e = true -> wf (lead minus e) = true.
Proof.
  intros minus e. induction e as [x|e IH|o l IHl r IHr]; intro H; cbn [lead].
  - destruct minus; exact H.
  - destruct minus; cbn [wf sign_bop bop_level level_of andb Nat.leb Nat.ltb] in *; rewrite H; reflexivity.
  - destruct (Nat.eqb (bop_level o) 0) eqn:Eo.
    + apply Nat.eqb_eq in Eo. cbn [wf] in *. rewrite Eo in *.
      apply andb_true_iff in H as [H Hr]. apply andb_true_iff in H as [H Hl].
      apply andb_true_iff in H as [Hwl Hwr].
      rewrite (IHl Hwl), Hwr, Hr. reflexivity.
    + assert (H2 : level_of (Bin o l r) = 2).
      { destruct o; simpl in Eo |- *; try discriminate; reflexivity. }
      destruct minus; cbn [wf sign_bop] ; rewrite H2; cbn [wf] in H; rewrite H; reflexivity.
Qed.

Lemma denote_lead_atom minus (e : expr F) :
  denote (Bin (sign_bop minus) (Lit f0) e) = (if minus then fsub else fadd) f0 (denote e).
Proof. destruct minus; reflexivity. Qed.

Theorem c02_leading_sign_level : forall bexec cfg vs (e : expr F) (minus : bool),
  wf e = true ->
  let tokens := missing_token_adder (TOperator (sign_char minus) :: toks_of e) in
  parse tokens vs = (PAst (ast_of (lead minus e)), vs) /\
  execute_ast bexec cfg vs (ast_of (lead minus e))
  = Ok (IOk (AItem (INumber (denote (lead minus e)) Decimal)), vs).
Proof.
  intros bexec cfg vs e minus Hwf tokens. subst tokens.
  rewrite c02_leading_sign, <- toks_lead.
  split; [apply parse_expr_line, wf_lead, Hwf|apply c02_eval].
Qed.

(* ================================================================== *)
(* 9. Detached signs in operand position                               *)
(* ================================================================== *)

Definition not_neg (e : sexpr F) : bool := match e with SNeg _ _ => false | _ => true end.

(* the scan leaves the rendering alone unless it starts, at an expression start, with a sign *)
Lemma add_missing_stoks : forall (e : sexpr F) suf es,
  swf e = true -> (es = false \/ not_neg e = true) ->
  add_missing (stoks_of e ++ suf) es false = stoks_of e ++ add_missing suf false true.
Proof.
  induction e as [x|e IH|o l IHl r IHr|m e IH]; intros suf es Hwf Hes; cbn [stoks_of].
  - cbn [app]. rewrite add_missing_num. reflexivity.
  - cbn [swf] in Hwf. apply andb_true_iff in Hwf as [Hwf Hn].
    rewrite <- !app_comm_cons, <- !app_assoc. cbn [app].
    rewrite add_missing_lp, IH, add_missing_rp; [reflexivity|exact Hwf|].
    right. destruct e; simpl in Hn |- *; try reflexivity; discriminate.
  - cbn [swf] in Hwf. apply andb_true_iff in Hwf as [Hwf Hn].
    apply andb_true_iff in Hwf as [Hwf _]. apply andb_true_iff in Hwf as [Hwf _].
    apply andb_true_iff in Hwf as [Hwl Hwr].
    rewrite <- !app_assoc, <- !app_comm_cons.
    rewrite IHl, add_missing_bop, IHr; [reflexivity|exact Hwr|left; reflexivity|exact Hwl|].
    destruct Hes as [Hes|_]; [left; exact Hes|right].
    destruct l; simpl in Hn |- *; try reflexivity; discriminate.
  - destruct Hes as [Hes|Hes]; [subst es|discriminate].
    cbn [swf] in Hwf. apply andb_true_iff in Hwf as [_ Hwf].
    rewrite <- !app_comm_cons, add_missing_sign, IH; [reflexivity|exact Hwf|left; reflexivity].
Qed.

Theorem c02_sign_missing_token_adder_id : forall (e : sexpr F),
  swf e = true -> not_neg e = true -> missing_token_adder (stoks_of e) = stoks_of e.
Proof.
  intros e Hwf Hn. rewrite (mta_noeq _ (noeq_stoks e)).
  pose proof (add_missing_stoks e [] true Hwf (or_intror Hn)) as H.
  rewrite !app_nil_r in H. exact H.
Qed.

Theorem c02_sign_parse : forall (e : sexpr F), swf e = true ->
  (match e with SNeg _ _ => False | _ => True end) ->
  missing_token_adder (stoks_of e) = stoks_of e /\
  parse_level (parse_fuel (stoks_of e)) LAddSub (stoks_of e) = (PAst (sast_of e), []).
Proof.
  intros e Hwf Hn. split.
  - apply c02_sign_missing_token_adder_id; [exact Hwf|]. destruct e; try reflexivity. destruct Hn.
  - apply c02_sparse_level, swf_pwf, Hwf.
Qed.

(* the restriction on the top of the tree is necessary for the first half: a sign at the
   start of the line gets a 0 in front *)
Theorem c02_sign_top_neg : forall m (e : sexpr F), swf e = true ->
  missing_token_adder (stoks_of (SNeg m e)) = TNumber f0 Decimal :: stoks_of (SNeg m e).
Proof.
  intros m e Hwf. rewrite (mta_noeq _ (noeq_stoks (SNeg m e))). cbn [stoks_of].
  rewrite add_missing_sign.
  pose proof (add_missing_stoks e [] false Hwf (or_introl eq_refl)) as H.
  rewrite !app_nil_r in H. rewrite H. reflexivity.
Qed.

Lemma parse_sexpr_line : forall vs (e : sexpr F), pwf e = true ->
  parse (stoks_of e) vs = (PAst (sast_of e), vs).
Proof.
  intros vs e Hwf. unfold parse, parse_assignment. rewrite find_eq_stoks.
  rewrite (c02_sparse_level e Hwf). reflexivity.
Qed.

(* the whole token-level pipeline with detached signs *)
Theorem c02_sign_level : forall bexec cfg vs infos (e : sexpr F),
  swf e = true -> not_neg e = true -> find_index info_is_eq infos = None ->
  let tokens := missing_token_adder (token_cleaner infos (stoks_of e)) in
  parse tokens vs = (PAst (sast_of e), vs) /\
  execute_ast bexec cfg vs (sast_of e) = Ok (IOk (AItem (INumber (sdenote e) Decimal)), vs).
Proof.
  intros bexec cfg vs infos e Hwf Hn Hinf tokens. subst tokens.
  unfold token_cleaner. rewrite Hinf. cbn [firstn skipn app].
  rewrite (forallb_filter_id _ _ (notext_stoks e)).
  rewrite (c02_sign_missing_token_adder_id e Hwf Hn).
  split; [apply parse_sexpr_line, swf_pwf, Hwf|apply c02_sign_eval_any].
Qed.

(* ================================================================== *)
(* 10. Assignment  "name = e"                                          *)
(* ================================================================== *)

Definition assign_toks (n : str) (e : expr F) : list (token F) :=
  TText n :: TOperator OP_EQ :: toks_of e.

(* parsing: the right-hand side is read back as the tree; the assignment node carries the key and
   the name tokens, and the session is not touched (registration happens at execution) *)
Theorem c02_assign_parse : forall vs n (e : expr F), wf e = true ->
  parse (assign_toks n e) vs =
  (PAst (AAssignment (to_lowercase n) [TText n] (ast_of e)), vs).
Proof.
  intros vs n e Hwf. unfold parse, parse_assignment, assign_toks.
  change (find_index (is_op OP_EQ) (TText n :: TOperator OP_EQ :: toks_of e)) with (Some 1).
  cbv iota beta.
  change (nth_opt (TText n :: TOperator OP_EQ :: toks_of e) 0) with (Some (@TText F n)).
  cbv iota beta.
  change (assign_name_loop (S (length (TText n :: TOperator OP_EQ :: toks_of e)))
                           (TText n :: TOperator OP_EQ :: toks_of e) vs 0
                           (to_lowercase (token_to_string vs (TText n))))
    with (2, to_lowercase n).
  cbv iota beta. cbn [skipn Nat.pred firstn].
  pose proof (c02_parse_level_suffix e []
                (parse_fuel (TText n :: TOperator OP_EQ :: toks_of e)) Hwf eq_refl) as Hp.
  rewrite app_nil_r in Hp. rewrite Hp by (unfold parse_fuel; cbn [length]; lia).
  pose proof (ast_of_not_none e) as Hn.
  destruct (ast_of e); try congruence; reflexivity.
Qed.

Lemma assoc_insert_same {A} (k : str) (v : A) : forall l, assoc k (assoc_insert k v l) = Some v.
Proof.
  induction l as [|[k' v'] r IH]; simpl.
  - rewrite str_eqb_refl. reflexivity.
  - destruct (str_eqb k k') eqn:E.
    + simpl. rewrite str_eqb_refl. reflexivity.
    + destruct (str_ltb k k').
      * simpl. rewrite str_eqb_refl. reflexivity.
      * simpl. rewrite E. exact IH.
Qed.

(* execution: the computed value is stored; an existing variable keeps its name tokens, a new one
   is registered now with the tokens carried by the node *)
Theorem c02_assign_exec : forall bexec cfg vs name toks (e : expr F),
  execute_ast bexec cfg vs (AAssignment name toks (ast_of e)) =
  Ok (IOk (AItem (INumber (denote e) Decimal)),
      match assoc name vs with
      | Some vi => assoc_insert name {| v_tokens := v_tokens vi; v_data := AItem (INumber (denote e) Decimal) |} vs
      | None => assoc_insert (var_key vs toks) {| v_tokens := toks; v_data := AItem (INumber (denote e) Decimal) |} vs
      end).
Proof.
  intros bexec cfg vs name toks e. cbn [execute_ast]. rewrite c02_eval. cbn [bind].
  destruct (assoc name vs); reflexivity.
Qed.

Theorem c02_assignment : forall bexec cfg vs n (e : expr F),
  wf e = true -> assoc_mem (to_lowercase n) vs = false ->
  let name := to_lowercase n in
  exists vs2,
    parse (assign_toks n e) vs = (PAst (AAssignment name [TText n] (ast_of e)), vs) /\
    execute_ast bexec cfg vs (AAssignment name [TText n] (ast_of e)) =
      Ok (IOk (AItem (INumber (denote e) Decimal)), vs2) /\
    assoc name vs2 =
      Some {| v_tokens := [TText n]; v_data := AItem (INumber (denote e) Decimal) |}.
Proof.
  intros bexec cfg vs n e Hwf Hmem name. subst name.
  rewrite (c02_assign_parse vs n e Hwf).
  eexists. split; [reflexivity|]. split; [apply c02_assign_exec|].
  unfold assoc_mem in Hmem.
  destruct (assoc (to_lowercase n) vs); [discriminate|].
  (* the key of a one-word name is the word in lower case: var_key = the lookup key *)
  change (var_key vs [TText n]) with (to_lowercase n). apply assoc_insert_same.
Qed.

(* post-processing of the assignment line: the scan starts after the '=' *)
Lemma forallb_skipn {A} (p : A -> bool) : forall k l, forallb p l = true -> forallb p (skipn k l) = true.
Proof.
  induction k as [|k IH]; intros l H; [exact H|]. destruct l as [|x r]; [reflexivity|].
  simpl in *. apply andb_true_iff in H as [_ H]. apply IH, H.
Qed.

Theorem c02_assign_token_cleaner_id : forall infos i n (e : expr F),
  find_index info_is_eq infos = Some i ->
  token_cleaner infos (assign_toks n e) = assign_toks n e.
Proof.
  intros infos i n e H. unfold token_cleaner, assign_toks. rewrite H.
  cbn [firstn skipn]. rewrite forallb_filter_id.
  - rewrite <- app_comm_cons. f_equal. apply firstn_skipn.
  - apply forallb_skipn. cbn [forallb is_text negb andb]. apply notext_toks.
Qed.

Theorem c02_assign_missing_token_adder_id : forall n (e : expr F),
  missing_token_adder (assign_toks n e) = assign_toks n e.
Proof.
  intros n e. unfold missing_token_adder, assign_toks.
  change (find_index (is_op OP_EQ) (TText n :: TOperator OP_EQ :: toks_of e)) with (Some 1).
  cbn [firstn skipn app]. rewrite add_missing_toks_nil. reflexivity.
Qed.

(* the assignment line with juxtaposed operands on the right-hand side *)
Theorem c02_assign_elided : forall n (e : expr F) ts', elided ts' (toks_of e) ->
  missing_token_adder (TText n :: TOperator OP_EQ :: ts') = assign_toks n e.
Proof.
  intros n e ts' H. unfold missing_token_adder, assign_toks.
  change (find_index (is_op OP_EQ) (TText n :: TOperator OP_EQ :: ts')) with (Some 1).
  cbn [firstn skipn app]. rewrite (elided_add_missing _ _ H), add_missing_toks_nil. reflexivity.
Qed.

(* the whole assignment line through post-processing, parser and interpreter *)
Theorem c02_assign_level : forall bexec cfg vs infos i n (e : expr F),
  wf e = true -> find_index info_is_eq infos = Some i ->
  assoc_mem (to_lowercase n) vs = false ->
  let name := to_lowercase n in
  let tokens := missing_token_adder (token_cleaner infos (assign_toks n e)) in
  exists vs2,
    parse tokens vs = (PAst (AAssignment name [TText n] (ast_of e)), vs) /\
    execute_ast bexec cfg vs (AAssignment name [TText n] (ast_of e)) =
      Ok (IOk (AItem (INumber (denote e) Decimal)), vs2) /\
    assoc name vs2 =
      Some {| v_tokens := [TText n]; v_data := AItem (INumber (denote e) Decimal) |}.
Proof.
  intros bexec cfg vs infos i n e Hwf Hinf Hmem name tokens. subst name tokens.
  rewrite (c02_assign_token_cleaner_id infos i n e Hinf), c02_assign_missing_token_adder_id.
  exact (c02_assignment bexec cfg vs n e Hwf Hmem).
Qed.

End WithNum.

Print Assumptions parse_level_mono.
Print Assumptions parse_sub_mono.
Print Assumptions binary_loop_mono.
Print Assumptions right_loop_mono.
Print Assumptions parse_unary_mono.
Print Assumptions parse_paren_mono.
Print Assumptions c02_sparse_level_cost.
Print Assumptions c02_sparse_level_suffix.
Print Assumptions c02_sparse_level.
Print Assumptions c02_parse_level_cost.
Print Assumptions c02_parse_level_suffix.
Print Assumptions c02_parse_level.
Print Assumptions c02_eval.
Print Assumptions c02_sign_eval_any.
Print Assumptions c02_sign_eval.
Print Assumptions c02_missing_token_adder_id.
Print Assumptions c02_token_cleaner_id.
Print Assumptions c02_token_level.
Print Assumptions c02_parenthesise_wf.
Print Assumptions c02_parenthesise_denote.
Print Assumptions c02_elided_gen.
Print Assumptions c02_elided.
Print Assumptions c02_juxtaposition_level.
Print Assumptions c02_juxtaposition_tokens.
Print Assumptions c02_juxtaposition.
Print Assumptions c02_leading_sign.
Print Assumptions c02_leading_sign_level.
Print Assumptions c02_sign_missing_token_adder_id.
Print Assumptions c02_sign_parse.
Print Assumptions c02_sign_top_neg.
Print Assumptions c02_sign_level.
Print Assumptions c02_assign_parse.
Print Assumptions c02_assign_exec.
Print Assumptions c02_assignment.
Print Assumptions c02_assign_token_cleaner_id.
Print Assumptions c02_assign_missing_token_adder_id.
Print Assumptions c02_assign_elided.
Print Assumptions c02_assign_level.
