(* Proofs for property C14 (unix timestamps <-> date-times).

   1. instant_*           a timestamp is (day number, second of the day), floor division, all of Z;
                          with the calendar bijection: the civil reading (y, m, d, h, mi, s) of a
                          timestamp and back is the identity, in both directions
   2. years_1_9999_*      the timestamps of the years 1..9999 are exactly -62135596800 .. 253402300799
                          and all of them are accepted (dt_ok)
   3. to_unixtime_* / from_unixtime_* / roundtrip_* / at_date_*   the rule functions
   4. z_to_str_*          Z_to_str is the decimal representation, for every integer
   5. datetime_print_*    the printed fields are those of the instant shifted by the zone offset
   6. examples            non-vacuity *)
From SC.Model Require Import Base Num NumQ NumF64 Types Config Case Chrono Parser RuleFns Items Format Run64.
From SC.Spec Require Import Calendar.
From Coq Require Import ZArith Lia QArith Qcanon Floats.

Ltac Zify.zify_post_hook ::= Z.to_euclidean_division_equations.
Local Open Scope Z_scope.

(* ------------------------------------------------------------------------------------- *)
(* 1. an instant is a day number and a second of the day                                  *)
(* ------------------------------------------------------------------------------------- *)
Theorem instant_decompose : forall n,
  dt_of (day_of_dt n) (secs_of_day n) = n /\ 0 <= secs_of_day n < 86400.
Proof. intro n. unfold dt_of, day_of_dt, secs_of_day. lia. Qed.

Theorem instant_compose : forall d sec, 0 <= sec < 86400 ->
  day_of_dt (dt_of d sec) = d /\ secs_of_day (dt_of d sec) = sec.
Proof. intros d sec H. unfold dt_of, day_of_dt, secs_of_day. lia. Qed.

(* floor, not truncation: one second before the epoch is 23:59:59 of day -1 *)
Lemma instant_negative : forall n, n < 0 -> day_of_dt n < 0.
Proof. intros n H. unfold day_of_dt. lia. Qed.

(* the civil reading of a timestamp, and the timestamp of a civil date-time (spec side) *)
Definition hms_of (sod : Z) : Z * Z * Z := (sod / 3600, (sod / 60) mod 60, sod mod 60).
Definition sod_of (h mi sec : Z) : Z := h * 3600 + mi * 60 + sec.

Definition civil_of_ts (n : Z) : (Z * Z * Z) * (Z * Z * Z) :=
  (civil_from_days (day_of_dt n), hms_of (secs_of_day n)).
Definition ts_of_civil (ymd : Z * Z * Z) (t : Z * Z * Z) : Z :=
  let '(y, m, d) := ymd in let '(h, mi, sec) := t in
  dt_of (days_from_civil y m d) (sod_of h mi sec).

Definition valid_hms (t : Z * Z * Z) : Prop :=
  let '(h, mi, sec) := t in 0 <= h < 24 /\ 0 <= mi < 60 /\ 0 <= sec < 60.
Definition valid_ymd (ymd : Z * Z * Z) : Prop :=
  let '(y, m, d) := ymd in valid_date y m d = true.

Lemma hms_of_valid sod : 0 <= sod < 86400 ->
  valid_hms (hms_of sod) /\ (let '(h, mi, sec) := hms_of sod in sod_of h mi sec = sod).
Proof. intro H. unfold hms_of, valid_hms, sod_of. lia. Qed.

Lemma hms_of_sod_of h mi sec : valid_hms (h, mi, sec) ->
  hms_of (sod_of h mi sec) = (h, mi, sec) /\ 0 <= sod_of h mi sec < 86400.
Proof.
  unfold valid_hms, hms_of, sod_of. intros (Hh & Hm & Hs).
  split; [ | lia ]. f_equal; [ f_equal | ]; lia.
Qed.

Theorem civil_ts_roundtrip : forall n,
  valid_ymd (fst (civil_of_ts n)) /\ valid_hms (snd (civil_of_ts n)) /\
  ts_of_civil (fst (civil_of_ts n)) (snd (civil_of_ts n)) = n.
Proof.
  intro n. unfold civil_of_ts. cbn [fst snd].
  pose proof (days_from_civil_from_days (day_of_dt n)) as H.
  destruct (civil_from_days (day_of_dt n)) as [[y m] d]. destruct H as [V E].
  destruct (instant_decompose n) as [D B].
  destruct (hms_of_valid _ B) as [Vh Eh].
  destruct (hms_of (secs_of_day n)) as [[h mi] sec].
  split; [exact V | split; [exact Vh | ] ].
  unfold ts_of_civil. rewrite E, Eh. exact D.
Qed.

Theorem ts_civil_roundtrip : forall y m d h mi sec,
  valid_date y m d = true -> valid_hms (h, mi, sec) ->
  civil_of_ts (ts_of_civil (y, m, d) (h, mi, sec)) = ((y, m, d), (h, mi, sec)).
Proof.
  intros y m d h mi sec V Vh.
  destruct (hms_of_sod_of _ _ _ Vh) as [E B].
  unfold civil_of_ts, ts_of_civil.
  destruct (instant_compose (days_from_civil y m d) _ B) as [-> ->].
  rewrite (civil_from_days_from_civil _ _ _ V), E. reflexivity.
Qed.

(* ------------------------------------------------------------------------------------- *)
(* 2. the years 1..9999                                                                    *)
(* ------------------------------------------------------------------------------------- *)
Definition TS_MIN : Z := -62135596800.      (* 0001-01-01 00:00:00 *)
Definition TS_MAX : Z := 253402300799.      (* 9999-12-31 23:59:59 *)

Lemma ts_bounds_civil :
  civil_of_ts TS_MIN = ((1, 1, 1), (0, 0, 0)) /\ civil_of_ts TS_MAX = ((9999, 12, 31), (23, 59, 59)).
Proof. split; vm_compute; reflexivity. Qed.

Lemma MIN_DAY_val : MIN_DAY = -96465292. Proof. vm_compute. reflexivity. Qed.
Lemma MAX_DAY_val : MAX_DAY = 95026236. Proof. vm_compute. reflexivity. Qed.

Lemma dt_ok_iff t : dt_ok t = true <-> MIN_DAY * 86400 <= t < (MAX_DAY + 1) * 86400.
Proof. unfold dt_ok. rewrite Bool.andb_true_iff, Z.leb_le, Z.ltb_lt. tauto. Qed.

Theorem years_1_9999_accepted : forall n, TS_MIN <= n <= TS_MAX -> dt_ok n = true.
Proof.
  intros n H. apply dt_ok_iff. rewrite MIN_DAY_val, MAX_DAY_val. unfold TS_MIN, TS_MAX in H. lia.
Qed.

Theorem years_1_9999_range : forall n,
  TS_MIN <= n <= TS_MAX <-> 1 <= year_of (day_of_dt n) <= 9999.
Proof.
  intro n. unfold year_of.
  assert (L : civil_from_days (-719162) = (1, 1, 1)) by (vm_compute; reflexivity).
  assert (L0 : civil_from_days (-719163) = (0, 12, 31)) by (vm_compute; reflexivity).
  assert (U : civil_from_days 2932896 = (9999, 12, 31)) by (vm_compute; reflexivity).
  assert (U1 : civil_from_days 2932897 = (10000, 1, 1)) by (vm_compute; reflexivity).
  unfold TS_MIN, TS_MAX, day_of_dt.
  set (dn := n / 86400).
  assert (Hd : (-62135596800 <= n <= 253402300799) <-> (-719162 <= dn <= 2932896)) by (subst dn; lia).
  rewrite Hd. clear Hd.
  split.
  - intros [Ha Hb].
    assert (A : 1 <= (let '(y, _, _) := civil_from_days dn in y)).
    { destruct (Z.eq_dec dn (-719162)) as [-> | Hne]; [rewrite L; lia | ].
      pose proof (civil_from_days_lt (-719162) dn ltac:(lia)) as H. rewrite L in H.
      destruct (civil_from_days dn) as [[y m] d]. unfold date_lt in H. lia. }
    assert (B : (let '(y, _, _) := civil_from_days dn in y) <= 9999).
    { destruct (Z.eq_dec dn 2932896) as [-> | Hne]; [rewrite U; lia | ].
      pose proof (civil_from_days_lt dn 2932896 ltac:(lia)) as H. rewrite U in H.
      destruct (civil_from_days dn) as [[y m] d]. unfold date_lt in H. lia. }
    lia.
  - intros [Ha Hb].
    destruct (Z_lt_le_dec dn (-719162)) as [Hlt | Hge].
    + exfalso.
      assert (H : let '(y, _, _) := civil_from_days dn in y <= 0).
      { destruct (Z.eq_dec dn (-719163)) as [-> | Hne]; [rewrite L0; lia | ].
        pose proof (civil_from_days_lt dn (-719163) ltac:(lia)) as H. rewrite L0 in H.
        destruct (civil_from_days dn) as [[y m] d]. unfold date_lt in H. lia. }
      destruct (civil_from_days dn) as [[y m] d]. lia.
    + destruct (Z_lt_le_dec 2932896 dn) as [Hgt | Hle]; [ | lia ].
      exfalso.
      assert (H : let '(y, _, _) := civil_from_days dn in 10000 <= y).
      { destruct (Z.eq_dec dn 2932897) as [-> | Hne]; [rewrite U1; lia | ].
        pose proof (civil_from_days_lt 2932897 dn ltac:(lia)) as H. rewrite U1 in H.
        destruct (civil_from_days dn) as [[y m] d]. unfold date_lt in H. lia. }
      destruct (civil_from_days dn) as [[y m] d]. lia.
Qed.

Theorem years_1_9999 : forall n,
  (TS_MIN <= n <= TS_MAX <-> 1 <= year_of (day_of_dt n) <= 9999) /\ (TS_MIN <= n <= TS_MAX -> dt_ok n = true).
Proof. intro n. split; [exact (years_1_9999_range n) | exact (years_1_9999_accepted n)]. Qed.

(* ------------------------------------------------------------------------------------- *)
(* 4. Z_to_str prints every digit                                                          *)
(* ------------------------------------------------------------------------------------- *)
(* the local loop of Parser.Z_to_str *)
Fixpoint digits10 (fuel : nat) (n : Z) (acc : str) : str :=
  match fuel with
  | O => acc
  | S f => let acc' := (Z.to_N (48 + n mod 10)) :: acc in
           if n <? 10 then acc' else digits10 f (n / 10) acc'
  end.

Lemma Z_to_str_unfold z :
  Z_to_str z = if z <? 0 then 45%N :: digits10 (S (Z.to_nat (Z.log2 (- z)))) (- z) []
               else digits10 (S (Z.to_nat (Z.log2 z))) z [].
Proof. reflexivity. Qed.

Definition is_digit (c : N) : Prop := (48 <= c <= 57)%N.

Lemma parse_digits_app x y a :
  parse_digits (x ++ y) a = match parse_digits x a with Some a' => parse_digits y a' | None => None end.
Proof.
  revert a. induction x as [ | c r IH]; intro a; cbn [app parse_digits]; [reflexivity | ].
  destruct (N.leb 48 c && N.leb c 57)%bool; [apply IH | reflexivity].
Qed.

Lemma digit_char_ok k : 0 <= k < 10 ->
  is_digit (Z.to_N (48 + k)) /\ forall a, parse_digits [Z.to_N (48 + k)] a = Some (a * 10 + k).
Proof.
  intro H. assert (C : k = 0 \/ k = 1 \/ k = 2 \/ k = 3 \/ k = 4 \/ k = 5 \/ k = 6 \/ k = 7 \/ k = 8 \/ k = 9) by lia.
  unfold is_digit.
  repeat (destruct C as [-> | C]); try subst k; (split; [ vm_compute; split; discriminate | intro a; cbn; f_equal; lia ]).
Qed.

Definition ndigits (ds : str) (n : Z) : Prop :=     (* ds has exactly as many characters as n has digits *)
  ds <> [] /\ Forall is_digit ds /\ n < 10 ^ Z.of_nat (length ds) /\
  (n < 10 -> length ds = 1%nat) /\ (10 <= n -> 10 ^ (Z.of_nat (length ds) - 1) <= n).

(* with enough fuel the loop emits the decimal digits of n in front of acc: they are digits,
   they read back as n, and there is no leading zero (the length is that of n) *)
Lemma digits10_spec : forall fuel n acc, (0 < fuel)%nat -> 0 <= n < 10 ^ Z.of_nat fuel ->
  exists ds, digits10 fuel n acc = ds ++ acc /\ ndigits ds n /\
             (forall a, parse_digits ds a = Some (a * 10 ^ Z.of_nat (length ds) + n)).
Proof.
  unfold ndigits.
  induction fuel as [ | f IH]; intros n acc Hfuel H.
  - exfalso. inversion Hfuel.
  - cbn [digits10].
    assert (Hk : 0 <= n mod 10 < 10) by lia.
    destruct (digit_char_ok _ Hk) as [Dc Pc].
    set (c := Z.to_N (48 + n mod 10)) in *.
    destruct (Z.ltb_spec n 10) as [Hlt | Hge].
    + exists [c]. split; [reflexivity | ]. cbn [length]. change (10 ^ Z.of_nat 1) with 10.
      split; [ split; [discriminate | split; [constructor; [exact Dc | constructor] | split; [exact Hlt | split; [reflexivity | lia] ] ] ] | ].
      intro a. rewrite Pc. f_equal. lia.
    + assert (Hf : 0 <= n / 10 < 10 ^ Z.of_nat f).
      { rewrite Nat2Z.inj_succ, Z.pow_succ_r in H by lia. lia. }
      assert (Hf0 : (0 < f)%nat).
      { destruct f; [ change (10 ^ Z.of_nat 0) with 1 in Hf; exfalso; lia | apply Nat.lt_0_succ ]. }
      destruct (IH (n / 10) (c :: acc) Hf0 Hf) as (ds & E & (Hne & Hd & Hub & Hl1 & Hl2) & Hp).
      exists (ds ++ [c]). split; [rewrite E, <- app_assoc; reflexivity | ].
      assert (Hlen : Z.of_nat (length (ds ++ [c])) = Z.succ (Z.of_nat (length ds))).
      { rewrite app_length. cbn [length]. lia. }
      rewrite Hlen, Z.pow_succ_r by lia.
      split; [ split; [destruct ds; discriminate | split; [ | split; [lia | split; [lia | ] ] ] ] | ].
      * apply Forall_app; split; [exact Hd | constructor; [exact Dc | constructor] ].
      * intros _. replace (Z.succ (Z.of_nat (length ds)) - 1) with (Z.of_nat (length ds)) by lia.
        destruct (Z_lt_le_dec (n / 10) 10) as [Hs | Hb].
        -- rewrite (Hl1 Hs). change (10 ^ Z.of_nat 1) with 10. lia.
        -- specialize (Hl2 Hb).
           assert (Hpos : 1 <= Z.of_nat (length ds)) by (destruct ds; [contradiction | cbn [length]; lia]).
           replace (Z.of_nat (length ds)) with (Z.succ (Z.of_nat (length ds) - 1)) by lia.
           rewrite Z.pow_succ_r by lia. lia.
      * intro a. rewrite parse_digits_app, Hp, Pc. f_equal. lia.
Qed.

(* the fuel of Z_to_str is enough for every integer *)
Lemma fuel_enough n : 0 <= n -> 0 <= n < 10 ^ Z.of_nat (S (Z.to_nat (Z.log2 n))).
Proof.
  intro H. split; [exact H | ].
  rewrite Nat2Z.inj_succ, Z2Nat.id by apply Z.log2_nonneg.
  destruct (Z.eq_dec n 0) as [-> | Hne]; [vm_compute; reflexivity | ].
  pose proof (Z.log2_spec n ltac:(lia)) as [_ Hu].
  eapply Z.lt_le_trans; [exact Hu | ].
  apply Z.pow_le_mono_l. lia.
Qed.

Lemma parse_i64_digit c r : is_digit c -> parse_i64 (c :: r) = parse_digits (c :: r) 0.
Proof.
  unfold is_digit. intro H. unfold parse_i64.
  destruct c as [ | p]; [reflexivity | ].
  do 6 (destruct p as [p | p | ]; try reflexivity); exfalso; lia.
Qed.

(* the text is an optional '-' followed by the digits of |z|: as many characters as |z| has
   decimal digits (so no digit is dropped and none is added), reading back as z *)
Theorem z_to_str_decimal : forall z,
  parse_i64 (Z_to_str z) = Some z /\
  exists ds, Z_to_str z = (if z <? 0 then [45%N] else []) ++ ds /\ ndigits ds (Z.abs z) /\
             parse_digits ds 0 = Some (Z.abs z).
Proof.
  intro z. rewrite Z_to_str_unfold.
  destruct (Z.ltb_spec z 0) as [Hneg | Hpos].
  - destruct (digits10_spec _ _ [] (Nat.lt_0_succ _) (fuel_enough (- z) ltac:(lia))) as (ds & E & Hn & Hp).
    rewrite E, app_nil_r.
    assert (Hv : parse_digits ds 0 = Some (- z)) by (rewrite Hp; f_equal; lia).
    replace (Z.abs z) with (- z) by lia.
    split.
    + destruct ds as [ | c r]; [destruct Hn as [Hn _]; contradiction | ].
      cbn [parse_i64]. rewrite Hv. cbn [option_map]. f_equal. lia.
    + exists ds. split; [reflexivity | split; [exact Hn | exact Hv] ].
  - destruct (digits10_spec _ _ [] (Nat.lt_0_succ _) (fuel_enough z Hpos)) as (ds & E & Hn & Hp).
    rewrite E, app_nil_r.
    assert (Hv : parse_digits ds 0 = Some z) by (rewrite Hp; f_equal; lia).
    replace (Z.abs z) with z by lia.
    split.
    + destruct ds as [ | c r]; [destruct Hn as [Hn _]; contradiction | ].
      destruct Hn as (_ & Hd & _). inversion Hd; subst.
      rewrite parse_i64_digit by assumption. exact Hv.
    + exists ds. split; [reflexivity | split; [exact Hn | exact Hv] ].
Qed.

Corollary z_to_str_injective : forall a b, Z_to_str a = Z_to_str b -> a = b.
Proof.
  intros a b H. pose proof (proj1 (z_to_str_decimal a)) as Ha. pose proof (proj1 (z_to_str_decimal b)) as Hb.
  rewrite H in Ha. congruence.
Qed.

(* ------------------------------------------------------------------------------------- *)
(* 3. the rule functions                                                                   *)
(* ------------------------------------------------------------------------------------- *)
Section Rules.
Context {F : Type} {NF : Num F}.

(* a rule field holds an item: as a token of the line, or through a variable of the session *)
Definition field_is (vs : vars F) (k : string) (fs : fields F) (i : item F) : Prop :=
  exists ti, assoc (s k) fs = Some ti /\
    (ti_ty ti = Some (item_token i) \/
     exists v, ti_ty ti = Some (TVariable v) /\ var_item vs v = Some i).

Lemma field_is_has vs k fs i : field_is vs k fs i -> has k fs = true.
Proof. intros (ti & Ha & _). unfold has, assoc_mem. rewrite Ha. reflexivity. Qed.

Ltac field_cases H :=
  let ti := fresh "ti" in let Ha := fresh "Ha" in let Hd := fresh "Hd" in
  let v := fresh "v" in let Hv := fresh "Hv" in let Hi := fresh "Hi" in
  destruct H as (ti & Ha & [Hd | (v & Hv & Hi)]);
  unfold get_time, get_date, get_date_time, get_number, field_token;
  rewrite Ha; [rewrite Hd | rewrite Hv, Hi]; reflexivity.

Lemma get_time_time vs k fs t z : field_is vs k fs (ITime t z) -> get_time vs (s k) fs = Some (t, z).
Proof. intro H. field_cases H. Qed.
Lemma get_time_date vs k fs d z : field_is vs k fs (IDate d z) -> get_time vs (s k) fs = None.
Proof. intro H. field_cases H. Qed.
Lemma get_time_datetime vs k fs t z : field_is vs k fs (IDateTime t z) -> get_time vs (s k) fs = None.
Proof. intro H. field_cases H. Qed.
Lemma get_date_date vs k fs d z : field_is vs k fs (IDate d z) -> get_date vs (s k) fs = Some (d, z).
Proof. intro H. field_cases H. Qed.
Lemma get_date_datetime vs k fs t z : field_is vs k fs (IDateTime t z) -> get_date vs (s k) fs = None.
Proof. intro H. field_cases H. Qed.
Lemma get_date_time_datetime vs k fs t z : field_is vs k fs (IDateTime t z) -> get_date_time vs (s k) fs = Some (t, z).
Proof. intro H. field_cases H. Qed.
Lemma get_number_number vs k fs x nt : field_is vs k fs (INumber x nt) -> get_number vs (s k) fs = Some x.
Proof. intro H. field_cases H. Qed.
Lemma get_number_time vs k fs t z : field_is vs k fs (ITime t z) -> get_number vs (s k) fs = None.
Proof. intro H. field_cases H. Qed.

(* the instant a time, a date or a date-time denotes: a date is its midnight UTC; the display
   zone of the item plays no role *)
Definition instant_of (i : item F) : option Z :=
  match i with
  | ITime t _ => Some t
  | IDate d _ => Some (86400 * d)
  | IDateTime t _ => Some t
  | _ => None
  end.

Theorem to_unixtime_exact : forall vs fs i ts,
  field_is vs "data" fs i -> instant_of i = Some ts ->
  to_unixtime vs fs = Ok (Some (TNumber (fofZ ts) Raw)).
Proof.
  intros vs fs i ts H Hi. unfold to_unixtime. rewrite (field_is_has _ _ _ _ H).
  destruct i; try discriminate; cbn [instant_of] in Hi; injection Hi as <-.
  - rewrite (get_time_time _ _ _ _ _ H). reflexivity.
  - rewrite (get_time_date _ _ _ _ _ H), (get_date_date _ _ _ _ _ H).
    unfold dt_of. replace (days * 86400 + 0) with (86400 * days) by lia. reflexivity.
  - rewrite (get_time_datetime _ _ _ _ _ H), (get_date_datetime _ _ _ _ _ H), (get_date_time_datetime _ _ _ _ _ H).
    reflexivity.
Qed.

(* the zone 'N to date' shows: the requested one when there is one, the configured one otherwise *)
Definition shown_zone (cfg : config F) (vs : vars F) (fs : fields F) : tzinfo :=
  match get_timezone vs (s "timezone") fs with
  | Some (n, o) => {| tz_name := to_uppercase n; tz_off := o |}
  | None => get_time_offset cfg
  end.

(* never a panic: an instant chrono cannot represent is declined; the instant is the number
   itself whatever the zone *)
Theorem from_unixtime_exact : forall cfg vs fs x nt,
  field_is vs "number" fs (INumber x nt) ->
  from_unixtime cfg vs fs =
  Ok (if dt_ok (as_i64 x) then Some (TDateTime (as_i64 x) (shown_zone cfg vs fs)) else None).
Proof.
  intros cfg vs fs x nt H. unfold from_unixtime, shown_zone.
  rewrite (field_is_has _ _ _ _ H), (get_number_number _ _ _ _ _ H).
  destruct (dt_ok (as_i64 x)); cbn [negb]; [ | reflexivity ].
  destruct (get_timezone vs (s "timezone") fs) as [[n o] | ]; reflexivity.
Qed.

Lemma shown_zone_requested cfg vs fs ti n o :
  assoc (s "timezone") fs = Some ti -> ti_ty ti = Some (TTimezone n o) ->
  shown_zone cfg vs fs = {| tz_name := to_uppercase n; tz_off := o |}.
Proof. intros Ha Ht. unfold shown_zone, get_timezone, field_token. rewrite Ha, Ht. reflexivity. Qed.

Lemma shown_zone_default cfg vs fs :
  assoc (s "timezone") fs = None -> shown_zone cfg vs fs = cf_tz cfg.
Proof. intros Ha. unfold shown_zone, get_timezone, field_token. rewrite Ha. reflexivity. Qed.

Theorem to_unixtime_cases : forall (vs : vars F) (fs : fields F),
  (forall d z, field_is vs "data" fs (IDate d z) ->
     to_unixtime vs fs = Ok (Some (TNumber (fofZ (86400 * d)) Raw))) /\
  (forall t z, field_is vs "data" fs (IDateTime t z) ->
     to_unixtime vs fs = Ok (Some (TNumber (fofZ t) Raw))) /\
  (forall t z, field_is vs "data" fs (ITime t z) ->
     to_unixtime vs fs = Ok (Some (TNumber (fofZ t) Raw))).
Proof.
  intros vs fs. repeat split; intros; eapply to_unixtime_exact; try eassumption; reflexivity.
Qed.

Theorem from_unixtime_cases : forall (cfg : config F) (vs : vars F) (fs : fields F) x nt,
  field_is vs "number" fs (INumber x nt) ->
  from_unixtime cfg vs fs =
    Ok (if dt_ok (as_i64 x) then Some (TDateTime (as_i64 x) (shown_zone cfg vs fs)) else None) /\
  (assoc (s "timezone") fs = None -> shown_zone cfg vs fs = cf_tz cfg) /\
  (forall ti n o, assoc (s "timezone") fs = Some ti -> ti_ty ti = Some (TTimezone n o) ->
     shown_zone cfg vs fs = {| tz_name := to_uppercase n; tz_off := o |}).
Proof.
  intros cfg vs fs x nt H. split; [exact (from_unixtime_exact cfg vs fs x nt H) | split ].
  - exact (shown_zone_default cfg vs fs).
  - intros ti n o. exact (shown_zone_requested cfg vs fs ti n o).
Qed.

(* N -> date-time -> N *)
Theorem roundtrip_number : forall cfg vs fs n nt,
  field_is vs "number" fs (INumber (fofZ n) nt) -> as_i64 (fofZ n) = n -> dt_ok n = true ->
  from_unixtime cfg vs fs = Ok (Some (TDateTime n (shown_zone cfg vs fs))) /\
  forall vs' fs', field_is vs' "data" fs' (IDateTime n (shown_zone cfg vs fs)) ->
    to_unixtime vs' fs' = Ok (Some (TNumber (fofZ n) Raw)).
Proof.
  intros cfg vs fs n nt H Hn Hok. split.
  - rewrite (from_unixtime_exact _ _ _ _ _ H), Hn, Hok. reflexivity.
  - intros vs' fs' H'. apply (to_unixtime_exact _ _ _ _ H'). reflexivity.
Qed.

(* date-time -> N -> the same instant *)
Theorem roundtrip_datetime : forall vs fs t z,
  field_is vs "data" fs (IDateTime t z) -> as_i64 (fofZ t) = t -> dt_ok t = true ->
  to_unixtime vs fs = Ok (Some (TNumber (fofZ t) Raw)) /\
  forall cfg vs' fs', field_is vs' "number" fs' (INumber (fofZ t) Raw) ->
    from_unixtime cfg vs' fs' = Ok (Some (TDateTime t (shown_zone cfg vs' fs'))).
Proof.
  intros vs fs t z H Ht Hok. split.
  - apply (to_unixtime_exact _ _ _ _ H). reflexivity.
  - intros cfg vs' fs' H'. rewrite (from_unixtime_exact _ _ _ _ _ H'), Ht, Hok. reflexivity.
Qed.

(* at: a date and an hour 0..23, or a date and a time *)
Lemma f_as_bounds lo hi (x : F) : lo <= 0 <= hi -> lo <= f_as lo hi x <= hi.
Proof.
  intro H. unfold f_as, clampZ. destruct (fcls x); try lia.
  destruct (Z.ltb_spec (ftruncZ x) lo); [lia | ]. destruct (Z.ltb_spec hi (ftruncZ x)); lia.
Qed.

Lemma as_u32_nonneg (x : F) : 0 <= as_u32 x.
Proof. unfold as_u32. pose proof (f_as_bounds 0 (2 ^ 32 - 1) x ltac:(lia)). lia. Qed.

Theorem at_date_hour : forall vs fs d z x nt,
  field_is vs "source" fs (IDate d z) -> field_is vs "time" fs (INumber x nt) ->
  at_date vs fs = Ok (if as_u32 x <? 24 then Some (TDateTime (86400 * d + 3600 * as_u32 x) z) else None) /\
  (as_u32 x < 24 ->
   day_of_dt (86400 * d + 3600 * as_u32 x) = d /\
   hms_of (secs_of_day (86400 * d + 3600 * as_u32 x)) = (as_u32 x, 0, 0)).
Proof.
  intros vs fs d z x nt Hs Ht. split.
  - unfold at_date, get_number_or_time.
    rewrite (field_is_has _ _ _ _ Hs), (field_is_has _ _ _ _ Ht), (get_date_date _ _ _ _ _ Hs),
      (get_number_number _ _ _ _ _ Ht).
    cbn [andb bind]. destruct (as_u32 x <? 24); [ | reflexivity ].
    unfold dt_of. replace (d * 86400 + as_u32 x * 3600) with (86400 * d + 3600 * as_u32 x) by lia. reflexivity.
  - intro Hh. pose proof (as_u32_nonneg x) as H0. unfold day_of_dt, secs_of_day, hms_of.
    split; [lia | ]. f_equal; [f_equal | ]; lia.
Qed.

Theorem at_date_time : forall vs fs d z t tz,
  field_is vs "source" fs (IDate d z) -> field_is vs "time" fs (ITime t tz) ->
  at_date vs fs = Ok (Some (TDateTime (86400 * d + secs_of_day t) z)) /\
  day_of_dt (86400 * d + secs_of_day t) = d /\
  secs_of_day (86400 * d + secs_of_day t) = secs_of_day t.
Proof.
  intros vs fs d z t tz Hs Ht. split.
  - unfold at_date, get_number_or_time.
    rewrite (field_is_has _ _ _ _ Hs), (field_is_has _ _ _ _ Ht), (get_date_date _ _ _ _ _ Hs),
      (get_number_time _ _ _ _ _ Ht), (get_time_time _ _ _ _ _ Ht).
    cbn [andb bind option_map fst]. unfold dt_of. replace (d * 86400 + secs_of_day t) with (86400 * d + secs_of_day t) by lia. reflexivity.
  - unfold day_of_dt, secs_of_day. lia.
Qed.

(* the printed timestamp: NumberType::Raw prints the whole 64-bit integer *)
Theorem raw_print_all_digits : forall cfg lang ny n,
  as_i64 (fofZ n) = n ->
  item_print cfg lang ny (INumber (fofZ n) Raw) = Ok (Z_to_str n) /\
  parse_i64 (Z_to_str n) = Some n.
Proof.
  intros cfg lang ny n Hn. split; [ cbn [item_print]; rewrite Hn; reflexivity | apply z_to_str_decimal ].
Qed.

End Rules.

(* ------------------------------------------------------------------------------------- *)
(* 3b. the number algebra: an integer timestamp survives the trip through the number type  *)
(* ------------------------------------------------------------------------------------- *)
Lemma Qred_inject_Z n : Qred (inject_Z n) = inject_Z n.
Proof.
  unfold Qred, inject_Z.
  pose proof (Z.ggcd_gcd n 1) as Hg. pose proof (Z.ggcd_correct_divisors n 1) as Hd.
  destruct (Z.ggcd n 1) as [g [aa bb]]. cbn [fst snd] in *.
  rewrite Z.gcd_1_r in Hg. subst g. destruct Hd as [Ha Hb].
  assert (Ea : aa = n) by lia. assert (Eb : bb = 1) by lia. clear Ha Hb. subst aa bb. reflexivity.
Qed.

(* exact rationals: every i64 *)
Theorem as_i64_fofZ_Q : forall n, - 2 ^ 63 <= n < 2 ^ 63 -> @as_i64 Qc NumQ (fofZ n) = n.
Proof.
  intros n H. unfold as_i64, f_as. cbn [fcls fofZ ftruncZ NumQ].
  unfold Qc_truncZ, Qc_of_Z, Q2Qc. cbn [this]. rewrite Qred_inject_Z. unfold inject_Z.
  rewrite Z.quot_1_r. unfold clampZ.
  destruct (Z.ltb_spec n (- 2 ^ 63)); [lia | ]. destruct (Z.ltb_spec (2 ^ 63 - 1) n); lia.
Qed.

(* binary64, the executed instance: checked on a family of timestamps - the day borders of
   +-3 days around the epoch, around +-2^31 and +-2^32, the first and last second of the years
   1..9999, 2^53 - and on every second of four windows of 8193 seconds *)
Definition f64_keeps (n : Z) : bool := @as_i64 float NumF64 (fofZ n) =? n.

Definition f64_family : list Z :=
  [0; 1; -1; 59; 60; 3599; 3600; 86399; 86400; 86401; -86399; -86400; -86401; 172800; -172800; 259200; -259200;
   1609459200; 4102444800; 2147483647; 2147483648; 2147483649; -2147483648; -2147483649; -2147483647;
   4294967295; 4294967296; 4294967297; -4294967296; TS_MIN; TS_MIN + 1; TS_MAX; TS_MAX - 1; TS_MAX - 86399;
   MIN_DAY * 86400; (MAX_DAY + 1) * 86400 - 1; 2 ^ 53; - 2 ^ 53; 2 ^ 53 - 1].

Lemma f64_family_ok : forallb f64_keeps f64_family = true.
Proof. vm_compute. reflexivity. Qed.

Lemma f64_windows_ok :
  forall_range f64_keeps (-4096) 8193 = true /\ forall_range f64_keeps (2 ^ 31 - 4096) 8193 = true /\
  forall_range f64_keeps (TS_MIN - 4096) 8193 = true /\ forall_range f64_keeps (TS_MAX - 4096) 8193 = true.
Proof. split; [ | split; [ | split] ]; vm_cast_no_check (eq_refl true). Qed.

(* the first and the last second of every year 1..9999 *)
Definition year_start (y : Z) : Z := 86400 * days_from_civil y 1 1.
Lemma f64_years_ok :
  forall_range (fun y => f64_keeps (year_start y) && f64_keeps (year_start (y + 1) - 1)) 1 9999 = true.
Proof. vm_cast_no_check (eq_refl true). Qed.

Definition in_f64_checked (n : Z) : Prop :=
  In n f64_family \/ (exists y, 1 <= y <= 9999 /\ (n = year_start y \/ n = year_start (y + 1) - 1)) \/ -4096 <= n <= 4096 \/ 2 ^ 31 - 4096 <= n <= 2 ^ 31 + 4096 \/
  TS_MIN - 4096 <= n <= TS_MIN + 4096 \/ TS_MAX - 4096 <= n <= TS_MAX + 4096.

Theorem as_i64_fofZ_f64 : forall n, in_f64_checked n -> @as_i64 float NumF64 (fofZ n) = n.
Proof.
  intros n H. apply Z.eqb_eq. change (f64_keeps n = true).
  destruct f64_windows_ok as (W1 & W2 & W3 & W4).
  destruct H as [H | [H | [H | [H | [H | H] ] ] ] ].
  - exact (proj1 (forallb_forall _ _) f64_family_ok n H).
  - destruct H as (y & Hy & Hn).
    pose proof (forall_range_spec _ _ _ f64_years_ok y ltac:(lia)) as Hc. cbv beta in Hc.
    apply Bool.andb_true_iff in Hc. destruct Hc as [Ha Hb]. destruct Hn as [-> | ->]; assumption.
  - apply (forall_range_spec _ _ _ W1). lia.
  - apply (forall_range_spec _ _ _ W2). lia.
  - apply (forall_range_spec _ _ _ W3). unfold TS_MIN in *. lia.
  - apply (forall_range_spec _ _ _ W4). unfold TS_MAX in *. lia.
Qed.

(* ------------------------------------------------------------------------------------- *)
(* 5. printing a date-time: the fields are those of the instant shifted by the zone offset *)
(* ------------------------------------------------------------------------------------- *)
Section Print.
Context {F : Type} {NF : Num F}.

(* the template filled with the fields (the body of DateTimeItem::print) *)
Definition fill_datetime (cfg : config F) (fmt : langformat) (now_year : Z) (tz : tzinfo)
    (ymd : Z * Z * Z) (t : Z * Z * Z) : str :=
  let '(y, m, d) := ymd in let '(hh, mm, ss) := t in
  let key := if y =? now_year then s "current_year_with_time" else s "full_date_time" in
  match assoc key (lf_date fmt), month_info cfg (lf_language fmt) m with
  | Some data, Some mi =>
    rep "{timezone}" (tz_name tz)
     (rep "{year}" (Z_to_str y)
      (rep "{month_short}" (uppercase_first_letter (mi_short mi))
       (rep "{month_long}" (uppercase_first_letter (mi_long mi))
        (rep "{month_pad}" (pad2 m)
         (rep "{day_pad}" (pad2 d)
          (rep "{month}" (Z_to_str m)
           (rep "{day}" (Z_to_str d)
            (rep "{hour}" (Z_to_str hh)
             (rep "{minute}" (Z_to_str mm)
              (rep "{second}" (Z_to_str ss)
               (rep "{hour_pad}" (pad2 hh)
                (rep "{minute_pad}" (pad2 mm)
                 (rep "{second_pad}" (pad2 ss) data)))))))))))))
  | _, _ => s "?chrono-display?"
  end.

(* the wall clock of instant t in a zone off minutes east of UTC *)
Definition local_of (t off : Z) : Z := t + 60 * off.

Theorem datetime_print_fields : forall cfg lang now_year t tz,
  datetime_print cfg lang now_year t tz =
  match lang_format cfg lang with
  | None => []
  | Some fmt => fill_datetime cfg fmt now_year tz (fst (civil_of_ts (local_of t (tz_off tz))))
                                                  (snd (civil_of_ts (local_of t (tz_off tz))))
  end.
Proof.
  intros cfg lang now_year t tz. unfold datetime_print, fill_datetime, civil_of_ts, local_of, hms_of.
  destruct (lang_format cfg lang) as [fmt | ]; [ | reflexivity ].
  replace (t + tz_off tz * 60) with (t + 60 * tz_off tz) by lia.
  cbn [fst snd]. destruct (civil_from_days (day_of_dt (t + 60 * tz_off tz))) as [[y m] d]. reflexivity.
Qed.

(* the fields shown determine the instant: they are a valid civil date-time and read back as
   the instant plus the offset (so neither the sign nor a doubling of the offset is possible) *)
Theorem datetime_fields_instant : forall t off,
  let c := civil_of_ts (local_of t off) in
  valid_ymd (fst c) /\ valid_hms (snd c) /\ ts_of_civil (fst c) (snd c) - 60 * off = t.
Proof.
  intros t off c. subst c. destruct (civil_ts_roundtrip (local_of t off)) as (V & Vh & E).
  split; [exact V | split; [exact Vh | ] ]. rewrite E. unfold local_of. lia.
Qed.

End Print.

(* ------------------------------------------------------------------------------------- *)
(* 6. non-vacuity                                                                          *)
(* ------------------------------------------------------------------------------------- *)
Definition UTC : tzinfo := {| tz_name := s "UTC"; tz_off := 0 |}.
Definition GMT3 : tzinfo := {| tz_name := s "GMT+3"; tz_off := 180 |}.
Definition EST : tzinfo := {| tz_name := s "EST"; tz_off := -300 |}.

Theorem examples :
  civil_of_ts 1609459200 = ((2021, 1, 1), (0, 0, 0)) /\
  ts_of_civil (2021, 1, 1) (0, 0, 0) = 1609459200 /\
  civil_of_ts 4102444800 = ((2100, 1, 1), (0, 0, 0)) /\
  civil_of_ts (-1) = ((1969, 12, 31), (23, 59, 59)) /\
  civil_of_ts (-86401) = ((1969, 12, 30), (23, 59, 59)) /\
  civil_of_ts (local_of 1609459200 (-300)) = ((2020, 12, 31), (19, 0, 0)) /\
  Z_to_str 4102444800 = s "4102444800" /\ Z_to_str (-62135596800) = s "-62135596800" /\ Z_to_str 0 = s "0" /\
  datetime_print default_config (s "en") 2026 1609459200 UTC = s "1 Jan 2021 00:00:00 UTC" /\
  datetime_print default_config (s "en") 2026 1609459200 GMT3 = s "1 Jan 2021 03:00:00 GMT+3" /\
  datetime_print default_config (s "en") 2026 1609459200 EST = s "31 Dec 2020 19:00:00 EST" /\
  datetime_print default_config (s "en") 2026 (-1) UTC = s "31 Dec 1969 23:59:59 UTC" /\
  datetime_print default_config (s "en") 2026 4102444800 UTC = s "1 Jan 2100 00:00:00 UTC" /\
  item_print default_config (s "en") 2026 (INumber (fofZ 4102444800) Raw) = Ok (s "4102444800") /\
  dt_ok 4102444800 = true /\ dt_ok (-62135596800) = true /\ dt_ok (2 ^ 62) = false.
Proof. vm_compute. repeat split; reflexivity. Qed.

(* ------------------------------------------------------------------------------------- *)
(* 7. '<date> at <time>' and the zone of the time                                          *)
(* ------------------------------------------------------------------------------------- *)
(* a time written as wall clock w in a zone off minutes east denotes, on the UTC date `today`,
   the instant today*86400 + w - 60*off.  at_date keeps the UTC time of day of that instant.
   Shown in the same zone the result reads (d, w) exactly when w - 60*off stays inside the
   UTC day; otherwise the day shown is one off (refuted below: reported as a finding). *)
Definition time_instant (today w off : Z) : Z := dt_of today w - 60 * off.
Definition at_result (d t : Z) : Z := 86400 * d + secs_of_day t.

Theorem at_time_wall_clock : forall d today w off,
  0 <= w < 86400 -> 0 <= w - 60 * off < 86400 ->
  day_of_dt (local_of (at_result d (time_instant today w off)) off) = d /\
  secs_of_day (local_of (at_result d (time_instant today w off)) off) = w.
Proof.
  intros d today w off Hw Hin. unfold at_result, time_instant, local_of, dt_of, day_of_dt, secs_of_day.
  assert (E : (today * 86400 + w - 60 * off) mod 86400 = w - 60 * off).
  { replace (today * 86400 + w - 60 * off) with (w - 60 * off + today * 86400) by lia.
    rewrite Z_mod_plus_full. apply Z.mod_small. exact Hin. }
  rewrite E. split.
  - replace (86400 * d + (w - 60 * off) + 60 * off) with (w + d * 86400) by lia.
    rewrite Z_div_plus_full by lia. rewrite Z.div_small by lia. lia.
  - replace (86400 * d + (w - 60 * off) + 60 * off) with (w + d * 86400) by lia.
    rewrite Z_mod_plus_full. apply Z.mod_small. lia.
Qed.

Theorem at_time_wall_clock_utc : forall d today w,
  0 <= w < 86400 ->
  day_of_dt (at_result d (time_instant today w 0)) = d /\ secs_of_day (at_result d (time_instant today w 0)) = w.
Proof.
  intros d today w Hw. pose proof (at_time_wall_clock d today w 0 Hw ltac:(lia)) as H.
  unfold local_of in H. rewrite Z.mul_0_r, Z.add_0_r in H. exact H.
Qed.

(* `12 march 2020 at 01:00` under the default zone GMT+3 is shown on 13 March *)
Theorem at_time_wall_clock_refuted :
  exists d today w off, 0 <= w < 86400 /\
    day_of_dt (local_of (at_result d (time_instant today w off)) off) = d + 1.
Proof. exists 18333, 20000, 3600, 180. split; [lia | vm_compute; reflexivity]. Qed.

(* ------------------------------------------------------------------------------------- *)
(* 8. the rules as configured, and the whole executable pipeline                           *)
(* ------------------------------------------------------------------------------------- *)
From SC.Gen Require Import ConfigData.
From SC.Model Require Import Api Corr FloatIO.

Theorem rule_tables :
  option_map (assoc (s "from_unixtime")) (assoc (s "en") d_rule_texts)
  = Some (Some [s "{NUMBER:number} {GROUP:conversion:conversion_group} date";
                s "{NUMBER:number} {GROUP:conversion:conversion_group} {TIMEZONE:timezone}";
                s "{NUMBER:number} {TIMEZONE:timezone}";
                s "{NUMBER:number} date"]) /\
  option_map (assoc (s "to_unixtime")) (assoc (s "en") d_rule_texts)
  = Some (Some [s "{DATETIME_DATE_TIME:data} {GROUP:conversion:conversion_group} {TEXT:type:unix}";
                s "{DATETIME_DATE_TIME:data} {GROUP:conversion:conversion_group} {TEXT:type:unixtime}";
                s "{DATETIME_DATE_TIME:data} {GROUP:conversion:conversion_group} {TEXT:type:unixtimestamp}";
                s "{DATETIME_DATE_TIME:data} {TEXT:type:unix}";
                s "{DATETIME_DATE_TIME:data} {TEXT:type:unixtime}";
                s "{DATETIME_DATE_TIME:data} {TEXT:type:unixtimestamp}"]) /\
  option_map (assoc (s "at_date")) (assoc (s "en") d_rule_texts)
  = Some (Some [s "{DATE:source} at {NUMBER_OR_TIME:time}"]).
Proof. vm_compute. repeat split; reflexivity. Qed.

Definition CK : clock := {| ck_today := 20000; ck_year := 2024 |}.

(* per line: the printed text and the result as a token *)
Definition run_cfg (cfg : config float) (text : str) : list (option (str * option (token float))) :=
  match exec64 CK cfg (s "en") text with
  | Ok r => map (fun l => match l with
                          | Some o => match lo_result o with
                                      | LOk out a => Some (out, ast_as_token a)
                                      | _ => None
                                      end
                          | None => None
                          end) (er_lines r)
  | Panic _ => []
  end.

Definition is_dt (r : option (str * option (token float))) (n : Z) (tz : tzinfo) : bool :=
  match r with
  | Some (o, Some (TDateTime t z)) =>
    str_eqb o (datetime_print default_config (s "en") (ck_year CK) n tz) && (t =? n) && tz_eqb z tz
  | _ => false
  end.

Definition is_raw (r : option (str * option (token float))) (n : Z) : bool :=
  match r with
  | Some (o, Some (TNumber x Raw)) => str_eqb o (Z_to_str n) && (f64_to_bits x =? f64_to_bits (f64_of_Z n))
  | _ => false
  end.

Definition nl : str := [10%N].

Definition run_lines (text : str) := run_cfg default_config text.

(* `x = N to date` / `x as unix` / `N to EST` / `N to date as unix` through the lexer, the rules,
   the interpreter and the formatter: the date-time of N in the zone, and N again, every digit *)
Definition e2e (n : Z) : bool :=
  match run_lines (s "x = " ++ Z_to_str n ++ s " to date" ++ nl ++ s "x as unix" ++ nl ++
             Z_to_str n ++ s " to EST" ++ nl ++ Z_to_str n ++ s " to date as unix") with
  | [a; b; c; d] => is_dt a n UTC && is_raw b n && is_dt c n EST && is_raw d n
  | _ => false
  end.

Definition e2e_family : list Z :=
  [0; 1; -1; 86399; 86400; -86400; -86401; 1609459200; 4102444800; 2147483647; 2147483648; -2147483648; -2147483649;
   4294967296; TS_MIN; TS_MAX; TS_MIN + 86399; TS_MAX - 86399; 1700000000; 1704067200; 1735689599].

Theorem e2e_ok : forallb e2e e2e_family = true.
Proof. vm_compute. reflexivity. Qed.

(* `<date> as unix`, `<date> at H as unix`, an hour of 24 declined *)
Theorem e2e_dates :
  match run_lines (s "12/03/2020 as unix" ++ nl ++ s "12 march 2020 at 10 as unix" ++ nl ++ s "1 january 1 as unix" ++ nl ++
             s "31 december 9999 at 23 to unixtime" ++ nl ++ s "12 march 2020 at 24") with
  | [a; b; c; d; e] =>
    is_raw a 1583971200 && is_raw b 1584007200 && is_raw c TS_MIN && is_raw d (TS_MAX - 3599) &&
    match e with None => true | Some _ => false end
  | _ => false
  end = true.
Proof. vm_compute. reflexivity. Qed.

(* the same under a configured default zone (SmartCalc::set_timezone): the instant and the
   timestamp do not move, the text is that of the zone; a date is still its midnight UTC *)
Definition cfg_zone (name : str) : config float :=
  match set_timezone default_config name with
  | Some (n, o) => set_fmt default_config (cf_money default_config) (cf_number default_config)
                     (cf_percent default_config) (cf_dsep default_config) (cf_tsep default_config)
                     {| tz_name := n; tz_off := o |}
  | None => default_config
  end.

Definition e2e_zone (z : string * Z) (n : Z) : bool :=
  let tz := {| tz_name := s (fst z); tz_off := snd z |} in
  match run_cfg (cfg_zone (s (fst z)))
          (s "x = " ++ Z_to_str n ++ s " to date" ++ nl ++ s "x as unix" ++ nl ++ s "12/03/2020 as unix" ++ nl ++
           s "12/03/2020 at 10 as unix" ++ nl ++ Z_to_str n ++ s " to UTC") with
  | [a; b; c; d; e] => is_dt a n tz && is_raw b n && is_raw c 1583971200 && is_raw d 1584007200 && is_dt e n UTC
  | _ => false
  end.

Definition e2e_zones : list (string * Z) :=
  [("GMT+3", 180); ("EST", -300); ("GMT-3:30", -210); ("GMT+14", 840); ("GMT-12", -720); ("HKT", 480)]%string.

Theorem e2e_zones_ok :
  forallb (fun z => forallb (e2e_zone z) [0; -1; 86399; 1609459200; 4102444800; -2147483649; TS_MIN; TS_MAX])
          e2e_zones = true.
Proof. vm_compute. reflexivity. Qed.
