(* Proofs for property C14. *)
From SC.Model Require Import Base.
