(* Shared lemmas about Session / execute_session / execute (properties C01, C03, C04):
   a session run is the left-to-right fold of execute_text over the lines of the text. *)
From SC.Model Require Import Base Num Types Config Case Chrono UiTokens Rx Post Parser Items Interp
     RuleFns Rules Format Lexer Api.
From Coq Require Import Arith Lia.

Local Open Scope nat_scope.

Section WithNum.
Context {F : Type} {NF : Num F}.
Variable lx : lexdata.
Variable ck : clock.

Notation execute_text := (execute_text lx ck).
Notation session_loop := (session_loop lx ck).
Notation execute_session := (execute_session lx ck).
Notation execute := (execute lx ck).

(* ---------- the reference: lines evaluated once each, in order, threading the variables ---------- *)
Fixpoint eval_lines (cfg : config F) (lang : str) (vs : vars F) (lines : list str)
  : res (list (option (line_obs (F:=F))) * vars F) :=
  match lines with
  | [] => Ok ([], vs)
  | l :: r =>
    match execute_text cfg lang vs l with
    | Panic st => Panic st
    | Ok (o, vs') =>
      match eval_lines cfg lang vs' r with
      | Panic st => Panic st
      | Ok (os, vs'') => Ok (o :: os, vs'')
      end
    end
  end.

Lemma eval_lines_length cfg lang vs lines os vs' :
  eval_lines cfg lang vs lines = Ok (os, vs') -> length os = length lines.
Proof.
  revert vs os vs'. induction lines as [|l r IH]; intros vs os vs' H; cbn [eval_lines] in H.
  - injection H as <- _. reflexivity.
  - destruct (execute_text cfg lang vs l) as [[o v1]|]; [|discriminate].
    destruct (eval_lines cfg lang v1 r) as [[os1 v2]|] eqn:E; [|discriminate].
    injection H as <- _. cbn [length]. f_equal. exact (IH _ _ _ E).
Qed.

(* the i-th slot is the evaluation of the i-th line under the variables left by the lines
   before it; in particular an error (or empty) slot never stops the remaining lines *)
Lemma eval_lines_app cfg lang vs l1 l2 :
  eval_lines cfg lang vs (l1 ++ l2) =
  match eval_lines cfg lang vs l1 with
  | Panic st => Panic st
  | Ok (os1, v1) =>
    match eval_lines cfg lang v1 l2 with
    | Panic st => Panic st
    | Ok (os2, v2) => Ok (os1 ++ os2, v2)
    end
  end.
Proof.
  revert vs. induction l1 as [|l r IH]; intro vs; cbn [app eval_lines].
  - destruct (eval_lines cfg lang vs l2) as [[os2 v2]|]; reflexivity.
  - destruct (execute_text cfg lang vs l) as [[o v1]|]; [|reflexivity].
    rewrite IH. destruct (eval_lines cfg lang v1 r) as [[os1 v1']|]; [|reflexivity].
    destruct (eval_lines cfg lang v1' l2) as [[os2 v2]|]; reflexivity.
Qed.

Lemma nth_opt_skipn {A} (l : list A) p : nth_opt l p = match skipn p l with x :: _ => Some x | [] => None end.
Proof.
  revert p. induction l as [|x l IH]; intros [|p]; cbn [nth_opt skipn]; try reflexivity. apply IH.
Qed.

Lemma skipn_S_cons {A} (l : list A) p x r : skipn p l = x :: r -> skipn (S p) l = r.
Proof.
  revert p. induction l as [|y l IH]; intros [|p] H; cbn [skipn] in *; try discriminate.
  - injection H as _ <-. reflexivity.
  - destruct l as [|z l']; [destruct p; discriminate|]. apply IH in H. exact H.
Qed.

Lemma skipn_length_cons {A} (l : list A) p x r : skipn p l = x :: r -> length l = p + S (length r).
Proof.
  intro H. pose proof (firstn_skipn p l) as E. rewrite H in E.
  assert (Hp : p <= length l).
  { destruct (le_lt_dec p (length l)) as [Hle|Hlt]; [exact Hle|].
    rewrite skipn_all2 in H by lia. discriminate. }
  rewrite <- E at 1. rewrite app_length, firstn_length_le by exact Hp. reflexivity.
Qed.

Definition with_pos_vars (se : session (F:=F)) (p : nat) (vs : vars F) : session (F:=F) :=
  {| se_parts := se_parts se; se_position := p; se_language := se_language se; se_vars := vs |}.

(* session_loop started at the cursor is the fold over the remaining lines; the cursor stops
   on the last line *)
Lemma session_loop_spec cfg : forall fuel (se : session (F:=F)) acc,
  se_position se < length (se_parts se) ->
  length (se_parts se) - se_position se <= fuel ->
  session_loop fuel cfg se acc =
  match eval_lines cfg (se_language se) (se_vars se) (skipn (se_position se) (se_parts se)) with
  | Panic st => Panic st
  | Ok (os, vs') => Ok (with_pos_vars se (length (se_parts se) - 1) vs', acc ++ os)
  end.
Proof.
  induction fuel as [|fuel IH]; intros se acc Hlt Hf; [lia|].
  cbn [Api.session_loop]. rewrite nth_opt_skipn.
  destruct (skipn (se_position se) (se_parts se)) as [|line rest] eqn:Esk.
  { exfalso. pose proof (skipn_length (se_position se) (se_parts se)) as Hl. rewrite Esk in Hl. cbn in Hl. lia. }
  cbn [eval_lines bind].
  destruct (execute_text cfg (se_language se) (se_vars se) line) as [[obs vs1]|st]; [|reflexivity].
  cbn [bind].
  pose proof (skipn_length_cons _ _ _ _ Esk) as Hlen.
  destruct (Nat.ltb_spec (S (se_position se)) (length (se_parts se))) as [Hmore|Hlast].
  - rewrite IH; cbn [se_parts se_position se_language se_vars]; [|exact Hmore|lia].
    rewrite (skipn_S_cons _ _ _ _ Esk).
    destruct (eval_lines cfg (se_language se) vs1 rest) as [[os vs2]|st]; [|reflexivity].
    rewrite <- app_assoc. reflexivity.
  - assert (rest = []) by (destruct rest; [reflexivity|cbn [length] in Hlen; lia]). subst rest.
    cbn [eval_lines]. unfold with_pos_vars. repeat f_equal. lia.
Qed.

(* execute_session: status true and one slot per remaining line, or status false and no
   slot when the cursor is past the end *)
Theorem execute_session_spec cfg (se : session (F:=F)) :
  se_position se < length (se_parts se) ->
  execute_session cfg se =
  match eval_lines cfg (se_language se) (se_vars se) (skipn (se_position se) (se_parts se)) with
  | Panic st => Panic st
  | Ok (os, vs') =>
    Ok (with_pos_vars se (length (se_parts se) - 1) vs', {| er_status := true; er_lines := os |})
  end.
Proof.
  intro Hlt. unfold Api.execute_session.
  destruct (Nat.ltb_spec (se_position se) (length (se_parts se))) as [_|H]; [|lia].
  rewrite session_loop_spec by (try exact Hlt; lia).
  destruct (eval_lines cfg (se_language se) (se_vars se) (skipn (se_position se) (se_parts se)))
    as [[os vs']|st]; reflexivity.
Qed.

(* ---------- split_lines ---------- *)
Lemma split_lines_nonempty_n n : forall x cur, length x <= n -> split_lines x cur <> [].
Proof.
  induction n as [|n IH]; intros x cur Hl; destruct x as [|c r]; cbn [split_lines]; try discriminate;
    cbn [length] in Hl; try lia.
  repeat match goal with
         | |- context [match ?v with _ => _ end] => destruct v
         end; try discriminate; apply IH; cbn [length] in *; lia.
Qed.

Lemma split_lines_nonempty x cur : split_lines x cur <> [].
Proof. apply (split_lines_nonempty_n (length x)). lia. Qed.

Lemma set_text_has_value (se : session (F:=F)) text :
  se_position (set_text se text) < length (se_parts (set_text se text)).
Proof.
  cbn [set_text se_position se_parts]. pose proof (split_lines_nonempty text []) as H.
  destruct (split_lines text []); [contradiction|cbn [length]; lia].
Qed.

(* a freshly set text: every line evaluated exactly once, in order *)
Theorem execute_session_set_text cfg (se : session (F:=F)) text :
  execute_session cfg (set_text se text) =
  match eval_lines cfg (se_language se) (se_vars se) (split_lines text []) with
  | Panic st => Panic st
  | Ok (os, vs') =>
    Ok (with_pos_vars (set_text se text) (length (split_lines text []) - 1) vs',
        {| er_status := true; er_lines := os |})
  end.
Proof.
  rewrite execute_session_spec by apply set_text_has_value. reflexivity.
Qed.

(* SmartCalc::execute: a fresh session per call (no variables), one slot per line *)
Theorem execute_spec cfg lang text :
  execute cfg lang text =
  match eval_lines cfg lang [] (split_lines text []) with
  | Panic st => Panic st
  | Ok (os, _) => Ok {| er_status := true; er_lines := os |}
  end.
Proof.
  unfold Api.execute.
  change (set_language (set_text new_session text) lang)
    with (set_text (set_language (new_session (F:=F)) lang) text).
  rewrite execute_session_set_text. cbn [set_language se_language se_vars new_session].
  destruct (eval_lines cfg lang [] (split_lines text [])) as [[os vs']|st]; reflexivity.
Qed.

Corollary execute_slots cfg lang text r :
  execute cfg lang text = Ok r ->
  er_status r = true /\ length (er_lines r) = length (split_lines text []).
Proof.
  rewrite execute_spec.
  destruct (eval_lines cfg lang [] (split_lines text [])) as [[os vs']|st] eqn:E; [|discriminate].
  intro H. injection H as <-. cbn [er_status er_lines]. split; [reflexivity|].
  exact (eval_lines_length _ _ _ _ _ _ E).
Qed.

End WithNum.
