(* Proofs for property C18: custom rules and user-defined unit families - registration,
   effect, removal.  About the API state machine Corr.step and the rule loop of Rules.v. *)
From Coq Require Import Floats Arith Lia.
From SC.Model Require Import Base Num NumF64 Types Config Case Match Chrono UiTokens Rx Post Parser Items Interp
     RuleFns Rules Format Lexer Api Run64 Corr.
From SC.Proofs Require Import C04.

Local Open Scope nat_scope.

(* ---------- association-list lemmas ---------- *)
Lemma assoc_update_same {A} k (f : A -> A) l : assoc k (assoc_update k f l) = option_map f (assoc k l).
Proof.
  induction l as [|[k' v] r IH]; cbn [assoc_update assoc option_map]; [reflexivity|].
  destruct (str_eqb k k') eqn:E; cbn [assoc]; rewrite E; [reflexivity|exact IH].
Qed.

Lemma assoc_update_other {A} k k' (f : A -> A) l : k <> k' -> assoc k' (assoc_update k f l) = assoc k' l.
Proof.
  intro Hne. induction l as [|[k2 v] r IH]; cbn [assoc_update assoc]; [reflexivity|].
  destruct (str_eqb k k2) eqn:E; cbn [assoc].
  - apply str_eqb_eq in E. subst k2.
    destruct (str_eqb k' k) eqn:E2; [apply str_eqb_eq in E2; congruence|reflexivity].
  - destruct (str_eqb k' k2); [reflexivity|exact IH].
Qed.

Lemma assoc_update_keys {A} k (f : A -> A) l : map fst (assoc_update k f l) = map fst l.
Proof.
  induction l as [|[k2 v] r IH]; cbn [assoc_update map fst]; [reflexivity|].
  destruct (str_eqb k k2); cbn [map fst]; [reflexivity|f_equal; exact IH].
Qed.

(* ---------- the API rules of a rule list, in order ---------- *)
Definition api_of (rs : list (rule float)) : list (list (list (token_info float)) * apirule float) :=
  flat_map (fun r => match r with RApi p a => [(p, a)] | RInternal _ _ => [] end) rs.
Definition internal_of (rs : list (rule float)) : list (rule float) :=
  filter (fun r => match r with RInternal _ _ => true | RApi _ _ => false end) rs.

Lemma api_of_app a b : api_of (a ++ b) = api_of a ++ api_of b.
Proof. unfold api_of. apply flat_map_app. Qed.
Lemma internal_of_app a b : internal_of (a ++ b) = internal_of a ++ internal_of b.
Proof. unfold internal_of. apply filter_app. Qed.

(* reference: delete removes the first registration with that name *)
Fixpoint remove_first (name : str) (l : list (list (list (token_info float)) * apirule float)) :=
  match l with
  | [] => []
  | (p, a) :: r => if str_eqb name (ar_name a) then r else (p, a) :: remove_first name r
  end.
Definition has_name (name : str) (l : list (list (list (token_info float)) * apirule float)) : bool :=
  existsb (fun pa => str_eqb name (ar_name (snd pa))) l.

Definition is_named (name : str) (r : rule float) : bool :=
  match r with RApi _ ar => str_eqb name (ar_name ar) | _ => false end.

Lemma find_index_named name rs :
  match find_index (is_named name) rs with
  | Some i => has_name name (api_of rs) = true /\
              api_of (remove_at i rs) = remove_first name (api_of rs) /\
              internal_of (remove_at i rs) = internal_of rs
  | None => has_name name (api_of rs) = false
  end.
Proof.
  induction rs as [|r rs IH]; cbn [find_index]; [reflexivity|].
  destruct r as [fn ps|ps ar]; cbn [is_named].
  - destruct (find_index (is_named name) rs) as [i|]; cbn [option_map].
    + destruct IH as (H1 & H2 & H3). cbn [remove_at api_of internal_of flat_map filter app].
      repeat split; [exact H1|exact H2|f_equal; exact H3].
    + exact IH.
  - destruct (str_eqb name (ar_name ar)) eqn:E.
    + cbn [remove_at api_of internal_of flat_map filter app has_name existsb snd remove_first].
      rewrite E. repeat split.
    + destruct (find_index (is_named name) rs) as [i|]; cbn [option_map].
      * destruct IH as (H1 & H2 & H3).
        cbn [remove_at api_of internal_of flat_map filter app has_name existsb snd remove_first].
        rewrite E. cbn [orb]. repeat split; [exact H1|f_equal; exact H2|exact H3].
      * cbn [api_of flat_map app has_name existsb snd]. rewrite E. exact IH.
Qed.

(* ---------- add_rule ---------- *)
Definition nonempty_pats (ps0 : list (list (token_info float))) :=
  filter (fun p : list (token_info float) => match p with [] => false | _ => true end) ps0.

Definition mk_api name kind k cur : apirule float := {| ar_name := name; ar_kind := kind; ar_k := k; ar_cur := cur |}.

Definition rules_of (m : mstate) (lang : str) := assoc lang (cf_rules (m_cfg m)).

(* everything but the rule table *)
Definition same_but_rules (c c' : config float) : Prop :=
  c' = set_rules c (cf_rules c').

Theorem add_rule_spec ck m lang patterns name kind k cur ps0 :
  tokenise_patterns LX ck (m_cfg m) lang patterns = Ok ps0 ->
  let r := step ck m (OAddRule lang patterns name kind k cur) in
  match rules_of m lang with
  | None => r = (m, MRet (Some false))                    (* unknown language: refused, nothing changes *)
  | Some rs =>
    snd r = MRet (Some true) /\
    rules_of (fst r) lang = Some (rs ++ [RApi (nonempty_pats ps0) (mk_api name kind k cur)]) /\
    (forall l', l' <> lang -> rules_of (fst r) l' = rules_of m l') /\
    same_but_rules (m_cfg m) (m_cfg (fst r)) /\ m_sessions (fst r) = m_sessions m
  end.
Proof.
  intros Htok r. subst r. unfold rules_of. cbn [step]. rewrite Htok.
  destruct (assoc lang (cf_rules (m_cfg m))) as [rs|] eqn:E; [|reflexivity].
  cbn [fst snd with_cfg m_cfg m_sessions set_rules cf_rules]. repeat split.
  - rewrite assoc_update_same, E. reflexivity.
  - intros l' Hne. apply assoc_update_other. congruence.
Qed.

(* registration fails only for an unknown language (given that the patterns can be tokenised) *)
Corollary add_rule_returns ck m lang patterns name kind k cur ps0 :
  tokenise_patterns LX ck (m_cfg m) lang patterns = Ok ps0 ->
  snd (step ck m (OAddRule lang patterns name kind k cur)) =
  MRet (Some (match rules_of m lang with Some _ => true | None => false end)).
Proof.
  intro H. pose proof (add_rule_spec ck m lang patterns name kind k cur ps0 H) as S. cbv zeta in S.
  destruct (rules_of m lang); [apply S|rewrite S; reflexivity].
Qed.

(* ---------- delete_rule ---------- *)
Theorem delete_rule_spec ck m lang name :
  let r := step ck m (ODeleteRule lang name) in
  match rules_of m lang with
  | None => r = (m, MRet (Some false))
  | Some rs =>
    if has_name name (api_of rs) then
      snd r = MRet (Some true) /\
      (exists rs', rules_of (fst r) lang = Some rs' /\
                   api_of rs' = remove_first name (api_of rs) /\ internal_of rs' = internal_of rs) /\
      (forall l', l' <> lang -> rules_of (fst r) l' = rules_of m l') /\
      same_but_rules (m_cfg m) (m_cfg (fst r)) /\ m_sessions (fst r) = m_sessions m
    else r = (m, MRet (Some false))
  end.
Proof.
  intro r. subst r. unfold rules_of. cbn [step].
  destruct (assoc lang (cf_rules (m_cfg m))) as [rs|] eqn:E; [|reflexivity].
  pose proof (find_index_named name rs) as Hf. fold (is_named name).
  change (fun r : rule float => match r with RApi _ ar => str_eqb name (ar_name ar) | RInternal _ _ => false end)
    with (is_named name).
  destruct (find_index (is_named name) rs) as [i|].
  - destruct Hf as (H1 & H2 & H3). rewrite H1.
    cbn [fst snd with_cfg m_cfg m_sessions set_rules cf_rules]. repeat split.
    + exists (remove_at i rs). rewrite assoc_update_same, E. cbn [option_map]. repeat split; assumption.
    + intros l' Hne. apply assoc_update_other. congruence.
  - rewrite Hf. reflexivity.
Qed.

(* ---------- histories of registrations and deletions ---------- *)
(* the reference: a list of registrations; add appends, delete removes the first of that name *)
Inductive rop :=
| RAdd (ps : list (list (token_info float))) (a : apirule float)
| RDel (name : str).

Definition spec_rop (l : list (list (list (token_info float)) * apirule float)) (o : rop) :=
  match o with
  | RAdd ps a => l ++ [(ps, a)]
  | RDel name => remove_first name l
  end.

(* an operation history realises a reference history when every add_rule's patterns tokenise
   to the recorded ones under the configuration at that moment *)
Fixpoint realises (ck : clock) (lang : str) (m : mstate) (ops : list op) (ros : list rop) : Prop :=
  match ops, ros with
  | [], [] => True
  | OAddRule l patterns name kind k cur :: ops', RAdd ps a :: ros' =>
    l = lang /\ a = mk_api name kind k cur /\
    (exists ps0, tokenise_patterns LX ck (m_cfg m) lang patterns = Ok ps0 /\ ps = nonempty_pats ps0) /\
    realises ck lang (fst (step ck m (OAddRule l patterns name kind k cur))) ops' ros'
  | ODeleteRule l name :: ops', RDel name' :: ros' =>
    l = lang /\ name' = name /\ realises ck lang (fst (step ck m (ODeleteRule l name))) ops' ros'
  | _, _ => False
  end.

Theorem rule_history ck lang : forall ops ros m rs,
  rules_of m lang = Some rs -> realises ck lang m ops ros ->
  exists rs', rules_of (final ck m ops) lang = Some rs' /\
              api_of rs' = fold_left spec_rop ros (api_of rs) /\
              internal_of rs' = internal_of rs /\
              (forall l', l' <> lang -> rules_of (final ck m ops) l' = rules_of m l') /\
              m_sessions (final ck m ops) = m_sessions m.
Proof.
  induction ops as [|o ops IH]; intros ros m rs Hrs Hreal.
  - destruct ros; [|contradiction]. exists rs. cbn [final fold_left]. auto.
  - destruct ros as [|ro ros]; [destruct o; contradiction|].
    destruct o as [ | | | | | | | | | | | | | |lang0 patterns name kind k cur|lang0 name0| | | ];
      try contradiction; destruct ro as [ps a|name']; try contradiction.
    + cbn [realises] in Hreal. destruct Hreal as (-> & -> & (ps0 & Htok & ->) & Hreal).
      pose proof (add_rule_spec ck m lang patterns name kind k cur ps0 Htok) as S. cbv zeta in S.
      rewrite Hrs in S. destruct S as (_ & S2 & S3 & _ & S5).
      destruct (IH ros _ _ S2 Hreal) as (rs' & R1 & R2 & R3 & R4 & R5).
      exists rs'. cbn [final fold_left]. fold (final ck (fst (step ck m (OAddRule lang patterns name kind k cur))) ops).
      repeat split.
      * exact R1.
      * rewrite R2, api_of_app. reflexivity.
      * rewrite R3, internal_of_app. cbn [internal_of filter]. apply app_nil_r.
      * intros l' Hne. rewrite R4 by exact Hne. apply S3. exact Hne.
      * rewrite R5. exact S5.
    + cbn [realises] in Hreal. destruct Hreal as (-> & -> & Hreal).
      pose proof (delete_rule_spec ck m lang name0) as S. cbv zeta in S. rewrite Hrs in S.
      cbn [final fold_left]. fold (final ck (fst (step ck m (ODeleteRule lang name0))) ops).
      destruct (has_name name0 (api_of rs)) eqn:Hn.
      * destruct S as (_ & (rs1 & S2 & S2a & S2b) & S3 & _ & S5).
        destruct (IH ros _ _ S2 Hreal) as (rs' & R1 & R2 & R3 & R4 & R5).
        exists rs'. repeat split.
        -- exact R1.
        -- rewrite R2, S2a. reflexivity.
        -- rewrite R3. exact S2b.
        -- intros l' Hne. rewrite R4 by exact Hne. apply S3. exact Hne.
        -- rewrite R5. exact S5.
      * rewrite S in Hreal |- *. cbn [fst] in *.
        destruct (IH ros _ _ Hrs Hreal) as (rs' & R1 & R2 & R3 & R4 & R5).
        exists rs'. repeat split; try assumption.
        rewrite R2. cbn [fold_left spec_rop]. f_equal.
        clear -Hn. induction (api_of rs) as [|[p a] l IHl]; [reflexivity|].
        cbn [has_name existsb snd remove_first] in *. destruct (str_eqb name0 (ar_name a)); [discriminate|].
        cbn [orb] in Hn. f_equal. apply IHl. exact Hn.
Qed.

(* deleting a rule right after registering it restores the rule list of the language *)
Lemma remove_first_snoc name l p a :
  has_name name l = false -> ar_name a = name -> remove_first name (l ++ [(p, a)]) = l.
Proof.
  intros H <-. induction l as [|[p' a'] l IH]; cbn [app remove_first has_name existsb snd] in *.
  - rewrite str_eqb_refl. reflexivity.
  - destruct (str_eqb (ar_name a) (ar_name a')); [discriminate|]. cbn [orb] in H. f_equal. apply IH. exact H.
Qed.

(* ---------- a rule that declines ---------- *)
Section Decline.
Variable bexec : config float -> str -> res (option float).
Variable now_year : Z.

(* find_match never panics on a non-empty pattern *)
Lemma find_match_loop_ok vs pat : pat <> [] -> forall tokens rule_idx start target fs,
  rule_idx < length pat ->
  exists r, find_match_loop vs pat tokens rule_idx start target fs = Ok r.
Proof.
  intros Hne tokens. induction tokens as [|t rest IH]; intros rule_idx start target fs Hlt; cbn [find_match_loop].
  - eexists; reflexivity.
  - destruct (ti_active t); cbn [negb]; [|apply IH; exact Hlt].
    destruct (ti_ty t) as [ty|].
    + destruct (nth_opt pat rule_idx) as [p|] eqn:En.
      * set (same := match ty with TVariable v => variable_compare vs p (var_value vs v) | _ => info_eq t p end).
        destruct same.
        -- destruct (Nat.eqb_spec (length pat) (S rule_idx)); [eexists; reflexivity|apply IH; lia].
        -- destruct (Nat.eqb_spec (length pat) 0); [eexists; reflexivity|apply IH; lia].
      * exfalso. revert En. clear -Hlt. revert rule_idx Hlt.
        induction pat as [|x pat IHp]; intros [|i] Hlt; cbn [length nth_opt] in *; try lia; try discriminate.
        apply IHp. lia.
    + destruct (Nat.eqb_spec (length pat) rule_idx); [eexists; reflexivity|apply IH; exact Hlt].
Qed.

Lemma find_match_ok vs pat tokens : pat <> [] -> exists m, find_match vs pat tokens = Ok m.
Proof.
  intro Hne. unfold find_match.
  destruct (find_match_loop_ok vs pat Hne tokens 0 0 0 []) as [[[[ri st] tg] fs] E].
  { destruct pat; [contradiction|cbn [length]; lia]. }
  rewrite E. cbn [bind]. eexists; reflexivity.
Qed.

(* a declining API rule never rewrites anything and never panics *)
Lemma decline_try line cfg lang vs ps ar st :
  ar_kind ar = RDecline -> Forall (fun p => p <> []) ps ->
  forall pats, incl pats ps ->
  rule_try_patterns bexec now_year line cfg lang vs (RApi ps ar) pats st = Ok None.
Proof.
  intros Hk Hne pats. induction pats as [|pat rest IH]; intro Hincl; cbn [rule_try_patterns]; [reflexivity|].
  assert (Hp : pat <> []).
  { rewrite Forall_forall in Hne. apply Hne. apply Hincl. left. reflexivity. }
  destruct (find_match_ok vs pat (ts_infos st) Hp) as [m E]. rewrite E. cbn [bind].
  assert (Hrest : incl rest ps) by (intros x Hx; apply Hincl; right; exact Hx).
  destruct (Nat.eqb (fm_total m) (fm_rule_idx m)); [|apply IH; exact Hrest].
  unfold api_call. rewrite Hk. apply IH. exact Hrest.
Qed.

(* ... so a sweep, and hence the whole rule loop, over a rule list containing it anywhere is the
   sweep over the list without it: the line evaluates as if the rule were absent *)
Theorem decline_sweep line cfg lang vs ps ar :
  ar_kind ar = RDecline -> Forall (fun p => p <> []) ps ->
  forall pre post st fired,
  rule_sweep bexec now_year line cfg lang vs (pre ++ RApi ps ar :: post) st fired =
  rule_sweep bexec now_year line cfg lang vs (pre ++ post) st fired.
Proof.
  intros Hk Hne pre. induction pre as [|r pre IH]; intros post st fired; cbn [app rule_sweep].
  - cbn [rule_patterns]. rewrite (decline_try line cfg lang vs ps ar st Hk Hne ps (incl_refl _)). reflexivity.
  - destruct (rule_try_patterns bexec now_year line cfg lang vs r (rule_patterns r) st) as [[st'|]|site];
      cbn [bind]; [apply IH|apply IH|reflexivity].
Qed.

Theorem decline_loop line cfg lang vs ps ar pre post :
  ar_kind ar = RDecline -> Forall (fun p => p <> []) ps ->
  forall fuel st,
  rule_loop bexec now_year fuel line cfg lang vs (pre ++ RApi ps ar :: post) st =
  rule_loop bexec now_year fuel line cfg lang vs (pre ++ post) st.
Proof.
  intros Hk Hne fuel. induction fuel as [|f IH]; intro st; cbn [rule_loop]; [reflexivity|].
  rewrite decline_sweep by assumption.
  destruct (rule_sweep bexec now_year line cfg lang vs (pre ++ post) st false) as [[st' fired]|site];
    cbn [bind]; [|reflexivity].
  destruct fired; [apply IH|reflexivity].
Qed.
End Decline.

(* the patterns stored by add_rule are never empty *)
Lemma nonempty_pats_ok ps0 : Forall (fun p => p <> []) (nonempty_pats ps0).
Proof.
  unfold nonempty_pats. apply Forall_forall. intros p Hin. apply filter_In in Hin as [_ H].
  destruct p; [discriminate|discriminate].
Qed.

(* ---------- user-defined unit families ---------- *)
Theorem add_type_spec ck m name :
  let r := step ck m (OAddType name) in
  match assoc name (cf_types (m_cfg m)) with
  | Some _ => r = (m, MRet (Some false))             (* duplicate family: refused, nothing changes *)
  | None => snd r = MRet (Some true) /\
            cf_types (m_cfg (fst r)) = assoc_insert name [] (cf_types (m_cfg m)) /\
            cf_rules (m_cfg (fst r)) = cf_rules (m_cfg m) /\ m_sessions (fst r) = m_sessions m
  end.
Proof.
  intro r. subst r. cbn [step]. destruct (assoc name (cf_types (m_cfg m))); [reflexivity|].
  cbn [fst snd with_cfg m_cfg set_types cf_types cf_rules m_sessions]. auto.
Qed.

Theorem add_type_item_duplicate ck m name index format parse up down names digits rnd rm g d :
  assoc name (cf_types (m_cfg m)) = Some g -> nassoc index g = Some d ->
  step ck m (OAddTypeItem name index format parse up down names digits rnd rm) = (m, MRet (Some false)).
Proof. intros H1 H2. cbn [step]. rewrite H1, H2. reflexivity. Qed.

Theorem add_type_item_unknown_family ck m name index format parse up down names digits rnd rm :
  assoc name (cf_types (m_cfg m)) = None ->
  step ck m (OAddTypeItem name index format parse up down names digits rnd rm) = (m, MRet (Some false)).
Proof. intros H1. cbn [step]. rewrite H1. reflexivity. Qed.

Theorem add_type_item_new ck m name index format parse up down names digits rnd rm g ps0 :
  assoc name (cf_types (m_cfg m)) = Some g -> nassoc index g = None ->
  tokenise_patterns LX ck (m_cfg m) (s "en") parse = Ok ps0 ->
  let r := step ck m (OAddTypeItem name index format parse up down names digits rnd rm) in
  snd r = MRet (Some true) /\
  cf_types (m_cfg (fst r)) =
    assoc_insert name (ninsert index {| dt_group := name; dt_index := index; dt_format := format;
                                        dt_parse := nonempty_pats ps0; dt_up := up; dt_down := down;
                                        dt_names := names; dt_digits := digits; dt_round := rnd; dt_rm := rm |} g)
                 (cf_types (m_cfg m)) /\
  cf_rules (m_cfg (fst r)) = cf_rules (m_cfg m).
Proof.
  intros H1 H2 H3 r. subst r. cbn [step]. rewrite H1, H2, H3.
  cbn [fst snd with_cfg m_cfg set_types cf_types cf_rules]. auto.
Qed.
