(* Proofs for property C18. *)
From SC.Model Require Import Base.
