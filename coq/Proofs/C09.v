(* Proofs for property C09 (dates).

   1. ymd_opt_* / chrono_*   from_ymd_opt accepts exactly the existing dates; chrono's range
   2. calc_*                 date +/- duration: fewer than 30 days are exact; the general
                             year / month / day split (calc_add_split, calc_sub_split) and what
                             it means for 'N months', 'N years' and 'k days'; the two recorded
                             defects (quantisation, missing year borrow) with witnesses
   3. small_date_*           the date rule reads exactly the existing calendar dates
   4. to_duration_*          'A to B' = |B - A| days, symmetric
   5. today_words, consecutive_days
   6. print_*                month words and year elision of DateItem::print *)
From SC.Model Require Import Base Num NumF64 Types Config Case Chrono Parser RuleFns Items Format Lexer Api Run64.
From SC.Spec Require Import Calendar.
From SC.Gen Require Import RustConsts ConfigData.
From Coq Require Import ZArith Lia Bool List Floats.
Import ListNotations.
Local Open Scope Z_scope.

(* ------------------------------------------------------------------------------------- *)
(* 1. chrono's NaiveDate range and from_ymd_opt                                           *)
(* ------------------------------------------------------------------------------------- *)
Definition in_chrono (y : Z) : Prop := MIN_YEAR <= y <= MAX_YEAR.
Definition in_chronob (y : Z) : bool := (MIN_YEAR <=? y) && (y <=? MAX_YEAR).

Lemma in_chronob_spec y : in_chronob y = true <-> in_chrono y.
Proof. unfold in_chronob, in_chrono. rewrite andb_true_iff, !Z.leb_le. tauto. Qed.

Lemma ymd_opt_unfold y m d :
  date_of_ymd_opt y m d = if in_chronob y && valid_date y m d then Some (days_from_civil y m d) else None.
Proof. reflexivity. Qed.

Lemma ymd_opt_some y m d :
  in_chrono y -> valid_date y m d = true -> date_of_ymd_opt y m d = Some (days_from_civil y m d).
Proof.
  intros H V. rewrite ymd_opt_unfold, V. apply in_chronob_spec in H. rewrite H. reflexivity.
Qed.

Lemma ymd_opt_invalid y m d : valid_date y m d = false -> date_of_ymd_opt y m d = None.
Proof. intro V. rewrite ymd_opt_unfold, V, andb_false_r. reflexivity. Qed.

Lemma ymd_opt_inv y m d n :
  date_of_ymd_opt y m d = Some n ->
  in_chrono y /\ valid_date y m d = true /\ n = days_from_civil y m d.
Proof.
  rewrite ymd_opt_unfold. destruct (in_chronob y) eqn:C; [|discriminate].
  destruct (valid_date y m d) eqn:V; [|discriminate]. cbn. intros [= <-].
  apply in_chronob_spec in C. auto.
Qed.

(* from_ymd_opt accepts exactly the existing calendar dates (of chrono's years), and the day
   number it returns is the one of that calendar date *)
Theorem ymd_opt_iff y m d :
  in_chrono y ->
  (date_of_ymd_opt y m d <> None <-> valid_date y m d = true) /\
  (forall n, date_of_ymd_opt y m d = Some n -> civil_from_days n = (y, m, d)).
Proof.
  intro C. split.
  - split.
    + destruct (valid_date y m d) eqn:V; [reflexivity|]. rewrite ymd_opt_invalid by exact V. congruence.
    + intro V. rewrite ymd_opt_some by assumption. discriminate.
  - intros n H. apply ymd_opt_inv in H as (_ & V & ->). apply civil_from_days_from_civil, V.
Qed.

Lemma valid_min : valid_date MIN_YEAR 1 1 = true. Proof. reflexivity. Qed.
Lemma valid_max : valid_date MAX_YEAR 12 31 = true. Proof. reflexivity. Qed.

Lemma chrono_day_range y m d :
  in_chrono y -> valid_date y m d = true -> MIN_DAY <= days_from_civil y m d <= MAX_DAY.
Proof.
  intros [H1 H2] V. destruct (valid_date_bounds _ _ _ V) as (Hm & Hd & Hd31).
  unfold MIN_DAY, MAX_DAY. split.
  - destruct (Z_lt_ge_dec (days_from_civil y m d) (days_from_civil MIN_YEAR 1 1)) as [L|G]; [|lia].
    apply days_from_civil_lt in L; [lia | exact V | exact valid_min].
  - destruct (Z_lt_ge_dec (days_from_civil MAX_YEAR 12 31) (days_from_civil y m d)) as [L|G]; [|lia].
    apply days_from_civil_lt in L; [lia | exact valid_max | exact V].
Qed.

Lemma chrono_year_of_day n y m d :
  civil_from_days n = (y, m, d) -> MIN_DAY <= n <= MAX_DAY -> in_chrono y.
Proof.
  intros E [H1 H2]. pose proof (civil_from_days_valid _ _ _ _ E) as V.
  pose proof (days_from_civil_of_civil_from_days _ _ _ _ E) as En.
  destruct (valid_date_bounds _ _ _ V) as (Hm & Hd & Hd31).
  unfold in_chrono. split.
  - destruct (Z_lt_ge_dec y MIN_YEAR) as [L|G]; [|lia]. exfalso.
    assert (days_from_civil y m d < days_from_civil MIN_YEAR 1 1).
    { apply days_from_civil_lt; [exact V | exact valid_min | lia]. }
    unfold MIN_DAY in H1. lia.
  - destruct (Z_lt_ge_dec MAX_YEAR y) as [L|G]; [|lia]. exfalso.
    assert (days_from_civil MAX_YEAR 12 31 < days_from_civil y m d).
    { apply days_from_civil_lt; [exact valid_max | exact V | lia]. }
    unfold MAX_DAY in H2. lia.
Qed.

Definition day_in_range (n : Z) : bool := (MIN_DAY <=? n) && (n <=? MAX_DAY).

Lemma date_add_opt_days n k :
  date_add_opt n (k * 86400) = if day_in_range (n + k) then Some (n + k) else None.
Proof. unfold date_add_opt, day_in_range. rewrite Z.quot_mul by lia. reflexivity. Qed.

Lemma date_add_opt_0 n : day_in_range n = true -> date_add_opt n 0 = Some n.
Proof.
  intro H. change 0 with (0 * 86400). rewrite date_add_opt_days, Z.add_0_r, H. reflexivity.
Qed.

Lemma ymd_opt_in_range y m d n : date_of_ymd_opt y m d = Some n -> day_in_range n = true.
Proof.
  intro H. apply ymd_opt_inv in H as (C & V & ->).
  pose proof (chrono_day_range _ _ _ C V). unfold day_in_range.
  apply andb_true_iff; rewrite !Z.leb_le; lia.
Qed.

(* a calendar date (possibly absent) as a chrono day number *)
Definition civil_opt (o : option (Z * Z * Z)) : option Z :=
  match o with
  | Some (y, m, d) => if in_chronob y then Some (days_from_civil y m d) else None
  | None => None
  end.

Lemma civil_opt_some o n : civil_opt o = Some n ->
  exists y m d, o = Some (y, m, d) /\ in_chrono y /\ n = days_from_civil y m d.
Proof.
  destruct o as [[[y m] d]|]; [|discriminate]. cbn. destruct (in_chronob y) eqn:C; [|discriminate].
  intros [= <-]. exists y, m, d. apply in_chronob_spec in C. auto.
Qed.

Lemma ymd_opt_civil y m d :
  date_of_ymd_opt y m d = civil_opt (if valid_date y m d then Some (y, m, d) else None).
Proof. rewrite ymd_opt_unfold. destruct (valid_date y m d); cbn; [|rewrite andb_false_r]; try reflexivity.
  rewrite andb_true_r. reflexivity. Qed.

Lemma years_step y m d k : date_of_ymd_opt (y + k) m d = civil_opt (add_years y m d k).
Proof. rewrite ymd_opt_civil. reflexivity. Qed.

Lemma months_step_add y m d k :
  date_of_ymd_opt (y + (m - 1 + k) / 12) ((m - 1 + k) mod 12 + 1) d = civil_opt (add_months y m d k).
Proof.
  rewrite ymd_opt_civil. unfold add_months. cbv zeta.
  replace (y * 12 + (m - 1) + k) with ((m - 1 + k) + y * 12) by ring.
  rewrite Z_div_plus_full by lia. rewrite Z_mod_plus_full.
  replace ((m - 1 + k) / 12 + y) with (y + (m - 1 + k) / 12) by ring. reflexivity.
Qed.

Lemma months_step_sub y m d k :
  1 <= m <= 12 -> 0 <= k ->
  date_of_ymd_opt (y - Z.quot k 12)
                  (let mo := m - Z.rem k 12 in if mo <=? 0 then mo + 12 else mo) d
  = civil_opt (add_months (if m <=? k mod 12 then y + 1 else y) m d (- k)).
Proof.
  intros Hm Hk. rewrite ymd_opt_civil. unfold add_months. cbv zeta.
  rewrite Z.quot_div_nonneg, Z.rem_mod_nonneg by lia.
  assert (Hr : 0 <= k mod 12 < 12) by (apply Z.mod_pos_bound; lia).
  assert (Ek : k = 12 * (k / 12) + k mod 12) by (apply Z.div_mod; lia).
  destruct (Z.leb_spec m (k mod 12)) as [L|L].
  - destruct (Z.leb_spec (m - k mod 12) 0) as [L'|L']; [|lia].
    replace ((y + 1) * 12 + (m - 1) + - k) with ((m - k mod 12 + 12 - 1) + (y - k / 12) * 12) by lia.
    rewrite Z_div_plus_full, Z_mod_plus_full by lia.
    rewrite (Z.div_small (m - k mod 12 + 12 - 1)), (Z.mod_small (m - k mod 12 + 12 - 1)) by lia.
    replace (0 + (y - k / 12)) with (y - k / 12) by ring.
    replace (m - k mod 12 + 12 - 1 + 1) with (m - k mod 12 + 12) by ring. reflexivity.
  - destruct (Z.leb_spec (m - k mod 12) 0) as [L'|L']; [lia|].
    replace (y * 12 + (m - 1) + - k) with ((m - k mod 12 - 1) + (y - k / 12) * 12) by lia.
    rewrite Z_div_plus_full, Z_mod_plus_full by lia.
    rewrite (Z.div_small (m - k mod 12 - 1)), (Z.mod_small (m - k mod 12 - 1)) by lia.
    replace (0 + (y - k / 12)) with (y - k / 12) by ring.
    replace (m - k mod 12 - 1 + 1) with (m - k mod 12) by ring. reflexivity.
Qed.

(* ------------------------------------------------------------------------------------- *)
(* 2. date +/- duration (DateItem::calculate)                                             *)
(* ------------------------------------------------------------------------------------- *)
Lemma YEAR_val : YEAR = 31536000. Proof. reflexivity. Qed.
Lemma MONTH_val : MONTH = 2592000. Proof. reflexivity. Qed.

Lemma civil_parts n y m d :
  civil_from_days n = (y, m, d) -> year_of n = y /\ month_of n = m /\ day_of n = d.
Proof. unfold year_of, month_of, day_of. intros ->. auto. Qed.

(* DateItem::calculate for a duration that is not negative (the body of Items.date_calc) *)
Definition date_calc_nn (days dur : Z) (op : optype) : res (option Z) :=
  let years_n := Z.abs dur / YEAR in
  match op with
  | OAdd =>
    Ok (option_bind
          (if years_n =? 0 then Some (days, dur)
           else option_map (fun d' => (d', dur - YEAR * years_n))
                           (ymd_opt (year_of days + years_n) (month_of days) (day_of days)))
          (fun st1 =>
             let '(date, dur) := st1 in
             let months_n := Z.abs dur / MONTH in
             option_bind
               (if months_n =? 0 then Some (date, dur)
                else
                  let total := month_of date - 1 + months_n in        (* month0() + n *)
                  option_map (fun d' => (d', dur - MONTH * months_n))
                             (ymd_opt (year_of date + total / 12) (total mod 12 + 1) (day_of date)))
               (fun st2 => let '(date, dur) := st2 in date_add_opt date dur)))
  | OSub =>
    Ok (option_bind
          (if years_n =? 0 then Some (days, dur)
           else option_map (fun d' => (d', dur - YEAR * years_n))
                           (ymd_opt (year_of days - years_n) (month_of days) (day_of days)))
          (fun st1 =>
             let '(date, dur) := st1 in
             let months_n := Z.abs dur / MONTH in
             option_bind
               (if months_n =? 0 then Some (date, dur)
                else
                  let years := year_of date - Z.quot months_n 12 in
                  let months := month_of date - Z.rem months_n 12 in
                  let months := if months <=? 0 then months + 12 else months in
                  option_map (fun d' => (d', dur - MONTH * months_n))
                             (ymd_opt years months (day_of date)))
               (fun st2 => let '(date, dur) := st2 in date_add_opt date (- dur))))
  | _ => Ok None
  end.

Definition flip_op (op : optype) : optype := match op with OAdd => OSub | OSub => OAdd | o => o end.

Lemma date_calc_nonneg days dur op : 0 <= dur -> date_calc days dur op = date_calc_nn days dur op.
Proof.
  intro H. unfold date_calc. destruct (Z.ltb_spec dur 0) as [L|L]; [lia|]. reflexivity.
Qed.

Lemma date_calc_neg days dur op : dur < 0 -> date_calc days dur op = date_calc_nn days (- dur) (flip_op op).
Proof.
  intro H. unfold date_calc. destruct (Z.ltb_spec dur 0) as [L|L]; [|lia]. reflexivity.
Qed.

(* a negative duration swaps the operation and is applied with its absolute value *)
Theorem negative_duration days dur :
  dur < 0 ->
  date_calc days dur OAdd = date_calc days (- dur) OSub /\
  date_calc days dur OSub = date_calc days (- dur) OAdd.
Proof.
  intro H. rewrite !(date_calc_neg days dur) by exact H. rewrite !(date_calc_nonneg days (- dur)) by lia.
  split; reflexivity.
Qed.

(* 2a. fewer than 30 days: exactly that many days away *)
Lemma calc_days_nn n k :
  0 <= k < 30 ->
  date_calc_nn n (k * 86400) OAdd = Ok (if day_in_range (n + k) then Some (add_days n k) else None) /\
  date_calc_nn n (k * 86400) OSub = Ok (if day_in_range (n - k) then Some (add_days n (- k)) else None).
Proof.
  intro Hk.
  assert (HY : Z.abs (k * 86400) / YEAR = 0) by (rewrite YEAR_val; apply Z.div_small; lia).
  assert (HM : Z.abs (k * 86400) / MONTH = 0) by (rewrite MONTH_val; apply Z.div_small; lia).
  unfold date_calc_nn. cbv zeta. rewrite HY. cbn [Z.eqb option_bind]. rewrite HM. cbn [Z.eqb option_bind].
  split.
  - rewrite date_add_opt_days. reflexivity.
  - replace (- (k * 86400)) with ((- k) * 86400) by ring. rewrite date_add_opt_days.
    unfold add_days. replace (n + - k) with (n - k) by ring. reflexivity.
Qed.

Theorem calc_days n k :
  -30 < k < 30 ->
  date_calc n (k * 86400) OAdd = Ok (if day_in_range (n + k) then Some (add_days n k) else None) /\
  date_calc n (k * 86400) OSub = Ok (if day_in_range (n - k) then Some (add_days n (- k)) else None).
Proof.
  intro Hk. destruct (Z_lt_ge_dec k 0) as [L|G].
  - rewrite !date_calc_neg by lia. replace (- (k * 86400)) with ((- k) * 86400) by ring.
    destruct (calc_days_nn n (- k)) as [A S]; [lia|]. cbn [flip_op]. rewrite A, S.
    unfold add_days. replace (n - - k) with (n + k) by ring. replace (n + - k) with (n - k) by ring.
    replace (n + - - k) with (n + k) by ring. split; reflexivity.
  - rewrite !date_calc_nonneg by lia. apply calc_days_nn. lia.
Qed.

Lemma day_in_range_chrono n y m d :
  civil_from_days n = (y, m, d) -> day_in_range n = true -> in_chronob y = true.
Proof.
  intros E H. apply in_chronob_spec. apply (chrono_year_of_day n y m d E).
  unfold day_in_range in H. apply andb_true_iff in H. rewrite !Z.leb_le in H. exact H.
Qed.

Lemma split_div a b r : 0 < b -> 0 <= r < b -> Z.abs (a * b + r) / b = a \/ a < 0.
Proof.
  intros Hb Hr. destruct (Z_lt_ge_dec a 0) as [L|G]; [right; exact L|left].
  rewrite Z.abs_eq by nia. replace (a * b + r) with (r + a * b) by ring.
  rewrite Z_div_plus_full by lia. rewrite Z.div_small by lia. ring.
Qed.

(* 2b. the general shape for a non-negative duration written as Y 365-day years, M 30-day
   months and a remainder: the years are applied first, then the months, then the days *)
Theorem calc_add_split n y m d Y M R :
  civil_from_days n = (y, m, d) -> day_in_range n = true ->
  0 <= Y -> 0 <= M -> 0 <= R < MONTH -> M * MONTH + R < YEAR ->
  date_calc n (Y * YEAR + (M * MONTH + R)) OAdd =
  Ok (option_bind (civil_opt (add_years y m d Y)) (fun _ =>
      option_bind (civil_opt (add_months (y + Y) m d M)) (fun n2 => date_add_opt n2 R))).
Proof.
  intros E Hn HY HM HR HMR.
  pose proof (civil_from_days_valid _ _ _ _ E) as V.
  pose proof (days_from_civil_of_civil_from_days _ _ _ _ E) as En.
  pose proof (day_in_range_chrono _ _ _ _ E Hn) as C.
  destruct (civil_parts _ _ _ _ E) as (Ey & Em & Ed).
  assert (HYv : 0 < YEAR) by (rewrite YEAR_val; lia).
  assert (HMv : 0 < MONTH) by (rewrite MONTH_val; lia).
  assert (D1 : Z.abs (Y * YEAR + (M * MONTH + R)) / YEAR = Y).
  { destruct (split_div Y YEAR (M * MONTH + R) HYv) as [H|H]; [nia|exact H|lia]. }
  assert (D2 : Z.abs (M * MONTH + R) / MONTH = M).
  { destruct (split_div M MONTH R HMv) as [H|H]; [lia|exact H|lia]. }
  rewrite date_calc_nonneg by nia. unfold date_calc_nn. cbv zeta. rewrite D1. f_equal.
  (* the year step *)
  assert (S1 : (if Y =? 0 then Some (n, Y * YEAR + (M * MONTH + R))
                else option_map (fun d' => (d', Y * YEAR + (M * MONTH + R) - YEAR * Y))
                                (ymd_opt (year_of n + Y) (month_of n) (day_of n)))
               = option_map (fun d' => (d', M * MONTH + R)) (civil_opt (add_years y m d Y))).
  { destruct (Z.eqb_spec Y 0) as [->|NZ].
    - unfold add_years. rewrite Z.add_0_r, V. cbn [civil_opt]. rewrite C, En. cbn [option_map].
      repeat f_equal; ring.
    - unfold ymd_opt. rewrite Ey, Em, Ed, years_step.
      replace (Y * YEAR + (M * MONTH + R) - YEAR * Y) with (M * MONTH + R) by ring. reflexivity. }
  rewrite S1. clear S1.
  destruct (civil_opt (add_years y m d Y)) as [n1|] eqn:R1; cbn [option_map option_bind]; [|reflexivity].
  apply civil_opt_some in R1 as (y1 & m1 & d1 & A1 & C1 & ->).
  apply add_years_valid in A1 as (V1 & -> & -> & ->).
  pose proof (civil_from_days_from_civil _ _ _ V1) as E1.
  destruct (civil_parts _ _ _ _ E1) as (Ey1 & Em1 & Ed1).
  rewrite D2.
  assert (S2 : (if M =? 0 then Some (days_from_civil (y + Y) m d, M * MONTH + R)
                else option_map (fun d' => (d', M * MONTH + R - MONTH * M))
                       (ymd_opt (year_of (days_from_civil (y + Y) m d) +
                                 (month_of (days_from_civil (y + Y) m d) - 1 + M) / 12)
                                ((month_of (days_from_civil (y + Y) m d) - 1 + M) mod 12 + 1)
                                (day_of (days_from_civil (y + Y) m d))))
               = option_map (fun d' => (d', R)) (civil_opt (add_months (y + Y) m d M))).
  { destruct (Z.eqb_spec M 0) as [->|NZ].
    - rewrite add_months_0 by exact V1. cbn [civil_opt]. apply in_chronob_spec in C1. rewrite C1.
      cbn [option_map]. repeat f_equal; ring.
    - unfold ymd_opt. rewrite Ey1, Em1, Ed1, months_step_add.
      replace (M * MONTH + R - MONTH * M) with R by ring. reflexivity. }
  rewrite S2. clear S2.
  destruct (civil_opt (add_months (y + Y) m d M)) as [n2|]; cbn [option_map option_bind]; reflexivity.
Qed.

Theorem calc_sub_split n y m d Y M R :
  civil_from_days n = (y, m, d) -> day_in_range n = true ->
  0 <= Y -> 0 <= M -> 0 <= R < MONTH -> M * MONTH + R < YEAR ->
  date_calc n (Y * YEAR + (M * MONTH + R)) OSub =
  Ok (option_bind (civil_opt (add_years y m d (- Y))) (fun _ =>
      option_bind (civil_opt (add_months (if m <=? M mod 12 then y - Y + 1 else y - Y) m d (- M)))
                  (fun n2 => date_add_opt n2 (- R)))).
Proof.
  intros E Hn HY HM HR HMR.
  pose proof (civil_from_days_valid _ _ _ _ E) as V.
  pose proof (days_from_civil_of_civil_from_days _ _ _ _ E) as En.
  pose proof (day_in_range_chrono _ _ _ _ E Hn) as C.
  destruct (valid_date_bounds _ _ _ V) as (Hm & _).
  destruct (civil_parts _ _ _ _ E) as (Ey & Em & Ed).
  assert (HYv : 0 < YEAR) by (rewrite YEAR_val; lia).
  assert (HMv : 0 < MONTH) by (rewrite MONTH_val; lia).
  assert (D1 : Z.abs (Y * YEAR + (M * MONTH + R)) / YEAR = Y).
  { destruct (split_div Y YEAR (M * MONTH + R) HYv) as [H|H]; [nia|exact H|lia]. }
  assert (D2 : Z.abs (M * MONTH + R) / MONTH = M).
  { destruct (split_div M MONTH R HMv) as [H|H]; [lia|exact H|lia]. }
  rewrite date_calc_nonneg by nia. unfold date_calc_nn. cbv zeta. rewrite D1. f_equal.
  assert (S1 : (if Y =? 0 then Some (n, Y * YEAR + (M * MONTH + R))
                else option_map (fun d' => (d', Y * YEAR + (M * MONTH + R) - YEAR * Y))
                                (ymd_opt (year_of n - Y) (month_of n) (day_of n)))
               = option_map (fun d' => (d', M * MONTH + R)) (civil_opt (add_years y m d (- Y)))).
  { destruct (Z.eqb_spec Y 0) as [->|NZ].
    - unfold add_years. change (- 0) with 0. rewrite Z.add_0_r, V. cbn [civil_opt]. rewrite C, En.
      cbn [option_map]. repeat f_equal; ring.
    - unfold ymd_opt. rewrite Ey, Em, Ed. replace (y - Y) with (y + - Y) by ring. rewrite years_step.
      replace (Y * YEAR + (M * MONTH + R) - YEAR * Y) with (M * MONTH + R) by ring. reflexivity. }
  rewrite S1. clear S1.
  destruct (civil_opt (add_years y m d (- Y))) as [n1|] eqn:R1; cbn [option_map option_bind]; [|reflexivity].
  apply civil_opt_some in R1 as (y1 & m1 & d1 & A1 & C1 & ->).
  apply add_years_valid in A1 as (V1 & -> & -> & ->).
  replace (y + - Y) with (y - Y) in * by ring.
  pose proof (civil_from_days_from_civil _ _ _ V1) as E1.
  destruct (civil_parts _ _ _ _ E1) as (Ey1 & Em1 & Ed1).
  rewrite D2.
  assert (S2 : (if M =? 0 then Some (days_from_civil (y - Y) m d, M * MONTH + R)
                else
                  let years := year_of (days_from_civil (y - Y) m d) - Z.quot M 12 in
                  let months := month_of (days_from_civil (y - Y) m d) - Z.rem M 12 in
                  let months0 := if months <=? 0 then months + 12 else months in
                  option_map (fun d' => (d', M * MONTH + R - MONTH * M))
                             (ymd_opt years months0 (day_of (days_from_civil (y - Y) m d))))
               = option_map (fun d' => (d', R))
                   (civil_opt (add_months (if m <=? M mod 12 then y - Y + 1 else y - Y) m d (- M)))).
  { destruct (Z.eqb_spec M 0) as [->|NZ].
    - change (0 mod 12) with 0. destruct (Z.leb_spec m 0) as [L|L]; [lia|].
      change (- 0) with 0. rewrite add_months_0 by exact V1. cbn [civil_opt].
      apply in_chronob_spec in C1. rewrite C1. cbn [option_map]. repeat f_equal; ring.
    - cbv zeta. unfold ymd_opt. rewrite Ey1, Em1, Ed1.
      pose proof (months_step_sub (y - Y) m d M Hm HM) as S. cbv zeta in S. rewrite S.
      replace (M * MONTH + R - MONTH * M) with R by ring. reflexivity. }
  cbv zeta in S2. rewrite S2. clear S2.
  destruct (civil_opt (add_months _ m d (- M))) as [n2|]; cbn [option_map option_bind]; reflexivity.
Qed.

Lemma finish_months y m d k :
  option_bind (civil_opt (add_months y m d k)) (fun n2 => date_add_opt n2 0) = civil_opt (add_months y m d k).
Proof.
  destruct (civil_opt (add_months y m d k)) as [n2|] eqn:R; cbn [option_bind]; [|reflexivity].
  apply civil_opt_some in R as (y' & m' & d' & A & C & ->).
  apply add_months_valid in A as (V & _).
  pose proof (chrono_day_range _ _ _ C V). apply date_add_opt_0. unfold day_in_range.
  apply andb_true_iff; rewrite !Z.leb_le; lia.
Qed.

(* 'N months' as the duration rule builds it (C10_parse_month): N / 12 years of 365 days and
   N mod 12 months of 30 days *)
Definition month_secs (N : Z) : Z := (N / 12) * YEAR + (N mod 12) * MONTH.

Lemma month_secs_small N : 0 <= N < 12 -> month_secs N = N * MONTH.
Proof. intro H. unfold month_secs. rewrite Z.div_small, Z.mod_small by lia. ring. Qed.

(* 2c. + N months: the calendar month moves by N and the day of the month is kept (None when
   that day does not exist), provided the date reached after the whole years exists *)
Theorem calc_months_add n y m d N :
  civil_from_days n = (y, m, d) -> day_in_range n = true -> 0 <= N ->
  date_calc n (month_secs N) OAdd =
  Ok (option_bind (civil_opt (add_years y m d (N / 12))) (fun _ => civil_opt (add_months y m d N))).
Proof.
  intros E Hn HN. unfold month_secs.
  assert (Hr : 0 <= N mod 12 < 12) by (apply Z.mod_pos_bound; lia).
  assert (Hq : 0 <= N / 12) by (apply Z.div_pos; lia).
  assert (EN : N = 12 * (N / 12) + N mod 12) by (apply Z.div_mod; lia).
  replace (N mod 12 * MONTH) with (N mod 12 * MONTH + 0) by ring.
  rewrite (calc_add_split n y m d (N / 12) (N mod 12) 0 E Hn Hq) by (rewrite ?MONTH_val, ?YEAR_val; lia).
  f_equal. destruct (civil_opt (add_years y m d (N / 12))); cbn [option_bind]; [|reflexivity].
  rewrite finish_months. unfold add_months. cbv zeta.
  replace ((y + N / 12) * 12 + (m - 1) + N mod 12) with (y * 12 + (m - 1) + N) by lia. reflexivity.
Qed.

Corollary calc_months_add_small n y m d N :
  civil_from_days n = (y, m, d) -> day_in_range n = true -> 0 <= N <= 11 ->
  date_calc n (N * MONTH) OAdd = Ok (civil_opt (add_months y m d N)).
Proof.
  intros E Hn HN. rewrite <- month_secs_small by lia. rewrite (calc_months_add n y m d N E Hn) by lia.
  rewrite Z.div_small by lia. unfold add_years. rewrite Z.add_0_r.
  rewrite (civil_from_days_valid _ _ _ _ E). cbn [civil_opt].
  rewrite (day_in_range_chrono _ _ _ _ E Hn). reflexivity.
Qed.

(* 2d. - N months: the month wraps below january WITHOUT decreasing the year: the result is the
   calendar result for the date one year later whenever month <= N mod 12 *)
Theorem calc_months_sub n y m d N :
  civil_from_days n = (y, m, d) -> day_in_range n = true -> 0 <= N ->
  date_calc n (month_secs N) OSub =
  Ok (option_bind (civil_opt (add_years y m d (- (N / 12)))) (fun _ =>
        civil_opt (add_months (if m <=? N mod 12 then y + 1 else y) m d (- N)))).
Proof.
  intros E Hn HN. unfold month_secs.
  assert (Hr : 0 <= N mod 12 < 12) by (apply Z.mod_pos_bound; lia).
  assert (Hq : 0 <= N / 12) by (apply Z.div_pos; lia).
  assert (EN : N = 12 * (N / 12) + N mod 12) by (apply Z.div_mod; lia).
  replace (N mod 12 * MONTH) with (N mod 12 * MONTH + 0) by ring.
  rewrite (calc_sub_split n y m d (N / 12) (N mod 12) 0 E Hn Hq) by (rewrite ?MONTH_val, ?YEAR_val; lia).
  f_equal. destruct (civil_opt (add_years y m d (- (N / 12)))); cbn [option_bind]; [|reflexivity].
  change (- 0) with 0. rewrite finish_months. rewrite Z.mod_mod by lia.
  unfold add_months. cbv zeta.
  destruct (m <=? N mod 12).
  - replace ((y - N / 12 + 1) * 12 + (m - 1) + - (N mod 12)) with ((y + 1) * 12 + (m - 1) + - N) by lia.
    reflexivity.
  - replace ((y - N / 12) * 12 + (m - 1) + - (N mod 12)) with (y * 12 + (m - 1) + - N) by lia.
    reflexivity.
Qed.

Corollary calc_months_sub_calendar n y m d N :
  civil_from_days n = (y, m, d) -> day_in_range n = true -> 0 <= N -> N mod 12 < m ->
  valid_date (y - N / 12) m d = true -> in_chrono (y - N / 12) ->
  date_calc n (month_secs N) OSub = Ok (civil_opt (add_months y m d (- N))).
Proof.
  intros E Hn HN Hm V C. rewrite (calc_months_sub n y m d N E Hn HN).
  unfold add_years. replace (y + - (N / 12)) with (y - N / 12) by ring. rewrite V. cbn [civil_opt].
  apply in_chronob_spec in C. rewrite C. cbn [option_bind].
  destruct (Z.leb_spec m (N mod 12)); [lia|reflexivity].
Qed.

Lemma finish_years y m d k :
  option_bind (civil_opt (add_years y m d k)) (fun _ =>
    option_bind (civil_opt (add_months (y + k) m d 0)) (fun n2 => date_add_opt n2 0))
  = civil_opt (add_years y m d k).
Proof.
  rewrite finish_months.
  destruct (civil_opt (add_years y m d k)) as [n1|] eqn:R; cbn [option_bind]; [|reflexivity].
  unfold add_years in R. destruct (valid_date (y + k) m d) eqn:V; [|discriminate].
  rewrite add_months_0 by exact V. exact R.
Qed.

(* 2e. +/- N years: same month and day, the year moves by N (None for 29 feb -> non-leap year) *)
Theorem calc_years n y m d N :
  civil_from_days n = (y, m, d) -> day_in_range n = true -> 0 <= N ->
  date_calc n (N * YEAR) OAdd = Ok (civil_opt (add_years y m d N)) /\
  date_calc n (N * YEAR) OSub = Ok (civil_opt (add_years y m d (- N))).
Proof.
  intros E Hn HN.
  pose proof (civil_from_days_valid _ _ _ _ E) as V. destruct (valid_date_bounds _ _ _ V) as (Hm & _).
  replace (N * YEAR) with (N * YEAR + (0 * MONTH + 0)) by ring. split.
  - rewrite (calc_add_split n y m d N 0 0 E Hn) by (rewrite ?MONTH_val, ?YEAR_val; lia).
    rewrite finish_years. reflexivity.
  - rewrite (calc_sub_split n y m d N 0 0 E Hn) by (rewrite ?MONTH_val, ?YEAR_val; lia).
    change (0 mod 12) with 0. destruct (Z.leb_spec m 0) as [L|L]; [lia|]. change (- 0) with 0.
    replace (y - N) with (y + - N) by ring. rewrite finish_years. reflexivity.
Qed.

(* 2f. what k days (k >= 0, e.g. '5 weeks' = 35 days) really do: k / 365 years, then
   (k mod 365) / 30 months, then the remaining days *)
Theorem calc_days_quantised n y m d k :
  civil_from_days n = (y, m, d) -> day_in_range n = true -> 0 <= k ->
  date_calc n (k * 86400) OAdd =
  Ok (option_bind (civil_opt (add_years y m d (k / 365))) (fun _ =>
      option_bind (civil_opt (add_months (y + k / 365) m d (k mod 365 / 30))) (fun n2 =>
        if day_in_range (n2 + k mod 365 mod 30) then Some (add_days n2 (k mod 365 mod 30)) else None))).
Proof.
  intros E Hn Hk.
  assert (H1 : 0 <= k mod 365 < 365) by (apply Z.mod_pos_bound; lia).
  assert (H2 : 0 <= k mod 365 mod 30 < 30) by (apply Z.mod_pos_bound; lia).
  assert (H3 : 0 <= k / 365) by (apply Z.div_pos; lia).
  assert (H4 : 0 <= k mod 365 / 30) by (apply Z.div_pos; lia).
  assert (E1 : k = 365 * (k / 365) + k mod 365) by (apply Z.div_mod; lia).
  assert (E2 : k mod 365 = 30 * (k mod 365 / 30) + k mod 365 mod 30) by (apply Z.div_mod; lia).
  replace (k * 86400) with (k / 365 * YEAR + (k mod 365 / 30 * MONTH + (k mod 365 mod 30) * 86400))
    by (rewrite YEAR_val, MONTH_val; lia).
  rewrite (calc_add_split n y m d _ _ _ E Hn H3 H4) by (rewrite ?MONTH_val, ?YEAR_val; lia).
  f_equal. destruct (civil_opt (add_years y m d (k / 365))); cbn [option_bind]; [|reflexivity].
  destruct (civil_opt (add_months (y + k / 365) m d (k mod 365 / 30))); cbn [option_bind]; [|reflexivity].
  apply date_add_opt_days.
Qed.

(* the item level: the time zone label is kept, nothing but a duration can be added, no panic *)
Theorem calc_item {F} {NF : Num F} (bexec : config F -> str -> res (option F)) cfg n tz r op :
  calculate bexec cfg (IDate n tz) r op =
  match r with
  | IDuration dur =>
    match date_calc n dur op with
    | Ok o => Ok (option_map (fun n' => IDate n' tz) o)
    | Panic p => Panic p
    end
  | _ => Ok None
  end /\ (forall dur, exists o, date_calc n dur op = Ok o).
Proof.
  split.
  - destruct r; reflexivity.
  - intro dur. unfold date_calc. destruct (dur <? 0); destruct op; eexists; reflexivity.
Qed.

(* witnesses of the two recorded defects *)
Theorem calc_days_refuted :
  let n := days_from_civil 2021 3 1 in
  date_calc n (30 * 86400) OSub = Ok (Some (days_from_civil 2021 2 1)) /\
  add_days n (- 30) = days_from_civil 2021 1 30 /\
  date_calc n (35 * 86400) OAdd = Ok (Some (days_from_civil 2021 4 6)) /\
  add_days n 35 = days_from_civil 2021 4 5 /\
  date_calc (days_from_civil 2020 2 29) (month_secs 13) OAdd = Ok None /\
  add_months 2020 2 29 13 = Some (2021, 3, 29).
Proof. vm_compute. repeat split; reflexivity. Qed.

Theorem calc_months_sub_refuted :
  date_calc (days_from_civil 2021 3 15) (month_secs 3) OSub = Ok (Some (days_from_civil 2021 12 15)) /\
  add_months 2021 3 15 (- 3) = Some (2020, 12, 15) /\
  date_calc (days_from_civil 2019 1 28) (month_secs 14) OSub = Ok (Some (days_from_civil 2018 11 28)) /\
  add_months 2019 1 28 (- 14) = Some (2017, 11, 28).
Proof. vm_compute. repeat split; reflexivity. Qed.

Theorem calc_examples :
  date_calc (days_from_civil 2020 2 28) (2 * 86400) OAdd = Ok (Some (days_from_civil 2020 3 1)) /\
  date_calc (days_from_civil 2021 2 28) (2 * 86400) OAdd = Ok (Some (days_from_civil 2021 3 2)) /\
  date_calc (days_from_civil 2021 1 1) (1 * 86400) OSub = Ok (Some (days_from_civil 2020 12 31)) /\
  date_calc (days_from_civil 2021 1 31) (month_secs 1) OAdd = Ok None /\
  date_calc (days_from_civil 2021 11 15) (month_secs 1) OAdd = Ok (Some (days_from_civil 2021 12 15)) /\
  date_calc (days_from_civil 2021 12 15) (month_secs 1) OAdd = Ok (Some (days_from_civil 2022 1 15)) /\
  date_calc (days_from_civil 2019 4 1) (month_secs 3) OSub = Ok (Some (days_from_civil 2019 1 1)) /\
  date_calc (days_from_civil 2020 2 29) (4 * YEAR) OAdd = Ok (Some (days_from_civil 2024 2 29)) /\
  date_calc (days_from_civil 2020 2 29) (1 * YEAR) OAdd = Ok None /\
  date_calc (days_from_civil 1988 2 12) (32 * YEAR) OAdd = Ok (Some (days_from_civil 2020 2 12)).
Proof. vm_compute. repeat split; reflexivity. Qed.

(* ------------------------------------------------------------------------------------- *)
(* 3. reading a date: the small_date rule                                                 *)
(* ------------------------------------------------------------------------------------- *)
Section SmallDate.
Context {F : Type} {NF : Num F}.
Variable now_year : Z.

(* the year of the pattern, the current year when the pattern has no year field *)
Definition sd_year (vs : vars F) (fs : fields F) : Z :=
  match get_number vs (s "year") fs with Some y => as_i32 y | None => now_year end.

Theorem small_date_exact cfg vs fs :
  small_date now_year cfg vs fs =
  if has "day" fs && has "month" fs then
    match get_number vs (s "day") fs, get_number_or_month vs (s "month") fs with
    | Some day, Some month =>
      let y := sd_year vs fs in let d := as_u32 day in
      Ok (option_map (fun n => TDate n (get_time_offset cfg))
                     (civil_opt (if valid_date y month d then Some (y, month, d) else None)))
    | _, _ => Ok None
    end
  else Ok None.
Proof.
  unfold small_date, none, some, sd_year.
  destruct (has "day" fs && has "month" fs); [|reflexivity].
  destruct (get_number vs (s "day") fs) as [day|]; [|reflexivity].
  destruct (get_number_or_month vs (s "month") fs) as [month|]; [|reflexivity].
  cbv zeta. rewrite ymd_opt_civil.
  destruct (civil_opt _); reflexivity.
Qed.

(* whatever the rule accepts is an existing calendar date, read from the fields *)
Theorem small_date_sound cfg vs fs t :
  small_date now_year cfg vs fs = Ok (Some t) ->
  exists day month n,
    get_number vs (s "day") fs = Some day /\ get_number_or_month vs (s "month") fs = Some month /\
    t = TDate n (get_time_offset cfg) /\
    valid_date (sd_year vs fs) month (as_u32 day) = true /\ in_chrono (sd_year vs fs) /\
    n = days_from_civil (sd_year vs fs) month (as_u32 day) /\
    civil_from_days n = (sd_year vs fs, month, as_u32 day).
Proof.
  rewrite small_date_exact.
  destruct (has "day" fs && has "month" fs); [|discriminate].
  destruct (get_number vs (s "day") fs) as [day|]; [|discriminate].
  destruct (get_number_or_month vs (s "month") fs) as [month|]; [|discriminate].
  cbv zeta. destruct (valid_date (sd_year vs fs) month (as_u32 day)) eqn:V; [|discriminate].
  cbn [civil_opt]. destruct (in_chronob (sd_year vs fs)) eqn:C; [|discriminate].
  cbn [option_map]. intros [= <-]. exists day, month, (days_from_civil (sd_year vs fs) month (as_u32 day)).
  apply in_chronob_spec in C.
  refine (conj eq_refl (conj eq_refl (conj eq_refl (conj V (conj C (conj eq_refl _)))))).
  apply civil_from_days_from_civil, V.
Qed.

(* every existing calendar date (of chrono's years) is accepted; impossible dates never are;
   the rule never panics *)
Theorem small_date_complete cfg vs fs day month :
  has "day" fs && has "month" fs = true ->
  get_number vs (s "day") fs = Some day -> get_number_or_month vs (s "month") fs = Some month ->
  (valid_date (sd_year vs fs) month (as_u32 day) = true -> in_chrono (sd_year vs fs) ->
   small_date now_year cfg vs fs
   = Ok (Some (TDate (days_from_civil (sd_year vs fs) month (as_u32 day)) (get_time_offset cfg)))) /\
  (valid_date (sd_year vs fs) month (as_u32 day) = false -> small_date now_year cfg vs fs = Ok None).
Proof.
  intros H Hd Hm. rewrite small_date_exact, H, Hd, Hm. cbv zeta. split.
  - intros V C. rewrite V. cbn [civil_opt]. apply in_chronob_spec in C. rewrite C. reflexivity.
  - intros V. rewrite V. reflexivity.
Qed.

Theorem small_date_no_panic cfg vs fs : exists o, small_date now_year cfg vs fs = Ok o.
Proof.
  rewrite small_date_exact.
  destruct (has "day" fs && has "month" fs); [|eexists; reflexivity].
  destruct (get_number vs (s "day") fs); [|eexists; reflexivity].
  destruct (get_number_or_month vs (s "month") fs); eexists; reflexivity.
Qed.

Theorem small_date_default_year vs fs :
  get_number vs (s "year") fs = None -> sd_year vs fs = now_year.
Proof. unfold sd_year. intros ->. reflexivity. Qed.

(* ------------------------------------------------------------------------------------- *)
(* 4. 'A to B' on two dates                                                               *)
(* ------------------------------------------------------------------------------------- *)
Lemma get_date_not_time (vs : vars F) k (fs : fields F) x :
  get_date vs k fs = Some x -> get_time vs k fs = None.
Proof.
  unfold get_date, get_time. destruct (field_token vs k fs) as [t|]; [|discriminate].
  destruct t; try discriminate; try reflexivity.
  destruct (var_item vs name) as [i|]; [|discriminate]. destruct i; try discriminate; reflexivity.
Qed.

Theorem to_duration_dates (vs : vars F) (fs : fields F) a b tza tzb :
  has "source" fs && has "target" fs = true ->
  get_date vs (s "source") fs = Some (a, tza) -> get_date vs (s "target") fs = Some (b, tzb) ->
  to_duration vs fs = Ok (Some (TDuration (Z.abs (diff_days a b) * 86400))).
Proof.
  intros H Ha Hb. unfold to_duration. rewrite H.
  rewrite (get_date_not_time _ _ _ _ Ha), Ha, Hb. reflexivity.
Qed.

(* symmetric: exchanging the two dates gives the same duration *)
Theorem to_duration_symmetric (vs : vars F) (fs1 fs2 : fields F) a b tza tzb tza' tzb' :
  has "source" fs1 && has "target" fs1 = true -> has "source" fs2 && has "target" fs2 = true ->
  get_date vs (s "source") fs1 = Some (a, tza) -> get_date vs (s "target") fs1 = Some (b, tzb) ->
  get_date vs (s "source") fs2 = Some (b, tzb') -> get_date vs (s "target") fs2 = Some (a, tza') ->
  to_duration vs fs1 = to_duration vs fs2.
Proof.
  intros H1 H2 A1 B1 B2 A2.
  rewrite (to_duration_dates vs fs1 a b tza tzb H1 A1 B1), (to_duration_dates vs fs2 b a tzb' tza' H2 B2 A2).
  rewrite diff_days_abs_sym. reflexivity.
Qed.
End SmallDate.

(* ------------------------------------------------------------------------------------- *)
(* 5. today, tomorrow, yesterday                                                          *)
(* ------------------------------------------------------------------------------------- *)
(* the tokens the lexer produces for a whole line, with the default configuration *)
Definition line_tokens (today : Z) (lang w : str) : option (list (option (token float))) :=
  match token_infos LX today default_config lang w with
  | Ok l => Some (map (fun i => ti_ty i) l)
  | Panic _ => None
  end.

Definition UTC : tzinfo := get_time_offset default_config.

(* bugün yarın dün (and their ASCII spellings) *)
Definition tr_today : list str :=
  [[98; 117; 103; 252; 110]%N; s "bugun"; [121; 97; 114; 305; 110]%N; s "yarin"; [100; 252; 110]%N; s "dun"].

Theorem today_words today :
  map (line_tokens today (s "en")) [s "today"; s "tomorrow"; s "yesterday"]
  = map (fun d => Some [Some (TDate d UTC)]) [today; today + 1; today - 1] /\
  map (line_tokens today (s "tr")) tr_today
  = map (fun d => Some [Some (TDate d UTC)]) [today; today; today + 1; today + 1; today - 1; today - 1].
Proof. split; vm_compute; reflexivity. Qed.

(* ... are consecutive calendar days *)
Definition prev_date_of (a b : Z * Z * Z) : Prop := let '(y, m, d) := a in b = next_date y m d.

Theorem consecutive_days today :
  add_days today 1 = today + 1 /\ add_days today (- 1) = today - 1 /\
  prev_date_of (civil_from_days today) (civil_from_days (today + 1)) /\
  prev_date_of (civil_from_days (today - 1)) (civil_from_days today) /\
  diff_days (today - 1) today = 1 /\ diff_days today (today + 1) = 1.
Proof.
  unfold add_days, diff_days, prev_date_of. repeat split; try ring.
  - pose proof (civil_from_days_succ today) as H. destruct (civil_from_days today) as [[y m] d]. exact H.
  - pose proof (civil_from_days_succ (today - 1)) as H. replace (today - 1 + 1) with today in H by ring.
    destruct (civil_from_days (today - 1)) as [[y m] d]. exact H.
Qed.

(* ------------------------------------------------------------------------------------- *)
(* 6. printing a date: month words and year elision                                       *)
(* ------------------------------------------------------------------------------------- *)
Definition EN_LONG : list str :=
  map s ["January"; "February"; "March"; "April"; "May"; "June"; "July"; "August"; "September"; "October";
         "November"; "December"]%string.
Definition EN_SHORT : list str :=
  map s ["Jan"; "Feb"; "Mar"; "Apr"; "May"; "Jun"; "Jul"; "Aug"; "Sep"; "Oct"; "Nov"; "Dec"]%string.
(* Ocak Şubat Mart Nisan Mayıs Haziran Temmuz Ağustos Eylül Ekim Kasım Aralık *)
Definition TR_LONG : list str :=
  [s "Ocak"; [350; 117; 98; 97; 116]%N; s "Mart"; s "Nisan"; [77; 97; 121; 305; 115]%N; s "Haziran"; s "Temmuz";
   [65; 287; 117; 115; 116; 111; 115]%N; [69; 121; 108; 252; 108]%N; s "Ekim"; [75; 97; 115; 305; 109]%N;
   [65; 114; 97; 108; 305; 107]%N].
Definition TR_SHORT : list str :=
  [s "Oca"; [350; 117; 98]%N; s "Mar"; s "Nis"; s "May"; s "Haz"; s "Tem"; [65; 287; 117]%N; s "Eyl"; s "Eki";
   s "Kas"; s "Ara"].

Definition month_names (lang : str) : list str * list str :=
  if str_eqb lang (s "tr") then (TR_LONG, TR_SHORT) else (EN_LONG, EN_SHORT).

(* the tables regenerated from config.json: the month words (capitalised as printed) are the
   language's names in calendar order, and the two date patterns *)
Theorem print_tables :
  forall lang, In lang [s "en"; s "tr"] ->
  option_map (map (fun mi => (uppercase_first_letter (mi_long mi), uppercase_first_letter (mi_short mi), mi_month mi)))
             (assoc lang d_months)
  = Some (combine (combine (fst (month_names lang)) (snd (month_names lang))) [1; 2; 3; 4; 5; 6; 7; 8; 9; 10; 11; 12]) /\
  option_map (fun f => (lf_language f, assoc (s "current_year") (lf_date f), assoc (s "full_date") (lf_date f)))
             (assoc lang d_format)
  = Some (lang, Some (s "{day} {month_long}"), Some (s "{day} {month_short} {year}")).
Proof.
  intros lang [<-|[<-|[]]]; split; vm_compute; reflexivity.
Qed.

(* the reference text: 'day Month' in the current year, 'day Mon year' otherwise *)
Definition ref_print (lang : str) (now_year : Z) (n : Z) : str :=
  let '(y, m, d) := civil_from_days n in
  let '(long, short) := month_names lang in
  if y =? now_year then Z_to_str d ++ 32%N :: nth (Z.to_nat (m - 1)) long []
  else Z_to_str d ++ 32%N :: nth (Z.to_nat (m - 1)) short [] ++ 32%N :: Z_to_str y.

(* the year is compared with the clock and nothing else *)
Lemma date_print_now {F} (cfg : config F) lang ny1 ny2 n tz :
  (year_of n =? ny1) = (year_of n =? ny2) -> date_print cfg lang ny1 n tz = date_print cfg lang ny2 n tz.
Proof.
  unfold date_print, year_of. destruct (lang_format cfg lang); [|reflexivity].
  destruct (civil_from_days n) as [[y m] d]. intros ->. reflexivity.
Qed.

Lemma ref_print_now lang ny1 ny2 n :
  (year_of n =? ny1) = (year_of n =? ny2) -> ref_print lang ny1 n = ref_print lang ny2 n.
Proof.
  unfold ref_print, year_of. destruct (civil_from_days n) as [[y m] d]. intros ->. reflexivity.
Qed.

Definition print_ok (lang : str) (ny : Z) (n : Z) : bool :=
  str_eqb (date_print default_config lang ny n UTC) (ref_print lang ny n).

Lemma print_window :
  forallb (fun lang => forallb (fun ny =>
    forall_range (print_ok lang ny) (days_from_civil 2023 12 31) 368) [2024; 0]) [s "en"; s "tr"] = true.
Proof. vm_cast_no_check (eq_refl true). Qed.

(* every day of the leap year 2024 (and the two days around it), en and tr, every clock: the
   printed month word is the language's name of the calendar month of the date, and the year
   is elided iff it is the current year *)
Theorem print_2024 lang now_year n :
  In lang [s "en"; s "tr"] ->
  days_from_civil 2023 12 31 <= n <= days_from_civil 2025 1 1 ->
  date_print default_config lang now_year n UTC = ref_print lang now_year n.
Proof.
  intros Hl Hn.
  assert (W : forall ny, In ny [2024; 0] -> print_ok lang ny n = true).
  { intros ny Hy. pose proof print_window as P. rewrite forallb_forall in P. specialize (P lang Hl).
    rewrite forallb_forall in P. specialize (P ny Hy).
    apply (forall_range_spec _ _ _ P). change (days_from_civil 2025 1 1) with (days_from_civil 2023 12 31 + 367) in Hn.
    lia. }
  assert (Y : 2023 <= year_of n <= 2025).
  { unfold year_of. destruct (civil_from_days n) as [[y m] d] eqn:E.
    pose proof (civil_from_days_valid _ _ _ _ E) as V.
    pose proof (days_from_civil_of_civil_from_days _ _ _ _ E) as En. rewrite <- En in Hn.
    destruct (valid_date_bounds _ _ _ V) as (Hm & Hd & Hd31). destruct Hn as [H1 H2].
    split.
    - destruct (Z_lt_ge_dec y 2023) as [L|G]; [|lia]. exfalso.
      assert (days_from_civil y m d < days_from_civil 2023 12 31); [|lia].
      apply days_from_civil_lt; [exact V | reflexivity | lia].
    - destruct (Z_lt_ge_dec 2025 y) as [L|G]; [|lia]. exfalso.
      assert (days_from_civil 2025 1 1 < days_from_civil y m d); [|lia].
      apply days_from_civil_lt; [reflexivity | exact V | lia]. }
  destruct (Z.eqb_spec (year_of n) now_year) as [Ey|Ny].
  - (* the clock shows the year of the date: only 2024 is inside the window's interior ... *)
    destruct (Z.eq_dec (year_of n) 2024) as [E4|N4].
    + rewrite (date_print_now default_config lang now_year 2024 n UTC), (ref_print_now lang now_year 2024 n)
        by (rewrite <- Ey, E4; reflexivity).
      apply str_eqb_eq. apply W. left. reflexivity.
    + (* 31 dec 2023 or 1 jan 2025 in their own year: checked separately *)
      subst now_year.
      assert (Hb : n = days_from_civil 2023 12 31 \/ n = days_from_civil 2025 1 1).
      { unfold year_of in *. destruct (civil_from_days n) as [[y m] d] eqn:E.
        pose proof (civil_from_days_valid _ _ _ _ E) as V.
        pose proof (days_from_civil_of_civil_from_days _ _ _ _ E) as En.
        destruct (valid_date_bounds _ _ _ V) as (Hm & Hd & Hd31).
        destruct (Z.eq_dec y 2023) as [->|N3].
        - left. destruct (Z_lt_ge_dec n (days_from_civil 2023 12 31)) as [L|G]; [lia|].
          destruct (Z.eq_dec n (days_from_civil 2023 12 31)) as [e|ne]; [exact e|exfalso].
          assert (L : days_from_civil 2023 12 31 < days_from_civil 2023 m d) by lia.
          apply days_from_civil_lt in L; [lia | reflexivity | exact V].
        - right. assert (y = 2025) by lia. subst y.
          destruct (Z.eq_dec n (days_from_civil 2025 1 1)) as [e|ne]; [exact e|exfalso].
          assert (L : days_from_civil 2025 m d < days_from_civil 2025 1 1) by lia.
          apply days_from_civil_lt in L; [lia | exact V | reflexivity]. }
      destruct Hl as [<-|[<-|[]]]; destruct Hb as [-> | ->]; vm_compute; reflexivity.
  - rewrite (date_print_now default_config lang now_year (if year_of n =? 0 then 1 else 0) n UTC),
            (ref_print_now lang now_year (if year_of n =? 0 then 1 else 0) n).
    + destruct (Z.eqb_spec (year_of n) 0); [lia|]. apply str_eqb_eq. apply W. right. left. reflexivity.
    + destruct (Z.eqb_spec (year_of n) 0); destruct (Z.eqb_spec (year_of n) now_year); try lia; reflexivity.
    + destruct (Z.eqb_spec (year_of n) 0); destruct (Z.eqb_spec (year_of n) now_year); try lia; reflexivity.
Qed.
