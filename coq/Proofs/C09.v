(* Proofs for property C09. *)
From SC.Model Require Import Base.
