(* Proofs for property C05. *)
From SC.Model Require Import Base.
