(* Proofs for property C05 - percentage phrases compute the textbook formulas for numbers and
   money.

   Layers:
   1. operation-sequence theorems for an arbitrary number algebra [Num F] (so also for binary64):
      which fadd/fsub/fmul/do_division sequence each rule function / interpreter step performs,
      for ANY field map that binds the right names;
   2. the same over the exact rationals (NumQ): the sequence is the textbook formula of
      Spec/Percent.v (by [field]), a zero divisor gives 0, money keeps its currency;
   3. the phrase level for 'X + p%' / 'X - p%': parser + interpreter on the three tokens;
   4. finite-table theorems over the regenerated rule table (Run64.default_config, loaded by the
      model from Gen/ConfigData): the rules of the five phrases exist in every language, their
      patterns bind exactly the field names the theorems above assume, and the rule loop run on
      the token shapes of the phrases fires the intended rule (for all binary64 values);
   5. the two spellings 'p%' and '%p'. *)
From Coq Require Import QArith Qcanon Floats Lia.
From SC.Model Require Import Base Num NumQ NumF64 Types Config Case Match Post Parser Items Interp RuleFns Rules
     Regex UiTokens Rx Lexer Api Run64.
From SC.Spec Require Import Percent.
From SC.Gen Require Import Regexes.

(* ------------------------------------------------------------------------------------------ *)
(* 1. operation sequences, any number algebra                                                   *)
(* ------------------------------------------------------------------------------------------ *)
Section WithNum.
Context {F : Type} {NF : Num F}.

(* the amount a token denotes: a number, money, or a variable whose value is one of these
   (this is what get_number_or_price / get_currency read) *)
Definition amount_of (vs : vars F) (t : token F) : option (amount F) :=
  match t with
  | TNumber x _ => Some (Plain x)
  | TMoney x c => Some (Cash x c)
  | TVariable v =>
    match var_item vs v with
    | Some (INumber x _) => Some (Plain x)
    | Some (IMoney x c) => Some (Cash x c)
    | _ => None
    end
  | _ => None
  end.

(* the field map binds the name [k] to a token denoting the amount *)
Definition field_amount (vs : vars F) (k : string) (fs : fields F) : option (amount F) :=
  match field_token vs (s k) fs with Some t => amount_of vs t | None => None end.

(* the field map binds the name [k] to a percentage (a percent token or a variable holding one) *)
Definition field_percent (vs : vars F) (k : string) (fs : fields F) : option F :=
  get_percent vs (s k) fs.

(* an amount as a result token: Number (decimal) or Money in the amount's currency *)
Definition amount_token (a : amount F) : token F :=
  match a with Plain x => TNumber x Decimal | Cash x c => TMoney x c end.

Lemma field_amount_reads vs k fs a :
  field_amount vs k fs = Some a ->
  has k fs = true /\
  get_number_or_price vs (s k) fs = Some (amt_val a) /\
  (forall cfg v, money_or_number cfg vs (s k) fs v = amount_token (amt_with a v)).
Proof.
  unfold field_amount, has, assoc_mem, get_number_or_price, get_number, get_money, money_or_number,
    get_currency, field_token.
  destruct (assoc (s k) fs) as [ti|]; [|discriminate].
  destruct (ti_ty ti) as [t|]; [|discriminate].
  destruct t; cbn [amount_of]; try discriminate.
  - intros E; injection E as <-. repeat split.
  - intros E; injection E as <-. repeat split.
  - destruct (var_item vs name) as [i|]; [|discriminate].
    destruct i; try discriminate; intros E; injection E as <-; repeat split.
Qed.

Lemma field_percent_has vs k fs p : field_percent vs k fs = Some p -> has k fs = true.
Proof.
  unfold field_percent, get_percent, has, assoc_mem, field_token.
  destruct (assoc (s k) fs); [reflexivity | discriminate].
Qed.

(* direct bindings, as the rule loop produces them for literal operands *)
Lemma field_amount_number vs k fs ti x nt :
  assoc (s k) fs = Some ti -> ti_ty ti = Some (TNumber x nt) -> field_amount vs k fs = Some (Plain x).
Proof. intros H1 H2. unfold field_amount, field_token. rewrite H1, H2. reflexivity. Qed.

Lemma field_amount_money vs k fs ti x c :
  assoc (s k) fs = Some ti -> ti_ty ti = Some (TMoney x c) -> field_amount vs k fs = Some (Cash x c).
Proof. intros H1 H2. unfold field_amount, field_token. rewrite H1, H2. reflexivity. Qed.

Lemma field_percent_token vs k fs ti p :
  assoc (s k) fs = Some ti -> ti_ty ti = Some (TPercent p) -> field_percent vs k fs = Some p.
Proof. intros H1 H2. unfold field_percent, get_percent, field_token. rewrite H1, H2. reflexivity. Qed.

(* the operation sequences of the statement's phrases *)
Definition ops_on (X p : F) : F := fadd X (do_division (fmul X p) f100).
Definition ops_off (X p : F) : F := fsub X (do_division (fmul X p) f100).
Definition ops_of (X p : F) : F := do_division (fmul X p) f100.
Definition ops_what_percent (A B : F) : F := do_division (fmul A f100) B.
Definition ops_of_what (A p : F) : F := do_division (fmul A f100) p.
Definition ops_plus (X p : F) : F := fadd X (fmul (do_division X f100) p).
Definition ops_minus (X p : F) : F := fsub X (fmul (do_division X f100) p).

Theorem number_on_ops cfg vs fs a p :
  field_amount vs "number" fs = Some a -> field_percent vs "p" fs = Some p ->
  number_on cfg vs fs = Ok (Some (amount_token (amt_with a (ops_on (amt_val a) p)))).
Proof.
  intros H1 H2. destruct (field_amount_reads _ _ _ _ H1) as (Hh & Hn & Hm).
  pose proof (field_percent_has _ _ _ _ H2) as Hp. unfold field_percent in H2.
  unfold number_on. rewrite Hh, Hp, Hn, H2, Hm. reflexivity.
Qed.

Theorem number_of_ops cfg vs fs a p :
  field_amount vs "number" fs = Some a -> field_percent vs "p" fs = Some p ->
  number_of cfg vs fs = Ok (Some (amount_token (amt_with a (ops_of (amt_val a) p)))).
Proof.
  intros H1 H2. destruct (field_amount_reads _ _ _ _ H1) as (Hh & Hn & Hm).
  pose proof (field_percent_has _ _ _ _ H2) as Hp. unfold field_percent in H2.
  unfold number_of. rewrite Hh, Hp, Hn, H2, Hm. reflexivity.
Qed.

Theorem number_off_ops cfg vs fs a p :
  field_amount vs "number" fs = Some a -> field_percent vs "p" fs = Some p ->
  number_off cfg vs fs = Ok (Some (amount_token (amt_with a (ops_off (amt_val a) p)))).
Proof.
  intros H1 H2. destruct (field_amount_reads _ _ _ _ H1) as (Hh & Hn & Hm).
  pose proof (field_percent_has _ _ _ _ H2) as Hp. unfold field_percent in H2.
  unfold number_off. rewrite Hh, Hp, Hn, H2, Hm. reflexivity.
Qed.

(* 'A is what % of B': a percentage, whatever the kinds (plain / money, any currencies) of A, B *)
Theorem find_numbers_percent_ops vs fs a b :
  field_amount vs "part" fs = Some a -> field_amount vs "total" fs = Some b ->
  find_numbers_percent vs fs = Ok (Some (TPercent (ops_what_percent (amt_val a) (amt_val b)))).
Proof.
  intros H1 H2.
  destruct (field_amount_reads _ _ _ _ H1) as (Hh1 & Hn1 & _).
  destruct (field_amount_reads _ _ _ _ H2) as (Hh2 & Hn2 & _).
  unfold find_numbers_percent. rewrite Hh1, Hh2, Hn1, Hn2. reflexivity.
Qed.

Theorem find_total_from_percent_ops cfg vs fs a p :
  field_amount vs "number_part" fs = Some a -> field_percent vs "percent_part" fs = Some p ->
  find_total_from_percent cfg vs fs = Ok (Some (amount_token (amt_with a (ops_of_what (amt_val a) p)))).
Proof.
  intros H1 H2. destruct (field_amount_reads _ _ _ _ H1) as (Hh & Hn & Hm).
  pose proof (field_percent_has _ _ _ _ H2) as Hp. unfold field_percent in H2.
  unfold find_total_from_percent. rewrite Hh, Hp, Hn, H2, Hm. reflexivity.
Qed.

End WithNum.

(* ------------------------------------------------------------------------------------------ *)
(* 2. exact rationals: the sequences are the textbook formulas                                  *)
(* ------------------------------------------------------------------------------------------ *)
Section OverQ.
Local Open Scope Qc_scope.

Lemma q100_nz : q100 <> 0.
Proof. intro H. apply (f_equal this) in H. vm_compute in H. discriminate. Qed.

Lemma f100_q : @f100 Qc NumQ = q100.
Proof. reflexivity. Qed.

(* in NumQ every value is finite, so the guarded division is the field division, and the field
   division by zero is 0: exactly the guarded division of the statement *)
Lemma do_division_q (a b : Qc) : @do_division Qc NumQ a b = gdiv a b.
Proof.
  change (@do_division Qc NumQ a b) with (a / b). unfold gdiv.
  destruct (Qc_eq_bool b 0) eqn:E; [|reflexivity].
  apply Qc_eq_bool_correct in E. subst b. unfold Qcdiv.
  change (/ 0) with 0. ring.
Qed.

Lemma gdiv_zero a : gdiv a 0 = 0.
Proof. reflexivity. Qed.

Lemma gdiv_nz a b : b <> 0 -> gdiv a b = a / b.
Proof.
  intros H. unfold gdiv. destruct (Qc_eq_bool b 0) eqn:E; [|reflexivity].
  apply Qc_eq_bool_correct in E. contradiction.
Qed.

Lemma gdiv_100 a : gdiv a q100 = a / q100.
Proof. apply gdiv_nz, q100_nz. Qed.

Lemma ops_on_q X p : @ops_on Qc NumQ X p = pct_on X p.
Proof.
  unfold ops_on, pct_on. rewrite do_division_q, f100_q, gdiv_100.
  change (@fadd Qc NumQ) with Qcplus. change (@fmul Qc NumQ) with Qcmult.
  field. exact q100_nz.
Qed.

Lemma ops_off_q X p : @ops_off Qc NumQ X p = pct_off X p.
Proof.
  unfold ops_off, pct_off. rewrite do_division_q, f100_q, gdiv_100.
  change (@fsub Qc NumQ) with Qcminus. change (@fmul Qc NumQ) with Qcmult.
  field. exact q100_nz.
Qed.

Lemma ops_of_q X p : @ops_of Qc NumQ X p = pct_of X p.
Proof.
  unfold ops_of, pct_of. rewrite do_division_q, f100_q, gdiv_100. reflexivity.
Qed.

Lemma ops_what_percent_q A B : @ops_what_percent Qc NumQ A B = what_percent A B.
Proof.
  unfold ops_what_percent, what_percent. rewrite do_division_q, f100_q.
  change (@fmul Qc NumQ) with Qcmult. f_equal. ring.
Qed.

Lemma ops_of_what_q A p : @ops_of_what Qc NumQ A p = of_what A p.
Proof.
  unfold ops_of_what, of_what. rewrite do_division_q, f100_q.
  change (@fmul Qc NumQ) with Qcmult. f_equal. ring.
Qed.

Lemma ops_plus_q X p : @ops_plus Qc NumQ X p = pct_plus X p.
Proof.
  unfold ops_plus, pct_plus. rewrite do_division_q, f100_q, gdiv_100.
  change (@fadd Qc NumQ) with Qcplus. change (@fmul Qc NumQ) with Qcmult.
  field. exact q100_nz.
Qed.

Lemma ops_minus_q X p : @ops_minus Qc NumQ X p = pct_minus X p.
Proof.
  unfold ops_minus, pct_minus. rewrite do_division_q, f100_q, gdiv_100.
  change (@fsub Qc NumQ) with Qcminus. change (@fmul Qc NumQ) with Qcmult.
  field. exact q100_nz.
Qed.

(* the rule functions over Q: for ALL X, A, B, p (via the amount [a] and [p]) *)
Theorem number_on_q (cfg : config Qc) vs fs a p :
  field_amount vs "number" fs = Some a -> field_percent vs "p" fs = Some p ->
  number_on cfg vs fs = Ok (Some (amount_token (amt_with a (pct_on (amt_val a) p)))).
Proof. intros H1 H2. rewrite (number_on_ops cfg vs fs a p H1 H2), ops_on_q. reflexivity. Qed.

Theorem number_of_q (cfg : config Qc) vs fs a p :
  field_amount vs "number" fs = Some a -> field_percent vs "p" fs = Some p ->
  number_of cfg vs fs = Ok (Some (amount_token (amt_with a (pct_of (amt_val a) p)))).
Proof. intros H1 H2. rewrite (number_of_ops cfg vs fs a p H1 H2), ops_of_q. reflexivity. Qed.

Theorem number_off_q (cfg : config Qc) vs fs a p :
  field_amount vs "number" fs = Some a -> field_percent vs "p" fs = Some p ->
  number_off cfg vs fs = Ok (Some (amount_token (amt_with a (pct_off (amt_val a) p)))).
Proof. intros H1 H2. rewrite (number_off_ops cfg vs fs a p H1 H2), ops_off_q. reflexivity. Qed.

Theorem find_numbers_percent_q (vs : vars Qc) fs a b :
  field_amount vs "part" fs = Some a -> field_amount vs "total" fs = Some b ->
  find_numbers_percent vs fs = Ok (Some (TPercent (what_percent (amt_val a) (amt_val b)))).
Proof. intros H1 H2. rewrite (find_numbers_percent_ops vs fs a b H1 H2), ops_what_percent_q. reflexivity. Qed.

Theorem find_total_from_percent_q (cfg : config Qc) vs fs a p :
  field_amount vs "number_part" fs = Some a -> field_percent vs "percent_part" fs = Some p ->
  find_total_from_percent cfg vs fs = Ok (Some (amount_token (amt_with a (of_what (amt_val a) p)))).
Proof.
  intros H1 H2. rewrite (find_total_from_percent_ops cfg vs fs a p H1 H2), ops_of_what_q. reflexivity.
Qed.

(* the guarded quotients, spelled out *)
Theorem what_percent_cases A B :
  (B <> 0 -> what_percent A B = q100 * A / B) /\ (B = 0 -> what_percent A B = 0).
Proof.
  split; intros H; unfold what_percent; [apply gdiv_nz; exact H | subst B; apply gdiv_zero].
Qed.

Theorem of_what_cases A p :
  (p <> 0 -> of_what A p = q100 * A / p) /\ (p = 0 -> of_what A p = 0).
Proof.
  split; intros H; unfold of_what; [apply gdiv_nz; exact H | subst p; apply gdiv_zero].
Qed.

End OverQ.

(* ------------------------------------------------------------------------------------------ *)
(* 3. 'X + p%' and 'X - p%': parser and interpreter                                            *)
(* ------------------------------------------------------------------------------------------ *)
Section Phrase.
Context {F : Type} {NF : Num F}.
Variable bexec : config F -> str -> res (option F).

(* a percent operand on the right is turned into 'that share of the left operand' *)
Theorem calc_percent_ops (cfg : config F) X nt c p :
  calculate bexec cfg (INumber X nt) (IPercent p) OAdd = Ok (Some (INumber (ops_plus X p) nt)) /\
  calculate bexec cfg (INumber X nt) (IPercent p) OSub = Ok (Some (INumber (ops_minus X p) nt)) /\
  calculate bexec cfg (IMoney X c) (IPercent p) OAdd = Ok (Some (IMoney (ops_plus X p) c)) /\
  calculate bexec cfg (IMoney X c) (IPercent p) OSub = Ok (Some (IMoney (ops_minus X p) c)).
Proof. repeat split. Qed.

(* the other operand order is not a phrase of the statement: the calculation is declined *)
Theorem calc_percent_left_declined (cfg : config F) X nt c p op :
  calculate bexec cfg (IPercent p) (INumber X nt) op = Ok None /\
  calculate bexec cfg (IPercent p) (IMoney X c) op = Ok None.
Proof. split; reflexivity. Qed.

(* what a token line evaluates to: SyntaxParser::parse, then Interpreter::execute *)
Definition phrase_value (cfg : config F) (vs : vars F) (toks : list (token F)) : option (ast F) :=
  match parse toks vs with
  | (PAst a, vs') =>
    match execute_ast bexec cfg vs' a with
    | Ok (IOk v, _) => Some v
    | _ => None
    end
  | _ => None
  end.

Theorem plus_minus_phrase_ops (cfg : config F) vs X nt c p :
  phrase_value cfg vs [TNumber X nt; TOperator OP_PLUS; TPercent p]
    = Some (AItem (INumber (ops_plus X p) nt)) /\
  phrase_value cfg vs [TNumber X nt; TOperator OP_MINUS; TPercent p]
    = Some (AItem (INumber (ops_minus X p) nt)) /\
  phrase_value cfg vs [TMoney X c; TOperator OP_PLUS; TPercent p]
    = Some (AItem (IMoney (ops_plus X p) c)) /\
  phrase_value cfg vs [TMoney X c; TOperator OP_MINUS; TPercent p]
    = Some (AItem (IMoney (ops_minus X p) c)).
Proof. repeat split. Qed.

End Phrase.

Section PhraseQ.
Variable bexec : config Qc -> str -> res (option Qc).

Theorem calc_percent_q (cfg : config Qc) X nt c p :
  calculate bexec cfg (INumber X nt) (IPercent p) OAdd = Ok (Some (INumber (pct_plus X p) nt)) /\
  calculate bexec cfg (INumber X nt) (IPercent p) OSub = Ok (Some (INumber (pct_minus X p) nt)) /\
  calculate bexec cfg (IMoney X c) (IPercent p) OAdd = Ok (Some (IMoney (pct_plus X p) c)) /\
  calculate bexec cfg (IMoney X c) (IPercent p) OSub = Ok (Some (IMoney (pct_minus X p) c)).
Proof.
  rewrite <- ops_plus_q, <- ops_minus_q. apply calc_percent_ops.
Qed.

Theorem plus_minus_phrase_q (cfg : config Qc) vs X nt c p :
  phrase_value bexec cfg vs [TNumber X nt; TOperator OP_PLUS; TPercent p]
    = Some (AItem (INumber (pct_plus X p) nt)) /\
  phrase_value bexec cfg vs [TNumber X nt; TOperator OP_MINUS; TPercent p]
    = Some (AItem (INumber (pct_minus X p) nt)) /\
  phrase_value bexec cfg vs [TMoney X c; TOperator OP_PLUS; TPercent p]
    = Some (AItem (IMoney (pct_plus X p) c)) /\
  phrase_value bexec cfg vs [TMoney X c; TOperator OP_MINUS; TPercent p]
    = Some (AItem (IMoney (pct_minus X p) c)).
Proof.
  rewrite <- ops_plus_q, <- ops_minus_q. apply plus_minus_phrase_ops.
Qed.

End PhraseQ.

(* ------------------------------------------------------------------------------------------ *)
(* 4. the regenerated rule table                                                                *)
(* ------------------------------------------------------------------------------------------ *)
(* [default_config] is what the model's loader (Api.load_config) makes of Gen/ConfigData
   (config.json as it is now): the rules of each language in BTreeMap (alphabetical) order, the
   pattern texts of d_rule_texts tokenised into field / word / operator tokens. *)

(* the readable skeleton of a pattern *)
Inductive pelem :=
| PAmount (name : string)        (* {NUMBER_OR_MONEY:name} *)
| PPercent (name : string)       (* {PERCENT:name} *)
| PWord (w : string)             (* a literal word *)
| POp (c : N)                    (* an operator character *)
| POther.

Definition pelem_eqb (a b : pelem) : bool :=
  match a, b with
  | PAmount x, PAmount y | PPercent x, PPercent y | PWord x, PWord y => str_eqb (s x) (s y)
  | POp x, POp y => N.eqb x y
  | _, _ => false
  end.

Fixpoint plist_eqb (a b : list pelem) : bool :=
  match a, b with
  | [], [] => true
  | x :: a', y :: b' => pelem_eqb x y && plist_eqb a' b'
  | _, _ => false
  end.

(* does a pattern token have the given skeleton element (it must be Active as well) *)
Definition pelem_is (ti : token_info float) (e : pelem) : bool :=
  ti_active ti &&
  match ti_ty ti, e with
  | Some (TField (FTypeGroup tys n)), PAmount x =>
    list_str_eqb tys [s "NUMBER"; s "MONEY"] && str_eqb n (s x)
  | Some (TField (FPercent n)), PPercent x => str_eqb n (s x)
  | Some (TText w), PWord x => str_eqb w (s x)
  | Some (TOperator c), POp x => N.eqb c x
  | _, _ => false
  end.

Fixpoint pattern_is (pat : list (token_info float)) (sk : list pelem) : bool :=
  match pat, sk with
  | [], [] => true
  | ti :: pat', e :: sk' => pelem_is ti e && pattern_is pat' sk'
  | _, _ => false
  end.

(* the phrases of the statement: rule function name, pattern skeletons *)
Definition phrase_table : list (string * list (list pelem)) :=
  [("number_on", [[PPercent "p"; PWord "on"; PAmount "number"]; [PAmount "number"; PWord "on"; PPercent "p"]]);
   ("number_of", [[PPercent "p"; PWord "of"; PAmount "number"]; [PAmount "number"; PWord "of"; PPercent "p"]]);
   ("number_off", [[PPercent "p"; PWord "off"; PAmount "number"]; [PAmount "number"; PWord "off"; PPercent "p"]]);
   ("find_numbers_percent",
    [[PAmount "part"; PWord "is"; PWord "what"; POp 37; PWord "of"; PAmount "total"]]);
   ("find_total_from_percent",
    [[PAmount "number_part"; PWord "is"; PPercent "percent_part"; PWord "of"; PWord "what"]])]%string.

Definition rules_named (rules : list (rule float)) (name : string) : list (list (list (token_info float))) :=
  flat_map (fun r => match r with
                     | RInternal f pats => if str_eqb f (s name) then [pats] else []
                     | RApi _ _ => []
                     end) rules.

(* exactly one rule of that name; each of its patterns has one of the skeletons and each
   skeleton is the shape of one of its patterns *)
Definition rule_has_shape (rules : list (rule float)) (e : string * list (list pelem)) : bool :=
  match rules_named rules (fst e) with
  | [pats] =>
    forallb (fun pat => existsb (pattern_is pat) (snd e)) pats &&
    forallb (fun sk => existsb (fun pat => pattern_is pat sk) pats) (snd e)
  | _ => false
  end.

Definition phrase_rules_ok : bool :=
  forallb (fun lr => forallb (rule_has_shape (snd lr)) phrase_table) (cf_rules default_config).

Theorem phrase_rules_table :
  map fst (cf_rules default_config) = [s "en"; s "tr"] /\
  forall lang rules e, In (lang, rules) (cf_rules default_config) -> In e phrase_table ->
    rule_has_shape rules e = true.
Proof.
  split; [vm_compute; reflexivity|].
  assert (H : phrase_rules_ok = true) by (vm_compute; reflexivity).
  intros lang rules e Hl He. unfold phrase_rules_ok in H.
  rewrite forallb_forall in H. specialize (H _ Hl). cbn [snd] in H.
  rewrite forallb_forall in H. exact (H _ He).
Qed.

(* the dispatch by name reaches the functions of the theorems above *)
Theorem call_rule_dispatch {F} {NF : Num F} bexec ny (cfg : config F) lang vs fs :
  call_rule bexec ny cfg lang vs (s "number_on") fs = number_on cfg vs fs /\
  call_rule bexec ny cfg lang vs (s "number_of") fs = number_of cfg vs fs /\
  call_rule bexec ny cfg lang vs (s "number_off") fs = number_off cfg vs fs /\
  call_rule bexec ny cfg lang vs (s "find_numbers_percent") fs = find_numbers_percent vs fs /\
  call_rule bexec ny cfg lang vs (s "find_total_from_percent") fs = find_total_from_percent cfg vs fs.
Proof. repeat split. Qed.

(* --- the rule loop on the token shapes of the phrases, for all binary64 values --- *)
(* an Active typed token with arbitrary span and text *)
Definition tinfo (b e : N) (t : token float) (txt : str) : token_info float :=
  {| ti_start := b; ti_end := e; ti_ty := Some t; ti_text := txt; ti_active := true |}.

(* the tail of Tokinizer::tokinize from the rule loop on (Api.tokinize st5 -> tokens), then
   SyntaxParser::parse and Interpreter::execute (Api.execute_text), for a line whose lexing
   produced the token infos [infos]; no session variables *)
Definition value_of_infos (bexec : config float -> str -> res (option float)) (ny : Z)
           (line lang : str) (infos : list (token_info float)) : option (ast float) :=
  let st := {| ts_infos := infos; ts_ui := [] |} in
  match rule_tokinizer bexec ny (loop_fuel st) line default_config lang [] st with
  | Ok (Some st') =>
    let tokens := token_generator (ts_infos st') in
    let tokens := token_cleaner (ts_infos st') tokens in
    let tokens := missing_token_adder tokens in
    phrase_value bexec default_config [] tokens
  | _ => None
  end.

Definition num (x : float) : ast float := AItem (INumber x Decimal).
Definition word (b e : N) (w : string) : token_info float := tinfo b e (TText (s w)) (s w).

Section Selected.
Variable bexec : config float -> str -> res (option float).
Variable ny : Z.
Variable line : str.
Variables b1 e1 b2 e2 b3 e3 b4 e4 b5 e5 b6 e6 : N.
Variables x1 x2 x3 : str.

Lemma lang_cases lang : In lang (map fst (cf_rules default_config)) -> lang = s "en" \/ lang = s "tr".
Proof.
  intros H. vm_compute in H. destruct H as [H|[H|[]]]; [left|right]; symmetry; exact H.
Qed.

Ltac by_lang H := destruct (lang_cases _ H); subst; vm_compute; repeat split.

(* 'p% on X' / 'X on p%', 'of', 'off': plain number *)
Theorem selected_number lang (X p : float) nt :
  In lang (map fst (cf_rules default_config)) ->
  value_of_infos bexec ny line lang [tinfo b1 e1 (TPercent p) x1; word b2 e2 "on"; tinfo b3 e3 (TNumber X nt) x3]
    = Some (num (ops_on X p)) /\
  value_of_infos bexec ny line lang [tinfo b1 e1 (TNumber X nt) x1; word b2 e2 "on"; tinfo b3 e3 (TPercent p) x3]
    = Some (num (ops_on X p)) /\
  value_of_infos bexec ny line lang [tinfo b1 e1 (TPercent p) x1; word b2 e2 "of"; tinfo b3 e3 (TNumber X nt) x3]
    = Some (num (ops_of X p)) /\
  value_of_infos bexec ny line lang [tinfo b1 e1 (TNumber X nt) x1; word b2 e2 "of"; tinfo b3 e3 (TPercent p) x3]
    = Some (num (ops_of X p)) /\
  value_of_infos bexec ny line lang [tinfo b1 e1 (TPercent p) x1; word b2 e2 "off"; tinfo b3 e3 (TNumber X nt) x3]
    = Some (num (ops_off X p)) /\
  value_of_infos bexec ny line lang [tinfo b1 e1 (TNumber X nt) x1; word b2 e2 "off"; tinfo b3 e3 (TPercent p) x3]
    = Some (num (ops_off X p)).
Proof. intros H. by_lang H. Qed.

(* the same with money in any currency code [c]: money out, same currency *)
Theorem selected_money lang (X p : float) (c : str) :
  In lang (map fst (cf_rules default_config)) ->
  value_of_infos bexec ny line lang [tinfo b1 e1 (TPercent p) x1; word b2 e2 "on"; tinfo b3 e3 (TMoney X c) x3]
    = Some (AItem (IMoney (ops_on X p) c)) /\
  value_of_infos bexec ny line lang [tinfo b1 e1 (TMoney X c) x1; word b2 e2 "on"; tinfo b3 e3 (TPercent p) x3]
    = Some (AItem (IMoney (ops_on X p) c)) /\
  value_of_infos bexec ny line lang [tinfo b1 e1 (TPercent p) x1; word b2 e2 "of"; tinfo b3 e3 (TMoney X c) x3]
    = Some (AItem (IMoney (ops_of X p) c)) /\
  value_of_infos bexec ny line lang [tinfo b1 e1 (TMoney X c) x1; word b2 e2 "of"; tinfo b3 e3 (TPercent p) x3]
    = Some (AItem (IMoney (ops_of X p) c)) /\
  value_of_infos bexec ny line lang [tinfo b1 e1 (TPercent p) x1; word b2 e2 "off"; tinfo b3 e3 (TMoney X c) x3]
    = Some (AItem (IMoney (ops_off X p) c)) /\
  value_of_infos bexec ny line lang [tinfo b1 e1 (TMoney X c) x1; word b2 e2 "off"; tinfo b3 e3 (TPercent p) x3]
    = Some (AItem (IMoney (ops_off X p) c)).
Proof. intros H. by_lang H. Qed.

(* 'A is what % of B' (a percentage, also between amounts of money) and 'A is p% of what' *)
Theorem selected_what lang (A B p : float) nt nt' (c c' : str) :
  In lang (map fst (cf_rules default_config)) ->
  value_of_infos bexec ny line lang
    [tinfo b1 e1 (TNumber A nt) x1; word b2 e2 "is"; word b3 e3 "what"; tinfo b4 e4 (TOperator 37) x2;
     word b5 e5 "of"; tinfo b6 e6 (TNumber B nt') x3]
    = Some (AItem (IPercent (ops_what_percent A B))) /\
  value_of_infos bexec ny line lang
    [tinfo b1 e1 (TMoney A c) x1; word b2 e2 "is"; word b3 e3 "what"; tinfo b4 e4 (TOperator 37) x2;
     word b5 e5 "of"; tinfo b6 e6 (TMoney B c') x3]
    = Some (AItem (IPercent (ops_what_percent A B))) /\
  value_of_infos bexec ny line lang
    [tinfo b1 e1 (TNumber A nt) x1; word b2 e2 "is"; tinfo b3 e3 (TPercent p) x2; word b4 e4 "of"; word b5 e5 "what"]
    = Some (num (ops_of_what A p)) /\
  value_of_infos bexec ny line lang
    [tinfo b1 e1 (TMoney A c) x1; word b2 e2 "is"; tinfo b3 e3 (TPercent p) x2; word b4 e4 "of"; word b5 e5 "what"]
    = Some (AItem (IMoney (ops_of_what A p) c)).
Proof. intros H. by_lang H. Qed.

(* 'X + p%' / 'X - p%': no rule rewrites the line; the interpreter computes the share *)
Theorem selected_plus_minus lang (X p : float) nt (c : str) :
  In lang (map fst (cf_rules default_config)) ->
  value_of_infos bexec ny line lang [tinfo b1 e1 (TNumber X nt) x1; tinfo b2 e2 (TOperator OP_PLUS) x2; tinfo b3 e3 (TPercent p) x3]
    = Some (AItem (INumber (ops_plus X p) nt)) /\
  value_of_infos bexec ny line lang [tinfo b1 e1 (TNumber X nt) x1; tinfo b2 e2 (TOperator OP_MINUS) x2; tinfo b3 e3 (TPercent p) x3]
    = Some (AItem (INumber (ops_minus X p) nt)) /\
  value_of_infos bexec ny line lang [tinfo b1 e1 (TMoney X c) x1; tinfo b2 e2 (TOperator OP_PLUS) x2; tinfo b3 e3 (TPercent p) x3]
    = Some (AItem (IMoney (ops_plus X p) c)) /\
  value_of_infos bexec ny line lang [tinfo b1 e1 (TMoney X c) x1; tinfo b2 e2 (TOperator OP_MINUS) x2; tinfo b3 e3 (TPercent p) x3]
    = Some (AItem (IMoney (ops_minus X p) c)).
Proof. intros H. by_lang H. Qed.

End Selected.

(* ------------------------------------------------------------------------------------------ *)
(* 5. the two spellings 'p%' and '%p'                                                           *)
(* ------------------------------------------------------------------------------------------ *)
(* For every non-empty digit string ds: the first percent regex of config.json on "ds%" and the
   second on "%ds" each find exactly one match, the whole literal, whose NUMBER group is ds; the
   percent parser of the lexer (Lexer.percent_body, through Lexer.over_regexes) therefore adds
   the same token Percent(read_decimal ds) for both.  Proved on the regenerated regex ASTs
   (Gen/Regexes.g_parse) by induction over the backtracking matcher.  Signs, decimal and
   thousands separators inside the literal, the other regex run on the other spelling, and the
   parsers that run before the percent parser are left to the correspondence check (generator
   tools/props/C05.py draws both spellings for every phrase) and to C05_line_examples. *)
Section Spellings.
Local Open Scope N_scope.

Definition digit (c : N) : bool := ((48 <=? c) && (c <=? 57))%N.
Definition digf := set_mem PT false [CRange 48 57].
Definition signf := set_mem PT false [CRange 45 45; CRange 43 43].
Definition sepf := set_mem PT false [CRange 44 44; CRange 46 46].
Definition pctf := set_mem PT false [CRange 37 37].

Lemma digit_facts c : digit c = true ->
  digf c = true /\ signf c = false /\ sepf c = false /\ pctf c = false /\ utf8_width c = 1.
Proof.
  unfold digit, digf, signf, sepf, pctf, set_mem, utf8_width. cbn [items_mem cls_mem].
  intros H. apply andb_true_iff in H. destruct H as [H1 H2].
  apply N.leb_le in H1. apply N.leb_le in H2.
  repeat match goal with
  | |- context [?a <? ?b] => destruct (N.ltb_spec a b); try lia
  | |- context [?a <=? ?b] => destruct (N.leb_spec a b); try lia
  end; repeat split.
Qed.

(* the number part of both percent regexes; [g] is the index of the inner group *)
Definition numm (g : nat) : matcher :=
  m_cat (m_rep (m_set signf) 0 (Some 1%nat) true)
        (m_cat (m_rep (m_set digf) 1 None true)
               (m_rep (m_group g (m_cat (m_set sepf) (m_rep (m_set digf) 1 None true))) 0 None true)).

Fixpoint advst (tail : list N) (pos : N) (prev : option N) (rem : nat) (caps : list (nat * (N * N)))
         (ds : list N) : mstate :=
  match ds with
  | [] => MS tail pos prev rem caps
  | c :: t => advst tail (pos + utf8_width c) (Some c) (Nat.pred rem) caps t
  end.

Definition tail_ok (tail : list N) : Prop :=
  match tail with [] => True | c :: _ => digf c = false /\ sepf c = false end.

Lemma plus_digits : forall ds tail pos prev rem caps fuel first k r,
  ds <> [] -> forallb digit ds = true -> tail_ok tail -> (length ds <= fuel)%nat ->
  k (advst tail pos prev rem caps ds) = Some r ->
  m_plus (m_set digf) true fuel first (MS (ds ++ tail) pos prev rem caps) k = Some r.
Proof.
  induction ds as [|d ds IH]; intros tail pos prev rem caps fuel first k r Hne Hd Ht Hf Hk; [congruence|].
  cbn [forallb] in Hd. apply andb_true_iff in Hd. destruct Hd as [Hd Hds].
  destruct (digit_facts d Hd) as (Df & _ & _ & _ & Dw).
  destruct fuel as [|f]; [cbn [length] in Hf; lia|].
  cbn [m_plus]. unfold m_set at 1. cbn [ms_rest app]. rewrite Df. cbn [ms_pos ms_prev ms_rem ms_caps].
  assert (E : (pos + utf8_width d =? pos) = false) by (apply N.eqb_neq; lia).
  rewrite E. cbn [advst] in Hk.
  destruct ds as [|d' ds'].
  - cbn [advst] in Hk. cbn [app].
    assert (N0 : m_plus (m_set digf) true f false (MS tail (pos + utf8_width d) (Some d) (Nat.pred rem) caps) k = None).
    { destruct f; [reflexivity|]. cbn [m_plus]. unfold m_set. cbn [ms_rest].
      destruct tail as [|c t]; [reflexivity|]. destruct Ht as [Ht _]. rewrite Ht. reflexivity. }
    rewrite N0. exact Hk.
  - rewrite (IH tail (pos + utf8_width d) (Some d) (Nat.pred rem) caps f false k r); try assumption.
    + reflexivity.
    + discriminate.
    + cbn [length] in Hf |- *. lia.
Qed.

Lemma advst_fields : forall ds tail pos prev rem caps, forallb digit ds = true ->
  ms_rest (advst tail pos prev rem caps ds) = tail /\
  ms_pos (advst tail pos prev rem caps ds) = pos + N.of_nat (length ds) /\
  ms_caps (advst tail pos prev rem caps ds) = caps.
Proof.
  induction ds as [|d ds IH]; intros tail pos prev rem caps Hd.
  - cbn. repeat split. lia.
  - cbn [forallb] in Hd. apply andb_true_iff in Hd. destruct Hd as [Hd Hds].
    destruct (digit_facts d Hd) as (_ & _ & _ & _ & Dw).
    cbn [advst]. destruct (IH tail (pos + utf8_width d) (Some d) (Nat.pred rem) caps Hds) as (A & B & C).
    rewrite A, B, C. repeat split. cbn [length]. lia.
Qed.

Lemma sign_skip st k :
  match ms_rest st with c :: _ => signf c = false | [] => True end ->
  m_rep (m_set signf) 0 (Some 1%nat) true st k = k st.
Proof.
  intros H. unfold m_rep. cbn [Nat.sub m_exactly m_upto]. unfold m_eps, m_set.
  destruct (ms_rest st); [reflexivity|]. rewrite H. reflexivity.
Qed.

Lemma rep0_skip mr st k : (forall k', mr st k' = None) -> m_rep mr 0 None true st k = k st.
Proof. intros H. unfold m_rep, plus_fuel. cbn [m_plus]. rewrite H. reflexivity. Qed.

Lemma digits_rep ds tail pos prev rem caps k r :
  ds <> [] -> forallb digit ds = true -> tail_ok tail -> (length ds <= S (S rem))%nat ->
  k (advst tail pos prev rem caps ds) = Some r ->
  m_rep (m_set digf) 1 None true (MS (ds ++ tail) pos prev rem caps) k = Some r.
Proof.
  intros. unfold m_rep. cbn [m_exactly]. unfold m_eps, plus_fuel. cbn [ms_rem].
  apply plus_digits; assumption.
Qed.

(* the number part consumes the whole digit run and hands over to the continuation *)
Lemma numm_digits g ds tail pos prev rem caps k r :
  ds <> [] -> forallb digit ds = true -> tail_ok tail -> (length ds <= S (S rem))%nat ->
  k (advst tail pos prev rem caps ds) = Some r ->
  numm g (MS (ds ++ tail) pos prev rem caps) k = Some r.
Proof.
  intros Hne Hd Ht Hf Hk.
  unfold numm, m_cat. rewrite sign_skip.
  2:{ cbn [ms_rest]. destruct ds as [|d ds]; [congruence|]. cbn [app].
      cbn [forallb] in Hd. apply andb_true_iff in Hd. destruct Hd as [Hd0 _].
      apply (digit_facts d Hd0). }
  apply digits_rep; try assumption.
  cbv beta. rewrite rep0_skip; [exact Hk|].
  intros k'. unfold m_group, m_set.
  destruct (advst_fields ds tail pos prev rem caps Hd) as (A & _ & _). rewrite A.
  destruct tail as [|c t]; [reflexivity|]. destruct Ht as [_ Ht]. rewrite Ht. reflexivity.
Qed.

Definition percent_cres : list cre :=
  match assoc (s "percent") g_parse with Some l => l | None => [] end.

Definition M1 : matcher := m_cat (m_group 1 (numm 2)) (m_group 3 (m_set pctf)).
Definition M2 : matcher := m_cat (m_group 1 (m_set pctf)) (m_group 2 (numm 3)).

Lemma M1_empty pos prev rem caps k : M1 (MS [] pos prev rem caps) k = None.
Proof. reflexivity. Qed.
Lemma M2_empty pos prev rem caps k : M2 (MS [] pos prev rem caps) k = None.
Proof. reflexivity. Qed.

Lemma len_app1 (ds : list N) : length (ds ++ [37]) = S (length ds).
Proof. rewrite app_length. cbn. lia. Qed.

(* 'ds%': one match, NUMBER = ds, PERCENT = '%' *)
Lemma M1_match ds : ds <> [] -> forallb digit ds = true ->
  let n := N.of_nat (length ds) in
  exists stf, M1 (MS (ds ++ [37]) 0 None (length (ds ++ [37])) []) k_done = Some stf /\
    ms_rest stf = [] /\ ms_pos stf = n + 1 /\
    ms_caps stf = [(3%nat, (n, n + 1)); (1%nat, (0, n))].
Proof.
  intros Hne Hd n.
  set (rem := length (ds ++ [37])).
  destruct (advst_fields ds [37] 0 None rem [] Hd) as (A & B & C).
  set (a := advst [37] 0 None rem [] ds) in *.
  eexists. split.
  - unfold M1, m_cat. unfold m_group at 1. cbn [ms_pos].
    apply numm_digits; try assumption.
    + split; reflexivity.
    + unfold rem. rewrite len_app1. lia.
    + cbv beta. fold a. unfold m_group, m_set. cbn [ms_rest ms_pos ms_prev ms_rem ms_caps].
      rewrite A. change (pctf 37) with true. cbv iota. unfold k_done. reflexivity.
  - cbn [ms_rest ms_pos ms_caps]. rewrite B, C. change (utf8_width 37) with 1.
    repeat split.
Qed.

Lemma M2_match ds : ds <> [] -> forallb digit ds = true ->
  let n := N.of_nat (length ds) in
  exists stf, M2 (MS (37 :: ds) 0 None (length (37 :: ds)) []) k_done = Some stf /\
    ms_rest stf = [] /\ ms_pos stf = n + 1 /\
    ms_caps stf = [(2%nat, (1, n + 1)); (1%nat, (0, 1))].
Proof.
  intros Hne Hd n.
  set (rem := Nat.pred (length (37 :: ds))).
  destruct (advst_fields ds [] (0 + utf8_width 37) (Some 37) rem [(1%nat, (0, 0 + utf8_width 37))] Hd) as (A & B & C).
  set (a := advst [] (0 + utf8_width 37) (Some 37) rem [(1%nat, (0, 0 + utf8_width 37))] ds) in *.
  eexists. split.
  - unfold M2, m_cat. unfold m_group at 1. unfold m_set at 1. cbn [ms_rest ms_pos ms_prev ms_rem ms_caps].
    change (pctf 37) with true. cbv iota. unfold m_group. cbn [ms_rest ms_pos ms_prev ms_rem ms_caps].
    rewrite <- (app_nil_r ds) at 1.
    apply numm_digits; try assumption.
    + exact I.
    + unfold rem. cbn [length Nat.pred]. do 2 apply le_S. apply le_n.
    + cbv beta. fold rem. fold a. unfold k_done. reflexivity.
  - cbn [ms_rest ms_pos ms_caps]. rewrite A, B, C. change (utf8_width 37) with 1.
    subst n. replace (0 + 1 + N.of_nat (length ds)) with (N.of_nat (length ds) + 1) by lia.
    change (0 + 1) with 1. repeat split.
Qed.

Lemma search_hit mr rest pos prev rem st :
  mr (MS rest pos prev rem []) k_done = Some st -> search mr rest pos prev rem = Some (pos, st).
Proof. intros H. destruct rest; cbn [search]; rewrite H; reflexivity. Qed.

Lemma iter_one mr ng fuel rest (stf : mstate) :
  mr (MS rest 0 None (length rest) []) k_done = Some stf ->
  ms_rest stf = [] -> ms_pos stf <> 0 ->
  (forall pos prev rem, mr (MS [] pos prev rem []) k_done = None) ->
  iter_loop (S (S fuel)) mr ng rest 0 None (length rest) None = [render_caps ng 0 stf].
Proof.
  intros E R P Hn. cbn [iter_loop]. rewrite (search_hit _ _ _ _ _ _ E). cbv iota beta zeta.
  assert (Q : (0 =? ms_pos stf) = false) by (apply N.eqb_neq; congruence).
  rewrite Q. rewrite R. cbn [search]. rewrite Hn. reflexivity.
Qed.

Theorem spellings c1 c2 ds :
  percent_cres = [c1; c2] -> ds <> [] -> forallb digit ds = true ->
  let n := N.of_nat (length ds) in
  caps_iter c1 (ds ++ [37]) = [[Some (0, n + 1); Some (0, n); None; Some (n, n + 1)]] /\
  caps_iter c2 (37 :: ds) = [[Some (0, n + 1); Some (0, 1); Some (1, n + 1); None]].
Proof.
  intros H Hne Hd n. vm_compute in H. injection H as <- <-.
  unfold caps_iter, captures_iter_p. cbn [cre_rx cre_n]. split.
  - change (compile PT _) with M1.
    destruct (M1_match ds Hne Hd) as (stf & E & R & P & C).
    rewrite (iter_one M1 3 _ _ stf E R).
    + unfold render_caps. rewrite P, C. reflexivity.
    + rewrite P. lia.
    + intros. apply M1_empty.
  - change (compile PT _) with M2.
    destruct (M2_match ds Hne Hd) as (stf & E & R & P & C).
    rewrite (iter_one M2 3 _ _ stf E R).
    + unfold render_caps. rewrite P, C. reflexivity.
    + rewrite P. lia.
    + intros. apply M2_empty.
Qed.

(* ---- the percent parser of the lexer on the two spellings ---- *)
Lemma digit_w c : digit c = true -> utf8_w c = 1.
Proof.
  intros H. unfold digit in H. apply andb_true_iff in H. destruct H as [_ H]. apply N.leb_le in H.
  unfold utf8_w. destruct (N.ltb_spec c 128); [reflexivity | lia].
Qed.

Lemma take_digits ds : forall tail, forallb digit ds = true ->
  take_bytes (ds ++ tail) (N.of_nat (length ds)) = ds.
Proof.
  induction ds as [|d ds IH]; intros tail Hd.
  - destruct tail; reflexivity.
  - cbn [forallb] in Hd. apply andb_true_iff in Hd. destruct Hd as [Hd Hds].
    cbn [app take_bytes length]. rewrite (digit_w d Hd).
    destruct (N.eqb_spec (N.of_nat (S (length ds))) 0) as [E|_]; [lia|].
    replace (N.of_nat (S (length ds)) - 1) with (N.of_nat (length ds)) by lia.
    rewrite IH by assumption. reflexivity.
Qed.

Lemma slice_number1 ds : forallb digit ds = true ->
  slice (ds ++ [37]) (0, N.of_nat (length ds)) = ds.
Proof.
  intros Hd. unfold slice. cbn [fst snd]. rewrite N.sub_0_r.
  assert (E : drop_bytes (ds ++ [37]) 0 = ds ++ [37]) by (destruct ds; reflexivity).
  rewrite E. apply take_digits. exact Hd.
Qed.

Lemma slice_number2 ds : forallb digit ds = true ->
  slice (37 :: ds) (1, N.of_nat (length ds) + 1) = ds.
Proof.
  intros Hd. unfold slice. cbn [fst snd drop_bytes]. change (utf8_w 37) with 1.
  change (1 =? 0) with false. cbv iota. change (1 - 1) with 0.
  assert (E : drop_bytes ds 0 = ds) by (destruct ds; reflexivity).
  rewrite E. replace (N.of_nat (length ds) + 1 - 1) with (N.of_nat (length ds)) by lia.
  rewrite <- (app_nil_r ds) at 1. apply take_digits. exact Hd.
Qed.

Section Tok.
Context {F : Type} {NF : Num F}.

(* both spellings give one Percent token over the whole literal, with the same value: the
   decimal reading of the digit string *)
Theorem spellings_token (cfg : config F) c1 c2 ds x :
  percent_cres = [c1; c2] -> ds <> [] -> forallb digit ds = true ->
  read_decimal cfg ds = Some x ->
  let n := N.of_nat (length ds) in
  let shape (r : res (@tstate F)) :=
      match r with
      | Ok st => map (fun t => (ti_start t, ti_end t, ti_ty t, ti_active t)) (ts_infos st)
      | Panic _ => []
      end in
  shape (over_regexes (percent_body cfg (ds ++ [37])) (ds ++ [37]) [c1] empty_state)
    = [(0, n + 1, Some (TPercent x), true)] /\
  shape (over_regexes (percent_body cfg (37 :: ds)) (37 :: ds) [c2] empty_state)
    = [(0, n + 1, Some (TPercent x), true)].
Proof.
  intros H Hne Hd Hx n shape.
  destruct (spellings c1 c2 ds H Hne Hd) as [S1 S2]. fold n in S1, S2.
  vm_compute in H. injection H as <- <-.
  split.
  - cbn [over_regexes]. rewrite S1. cbn [over_captures]. unfold percent_body at 1.
    unfold cap_name. cbn [cre_names]. 
    change (assoc (s "NUMBER") _) with (Some 1%nat). cbv iota.
    change (assoc (s "PERCENT") _) with (Some 3%nat). cbv iota.
    unfold cap_get. cbn [nth_opt need bind]. unfold n. rewrite (slice_number1 ds Hd), Hx.
    cbn [add_token empty_state collides ts_infos existsb]. cbv iota. reflexivity.
  - cbn [over_regexes]. rewrite S2. cbn [over_captures]. unfold percent_body at 1.
    unfold cap_name. cbn [cre_names].
    change (assoc (s "NUMBER") _) with (Some 2%nat). cbv iota.
    change (assoc (s "PERCENT") _) with (Some 1%nat). cbv iota.
    unfold cap_get. cbn [nth_opt need bind]. unfold n. rewrite (slice_number2 ds Hd), Hx.
    cbn [add_token empty_state collides ts_infos existsb]. cbv iota. reflexivity.
Qed.
End Tok.

End Spellings.

(* ------------------------------------------------------------------------------------------ *)
(* 6. non-vacuity: concrete values                                                              *)
(* ------------------------------------------------------------------------------------------ *)
Section Examples.
Local Open Scope Qc_scope.

Definition qz (z : Z) : Qc := Qc_of_Z z.
Definition qfrac (n : Z) (d : positive) : Qc := Q2Qc (n # d).
Definition qtok (t : token Qc) : token_info Qc :=
  {| ti_start := 0; ti_end := 0; ti_ty := Some t; ti_text := []; ti_active := true |}.

Lemma qc_eq_compute (a b : Qc) : Qeq_bool a b = true -> a = b.
Proof. intros H. apply Qc_is_canon. apply Qeq_bool_iff. exact H. Qed.

(* the formulas on the values of the crate's own tests (6% and 40), a negative, a fractional and
   a zero argument *)
Lemma formulas_examples :
  pct_on (qz 40) (qz 6) = qfrac 212 5 /\ pct_off (qz 40) (qz 6) = qfrac 188 5 /\
  pct_of (qz 40) (qz 6) = qfrac 12 5 /\ pct_plus (qz (-50)) (qz 10) = qz (-55) /\
  pct_minus (qz (-50)) (qz 10) = qz (-45) /\ pct_plus (qz 50) (qz (-10)) = qz 45 /\
  pct_of (qfrac 20001 20) (qfrac 1 2) = qfrac 20001 4000 /\
  what_percent (qz 20) (qz 50) = qz 40 /\ what_percent (qz 5) (qz 0) = qz 0 /\
  of_what (qz 20) (qz 10) = qz 200 /\ of_what (qz 5) (qz 0) = qz 0 /\
  pct_on (qz 0) (qz 15) = qz 0 /\ pct_off (qz 80) (qz 100) = qz 0.
Proof. repeat split; apply qc_eq_compute; vm_compute; reflexivity. Qed.

(* the hypotheses of the rule-function theorems are satisfiable: a money amount and a percent *)
Lemma rule_example_money (cfg : config Qc) :
  let fs := [(s "number", qtok (TMoney (qz 40) (s "USD"))); (s "p", qtok (TPercent (qz 6)))] in
  number_on cfg [] fs = Ok (Some (TMoney (qfrac 212 5) (s "USD"))) /\
  number_of cfg [] fs = Ok (Some (TMoney (qfrac 12 5) (s "USD"))) /\
  number_off cfg [] fs = Ok (Some (TMoney (qfrac 188 5) (s "USD"))).
Proof.
  intros fs.
  assert (H1 : field_amount [] "number" fs = Some (Cash (qz 40) (s "USD"))) by reflexivity.
  assert (H2 : field_percent [] "p" fs = Some (qz 6)) by reflexivity.
  rewrite (number_on_q cfg [] fs _ _ H1 H2), (number_of_q cfg [] fs _ _ H1 H2),
    (number_off_q cfg [] fs _ _ H1 H2).
  cbn [amt_val amt_with amount_token].
  destruct formulas_examples as (E1 & E2 & E3 & _). rewrite E1, E2, E3. repeat split.
Qed.

Lemma rule_example_what (cfg : config Qc) :
  find_numbers_percent []
    [(s "part", qtok (TNumber (qz 20) Decimal)); (s "total", qtok (TNumber (qz 50) Decimal))]
    = Ok (Some (TPercent (qz 40))) /\
  find_numbers_percent []
    [(s "part", qtok (TMoney (qz 5) (s "EUR"))); (s "total", qtok (TMoney (qz 0) (s "EUR")))]
    = Ok (Some (TPercent (qz 0))) /\
  find_total_from_percent cfg []
    [(s "number_part", qtok (TMoney (qz 20) (s "TRY"))); (s "percent_part", qtok (TPercent (qz 10)))]
    = Ok (Some (TMoney (qz 200) (s "TRY"))).
Proof.
  destruct formulas_examples as (_ & _ & _ & _ & _ & _ & _ & E1 & E2 & E3 & _).
  split; [|split].
  - erewrite find_numbers_percent_q by reflexivity. cbn [amt_val]. rewrite E1. reflexivity.
  - erewrite find_numbers_percent_q by reflexivity. cbn [amt_val]. rewrite E2. reflexivity.
  - erewrite find_total_from_percent_q by reflexivity. cbn [amt_val amt_with amount_token].
    rewrite E3. reflexivity.
Qed.

End Examples.

(* whole lines through the whole model at binary64 (lexer, rules, parser, interpreter): the value
   of the single line of [text] *)
Definition line_value64 (lang text : string) : option (ast float) :=
  match exec64 CK0 default_config (s lang) (s text) with
  | Ok r => match er_lines r with
            | [Some l] => match lo_result l with LOk _ a => Some a | LErr _ => None end
            | _ => None
            end
  | Panic _ => None
  end.

Definition money64 (x : float) (c : string) : ast float := AItem (IMoney x (s c)).
Definition pct64 (x : float) : ast float := AItem (IPercent x).

(* decimal literals denote the nearest binary64 value, as Rust's parse does *)
Set Warnings "-inexact-float".
Lemma line_examples :
  line_value64 "en" "6% on 40" = Some (num 42.4) /\
  line_value64 "en" "%6 on 40" = Some (num 42.4) /\
  line_value64 "en" "40 on 6%" = Some (num 42.4) /\
  line_value64 "en" "%6 off 40" = Some (num 37.6) /\
  line_value64 "en" "40 of 6%" = Some (num 2.4) /\
  line_value64 "en" "40 + 10%" = Some (num 44) /\
  line_value64 "en" "40 + %10" = Some (num 44) /\
  line_value64 "en" "-50 - 10%" = Some (num (-45)) /\
  line_value64 "en" "50 + -10%" = Some (num 45) /\
  line_value64 "en" "$40 - 10%" = Some (money64 36 "USD") /\
  line_value64 "en" "0,5% of 1.000,5 eur" = Some (money64 5.0025 "EUR") /\
  line_value64 "en" "20 is what % of 50" = Some (pct64 40) /\
  line_value64 "en" "5 is what % of 0" = Some (pct64 0) /\
  line_value64 "en" "20 try is %10 of what" = Some (money64 200 "TRY") /\
  line_value64 "en" "5 is 0% of what" = Some (num 0) /\
  line_value64 "tr" "6% on 40" = Some (num 42.4).
Proof. vm_compute. repeat split. Qed.
Set Warnings "inexact-float".

(* ------------------------------------------------------------------------------------------ *)
(* 7. packaging for Properties/C05.v                                                            *)
(* ------------------------------------------------------------------------------------------ *)
Lemma bindings {F} {NF : Num F} (vs : vars F) k fs ti :
  assoc (s k) fs = Some ti ->
  (forall x nt, ti_ty ti = Some (TNumber x nt) -> field_amount vs k fs = Some (Plain x)) /\
  (forall x c, ti_ty ti = Some (TMoney x c) -> field_amount vs k fs = Some (Cash x c)) /\
  (forall p, ti_ty ti = Some (TPercent p) -> field_percent vs k fs = Some p).
Proof.
  intros H. repeat split; intros.
  - eapply field_amount_number; eassumption.
  - eapply field_amount_money; eassumption.
  - eapply field_percent_token; eassumption.
Qed.

Lemma zero_divisor (a b : Qc) :
  @do_division Qc NumQ a b = (if Qc_eq_bool b 0 then 0 else a / b)%Qc /\
  @do_division Qc NumQ a 0%Qc = 0%Qc.
Proof. split; [apply do_division_q | rewrite do_division_q; apply gdiv_zero]. Qed.

Lemma rule_ops {F} {NF : Num F} (cfg : config F) vs fs (a b : amount F) (p : F) :
  (field_amount vs "number" fs = Some a -> field_percent vs "p" fs = Some p ->
     let X := amt_val a in
     number_on cfg vs fs = Ok (Some (amount_token (amt_with a (fadd X (do_division (fmul X p) f100))))) /\
     number_of cfg vs fs = Ok (Some (amount_token (amt_with a (do_division (fmul X p) f100)))) /\
     number_off cfg vs fs = Ok (Some (amount_token (amt_with a (fsub X (do_division (fmul X p) f100)))))) /\
  (field_amount vs "part" fs = Some a -> field_amount vs "total" fs = Some b ->
     find_numbers_percent vs fs
     = Ok (Some (TPercent (do_division (fmul (amt_val a) f100) (amt_val b))))) /\
  (field_amount vs "number_part" fs = Some a -> field_percent vs "percent_part" fs = Some p ->
     find_total_from_percent cfg vs fs
     = Ok (Some (amount_token (amt_with a (do_division (fmul (amt_val a) f100) p))))).
Proof.
  split; [|split].
  - intros H1 H2 X. split; [|split].
    + exact (number_on_ops cfg vs fs a p H1 H2).
    + exact (number_of_ops cfg vs fs a p H1 H2).
    + exact (number_off_ops cfg vs fs a p H1 H2).
  - exact (find_numbers_percent_ops vs fs a b).
  - exact (find_total_from_percent_ops cfg vs fs a p).
Qed.

Lemma ops_unfold {F} {NF : Num F} (X p A B : F) :
  ops_on X p = fadd X (do_division (fmul X p) f100) /\
  ops_off X p = fsub X (do_division (fmul X p) f100) /\
  ops_of X p = do_division (fmul X p) f100 /\
  ops_plus X p = fadd X (fmul (do_division X f100) p) /\
  ops_minus X p = fsub X (fmul (do_division X f100) p) /\
  ops_what_percent A B = do_division (fmul A f100) B /\
  ops_of_what A p = do_division (fmul A f100) p.
Proof. repeat split. Qed.

Lemma rational_examples (cfg : config Qc) :
  (let fs := [(s "number", qtok (TMoney (qz 40) (s "USD"))); (s "p", qtok (TPercent (qz 6)))] in
   number_on cfg [] fs = Ok (Some (TMoney (qfrac 212 5) (s "USD"))) /\
   number_of cfg [] fs = Ok (Some (TMoney (qfrac 12 5) (s "USD"))) /\
   number_off cfg [] fs = Ok (Some (TMoney (qfrac 188 5) (s "USD")))) /\
  find_numbers_percent []
    [(s "part", qtok (TNumber (qz 20) Decimal)); (s "total", qtok (TNumber (qz 50) Decimal))]
    = Ok (Some (TPercent (qz 40))) /\
  find_numbers_percent []
    [(s "part", qtok (TMoney (qz 5) (s "EUR"))); (s "total", qtok (TMoney (qz 0) (s "EUR")))]
    = Ok (Some (TPercent (qz 0))) /\
  find_total_from_percent cfg []
    [(s "number_part", qtok (TMoney (qz 20) (s "TRY"))); (s "percent_part", qtok (TPercent (qz 10)))]
    = Ok (Some (TMoney (qz 200) (s "TRY"))).
Proof. split; [exact (rule_example_money cfg) | exact (rule_example_what cfg)]. Qed.

(* packaging of the spelling theorems *)
Section SpellPack.
Local Open Scope N_scope.
Lemma spellings_full c1 c2 (ds : str) :
  percent_cres = [c1; c2] -> ds <> [] -> forallb digit ds = true ->
  let n := N.of_nat (length ds) in
  (caps_iter c1 (ds ++ [37%N]) = [[Some (0, n + 1); Some (0, n); None; Some (n, n + 1)]] /\
   cap_name c1 [Some (0, n + 1); Some (0, n); None; Some (n, n + 1)] "NUMBER" = Some (0, n) /\
   slice (ds ++ [37%N]) (0, n) = ds) /\
  (caps_iter c2 (37%N :: ds) = [[Some (0, n + 1); Some (0, 1); Some (1, n + 1); None]] /\
   cap_name c2 [Some (0, n + 1); Some (0, 1); Some (1, n + 1); None] "NUMBER" = Some (1, n + 1) /\
   slice (37%N :: ds) (1, n + 1) = ds).
Proof.
  intros H Hne Hd n. destruct (spellings c1 c2 ds H Hne Hd) as [S1 S2]. fold n in S1, S2.
  vm_compute in H. injection H as <- <-.
  split; (split; [assumption|split]).
  - reflexivity.
  - apply slice_number1. exact Hd.
  - reflexivity.
  - apply slice_number2. exact Hd.
Qed.

Lemma spellings_nonvacuous :
  (exists c1 c2, percent_cres = [c1; c2]) /\ forallb digit (s "0123456789") = true /\
  (forall c, digit c = true <-> 48 <= c <= 57).
Proof.
  split; [|split].
  - vm_compute. eexists. eexists. reflexivity.
  - vm_compute. reflexivity.
  - intros c. unfold digit. rewrite andb_true_iff, !N.leb_le. reflexivity.
Qed.
End SpellPack.
