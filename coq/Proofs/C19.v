(* Proofs for property C19. *)
From SC.Model Require Import Base.
