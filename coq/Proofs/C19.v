(* Proofs for property C19 (every configured language is a relabelling of the same calculator).

   1. *_lang            the pipeline reads the language tag only as a key into six per-language tables
                        (parametricity: all lines, all configurations, any number algebra)
   2. tables            the regenerated tables of en and tr are parallel (finite tables, vm_compute)
   3. word-free         on token lists without Text / Month tokens the rule loops of en and tr rewrite
                        alike (open terms, vm_compute)
   4. prints            month names and unit words of the printed text
   5. pipeline          pairs of lines through exec64; the recorded defect (Turkish upper case) *)
From Coq Require Import Floats.
From SC.Model Require Import Base Num NumF64 FloatIO Types Config Case Chrono UiTokens Rx Post Parser Items Interp RuleFns Rules
     Format Lexer Api.
From Coq Require Import ZArith Lia.

(* ------------------------------------------------------------------------------------- *)
(* 1. the language tag only selects tables                                                *)
(* ------------------------------------------------------------------------------------- *)
Section LangParam.
Context {F : Type} {NF : Num F}.
Variable lx : lexdata.
Variable cfg : config F.

(* the six lookups keyed by the language tag; cf_months is keyed by the lf_language field of the
   selected format entry, not by the tag *)
Definition same_tables (l l' : str) : Prop :=
  assoc l (cf_constant_pair cfg) = assoc l' (cf_constant_pair cfg) /\
  assoc l (cf_word_group cfg) = assoc l' (cf_word_group cfg) /\
  assoc l (cf_rules cfg) = assoc l' (cf_rules cfg) /\
  assoc l (cf_format cfg) = assoc l' (cf_format cfg) /\
  assoc l (lx_lang_alias lx) = assoc l' (lx_lang_alias lx) /\
  assoc l (lx_months lx) = assoc l' (lx_months lx).

Definition unknown_tag (l : str) : Prop :=
  assoc l (cf_constant_pair cfg) = None /\ assoc l (cf_word_group cfg) = None /\
  assoc l (cf_rules cfg) = None /\ assoc l (cf_format cfg) = None /\
  assoc l (lx_lang_alias lx) = None /\ assoc l (lx_months lx) = None.

Lemma unknown_same l l' : unknown_tag l -> unknown_tag l' -> same_tables l l'.
Proof.
  intros (a & b & c & d & e & f) (a' & b' & c' & d' & e' & f').
  repeat split; congruence.
Qed.

Lemma same_tables_refl l : same_tables l l.
Proof. repeat split. Qed.

Lemma same_tables_sym l l' : same_tables l l' -> same_tables l' l.
Proof. intros (a & b & c & d & e & f). repeat split; symmetry; assumption. Qed.

Section Pair.
Variables l l' : str.
Hypothesis H : same_tables l l'.

Lemma st_constants : lang_constants cfg l = lang_constants cfg l'.
Proof. unfold lang_constants. apply H. Qed.
Lemma st_groups : lang_groups cfg l = lang_groups cfg l'.
Proof. unfold lang_groups. apply H. Qed.
Lemma st_rules : lang_rules cfg l = lang_rules cfg l'.
Proof. unfold lang_rules. apply H. Qed.
Lemma st_format : lang_format cfg l = lang_format cfg l'.
Proof. unfold lang_format. destruct H as (_ & _ & _ & -> & _). reflexivity. Qed.
Lemma st_alias : assoc l (lx_lang_alias lx) = assoc l' (lx_lang_alias lx).
Proof. apply H. Qed.
Lemma st_months : assoc l (lx_months lx) = assoc l' (lx_months lx).
Proof. apply H. Qed.

(* ---- lexer ---- *)
Lemma month_parser_lang line st : month_parser lx cfg l line st = month_parser lx cfg l' line st.
Proof. unfold month_parser. rewrite st_months. reflexivity. Qed.

Lemma language_tokinizer_lang line st :
  language_tokinizer lx cfg l line st = language_tokinizer lx cfg l' line st.
Proof. unfold language_tokinizer. rewrite month_parser_lang. reflexivity. Qed.

Lemma get_field_type_lang ty name extra :
  get_field_type cfg l ty name extra = get_field_type cfg l' ty name extra.
Proof. unfold get_field_type. rewrite st_groups. reflexivity. Qed.

Lemma field_body_lang line c0 cp st : field_body cfg l line c0 cp st = field_body cfg l' line c0 cp st.
Proof.
  unfold field_body.
  destruct (need (cap_name c0 cp "FIELD")) as [fsp|]; cbn [bind]; [|reflexivity].
  destruct (need (cap_name c0 cp "NAME")) as [nsp|]; cbn [bind]; [|reflexivity].
  rewrite get_field_type_lang. reflexivity.
Qed.

Lemma text_body_lang today line c0 cp st :
  text_body today cfg l line c0 cp st = text_body today cfg l' line c0 cp st.
Proof. unfold text_body. rewrite st_constants. reflexivity. Qed.

Lemma over_captures_ext (b1 b2 : @parser_body F) :
  (forall c0 cp st, b1 c0 cp st = b2 c0 cp st) ->
  forall c0 cps st, over_captures b1 c0 cps st = over_captures b2 c0 cps st.
Proof.
  intros E c0 cps. induction cps as [|cp r IH]; intros st; [reflexivity|].
  cbn [over_captures]. rewrite E. destruct (b2 c0 cp st); cbn [bind]; [apply IH|reflexivity].
Qed.

Lemma over_regexes_ext (b1 b2 : @parser_body F) :
  (forall c0 cp st, b1 c0 cp st = b2 c0 cp st) ->
  forall data rs st, over_regexes b1 data rs st = over_regexes b2 data rs st.
Proof.
  intros E data rs. induction rs as [|c0 r IH]; intros st; [reflexivity|].
  cbn [over_regexes]. rewrite (over_captures_ext b1 b2 E).
  destruct (over_captures b2 c0 _ st); cbn [bind]; [apply IH|reflexivity].
Qed.

Lemma run_parser_lang today line key rs st :
  run_parser today cfg l line key rs st = run_parser today cfg l' line key rs st.
Proof.
  unfold run_parser.
  repeat match goal with |- (if ?b then _ else _) = _ => destruct b end; try reflexivity.
  - apply over_regexes_ext. intros. apply field_body_lang.
  - apply over_regexes_ext. intros. apply text_body_lang.
Qed.

Lemma regex_tokinizer_lang today line st :
  regex_tokinizer lx today cfg l line st = regex_tokinizer lx today cfg l' line st.
Proof.
  unfold regex_tokinizer. f_equal. revert st.
  induction RustConsts.PARSER_ORDER as [|k r IH]; intros st; [reflexivity|].
  destruct (assoc k (lx_parse lx)) as [rs|]; [|apply IH].
  rewrite run_parser_lang. destruct (run_parser today cfg l' line k rs st); cbn [bind]; [apply IH|reflexivity].
Qed.

Lemma alias_tokinizer_lang today st :
  alias_tokinizer lx today cfg l st = alias_tokinizer lx today cfg l' st.
Proof. unfold alias_tokinizer. rewrite st_alias. reflexivity. Qed.

(* Tokinizer::token_infos: what rule patterns are tokenised with at load time *)
Lemma token_infos_lang today line : token_infos lx today cfg l line = token_infos lx today cfg l' line.
Proof.
  unfold token_infos. rewrite language_tokinizer_lang.
  destruct (language_tokinizer lx cfg l' line empty_state) as [st1|]; cbn [bind]; [|reflexivity].
  rewrite regex_tokinizer_lang.
  destruct (regex_tokinizer lx today cfg l' line st1) as [st2|]; cbn [bind]; [|reflexivity].
  rewrite alias_tokinizer_lang. reflexivity.
Qed.

(* ---- rules ---- *)
Variable bexec : config F -> str -> res (option F).

Lemma constant_of_lang w : constant_of cfg l w = constant_of cfg l' w.
Proof. unfold constant_of. rewrite st_constants. reflexivity. Qed.

Lemma call_rule_lang yr vs fname fs :
  call_rule bexec yr cfg l vs fname fs = call_rule bexec yr cfg l' vs fname fs.
Proof.
  unfold call_rule.
  repeat match goal with |- (if ?b then _ else _) = _ => destruct b end; try reflexivity.
  - unfold duration_parse.
    repeat match goal with
           | |- ?x = ?x => reflexivity
           | |- context [constant_of cfg l ?w] => rewrite (constant_of_lang w)
           | |- context [match ?e with _ => _ end] => destruct e
           end.
  - unfold as_duration.
    repeat match goal with
           | |- ?x = ?x => reflexivity
           | |- context [constant_of cfg l ?w] => rewrite (constant_of_lang w)
           | |- context [match ?e with _ => _ end] => destruct e
           end.
Qed.

Lemma rule_try_patterns_lang yr line vs r pats st :
  rule_try_patterns bexec yr line cfg l vs r pats st = rule_try_patterns bexec yr line cfg l' vs r pats st.
Proof.
  induction pats as [|pat rest IH]; [reflexivity|].
  cbn [rule_try_patterns].
  destruct (find_match vs pat (ts_infos st)) as [m|]; cbn [bind]; [|reflexivity].
  destruct (Nat.eqb _ _); [|exact IH].
  destruct r as [fname ps|ps ar].
  - rewrite call_rule_lang.
    destruct (call_rule bexec yr cfg l' vs fname (fm_fields m)) as [[tok|]|]; cbn [bind]; try reflexivity.
    exact IH.
  - destruct (api_call cfg ar (fm_fields m)); [reflexivity|exact IH].
Qed.

Lemma rule_sweep_lang yr line vs rules : forall st fired,
  rule_sweep bexec yr line cfg l vs rules st fired = rule_sweep bexec yr line cfg l' vs rules st fired.
Proof.
  induction rules as [|r rest IH]; intros; [reflexivity|].
  cbn [rule_sweep]. rewrite rule_try_patterns_lang.
  destruct (rule_try_patterns bexec yr line cfg l' vs r (rule_patterns r) st) as [[st'|]|]; cbn [bind];
    try reflexivity; apply IH.
Qed.

Lemma rule_loop_lang yr fuel line vs rules : forall st,
  rule_loop bexec yr fuel line cfg l vs rules st = rule_loop bexec yr fuel line cfg l' vs rules st.
Proof.
  induction fuel as [|f IH]; intros; [reflexivity|].
  cbn [rule_loop]. rewrite rule_sweep_lang.
  destruct (rule_sweep bexec yr line cfg l' vs rules st false) as [[st' fired]|]; cbn [bind]; [|reflexivity].
  destruct fired; [apply IH|reflexivity].
Qed.

Lemma rule_tokinizer_lang yr fuel line vs st :
  rule_tokinizer bexec yr fuel line cfg l vs st = rule_tokinizer bexec yr fuel line cfg l' vs st.
Proof.
  unfold rule_tokinizer. rewrite st_rules.
  destruct (lang_rules cfg l'); [apply rule_loop_lang|reflexivity].
Qed.

(* ---- printing ---- *)
Lemma duration_print_lang secs : duration_print cfg l secs = duration_print cfg l' secs.
Proof. unfold duration_print. rewrite st_format. reflexivity. Qed.
Lemma date_print_lang ny d tz : date_print cfg l ny d tz = date_print cfg l' ny d tz.
Proof. unfold date_print. rewrite st_format. reflexivity. Qed.
Lemma datetime_print_lang ny t tz : datetime_print cfg l ny t tz = datetime_print cfg l' ny t tz.
Proof. unfold datetime_print. rewrite st_format. reflexivity. Qed.

Lemma format_result_lang ny a : format_result cfg l ny a = format_result cfg l' ny a.
Proof.
  destruct a; try reflexivity. cbn [format_result].
  destruct i; cbn [item_print]; try reflexivity.
  - rewrite duration_print_lang. reflexivity.
  - rewrite date_print_lang. reflexivity.
  - rewrite datetime_print_lang. reflexivity.
Qed.

End Pair.

(* ---- the pipeline ---- *)
Variable ck : clock.

Theorem tokinize_lang l l' vs line :
  same_tables l l' -> tokinize lx ck cfg l vs line = tokinize lx ck cfg l' vs line.
Proof.
  intro H. unfold tokinize.
  rewrite (language_tokinizer_lang l l' H).
  destruct (language_tokinizer lx cfg l' line empty_state) as [st1|]; cbn [bind]; [|reflexivity].
  rewrite (regex_tokinizer_lang l l' H).
  destruct (regex_tokinizer lx (ck_today ck) cfg l' line st1) as [st2|]; cbn [bind]; [|reflexivity].
  rewrite (alias_tokinizer_lang l l' H).
  destruct (alias_tokinizer lx (ck_today ck) cfg l' st2) as [st3|]; cbn [bind]; [|reflexivity].
  destruct (unfuel (update_token_variables line vs st3)) as [st4|]; cbn [bind]; [|reflexivity].
  destruct (unfuel (dyn_loop (loop_fuel st4) line cfg vs st4)) as [st5|]; cbn [bind]; [|reflexivity].
  rewrite (rule_tokinizer_lang l l' H). reflexivity.
Qed.

Theorem execute_text_lang l l' vs line :
  same_tables l l' -> execute_text lx ck cfg l vs line = execute_text lx ck cfg l' vs line.
Proof.
  intro H. unfold execute_text.
  destruct line as [|ch0 rest]; [reflexivity|].
  rewrite (tokinize_lang l l' vs _ H).
  destruct (tokinize lx ck cfg l' vs (ch0 :: rest)) as [[st tokens]|]; cbn [bind]; [|reflexivity].
  destruct (ts_infos st) as [|i0 infos]; [reflexivity|].
  destruct (parse tokens vs) as [[a|m|] vs2]; try reflexivity.
  destruct (execute_ast (basic_execute lx ck) cfg vs2 a) as [[[v|m] vs3]|]; cbn [bind]; try reflexivity.
  rewrite (format_result_lang l l' H). reflexivity.
Qed.

(* SmartCalc::execute: the result (status and lines); the session keeps the tag itself *)
Definition res_snd {A B} (r : res (A * B)) : res B :=
  match r with Ok (_, b) => Ok b | Panic p => Panic p end.

Lemma session_loop_lang l l' : same_tables l l' -> forall fuel parts pos vs acc,
  res_snd (session_loop lx ck fuel cfg {| se_parts := parts; se_position := pos; se_language := l; se_vars := vs |} acc)
  = res_snd (session_loop lx ck fuel cfg {| se_parts := parts; se_position := pos; se_language := l'; se_vars := vs |} acc).
Proof.
  intros H fuel. induction fuel as [|f IH]; intros; [reflexivity|].
  cbn [session_loop se_parts se_position se_language se_vars].
  destruct (nth_opt parts pos) as [line|]; [|reflexivity].
  rewrite (execute_text_lang l l' vs line H).
  destruct (execute_text lx ck cfg l' vs line) as [[obs vs']|]; cbn [bind]; [|reflexivity].
  destruct (Nat.ltb (S pos) (length parts)); [apply IH|reflexivity].
Qed.

Theorem execute_lang l l' text :
  same_tables l l' -> execute lx ck cfg l text = execute lx ck cfg l' text.
Proof.
  intro H. unfold execute, execute_session, set_language, set_text, new_session.
  cbn [se_parts se_position se_language se_vars].
  destruct (Nat.ltb 0 (length (split_lines text []))); [|reflexivity].
  pose proof (session_loop_lang l l' H (S (length (split_lines text []))) (split_lines text []) 0%nat [] []) as E.
  unfold res_snd in E.
  destruct (session_loop lx ck _ cfg {| se_language := l |} []) as [[s1 a1]|p1];
  destruct (session_loop lx ck _ cfg {| se_language := l' |} []) as [[s2 a2]|p2]; cbn [bind snd fst];
    try discriminate; inversion E; reflexivity.
Qed.

Corollary unknown_tags_alike l l' text :
  unknown_tag l -> unknown_tag l' -> execute lx ck cfg l text = execute lx ck cfg l' text.
Proof. intros U U'. apply execute_lang, unknown_same; assumption. Qed.

End LangParam.

(* ------------------------------------------------------------------------------------- *)
(* 2. the regenerated tables of en and tr are parallel                                    *)
(* ------------------------------------------------------------------------------------- *)
From SC.Model Require Import Run64.
From SC.Gen Require Import ConfigData Regexes RustConsts.

(* UTF-8 string literals of this file as code points ([Base.s] is for ASCII) *)
Fixpoint utf8_dec (fuel : nat) (l : list N) : str :=
  match fuel with
  | O => []
  | S f =>
    match l with
    | [] => []
    | a :: r =>
      if (a <? 128)%N then a :: utf8_dec f r
      else if (a <? 224)%N then
        match r with b :: r' => ((a - 192) * 64 + (b - 128))%N :: utf8_dec f r' | _ => [] end
      else if (a <? 240)%N then
        match r with b :: c :: r' => ((a - 224) * 4096 + (b - 128) * 64 + (c - 128))%N :: utf8_dec f r' | _ => [] end
      else
        match r with
        | b :: c :: d :: r' => ((a - 240) * 262144 + (b - 128) * 4096 + (c - 128) * 64 + (d - 128))%N :: utf8_dec f r'
        | _ => [] end
    end
  end.
Definition u (x : string) : str := let l := s x in utf8_dec (length l) l.

Example u_example : u "şubat ARALIK ı İ €" = [351; 117; 98; 97; 116; 32; 65; 82; 65; 76; 73; 75; 32; 305; 32; 304; 32; 8364]%N.
Proof. vm_compute. reflexivity. Qed.

Definition L_en : str := s "en".
Definition L_tr : str := s "tr".

Lemma configured_languages :
  d_languages = [L_en; L_tr] /\
  map fst (cf_constant_pair default_config) = [L_en; L_tr] /\ map fst (cf_word_group default_config) = [L_en; L_tr] /\
  map fst (cf_rules default_config) = [L_en; L_tr] /\ map fst (cf_months default_config) = [L_en; L_tr] /\
  map fst (cf_format default_config) = [L_en; L_tr] /\
  map fst (lx_lang_alias LX) = [L_en; L_tr] /\ map fst (lx_months LX) = [L_en; L_tr] /\
  cf_constant_pair default_config = d_constant_pair /\ cf_word_group default_config = d_word_group /\
  cf_months default_config = d_months /\ cf_format default_config = d_format.
Proof. vm_compute. repeat split. Qed.

(* ---- constants: duration and day keywords ---- *)
Definition consttype_eqb (a b : consttype) : bool :=
  match a, b with
  | CDay, CDay | CWeek, CWeek | CMonth, CMonth | CYear, CYear | CSecond, CSecond | CMinute, CMinute
  | CHour, CHour | CToday, CToday | CTomorrow, CTomorrow | CYesterday, CYesterday | CNow, CNow => true
  | _, _ => false
  end.

Definition is_unit (c : consttype) : bool :=
  match c with CDay | CWeek | CMonth | CYear | CSecond | CMinute | CHour => true | _ => false end.

Definition consts_of (lang : str) : list (str * consttype) :=
  match assoc lang d_constant_pair with Some m => m | None => [] end.

Definition words_for (lang : str) (c : consttype) : list str :=
  map fst (filter (fun kv => consttype_eqb (snd kv) c) (consts_of lang)).

Definition group_of (lang : str) (g : string) : list str :=
  match assoc lang d_word_group with
  | Some gs => match assoc (s g) gs with Some l => l | None => [] end
  | None => []
  end.

(* every constant (second .. year, today, tomorrow, yesterday, now) has a keyword in both languages *)
Lemma consts_parallel (c : consttype) : words_for L_en c <> [] /\ words_for L_tr c <> [].
Proof. destruct c; split; vm_compute; discriminate. Qed.

Lemma consts_translate lang lang' w c :
  In lang [L_en; L_tr] -> In lang' [L_en; L_tr] ->
  In (w, c) (consts_of lang) -> exists w', assoc w' (consts_of lang') = Some c.
Proof.
  intros _ Hl' _.
  assert (forall l, In l [L_en; L_tr] -> exists w', assoc w' (consts_of l) = Some c) as A.
  { intros l [<-|[<-|[]]]; destruct c;
      match goal with
      | |- exists w', assoc w' (consts_of ?l) = Some ?k =>
        let ws := eval vm_compute in (words_for l k) in
        match ws with ?w0 :: _ => exists w0; vm_compute; reflexivity end
      end. }
  apply A, Hl'.
Qed.

(* the duration keywords are exactly the words of the language's duration_group (what the
   duration_parse pattern {NUMBER:duration} {GROUP:type:duration_group} accepts) *)
Definition unit_words_ok (lang : str) : bool :=
  forallb (fun kv => implb (is_unit (snd kv)) (mem_str (fst kv) (group_of lang "duration_group"))) (consts_of lang) &&
  forallb (fun w => match assoc w (consts_of lang) with Some c => is_unit c | None => false end)
          (group_of lang "duration_group").

Lemma mem_str_In x l : mem_str x l = true -> In x l.
Proof.
  induction l as [|y r IH]; cbn [mem_str]; [discriminate|].
  destruct (str_eqb x y) eqn:E.
  - intros _. left. symmetry. apply str_eqb_eq, E.
  - intro H. right. apply IH, H.
Qed.

Lemma unit_words_group lang :
  In lang [L_en; L_tr] ->
  (forall w c, In (w, c) (consts_of lang) -> is_unit c = true -> In w (group_of lang "duration_group")) /\
  (forall w, In w (group_of lang "duration_group") -> exists c, assoc w (consts_of lang) = Some c /\ is_unit c = true).
Proof.
  intro Hl.
  assert (unit_words_ok lang = true) as A by (destruct Hl as [<-|[<-|[]]]; vm_compute; reflexivity).
  apply andb_prop in A as [A1 A2]. rewrite forallb_forall in A1, A2. split.
  - intros w c Hin Hu. specialize (A1 _ Hin). cbn [fst snd] in A1. rewrite Hu in A1. apply mem_str_In, A1.
  - intros w Hin. specialize (A2 _ Hin). destruct (assoc w (consts_of lang)) as [c|]; [|discriminate].
    exists c. split; [reflexivity|exact A2].
Qed.

(* tr configures no conversion words and no number-base words *)
Lemma groups_only_en :
  group_of L_tr "conversion_group" = [] /\ group_of L_tr "number_type_group" = [] /\
  group_of L_en "conversion_group" = map s ["in"; "into"; "as"; "to"]%string /\
  group_of L_en "number_type_group" = map s ["hex"; "hexadecimal"; "decimal"; "octal"; "binary"]%string.
Proof. vm_compute. repeat split. Qed.

(* ---- months ---- *)
Definition months_of (lang : str) : list monthinfo := match assoc lang d_months with Some l => l | None => [] end.
Definition month_res (lang : str) : list (cre * monthinfo) := match assoc lang g_months with Some l => l | None => [] end.

Definition months_ok (lang : str) : bool :=
  forallb (fun cm => re_is_match (fst cm) (mi_long (snd cm)) && re_is_match (fst cm) (mi_short (snd cm))
                     && negb (str_eqb (mi_long (snd cm)) []) && negb (str_eqb (mi_short (snd cm)) []))
          (month_res lang).

(* every month number 1..12 has an entry with a long and a short name in both languages; the lexer's
   month regexes carry the same entries and each matches its own names *)
Lemma months_parallel lang :
  In lang [L_en; L_tr] ->
  map mi_month (months_of lang) = [1; 2; 3; 4; 5; 6; 7; 8; 9; 10; 11; 12] /\
  map snd (month_res lang) = months_of lang /\
  (forall c mi, In (c, mi) (month_res lang) ->
     re_is_match c (mi_long mi) = true /\ re_is_match c (mi_short mi) = true /\ mi_long mi <> [] /\ mi_short mi <> []).
Proof.
  intro Hl.
  assert (months_ok lang = true) as A by (destruct Hl as [<-|[<-|[]]]; vm_compute; reflexivity).
  split; [destruct Hl as [<-|[<-|[]]]; vm_compute; reflexivity|].
  split; [destruct Hl as [<-|[<-|[]]]; vm_compute; reflexivity|].
  unfold months_ok in A. rewrite forallb_forall in A.
  intros c mi Hin. specialize (A _ Hin). cbn [fst snd] in A.
  apply andb_prop in A as [A A4]. apply andb_prop in A as [A A3]. apply andb_prop in A as [A1 A2].
  repeat split; try assumption.
  - intro E. rewrite E in A3. discriminate.
  - intro E. rewrite E in A4. discriminate.
Qed.

(* every configured spelling of every month (config.json long_months / short_months: the long spellings in map
   order, then the short ones not already listed; tr lists ASCII spellings next to the Turkish ones) *)
Definition month_spellings (lang : str) : list (list str) :=
  if str_eqb lang L_tr then
    map (map u) [["ocak"; "oca"]; ["subat"; "şubat"; "sub"; "şub"]; ["mart"; "mar"]; ["nisan"; "nis"];
                 ["mayis"; "mayıs"; "may"]; ["haziran"; "haz"]; ["temmuz"; "tem"];
                 ["agustos"; "ağustos"; "agu"; "ağu"]; ["eylul"; "eylül"; "eyl"]; ["ekim"; "eki"];
                 ["kasim"; "kasım"; "kas"]; ["aralik"; "aralık"; "ara"]]%string
  else
    map (map s) [["january"; "jan"]; ["february"; "feb"]; ["march"; "mar"]; ["april"; "apr"]; ["may"];
                 ["june"; "jun"]; ["july"; "jul"]; ["august"; "aug"]; ["september"; "sep"]; ["october"; "oct"];
                 ["november"; "nov"]; ["december"; "dec"]]%string.

Fixpoint alternatives (r : Regex.rx) : nat :=
  match r with Regex.RAlt a b => (alternatives a + alternatives b)%nat | _ => 1%nat end.

(* the month regex matches every spelling of its month, has exactly as many alternatives as the month has
   spellings, and the names kept for printing are among them *)
Definition spellings_ok (lang : str) : bool :=
  Nat.eqb (length (month_res lang)) 12 && Nat.eqb (length (month_spellings lang)) 12 &&
  forallb (fun x => let '((c, mi), ws) := x in
                    forallb (re_is_match c) ws && Nat.eqb (alternatives (cre_rx c)) (length ws) &&
                    mem_str (mi_long mi) ws && mem_str (mi_short mi) ws)
          (combine (month_res lang) (month_spellings lang)).

(* ... and no spelling of another month *)
Definition months_exclusive (lang : str) : bool :=
  forallb (fun ci => forallb (fun wj => forallb (fun w => Bool.eqb (re_is_match (fst (fst ci)) w) (Nat.eqb (snd ci) (snd wj)))
                                                (fst wj))
                             (combine (month_spellings lang) (seq 0 12)))
          (combine (month_res lang) (seq 0 12)).

Lemma months_all_spellings lang :
  In lang [L_en; L_tr] ->
  length (month_res lang) = 12%nat /\ length (month_spellings lang) = 12%nat /\
  (forall c mi ws, In ((c, mi), ws) (combine (month_res lang) (month_spellings lang)) ->
     (forall w, In w ws -> re_is_match c w = true) /\ alternatives (cre_rx c) = length ws /\
     In (mi_long mi) ws /\ In (mi_short mi) ws) /\
  months_exclusive lang = true.
Proof.
  intro Hl.
  assert (spellings_ok lang = true) as A by (destruct Hl as [<-|[<-|[]]]; vm_compute; reflexivity).
  assert (months_exclusive lang = true) as B by (destruct Hl as [<-|[<-|[]]]; vm_compute; reflexivity).
  unfold spellings_ok in A. apply andb_prop in A as [A A3]. apply andb_prop in A as [A1 A2].
  apply Nat.eqb_eq in A1, A2. repeat split; try assumption.
  all: rewrite forallb_forall in A3; specialize (A3 _ H); cbn beta iota in A3;
    apply andb_prop in A3 as [A3 A6]; apply andb_prop in A3 as [A3 A5]; apply andb_prop in A3 as [A3 A4].
  - rewrite forallb_forall in A3. intros w Hw. apply A3, Hw.
  - apply Nat.eqb_eq, A4.
  - apply mem_str_In, A5.
  - apply mem_str_In, A6.
Qed.

(* ---- rules ---- *)
Definition rule_name (r : rule float) : str := match r with RInternal n _ => n | RApi _ ar => ar_name ar end.
Definition rules_of (lang : str) : list (rule float) :=
  match assoc lang (cf_rules default_config) with Some l => l | None => [] end.
Definition rule_names (lang : str) : list str := map rule_name (rules_of lang).

Definition field_code (f : field) : str :=
  match f with
  | FText n _ => s "TEXT:" ++ n
  | FDateTime n => s "DATE_TIME:" ++ n
  | FDate n => s "DATE:" ++ n
  | FTime n => s "TIME:" ++ n
  | FMoney n => s "MONEY:" ++ n
  | FPercent n => s "PERCENT:" ++ n
  | FNumber n => s "NUMBER:" ++ n
  | FGroup n _ => s "GROUP:" ++ n
  | FTypeGroup ts n => concat_str (map (fun t => t ++ s "|") ts) ++ s ":" ++ n
  | FMonth n => s "MONTH:" ++ n
  | FDuration n => s "DURATION:" ++ n
  | FTimezone n => s "TIMEZONE:" ++ n
  | FDynamicType n _ => s "DYNAMIC_TYPE:" ++ n
  end.

(* a pattern element up to keyword words: a field keeps its kind and name (a GROUP loses its word
   list, a TEXT its expected word), a literal word becomes "#", an operator stays *)
Definition tok_code (t : token_info float) : str :=
  match ti_ty t with
  | Some (TField f) => field_code f
  | Some (TText _) => s "#"
  | Some (TOperator c) => [c]
  | _ => s "?"
  end.

Definition is_word_code (c : str) : bool := str_eqb c (s "#").
Definition skeleton (r : rule float) : list (list str) := map (map tok_code) (rule_patterns r).
(* ... and without the positions of the literal words *)
Definition field_skeleton (r : rule float) : list (list str * nat) :=
  map (fun p => (filter (fun c => negb (is_word_code c)) p, length (filter is_word_code p))) (skeleton r).

Definition rule_named (lang : str) (n : string) : option (rule float) :=
  List.find (fun r => str_eqb (rule_name r) (s n)) (rules_of lang).

Definition pat_eqb (a b : list str) : bool := Match.list_str_eqb a b.
Definition incl_pats (a b : list (list str)) : bool := forallb (fun p => existsb (pat_eqb p) b) a.
Definition same_up_to_order (a b : list (list str)) : bool :=
  Nat.eqb (length a) (length b) && incl_pats a b && incl_pats b a.
Definition fpat_eqb (a b : list str * nat) : bool := pat_eqb (fst a) (fst b) && Nat.eqb (snd a) (snd b).
Definition fsame_up_to_order (a b : list (list str * nat)) : bool :=
  Nat.eqb (length a) (length b) && forallb (fun p => existsb (fpat_eqb p) b) a && forallb (fun p => existsb (fpat_eqb p) a) b.

Definition shared_rules : list string :=
  ["as_duration"; "combine_durations"; "convert_money"; "division_cleanup"; "duration_parse"; "find_numbers_percent";
   "find_total_from_percent"; "number_of"; "number_off"; "number_on"; "percent_calculator"; "time_with_timezone"; "to_duration";
   "small_date"]%string.
Definition rules_only_en : list string :=
  ["at_date"; "convert_timezone"; "dynamic_type_convert"; "from_unixtime"; "number_type_convert"; "to_unixtime"]%string.

Definition skel_of (lang : str) (n : string) : list (list str) :=
  match rule_named lang n with Some r => skeleton r | None => [] end.
Definition fskel_of (lang : str) (n : string) : list (list str * nat) :=
  match rule_named lang n with Some r => field_skeleton r | None => [] end.

(* a pattern with a GROUP field whose word list is empty can never match *)
Definition dead_pattern (p : list (token_info float)) : bool :=
  existsb (fun t => match ti_ty t with Some (TField (FGroup _ [])) => true | _ => false end) p.
Definition dead_rule (r : rule float) : bool := forallb dead_pattern (rule_patterns r).

Lemma rules_parallel :
  (* which rules each language has (BTreeMap order, small_date appended by SmartCalc::default) *)
  rule_names L_tr = map s shared_rules /\
  (forall n, In n (rule_names L_en) <-> In n (map s shared_rules) \/ In n (map s rules_only_en)) /\
  (forall n, In n (map s rules_only_en) -> ~ In n (rule_names L_tr)) /\
  (* shared rules: the same patterns up to keyword words and the order of the patterns *)
  (forall n, In n shared_rules -> n <> "to_duration"%string -> n <> "small_date"%string ->
     same_up_to_order (skel_of L_en n) (skel_of L_tr n) = true) /\
  (* to_duration: `A to B` / `A B arası` - the same fields in the same order, one keyword each *)
  fsame_up_to_order (fskel_of L_en "to_duration") (fskel_of L_tr "to_duration") = true /\
  (* small_date: the tr spellings are three of the five en spellings *)
  incl_pats (skel_of L_tr "small_date") (skel_of L_en "small_date") = true /\
  length (skel_of L_en "small_date") = 5%nat /\ length (skel_of L_tr "small_date") = 3%nat /\
  (* the rules of tr that cannot fire because their conversion-word group is empty *)
  map rule_name (filter dead_rule (rules_of L_tr)) = [s "as_duration"] /\
  map rule_name (filter dead_rule (rules_of L_en)) = [].
Proof.
  split; [vm_compute; reflexivity|].
  split.
  { intro n. split.
    - intro H. vm_compute in H.
      repeat (destruct H as [<-|H]; [vm_compute; tauto|]). destruct H.
    - intros [H|H]; vm_compute in H; repeat (destruct H as [<-|H]; [vm_compute; tauto|]); destruct H. }
  split.
  { intros n H. vm_compute in H.
    repeat (destruct H as [<-|H]; [vm_compute; intuition discriminate|]). destruct H. }
  split.
  { intros n H N1 N2. cbn [shared_rules In] in H.
    repeat (destruct H as [<-|H]; [try (vm_compute; reflexivity); try (exfalso; apply N1; reflexivity);
                                   exfalso; apply N2; reflexivity|]). destruct H. }
  vm_compute. repeat split.
Qed.

(* ---- operator words ---- *)
Definition aliases_of (lang : str) : list (str * str) := match assoc lang d_lang_alias with Some l => l | None => [] end.
Definition alias_res (lang : str) : list (cre * str) := match assoc lang g_lang_alias with Some l => l | None => [] end.

Definition alias_words_ok (lang : str) : bool :=
  Match.list_str_eqb (map snd (alias_res lang)) (map snd (aliases_of lang)) &&
  (fix go (a : list (cre * str)) (b : list (str * str)) : bool :=
     match a, b with
     | [], [] => true
     | (c, _) :: a', (w, _) :: b' => re_is_match c w && go a' b'
     | _, _ => false
     end) (alias_res lang) (aliases_of lang).

Definition en_has_target (kv : str * str) : bool := existsb (fun kv' => str_eqb (snd kv') (snd kv)) (aliases_of L_en).

(* every operator word of tr is rewritten to the atom some en word is rewritten to; `divide` is the
   only en word without a tr counterpart; the alias regexes of the lexer are the words of the table *)
Lemma aliases_parallel :
  (forall w r, In (w, r) (aliases_of L_tr) -> exists w', In (w', r) (aliases_of L_en)) /\
  map fst (filter (fun kv => negb (existsb (fun kv' => str_eqb (snd kv') (snd kv)) (aliases_of L_tr))) (aliases_of L_en))
    = [s "divide"] /\
  alias_words_ok L_en = true /\ alias_words_ok L_tr = true /\
  map (fun kv => (fst kv, snd kv)) (aliases_of L_en)
    = [(s "add", s "[OPERATOR:+]"); (s "append", s "[OPERATOR:+]"); (s "divide", s "[OPERATOR:/]"); (s "euro", s "eur");
       (s "exclude", s "[OPERATOR:-]"); (s "minus", s "[OPERATOR:-]"); (s "multiply", s "[OPERATOR:*]");
       (s "sum", s "[OPERATOR:+]"); (s "times", s "[OPERATOR:*]")] /\
  aliases_of L_tr
    = [(u "carp", s "[OPERATOR:*]"); (u "carpi", s "[OPERATOR:*]"); (u "cikar", s "[OPERATOR:-]"); (u "cikart", s "[OPERATOR:-]");
       (u "ekle", s "[OPERATOR:+]"); (u "eksi", s "[OPERATOR:-]"); (u "euro", s "eur"); (u "kere", s "[OPERATOR:*]");
       (u "topla", s "[OPERATOR:+]"); (u "toplam", s "[OPERATOR:+]"); (u "çarp", s "[OPERATOR:*]"); (u "çarpı", s "[OPERATOR:*]");
       (u "çıkar", s "[OPERATOR:-]"); (u "çıkart", s "[OPERATOR:-]")].
Proof.
  split.
  { assert (forallb en_has_target (aliases_of L_tr) = true) as A by (vm_compute; reflexivity).
    rewrite forallb_forall in A. intros w r Hin. specialize (A _ Hin). unfold en_has_target in A.
    apply existsb_exists in A as [[w' r'] [Hin' E]]. cbn [snd] in E. exists w'.
    apply str_eqb_eq in E. subst r'. exact Hin'. }
  vm_compute. repeat split.
Qed.

(* ------------------------------------------------------------------------------------- *)
(* 3. word-free token lists are rewritten alike under en and tr                          *)
(* ------------------------------------------------------------------------------------- *)
(* an Active typed token with arbitrary span and text *)
Definition tinfo (b e : N) (t : token float) (txt : str) : token_info float :=
  {| ti_start := b; ti_end := e; ti_ty := Some t; ti_text := txt; ti_active := true |}.

(* the rule loop of Tokinizer::tokinize (the only language-keyed stage between the lexer and the
   printer) on the token infos [infos] of a line, with the rules of [lang]; no session variables *)
Definition rules_on (bexec : config float -> str -> res (option float)) (ny : Z) (line lang : str)
           (infos : list (token_info float)) : res (option (@Rules.tstate float)) :=
  let st := {| ts_infos := infos; ts_ui := [] |} in
  rule_tokinizer bexec ny (loop_fuel st) line default_config lang [] st.

Definition same_rewrite bexec ny line (infos : list (token_info float)) : Prop :=
  rules_on bexec ny line L_en infos = rules_on bexec ny line L_tr infos.

(* the patterns that consist of NUMBER / MONEY / PERCENT / DATE / TIME fields and operators only
   (no keyword, no word group, no month, no duration, no timezone) are the same in both rule tables,
   in the same order *)
Definition word_free_element (t : token_info float) : bool :=
  match ti_ty t with
  | Some (TOperator _) => true
  | Some (TField (FNumber _)) | Some (TField (FMoney _)) | Some (TField (FPercent _))
  | Some (TField (FDate _)) | Some (TField (FTime _)) | Some (TField (FDateTime _)) => true
  | Some (TField (FTypeGroup ts _)) =>
    forallb (fun t => mem_str t (map s ["NUMBER"; "MONEY"; "PERCENT"; "DATE"; "TIME"; "DATE_TIME"]%string)) ts
  | _ => false
  end.
Definition word_free_patterns (lang : str) : list (str * list (list (token_info float))) :=
  filter (fun np => negb (Nat.eqb (length (snd np)) 0))
         (map (fun r => (rule_name r, filter (forallb word_free_element) (rule_patterns r))) (rules_of lang)).

Lemma word_free_rules_equal :
  word_free_patterns L_en = word_free_patterns L_tr /\
  map (fun np => (fst np, map (map tok_code) (snd np))) (word_free_patterns L_en)
  = [(s "percent_calculator", [[s "PERCENT:percent"; s "NUMBER:number"]; [s "NUMBER:number"; s "PERCENT:percent"]]);
     (s "small_date", [[s "NUMBER:day"; s "/"; s "NUMBER:month"; s "/"; s "NUMBER:year"]])].
Proof. split; vm_compute; reflexivity. Qed.

Section Shapes.
Variable bexec : config float -> str -> res (option float).
Variable ny : Z.
Variable line : str.
Variables b1 e1 b2 e2 b3 e3 b4 e4 b5 e5 b6 e6 : N.
Variables x1 x2 x3 x4 x5 x6 : str.
Variables X Y V p : float.
Variables nt nt' nt'' : numtype.
Variables d d' t t' : Z.
Variables tz tz' : tzinfo.

Let NUM1 := tinfo b1 e1 (TNumber X nt) x1.
Let NUM3 := tinfo b3 e3 (TNumber Y nt') x3.
Let NUM5 := tinfo b5 e5 (TNumber V nt'') x5.
Let OP2 (c : string) := tinfo b2 e2 (TOperator (ch c)) x2.
Let OP4 (c : string) := tinfo b4 e4 (TOperator (ch c)) x4.
Let MON1 (c : string) := tinfo b1 e1 (TMoney X (s c)) x1.
Let MON3 (c : string) := tinfo b3 e3 (TMoney Y (s c)) x3.
Let PCT1 := tinfo b1 e1 (TPercent p) x1.
Let PCT3 := tinfo b3 e3 (TPercent p) x3.
Let PCT2 := tinfo b2 e2 (TPercent p) x2.
Let NUM2 := tinfo b2 e2 (TNumber Y nt') x2.
Let W2 (w : string) := tinfo b2 e2 (TText (s w)) (s w).

Ltac go := unfold same_rewrite; vm_compute; reflexivity.

(* arithmetic: one, two, three operands with the operators + - * / (any values, number types, spans, texts) *)
Lemma shapes_arithmetic :
  same_rewrite bexec ny line [NUM1] /\
  same_rewrite bexec ny line [NUM1; OP2 "+"; NUM3] /\ same_rewrite bexec ny line [NUM1; OP2 "-"; NUM3] /\
  same_rewrite bexec ny line [NUM1; OP2 "*"; NUM3] /\ same_rewrite bexec ny line [NUM1; OP2 "/"; NUM3] /\
  same_rewrite bexec ny line [NUM1; NUM2] /\
  same_rewrite bexec ny line [NUM1; OP2 "+"; NUM3; OP4 "*"; NUM5] /\
  same_rewrite bexec ny line [NUM1; OP2 "*"; NUM3; OP4 "-"; NUM5] /\
  same_rewrite bexec ny line [NUM1; OP2 "-"; NUM3; OP4 "/"; NUM5] /\
  same_rewrite bexec ny line [tinfo b1 e1 (TOperator (ch "(")) x1; NUM2; tinfo b3 e3 (TOperator (ch "+")) x3;
                              tinfo b4 e4 (TNumber V nt'') x4; tinfo b5 e5 (TOperator (ch ")")) x5].
Proof. (repeat match goal with |- _ /\ _ => split end; go). Qed.

(* d/m/y: the one date spelling without a month word (the small_date rule fires in both); the three numbers are
   concrete here (open binary64 values make the normal form of the date arithmetic explode), spans and texts are not *)
Let DMY (dd mm yy : Z) := [tinfo b1 e1 (TNumber (fofZ dd) nt) x1; OP2 "/"; tinfo b3 e3 (TNumber (fofZ mm) nt') x3; OP4 "/";
                           tinfo b5 e5 (TNumber (fofZ yy) nt'') x5].
Lemma shapes_dmy :
  same_rewrite bexec ny line (DMY 29 2 2020) /\ same_rewrite bexec ny line (DMY 31 12 1999) /\
  same_rewrite bexec ny line (DMY 1 1 2021) /\ same_rewrite bexec ny line (DMY 31 4 2021) /\
  same_rewrite bexec ny line (DMY 12 13 2021).
Proof. (repeat match goal with |- _ /\ _ => split end; go). Qed.

(* money (three of the configured currency codes) alone, in sums, scaled, and converted by `money code` *)
Lemma shapes_money :
  same_rewrite bexec ny line [MON1 "USD"] /\ same_rewrite bexec ny line [MON1 "TRY"] /\
  same_rewrite bexec ny line [MON1 "USD"; OP2 "+"; MON3 "USD"] /\
  same_rewrite bexec ny line [MON1 "USD"; OP2 "-"; MON3 "EUR"] /\
  same_rewrite bexec ny line [MON1 "EUR"; OP2 "*"; NUM3] /\ same_rewrite bexec ny line [MON1 "TRY"; OP2 "/"; NUM3] /\
  same_rewrite bexec ny line [MON1 "USD"; W2 "try"] /\ same_rewrite bexec ny line [MON1 "EUR"; W2 "usd"] /\
  same_rewrite bexec ny line [MON1 "TRY"; W2 "eur"].
Proof. (repeat match goal with |- _ /\ _ => split end; go). Qed.

(* percentages: alone, `X + p%`, `X - p%`, `money +- p%`, `p% X`, `X p%` (percent_calculator) *)
Lemma shapes_percent :
  same_rewrite bexec ny line [PCT1] /\
  same_rewrite bexec ny line [NUM1; OP2 "+"; PCT3] /\ same_rewrite bexec ny line [NUM1; OP2 "-"; PCT3] /\
  same_rewrite bexec ny line [MON1 "USD"; OP2 "+"; PCT3] /\ same_rewrite bexec ny line [MON1 "EUR"; OP2 "-"; PCT3] /\
  same_rewrite bexec ny line [PCT1; NUM2] /\ same_rewrite bexec ny line [NUM1; PCT2].
Proof. (repeat match goal with |- _ /\ _ => split end; go). Qed.

(* the phrases whose pattern words are English in both rule tables *)
Lemma shapes_phrases :
  same_rewrite bexec ny line [PCT1; W2 "on"; NUM3] /\ same_rewrite bexec ny line [PCT1; W2 "of"; NUM3] /\
  same_rewrite bexec ny line [PCT1; W2 "off"; NUM3] /\ same_rewrite bexec ny line [NUM1; W2 "on"; PCT3] /\
  same_rewrite bexec ny line [PCT1; W2 "of"; MON3 "USD"] /\ same_rewrite bexec ny line [MON1 "TRY"; W2 "off"; PCT3] /\
  same_rewrite bexec ny line [NUM1; W2 "is"; tinfo b3 e3 (TText (s "what")) x3; tinfo b4 e4 (TOperator 37) x4;
                              tinfo b5 e5 (TText (s "of")) x5; tinfo b6 e6 (TNumber V nt'') x6] /\
  same_rewrite bexec ny line [NUM1; W2 "is"; PCT3; tinfo b4 e4 (TText (s "of")) x4; tinfo b5 e5 (TText (s "what")) x5].
Proof. (repeat match goal with |- _ /\ _ => split end; go). Qed.

(* times and dates as values (already lexed): alone and in differences *)
Lemma shapes_time_date :
  same_rewrite bexec ny line [tinfo b1 e1 (TTime t tz) x1] /\
  same_rewrite bexec ny line [tinfo b1 e1 (TDate d tz) x1] /\
  same_rewrite bexec ny line [tinfo b1 e1 (TDate d tz) x1; OP2 "-"; tinfo b3 e3 (TDate d' tz') x3] /\
  same_rewrite bexec ny line [tinfo b1 e1 (TTime t tz) x1; OP2 "+"; tinfo b3 e3 (TTime t' tz') x3].
Proof. (repeat match goal with |- _ /\ _ => split end; go). Qed.

End Shapes.

(* what is printed for a number, a percentage, money, a time or a quantity does not read the
   language at all: any configuration, any two tags *)
Lemma print_word_free {F} {NF : Num F} (cfg : config F) (l l' : str) ny (i : item F) :
  match i with IDuration _ | IDate _ _ | IDateTime _ _ => False | _ => True end ->
  format_result cfg l ny (AItem i) = format_result cfg l' ny (AItem i).
Proof. destruct i; intros []; reflexivity. Qed.

(* ------------------------------------------------------------------------------------- *)
(* 4. dates and durations are printed with the language's own words                       *)
(* ------------------------------------------------------------------------------------- *)
From SC.Spec Require Import Calendar.

Definition EN_LONG : list str :=
  map s ["january"; "february"; "march"; "april"; "may"; "june"; "july"; "august"; "september"; "october"; "november";
         "december"]%string.
Definition EN_SHORT : list str :=
  map s ["jan"; "feb"; "mar"; "apr"; "may"; "jun"; "jul"; "aug"; "sep"; "oct"; "nov"; "dec"]%string.
Definition TR_LONG : list str :=
  map u ["ocak"; "şubat"; "mart"; "nisan"; "mayıs"; "haziran"; "temmuz"; "ağustos"; "eylül"; "ekim"; "kasım"; "aralık"]%string.
Definition TR_SHORT : list str :=
  map u ["oca"; "şub"; "mar"; "nis"; "may"; "haz"; "tem"; "ağu"; "eyl"; "eki"; "kas"; "ara"]%string.
Definition long_names (lang : str) : list str := if str_eqb lang L_tr then TR_LONG else EN_LONG.
Definition short_names (lang : str) : list str := if str_eqb lang L_tr then TR_SHORT else EN_SHORT.

Definition UTC0 : tzinfo := {| tz_name := s "UTC"; tz_off := 0 |}.

(* the month table of a language holds its own names; its format entry points back to that table *)
Lemma month_tables lang :
  In lang [L_en; L_tr] ->
  map (fun mi => (mi_long mi, mi_short mi)) (months_of lang) = combine (long_names lang) (short_names lang) /\
  option_map (fun f => (lf_language f, assoc (s "current_year") (lf_date f), assoc (s "full_date") (lf_date f)))
             (assoc lang (cf_format default_config))
  = Some (lang, Some (s "{day} {month_long}"), Some (s "{day} {month_short} {year}")) /\
  cf_tz default_config = UTC0.
Proof. intros [<-|[<-|[]]]; vm_compute; repeat split. Qed.

(* the 15th of every month of 2021, read in 2021 and in another year, both languages *)
Definition month_prints_ok (lang : str) : bool :=
  forallb (fun m =>
             let day := days_from_civil 2021 (Z.of_nat m) 15 in
             str_eqb (date_print default_config lang 2021 day UTC0)
                     (s "15 " ++ uppercase_first_letter (nth (m - 1) (long_names lang) [])) &&
             str_eqb (date_print default_config lang 2022 day UTC0)
                     (s "15 " ++ uppercase_first_letter (nth (m - 1) (short_names lang) []) ++ s " 2021"))
          (seq 1 12).

Lemma month_prints lang m :
  In lang [L_en; L_tr] -> In m (seq 1 12) ->
  let day := days_from_civil 2021 (Z.of_nat m) 15 in
  date_print default_config lang 2021 day UTC0 = s "15 " ++ uppercase_first_letter (nth (m - 1) (long_names lang) []) /\
  date_print default_config lang 2022 day UTC0
  = s "15 " ++ uppercase_first_letter (nth (m - 1) (short_names lang) []) ++ s " 2021".
Proof.
  intros Hl Hm.
  assert (month_prints_ok lang = true) as A by (destruct Hl as [<-|[<-|[]]]; vm_compute; reflexivity).
  unfold month_prints_ok in A. rewrite forallb_forall in A. specialize (A _ Hm).
  apply andb_prop in A as [A1 A2]. apply str_eqb_eq in A1, A2. split; assumption.
Qed.

(* unit words: what DurationItem::print writes after a count *)
Definition en_unit (k : durkind) : str :=
  match k with
  | DSecond => s "second" | DMinute => s "minute" | DHour => s "hour" | DDay => s "day"
  | DWeek => s "week" | DMonth => s "month" | DYear => s "year"
  end.
Definition tr_unit (k : durkind) : str :=
  match k with
  | DSecond => u "saniye" | DMinute => u "dakika" | DHour => u "saat" | DDay => u "gün"
  | DWeek => u "hafta" | DMonth => u "ay" | DYear => u "yıl"
  end.
Definition unit_word (lang : str) (k : durkind) (c : Z) : str :=
  if str_eqb lang L_tr then tr_unit k else if c =? 1 then en_unit k else en_unit k ++ s "s".

Lemma unit_words_printed lang fmt k c :
  In lang [L_en; L_tr] -> assoc lang (cf_format default_config) = Some fmt ->
  duration_formatter fmt (dur_placeholder k) c k = Z_to_str c ++ s " " ++ unit_word lang k c ++ s " ".
Proof.
  intros [<-|[<-|[]]] Hfmt; vm_compute in Hfmt; injection Hfmt as <-.
  - destruct (Z.eq_dec c 1) as [->|Hc]; [destruct k; vm_compute; reflexivity|].
    unfold duration_formatter, unit_word. replace (c =? 1) with false by (symmetry; apply Z.eqb_neq, Hc).
    change (str_eqb L_en L_tr) with false. cbv iota.
    generalize (Z_to_str c) as v. intro v.
    transitivity ((v ++ 32%N :: en_unit k ++ s "s") ++ [32%N]).
    + destruct k; (destruct c as [|[q|q|]|q]; [| | | exfalso; apply Hc; reflexivity |]); vm_compute; reflexivity.
    + rewrite <- app_assoc. reflexivity.
  - unfold duration_formatter, unit_word. change (str_eqb L_tr L_tr) with true. cbv iota.
    generalize (Z_to_str c) as v. intro v.
    transitivity ((v ++ 32%N :: tr_unit k) ++ [32%N]).
    + destruct k; (destruct c as [|[q|q|]|q]); vm_compute; reflexivity.
    + rewrite <- app_assoc. reflexivity.
Qed.

Definition all_kinds : list durkind := [DSecond; DMinute; DHour; DDay; DWeek; DMonth; DYear].

Definition duration_prints_ok (lang : str) : bool :=
  forallb (fun k => forallb (fun c => str_eqb (duration_print default_config lang (c * dur_unit k))
                                              (Z_to_str c ++ s " " ++ unit_word lang k c)) [1; 2; 3])
          all_kinds.

Lemma duration_prints lang k c :
  In lang [L_en; L_tr] -> In c [1; 2; 3] ->
  duration_print default_config lang (c * dur_unit k) = Z_to_str c ++ s " " ++ unit_word lang k c.
Proof.
  intros Hl Hc.
  assert (duration_prints_ok lang = true) as A by (destruct Hl as [<-|[<-|[]]]; vm_compute; reflexivity).
  unfold duration_prints_ok in A. rewrite forallb_forall in A.
  assert (In k all_kinds) as Hk by (destruct k; cbn; tauto).
  specialize (A _ Hk). rewrite forallb_forall in A. apply str_eqb_eq, A, Hc.
Qed.

(* ------------------------------------------------------------------------------------- *)
(* 5. whole lines through exec64; the two recorded defects                                *)
(* ------------------------------------------------------------------------------------- *)
(* the clock of the examples: 1 january 2022 *)
Definition CK22 : clock := {| ck_today := 18993; ck_year := 2022 |}.

(* per line of the text: the error message or the value / the printed text *)
Definition values (lang text : str) : option (list (option (str + ast float))) :=
  match exec64 CK22 default_config lang text with
  | Ok r => Some (map (option_map (fun o => match lo_result o with LErr m => inl m | LOk _ a => inr a end)) (er_lines r))
  | Panic _ => None
  end.
Definition prints (lang text : str) : option (list (option str)) :=
  match exec64 CK22 default_config lang text with
  | Ok r => Some (map (fun l => match l with
                                | Some o => match lo_result o with LOk out _ => Some out | LErr _ => None end
                                | None => None end) (er_lines r))
  | Panic _ => None
  end.
Definition all_items (v : option (list (option (str + ast float)))) : bool :=
  match v with
  | Some (_ :: _ as l) => forallb (fun x => match x with Some (inr (AItem _)) => true | _ => false end) l
  | _ => false
  end.

Definition NL : string := String (Ascii.ascii_of_nat 10) EmptyString.

(* a line and its word-by-word translation *)
Definition line_pairs : list (string * string) :=
  [("12 times 4", "12 çarpı 4"); ("12 multiply 4 minus 3", "12 kere 4 eksi 3"); ("100 add 10%", "100 ekle 10%");
   ("$10 sum $5", "$10 topla $5"); ("7 exclude 2", "7 çıkar 2"); ("2 append 3 times 4", "2 toplam 3 carpi 4");
   ("3 days 2 hours", "3 gün 2 saat");
   ("1 year 2 months 3 weeks 4 days 5 hours 6 minutes 7 seconds", "1 yıl 2 ay 3 hafta 4 gün 5 saat 6 dakika 7 saniye");
   ("2 weeks - 3 days", "2 hafta - 3 gun"); ("90 minutes add 1 hour", "90 dakika ekle 1 saat");
   ("3 february 2021", "3 şubat 2021"); ("5 dec 2020", "5 ara 2020"); ("17 May", "17 Mayıs");
   ("5 FEBRUARY 2020", "5 ŞUBAT 2020"); ("9 aug 1999", "9 ağu 1999"); ("12/05/2021", "12/05/2021");
   ("28 february 2021 + 2 days", "28 şubat 2021 + 2 gün"); ("1 march 2021 minus 1 week", "1 mart 2021 eksi 1 hafta");
   ("31 december 2021 + 1 year", "31 aralık 2021 + 1 yıl"); ("15 june 2021 - 2 months", "15 haziran 2021 - 2 ay");
   ("today", "bugün"); ("tomorrow + 3 days", "yarın + 3 gün"); ("yesterday", "dun");
   ("1 january 2021 to 1 march 2021", "1 ocak 2021 1 mart 2021 arası"); ("10:30 to 12:45", "10:30 12:45 arası");
   ("today to 25 december 2022", "bugun 25 aralık 2022 arası")]%string.

Lemma pairs_equal_values :
  map (fun p => values L_en (u (fst p))) line_pairs = map (fun p => values L_tr (u (snd p))) line_pairs /\
  forallb (fun p => all_items (values L_en (u (fst p)))) line_pairs = true.
Proof. split; vm_compute; reflexivity. Qed.

(* ... with variables (two lines) *)
Lemma pairs_with_variables :
  values L_en (u ("x = 3 days" ++ NL ++ "x + 2 hours")) = values L_tr (u ("x = 3 gün" ++ NL ++ "x + 2 saat")) /\
  all_items (values L_en (u ("x = 3 days" ++ NL ++ "x + 2 hours"))) = true /\
  values L_en (u ("start = 3 march 2021" ++ NL ++ "start add 10 days"))
  = values L_tr (u ("start = 3 mart 2021" ++ NL ++ "start ekle 10 gün")) /\
  all_items (values L_en (u ("start = 3 march 2021" ++ NL ++ "start add 10 days"))) = true.
Proof. repeat match goal with |- _ /\ _ => split end; vm_compute; reflexivity. Qed.

(* each language prints dates and durations with its own words *)
Lemma pairs_printed :
  prints L_en (u "3 february 2021") = Some [Some (u "3 Feb 2021")] /\
  prints L_tr (u "3 şubat 2021") = Some [Some (u "3 Şub 2021")] /\
  prints L_en (u "17 august") = Some [Some (u "17 August")] /\
  prints L_tr (u "17 ağustos") = Some [Some (u "17 Ağustos")] /\
  prints L_en (u "12/05/2021") = Some [Some (u "12 May 2021")] /\
  prints L_tr (u "12/05/2021") = Some [Some (u "12 May 2021")] /\
  prints L_en (u "12/12/2021") = Some [Some (u "12 Dec 2021")] /\
  prints L_tr (u "12/12/2021") = Some [Some (u "12 Ara 2021")] /\
  prints L_en (u "1 year 2 months 3 weeks 4 days 5 hours 6 minutes 7 seconds")
  = Some [Some (u "1 year 2 months 3 weeks 4 days 5 hours 6 minutes 7 seconds")] /\
  prints L_tr (u "1 yıl 2 ay 3 hafta 4 gün 5 saat 6 dakika 7 saniye")
  = Some [Some (u "1 yıl 2 ay 3 hafta 4 gün 5 saat 6 dakika 7 saniye")] /\
  prints L_en (u "1 day 1 hour") = Some [Some (u "1 day 1 hour")] /\
  prints L_tr (u "1 gun 1 saat") = Some [Some (u "1 gün 1 saat")] /\
  prints L_tr (u "1 yil") = Some [Some (u "1 yıl")] /\
  prints L_en (u "1 january 2021 to 1 march 2021") = Some [Some (u "1 month 4 weeks 1 day")] /\
  prints L_tr (u "1 ocak 2021 1 mart 2021 arası") = Some [Some (u "1 ay 4 hafta 1 gün")].
Proof. repeat match goal with |- _ /\ _ => split end; vm_compute; reflexivity. Qed.

(* word-free lines: the same values AND the same printed text under both languages *)
Definition word_free_lines : list string :=
  ["1 + 2 * 3"; "(1 + 2) * 3"; "8 / 4 / 2 + 1"; "1.234,5 + 2"; "1 2 3"; "-5 + 2"; "1k + 2"; "0x1F + 1"; "0b101 * 2";
   "$10 + $5"; "₺100 - ₺1,5"; "10 usd + 5 usd"; "10 usd try"; "100 eur usd"; "$10 * 3"; "100 try / 4"; "10 usd + 5 eur";
   "200 + 10%"; "200 - %10"; "$40 - 10%"; "%10 200"; "10% 200"; "10%";
   "6% on 40"; "%6 off 40"; "40 of 6%"; "20 is what % of 50"; "20 try is %10 of what";
   "12:30"; "11:30 pm"; "5 km + 300 m"; "abc"; "1 +"; "("; ""; "# note"]%string.

Lemma word_free_equal :
  map (fun t => (values L_en (u t), prints L_en (u t))) word_free_lines
  = map (fun t => (values L_tr (u t), prints L_tr (u t))) word_free_lines.
Proof. vm_compute. reflexivity. Qed.

Lemma word_free_variables :
  let t1 := u ("x = 5" ++ NL ++ "x * 2") in
  let t2 := u ("a = $10" ++ NL ++ "b = 3" ++ NL ++ "a * b") in
  let t3 := u ("rate = 8%" ++ NL ++ "250 + rate") in
  (values L_en t1, prints L_en t1) = (values L_tr t1, prints L_tr t1) /\ all_items (values L_en t1) = true /\
  (values L_en t2, prints L_en t2) = (values L_tr t2, prints L_tr t2) /\ all_items (values L_en t2) = true /\
  (values L_en t3, prints L_en t3) = (values L_tr t3, prints L_tr t3) /\ all_items (values L_en t3) = true.
Proof. cbv zeta. repeat match goal with |- _ /\ _ => split end; vm_compute; reflexivity. Qed.

(* ---- the ASCII spellings of the Turkish month names are read like the Turkish ones (repaired by 2b32105; was
   known finding C19-K1) ---- *)
Definition num64 (z : Z) : option (str + ast float) := Some (inr (AItem (INumber (@fofZ float NumF64 z) Decimal))).
Definition date64 (y m d : Z) : option (str + ast float) := Some (inr (AItem (IDate (days_from_civil y m d) UTC0))).

Lemma ascii_spellings_read :
  values L_en (u "3 february 2021") = Some [date64 2021 2 3] /\
  values L_tr (u "3 şubat 2021") = Some [date64 2021 2 3] /\
  values L_tr (u "3 subat 2021") = Some [date64 2021 2 3] /\
  values L_tr (u "3 sub 2021") = Some [date64 2021 2 3] /\
  values L_tr (u "5 aralik 2020") = Some [date64 2020 12 5] /\
  values L_tr (u "3 agu 2021") = Some [date64 2021 8 3] /\
  values L_tr (u "12 agustos 2020 + 2 gun") = Some [date64 2020 8 14] /\
  values L_tr (u "17 mayis") = values L_en (u "17 may") /\
  prints L_tr (u "3 subat 2021") = Some [Some (u "3 Şub 2021")] /\
  prints L_tr (u "5 aralik 2020") = Some [Some (u "5 Ara 2020")].
Proof. repeat match goal with |- _ /\ _ => split end; vm_compute; reflexivity. Qed.

(* ---- known finding C19-K2: upper case as Turkish writes it ---- *)
Lemma turkish_upper_refuted :
  values L_en (u "3 APRIL 2020") = Some [date64 2020 4 3] /\
  values L_tr (u "3 nisan 2020") = Some [date64 2020 4 3] /\
  values L_tr (u "3 Nisan 2020") = Some [date64 2020 4 3] /\
  values L_tr (u "5 ŞUBAT 2020") = Some [date64 2020 2 5] /\
  values L_tr (u "3 NİSAN 2020") = Some [num64 2023] /\
  values L_tr (u "5 HAZİRAN 2020") = Some [num64 2025] /\
  values L_tr (u "26 EKİM 2020") = Some [num64 2046] /\
  to_lowercase (u "NİSAN") = [110; 105; 775; 115; 97; 110]%N /\ to_lowercase (u "NİSAN") <> u "nisan" /\
  (* names with ı survive through the ASCII spelling their lower-cased image happens to be *)
  to_lowercase (u "ARALIK") = u "aralik" /\ u "aralik" <> u "aralık" /\
  values L_tr (u "5 ARALIK 2020") = Some [date64 2020 12 5] /\
  (* operator words *)
  values L_tr (u "10 çarpı 3") = Some [num64 30] /\ values L_en (u "10 TIMES 3") = Some [num64 30] /\
  values L_tr (u "10 CARPI 3") = Some [num64 30] /\
  values L_tr (u "10 ÇARPI 3") = Some [num64 13] /\ values L_tr (u "10 EKSİ 3") = Some [num64 13].
Proof.
  repeat match goal with |- _ /\ _ => split end; try (vm_compute; reflexivity); vm_compute; discriminate.
Qed.

(* ---- a tag no table knows behaves like any other unknown tag (instance of execute_lang) ---- *)
Lemma unknown_tags_default ck l l' text :
  unknown_tag LX default_config l -> unknown_tag LX default_config l' ->
  exec64 ck default_config l text = exec64 ck default_config l' text.
Proof. intros U U'. unfold exec64. apply unknown_tags_alike; assumption. Qed.

Lemma unknown_tag_examples :
  unknown_tag LX default_config (s "de") /\ unknown_tag LX default_config (s "xx") /\ unknown_tag LX default_config [] /\
  ~ same_tables LX default_config L_en L_tr.
Proof.
  split; [vm_compute; repeat split|]. split; [vm_compute; repeat split|]. split; [vm_compute; repeat split|].
  intros (H & _). vm_compute in H. discriminate.
Qed.

(* ---- the full statement, and what is proved of it ---- *)
(* [translation en_line tr_line]: tr_line is en_line with every keyword replaced by a tr keyword of the
   same class; kept abstract: the statement quantifies over any relation the caller supplies *)
Definition C19_full (translation : str -> str -> Prop) : Prop :=
  forall ck en_line tr_line, translation en_line tr_line ->
    option_map (map (option_map (fun o => match lo_result o with LErr m => inl m | LOk _ a => inr a end)))
               (match exec64 ck default_config L_en en_line with Ok r => Some (er_lines r) | Panic _ => None end)
    = option_map (map (option_map (fun o => match lo_result o with LErr m => inl m | LOk _ a => inr a end)))
                 (match exec64 ck default_config L_tr tr_line with Ok r => Some (er_lines r) | Panic _ => None end).

(* the pairs of [line_pairs] as a translation relation: the instance proved here (clock CK22) *)
Definition listed_translation (a b : str) : Prop := In (a, b) (map (fun p => (u (fst p), u (snd p))) line_pairs).

Lemma listed_pairs_equal a b : listed_translation a b -> values L_en a = values L_tr b.
Proof.
  unfold listed_translation. destruct pairs_equal_values as [P _]. revert P.
  generalize line_pairs as l. induction l as [|[x0 y0] r IH]; intros P H; [destruct H|].
  cbn [map fst snd] in P, H. injection P as E P. destruct H as [H|H].
  - injection H as <- <-. exact E.
  - apply IH; assumption.
Qed.

Lemma full_partial :
  (* proved for all lines: the tag only selects tables *)
  (forall ck l l' text, same_tables LX default_config l l' ->
     exec64 ck default_config l text = exec64 ck default_config l' text) /\
  (* proved on the listed pairs at the clock CK22 *)
  (forall a b, listed_translation a b -> values L_en a = values L_tr b) /\
  (* refuted for a translation that also allows Turkish upper case *)
  ~ C19_full (fun a b => a = u "3 APRIL 2020" /\ b = u "3 NİSAN 2020").
Proof.
  split; [intros; unfold exec64; apply execute_lang; assumption|].
  split; [exact listed_pairs_equal|].
  intro H; specialize (H CK22 _ _ (conj eq_refl eq_refl)); vm_compute in H; discriminate.
Qed.
