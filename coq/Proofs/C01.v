(* Proofs for property C01. *)
From SC.Model Require Import Base.
