(* Proofs for property C01 (evaluation is total): result slots.  Parser termination is in
   C01_Parser.v, the rewrite loops in C01_Rewrite.v, the session fold in SessionLemmas.v. *)
From SC.Model Require Import Base Num Types Config Case Chrono UiTokens Rx Post Parser Items Interp
     RuleFns Rules Format Lexer Api.
From SC.Proofs Require Import SessionLemmas C01_Parser.
From Coq Require Import Arith Lia.

Local Open Scope nat_scope.

(* ---------- lines ---------- *)
(* number of line breaks: CRLF counts once, a lone LF once, a lone CR is an ordinary character *)
Fixpoint breaks (x : str) : nat :=
  match x with
  | [] => 0
  | 13%N :: 10%N :: r => S (breaks r)
  | 10%N :: r => S (breaks r)
  | _ :: r => breaks r
  end.

Lemma split_lines_breaks_n n : forall x cur, length x <= n -> length (split_lines x cur) = S (breaks x).
Proof.
  induction n as [|n IH]; intros x cur Hl; destruct x as [|c r]; cbn [split_lines breaks]; try reflexivity;
    cbn [length] in Hl; try lia.
  repeat match goal with
         | |- context [match ?v with _ => _ end] => destruct v
         end; cbn [length]; try (f_equal; apply IH; cbn [length] in *; lia); try (apply IH; cbn [length] in *; lia).
Qed.

Theorem split_lines_breaks x : length (split_lines x []) = S (breaks x).
Proof. apply (split_lines_breaks_n (length x)). lia. Qed.

Section WithNum.
Context {F : Type} {NF : Num F}.
Variable lx : lexdata.
Variable ck : clock.

(* one slot per line, status true, whenever the evaluation returns *)
Theorem execute_one_slot_per_line (cfg : config F) lang text r :
  execute lx ck cfg lang text = Ok r ->
  er_status r = true /\ length (er_lines r) = S (breaks text).
Proof.
  intro H. destruct (execute_slots lx ck cfg lang text r H) as [H1 H2].
  split; [exact H1|]. rewrite H2. apply split_lines_breaks.
Qed.

(* slot i is the evaluation of line i under the variables left by the lines before it: the
   fold continues after an empty slot or an error slot alike *)
Theorem eval_lines_cons (cfg : config F) lang vs l r :
  eval_lines lx ck cfg lang vs (l :: r) =
  match execute_text lx ck cfg lang vs l with
  | Panic st => Panic st
  | Ok (o, vs') =>
    match eval_lines lx ck cfg lang vs' r with
    | Panic st => Panic st
    | Ok (os, vs'') => Ok (o :: os, vs'')
    end
  end.
Proof. reflexivity. Qed.

Theorem eval_lines_slot (cfg : config F) lang vs l1 l l2 os1 v1 o v2 os2 v3 :
  eval_lines lx ck cfg lang vs l1 = Ok (os1, v1) ->
  execute_text lx ck cfg lang v1 l = Ok (o, v2) ->
  eval_lines lx ck cfg lang v2 l2 = Ok (os2, v3) ->
  eval_lines lx ck cfg lang vs (l1 ++ l :: l2) = Ok (os1 ++ o :: os2, v3) /\
  nth_opt (os1 ++ o :: os2) (length l1) = Some o.
Proof.
  intros H1 H2 H3. split.
  - rewrite eval_lines_app, H1. cbn [eval_lines]. rewrite H2, H3. reflexivity.
  - rewrite <- (eval_lines_length lx ck _ _ _ _ _ _ H1).
    clear. induction os1 as [|x os1 IH]; cbn [app length nth_opt]; [reflexivity|exact IH].
Qed.

(* a line that cannot be parsed or evaluated yields an error VALUE in its own slot: the parser
   returns PErr / the interpreter IErr, both mapped to LErr by execute_text; only Panic stops
   the fold, and the parser cannot be the source of SITE_OUT_OF_FUEL *)
Theorem parser_never_out_of_fuel (tokens : list (token F)) (vs : vars F) : fst (parse tokens vs) <> PFuel.
Proof. apply parse_terminates. Qed.

(* an unknown language tag: no rules, no language aliases; the rule pass is the identity *)
Theorem unknown_language_rules bexec now_year fuel line (cfg : config F) lang vs st :
  lang_rules cfg lang = None ->
  rule_tokinizer bexec now_year fuel line cfg lang vs st = Ok (Some st).
Proof. intro H. unfold rule_tokinizer. rewrite H. reflexivity. Qed.

Theorem unknown_language_constants (cfg : config F) lang word :
  lang_constants cfg lang = None -> constant_of cfg lang word = Ok None.
Proof. intro H. unfold constant_of. rewrite H. reflexivity. Qed.

End WithNum.
