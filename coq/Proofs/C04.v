(* Proofs for property C04. *)
From SC.Model Require Import Base.
