(* Proofs for property C04: evaluation never changes the calculator; sessions isolate and
   persist correctly.  About the state machine Corr.step (the public API as operations) at
   binary64 with the regenerated configuration. *)
From Coq Require Import Floats Arith Lia.
From SC.Model Require Import Base Num NumF64 Types Config Case Chrono UiTokens Rx Post Parser Items Interp
     RuleFns Rules Format Lexer Api Run64 Corr.
From SC.Proofs Require Import SessionLemmas.

Local Open Scope nat_scope.

(* state after a history *)
Definition final (ck : clock) (m : mstate) (ops : list op) : mstate :=
  fold_left (fun m o => fst (step ck m o)) ops m.

Lemma run_app ck : forall ops1 ops2 m,
  run ck m (ops1 ++ ops2) = run ck m ops1 ++ run ck (final ck m ops1) ops2.
Proof.
  induction ops1 as [|o r IH]; intros ops2 m; cbn [app run final fold_left]; [reflexivity|].
  destruct (step ck m o) as [m' ob] eqn:E. cbn [fst]. rewrite IH. reflexivity.
Qed.

Lemma run_snoc ck ops o m :
  run ck m (ops ++ [o]) = run ck m ops ++ [snd (step ck (final ck m ops) o)].
Proof.
  rewrite run_app. cbn [run]. destruct (step ck (final ck m ops) o) as [m' ob]. reflexivity.
Qed.

(* the operations that evaluate text or manage sessions (everything but the configuration
   setters and registrations) *)
Definition eval_op (o : op) : bool :=
  match o with
  | OExec _ _ | OExecFresh _ _ | ONewSession _ | OSetText _ _ | OSetLanguage _ _ | OExecSession _ | OGetTz => true
  | _ => false
  end.

(* 1. Evaluating text never changes the calculator, nor any session *)
Lemma execute_pure ck m lang text : fst (step ck m (OExec lang text)) = m.
Proof. reflexivity. Qed.

Lemma execute_obs ck m lang text :
  snd (step ck m (OExec lang text)) =
  match execute LX ck (m_cfg m) lang text with Ok r => MRes r | Panic st => MPanic st end.
Proof. reflexivity. Qed.

Lemma step_eval_cfg ck m o : eval_op o = true -> m_cfg (fst (step ck m o)) = m_cfg m.
Proof.
  destruct o; cbn [eval_op]; intro H; try discriminate; cbn [step fst]; try reflexivity.
  - destruct (sess_get sid (m_sessions m)); reflexivity.
  - destruct (sess_get sid (m_sessions m)); reflexivity.
  - destruct (sess_get sid (m_sessions m)) as [se|]; [|reflexivity].
    destruct (execute_session LX ck (m_cfg m) se) as [[se' r]|st]; reflexivity.
Qed.

Theorem eval_keeps_config ck : forall ops m,
  forallb eval_op ops = true -> m_cfg (final ck m ops) = m_cfg m.
Proof.
  induction ops as [|o r IH]; intros m H; cbn [final fold_left]; [reflexivity|].
  cbn [forallb] in H. apply andb_true_iff in H as [Ho Hr].
  change (m_cfg (final ck (fst (step ck m o)) r) = m_cfg m).
  rewrite IH by exact Hr. apply step_eval_cfg. exact Ho.
Qed.

(* the result of a text is determined by the configuration, the text and the clock only:
   any evaluations (and session activity) before it do not change it *)
Theorem history_independence ck ops m lang text :
  forallb eval_op ops = true ->
  snd (step ck (final ck m ops) (OExec lang text)) = snd (step ck m (OExec lang text)).
Proof.
  intro H. rewrite !execute_obs, (eval_keeps_config ck ops m H). reflexivity.
Qed.

(* in terms of observation lists: the last observation of  ops ++ [exec]  is the one of [exec] *)
Corollary history_independence_run ck ops m lang text :
  forallb eval_op ops = true ->
  run ck m (ops ++ [OExec lang text]) = run ck m ops ++ run ck m [OExec lang text].
Proof.
  intro H. rewrite run_snoc, (history_independence ck ops m lang text H).
  cbn [run]. destruct (step ck m (OExec lang text)) as [m' ob]. reflexivity.
Qed.

(* separate evaluations share no variables: every execute starts from the empty environment *)
Theorem execute_fresh_env ck m lang text :
  snd (step ck m (OExec lang text)) =
  match eval_lines LX ck (m_cfg m) lang [] (split_lines text []) with
  | Panic st => MPanic st
  | Ok (os, _) => MRes {| er_status := true; er_lines := os |}
  end.
Proof.
  rewrite execute_obs, execute_spec.
  destruct (eval_lines LX ck (m_cfg m) lang [] (split_lines text [])) as [[os vs]|st]; reflexivity.
Qed.

(* 2. Sessions *)
Lemma sess_get_put_same sid v l : sess_get sid (sess_put sid v l) = Some v.
Proof.
  induction l as [|[k v'] r IH]; cbn [sess_put sess_get].
  - rewrite N.eqb_refl. reflexivity.
  - destruct (N.eqb k sid) eqn:E; cbn [sess_get]; rewrite E; [reflexivity|exact IH].
Qed.

Lemma sess_get_put_other sid sid' v l : sid <> sid' -> sess_get sid' (sess_put sid v l) = sess_get sid' l.
Proof.
  intro Hne. induction l as [|[k v'] r IH]; cbn [sess_put sess_get].
  - destruct (N.eqb sid sid') eqn:E; [apply N.eqb_eq in E; contradiction|reflexivity].
  - destruct (N.eqb k sid) eqn:E; cbn [sess_get].
    + apply N.eqb_eq in E. subst k.
      destruct (N.eqb sid sid') eqn:E2; [apply N.eqb_eq in E2; contradiction|reflexivity].
    + destruct (N.eqb k sid'); [reflexivity|exact IH].
Qed.

(* which session an operation addresses *)
Definition op_session (o : op) : option N :=
  match o with
  | ONewSession s | OSetText s _ | OSetLanguage s _ | OExecSession s => Some s
  | _ => None
  end.

(* isolation: whatever is done with (or without) other sessions, session [b] is untouched *)
Theorem session_isolated ck m o b :
  op_session o <> Some b -> sess_get b (m_sessions (fst (step ck m o))) = sess_get b (m_sessions m).
Proof.
  intro H.
  destruct o; cbn [op_session] in H; cbn [step].
  - reflexivity.
  - reflexivity.
  - cbn [fst m_sessions]. apply sess_get_put_other. congruence.
  - destruct (sess_get sid (m_sessions m)) as [se|]; cbn [fst m_sessions]; [|reflexivity].
    apply sess_get_put_other. congruence.
  - destruct (sess_get sid (m_sessions m)) as [se|]; cbn [fst m_sessions]; [|reflexivity].
    apply sess_get_put_other. congruence.
  - destruct (sess_get sid (m_sessions m)) as [se|]; cbn [fst m_sessions]; [|reflexivity].
    destruct (execute_session LX ck (m_cfg m) se) as [[se' r]|st]; cbn [fst m_sessions]; [|reflexivity].
    apply sess_get_put_other. congruence.
  - reflexivity.
  - reflexivity.
  - destruct (set_timezone (m_cfg m) v) as [[n o]|]; reflexivity.
  - reflexivity.
  - reflexivity.
  - reflexivity.
  - reflexivity.
  - destruct (read_currency (m_cfg m) cur); reflexivity.
  - destruct (tokenise_patterns LX ck (m_cfg m) lang patterns); [|reflexivity].
    destruct (assoc lang (cf_rules (m_cfg m))); reflexivity.
  - destruct (assoc lang (cf_rules (m_cfg m))) as [rs|]; [|reflexivity].
    destruct (find_index _ rs); reflexivity.
  - destruct (assoc name (cf_types (m_cfg m))); reflexivity.
  - destruct (assoc name (cf_types (m_cfg m))) as [g|]; [|reflexivity].
    destruct (nassoc index g); [reflexivity|].
    destruct (tokenise_patterns LX ck (m_cfg m) (s "en") parse); reflexivity.
  - destruct (set_date_rule LX ck (m_cfg m) lang patterns); reflexivity.
Qed.

Theorem sessions_isolated_history ck b : forall ops m,
  Forall (fun o => op_session o <> Some b) ops ->
  sess_get b (m_sessions (final ck m ops)) = sess_get b (m_sessions m).
Proof.
  induction ops as [|o r IH]; intros m H; cbn [final fold_left]; [reflexivity|].
  inversion H as [|x l Ho Hr]; subst.
  change (sess_get b (m_sessions (final ck (fst (step ck m o)) r)) = sess_get b (m_sessions m)).
  rewrite IH by exact Hr. apply session_isolated. exact Ho.
Qed.

(* set_text followed by execute_session: every line of the new text is evaluated exactly once,
   in order, against the variables the session already holds; the variables after the run are
   stored back into the session *)
Theorem set_text_then_execute ck m sid se text :
  sess_get sid (m_sessions m) = Some se ->
  let m1 := fst (step ck m (OSetText sid text)) in
  match eval_lines LX ck (m_cfg m) (se_language se) (se_vars se) (split_lines text []) with
  | Panic st => step ck m1 (OExecSession sid) = (m1, MPanic st)
  | Ok (os, vs') =>
    snd (step ck m1 (OExecSession sid)) = MRes {| er_status := true; er_lines := os |} /\
    length os = length (split_lines text []) /\
    option_map (fun s => se_vars s) (sess_get sid (m_sessions (fst (step ck m1 (OExecSession sid))))) = Some vs' /\
    m_cfg (fst (step ck m1 (OExecSession sid))) = m_cfg m
  end.
Proof.
  intros Hget m1. subst m1. cbn [step fst]. rewrite Hget. cbn [m_cfg m_sessions].
  rewrite sess_get_put_same, execute_session_set_text.
  destruct (eval_lines LX ck (m_cfg m) (se_language se) (se_vars se) (split_lines text [])) as [[os vs']|st] eqn:E;
    [|reflexivity].
  cbn [fst snd m_sessions m_cfg]. rewrite sess_get_put_same. cbn [option_map with_pos_vars se_vars].
  repeat split. exact (eval_lines_length _ _ _ _ _ _ _ _ E).
Qed.

(* a second text on the same session sees the variables of the first, whatever the line counts *)
Theorem session_persists ck m sid se text1 text2 os1 vs1 :
  sess_get sid (m_sessions m) = Some se ->
  eval_lines LX ck (m_cfg m) (se_language se) (se_vars se) (split_lines text1 []) = Ok (os1, vs1) ->
  let m2 := final ck m [OSetText sid text1; OExecSession sid; OSetText sid text2] in
  snd (step ck m2 (OExecSession sid)) =
  match eval_lines LX ck (m_cfg m) (se_language se) vs1 (split_lines text2 []) with
  | Panic st => MPanic st
  | Ok (os2, _) => MRes {| er_status := true; er_lines := os2 |}
  end.
Proof.
  intros Hget E1 m2. subst m2. cbn [final fold_left step fst]. rewrite Hget. cbn [m_cfg m_sessions fst].
  rewrite sess_get_put_same, execute_session_set_text, E1. cbn [fst m_sessions m_cfg].
  rewrite !sess_get_put_same. cbn [snd step fst m_cfg m_sessions].
  rewrite sess_get_put_same.
  change (set_text (with_pos_vars (set_text se text1) (length (split_lines text1 []) - 1) vs1) text2)
    with (set_text (with_pos_vars se 0 vs1) text2).
  rewrite execute_session_set_text. cbn [with_pos_vars se_language se_vars].
  destruct (eval_lines LX ck (m_cfg m) (se_language se) vs1 (split_lines text2 [])) as [[os2 vs2]|st]; reflexivity.
Qed.
