(* Proofs for property C11 (clock times and zones).

   1. print_*            the printed HH:MM:SS is the wall time of the instant in the display zone
   2. zone rules         time_with_timezone re-anchors a wall time, convert_timezone keeps the instant
   3. convert_shows      composition: `T ZONE_A to ZONE_B` prints shown w a b, for all offsets
   4. calc_*             T +/- duration moves the clock modulo 24 h; T1 to T2 = |t1 - t2|
   6. zone table         every expressible table zone / GMT form is lexed with its offset (finite table)
   7. default zone       set_timezone / get_time_offset steps of the operation machine
   8. examples           whole-pipeline runs by vm_compute
   5. literal_*          (at the end) time_body: the token of a literal under a default zone, symbolically
                         and through the five time regexes (finite), incl. `H:MM:SS pm` *)
From Coq Require Import ZArith Lia Floats.
From SC.Model Require Import Base Num NumF64 Types Config Case Chrono Regex Rx UiTokens Parser RuleFns Rules Items Format Lexer Api Run64 Corr.
From SC.Spec Require Import Clock.
From SC.Gen Require Import RustConsts ConfigData Regexes.

Ltac Zify.zify_post_hook ::= Z.to_euclidean_division_equations.

(* ------------------------------------------------------------------------------------- *)
(* 0. arithmetic of the spec                                                              *)
(* ------------------------------------------------------------------------------------- *)
Lemma clock_of_ok t off : wall_ok (clock_of t off).
Proof. unfold wall_ok, clock_of, DAY_SECS. lia. Qed.

Lemma shown_ok w a b : wall_ok (shown w a b).
Proof. unfold wall_ok, shown, DAY_SECS. lia. Qed.

Lemma clock_parts w : wall_ok w ->
  0 <= w / 3600 < 24 /\ 0 <= (w / 60) mod 60 < 60 /\ 0 <= w mod 60 < 60 /\
  w = wall_of (w / 3600) ((w / 60) mod 60) (w mod 60).
Proof. unfold wall_ok, wall_of, DAY_SECS. lia. Qed.

Lemma wall_of_ok h m sec : 0 <= h < 24 -> 0 <= m < 60 -> 0 <= sec < 60 -> wall_ok (wall_of h m sec).
Proof. unfold wall_ok, wall_of, DAY_SECS. lia. Qed.

(* the clock of an instant built from a wall time in a zone, shown in another zone *)
Lemma clock_of_instant day w a b : clock_of (instant_of day w a) b = shown w a b.
Proof.
  unfold clock_of, instant_of, shown, DAY_SECS.
  replace (day * 86400 + w - 60 * a + 60 * b) with ((w - 60 * a + 60 * b) + day * 86400) by ring.
  apply Z.mod_add. lia.
Qed.

Lemma shown_same w a : wall_ok w -> shown w a a = w.
Proof. unfold wall_ok, shown, DAY_SECS. intro H. replace (w - 60 * a + 60 * a) with w by ring. apply Z.mod_small. lia. Qed.

(* converting there and back is the identity; conversions compose *)
Lemma shown_compose w a b c : shown (shown w a b) b c = shown w a c.
Proof.
  unfold shown, DAY_SECS.
  replace ((w - 60 * a + 60 * b) mod 86400 - 60 * b + 60 * c)
    with ((w - 60 * a + 60 * b) mod 86400 + (- 60 * b + 60 * c)) by ring.
  rewrite Zplus_mod_idemp_l. f_equal. ring.
Qed.

Lemma shown_roundtrip w a b : wall_ok w -> shown (shown w a b) b a = w.
Proof. intro H. rewrite shown_compose. apply shown_same. exact H. Qed.

(* ------------------------------------------------------------------------------------- *)
(* 1. printing                                                                            *)
(* ------------------------------------------------------------------------------------- *)
Lemma pad2_table :
  forallb (fun n => str_eqb (pad2 (Z.of_nat n)) (two_digits (Z.of_nat n))) (seq 0 100) = true.
Proof. vm_compute. reflexivity. Qed.

Lemma pad2_two z : 0 <= z < 100 -> pad2 z = two_digits z.
Proof.
  intro H. pose proof pad2_table as T. rewrite forallb_forall in T.
  specialize (T (Z.to_nat z)). rewrite Z2Nat.id in T by lia.
  apply str_eqb_eq. apply T. apply in_seq. lia.
Qed.

Lemma hms_text w : wall_ok w -> hms w = clock_text w.
Proof.
  intro H. destruct (clock_parts w H) as (Hh & Hm & Hs & _).
  unfold hms, clock_text. rewrite !pad2_two by lia. reflexivity.
Qed.

(* for ALL instants and ALL display offsets *)
Theorem print_clock t tz :
  time_print t tz = clock_text (clock_of t (tz_off tz)) ++ 32%N :: tz_name tz.
Proof.
  unfold time_print, secs_of_day.
  replace (t + tz_off tz * 60) with (t + 60 * tz_off tz) by ring.
  change ((t + 60 * tz_off tz) mod 86400) with (clock_of t (tz_off tz)).
  rewrite hms_text by apply clock_of_ok. reflexivity.
Qed.

(* the three printed components are in range and determine the wall time *)
Theorem print_components t off :
  let w := clock_of t off in
  0 <= w / 3600 < 24 /\ 0 <= (w / 60) mod 60 < 60 /\ 0 <= w mod 60 < 60 /\
  w = wall_of (w / 3600) ((w / 60) mod 60) (w mod 60).
Proof. intro w. apply clock_parts. apply clock_of_ok. Qed.

(* the text determines the wall time: different wall times print differently *)
Lemma two_digits_inj a b : 0 <= a < 100 -> 0 <= b < 100 -> two_digits a = two_digits b -> a = b.
Proof.
  unfold two_digits. intros Ha Hb H. injection H as H1 H2. unfold digit in *. lia.
Qed.

Lemma clock_text_cons w :
  clock_text w = digit (w / 3600 / 10) :: digit ((w / 3600) mod 10) :: 58%N ::
                 digit ((w / 60) mod 60 / 10) :: digit (((w / 60) mod 60) mod 10) :: 58%N ::
                 two_digits (w mod 60).
Proof. reflexivity. Qed.

Theorem clock_text_inj w1 w2 : wall_ok w1 -> wall_ok w2 -> clock_text w1 = clock_text w2 -> w1 = w2.
Proof.
  intros H1 H2 H.
  destruct (clock_parts w1 H1) as (A1 & B1 & C1 & E1). destruct (clock_parts w2 H2) as (A2 & B2 & C2 & E2).
  rewrite !clock_text_cons in H. injection H as Ha Hb Hc Hd Hs1 Hs2.
  assert (Hh : w1 / 3600 = w2 / 3600).
  { apply two_digits_inj; try lia. unfold two_digits. congruence. }
  assert (Hm : (w1 / 60) mod 60 = (w2 / 60) mod 60).
  { apply two_digits_inj; try lia. unfold two_digits. congruence. }
  assert (Hs : w1 mod 60 = w2 mod 60).
  { apply two_digits_inj; try lia. unfold two_digits. congruence. }
  rewrite E1, E2, Hh, Hm, Hs. reflexivity.
Qed.

(* ------------------------------------------------------------------------------------- *)
(* 2. the zone rules                                                                      *)
(* ------------------------------------------------------------------------------------- *)
Section WithNum.
Context {F : Type} {NF : Num F}.
Variable bexec : config F -> str -> res (option F).
Variable vs : vars F.

Definition zone_of (n : str) (o : Z) : tzinfo := {| tz_name := to_uppercase n; tz_off := o |}.

Lemma field_token_has k fs tok : field_token vs (s k) fs = Some tok -> has k fs = true.
Proof. unfold field_token, has, assoc_mem. destruct (assoc (s k) fs); [reflexivity | discriminate]. Qed.

Lemma get_time_has k fs r : get_time vs (s k) fs = Some r -> has k fs = true.
Proof.
  unfold get_time. destruct (field_token vs (s k) fs) eqn:E; [|discriminate].
  intros _. eapply field_token_has; eauto.
Qed.

Lemma get_timezone_has k fs r : get_timezone vs (s k) fs = Some r -> has k fs = true.
Proof.
  unfold get_timezone. destruct (field_token vs (s k) fs) eqn:E; [|discriminate].
  intros _. eapply field_token_has; eauto.
Qed.

(* `T ZONE`: the wall time the literal shows in its own zone is re-read as wall time in ZONE *)
Theorem with_timezone_anchors fs t cur n o :
  get_time vs (s "time") fs = Some (t, cur) -> get_timezone vs (s "timezone") fs = Some (n, o) ->
  time_with_timezone vs fs = Ok (Some (TTime (t + 60 * tz_off cur - 60 * o) (zone_of n o))).
Proof.
  intros Ht Hz. unfold time_with_timezone.
  rewrite (get_time_has _ _ _ Ht), (get_timezone_has _ _ _ Hz), Ht, Hz. cbn [andb].
  unfold some, zone_of. do 3 f_equal. ring.
Qed.

Corollary with_timezone_wall fs day w cur n o :
  get_time vs (s "time") fs = Some (instant_of day w (tz_off cur), cur) ->
  get_timezone vs (s "timezone") fs = Some (n, o) ->
  time_with_timezone vs fs = Ok (Some (TTime (instant_of day w o) (zone_of n o))).
Proof.
  intros Ht Hz. rewrite (with_timezone_anchors _ _ _ _ _ Ht Hz). unfold instant_of. do 3 f_equal. ring.
Qed.

(* `X to ZONE`: the instant is kept, the display zone is swapped - times, dates, date-times *)
Theorem convert_keeps_instant fs t z n o :
  get_time vs (s "time") fs = Some (t, z) -> get_timezone vs (s "timezone") fs = Some (n, o) ->
  convert_timezone vs fs = Ok (Some (TTime t (zone_of n o))).
Proof.
  intros Ht Hz. unfold convert_timezone.
  rewrite (get_time_has _ _ _ Ht), (get_timezone_has _ _ _ Hz), Ht, Hz. reflexivity.
Qed.

(* the result does not depend on the zone the source was displayed in, nor on any configuration *)
Corollary convert_ignores_source_zone fs fs' t z z' n o :
  get_time vs (s "time") fs = Some (t, z) -> get_timezone vs (s "timezone") fs = Some (n, o) ->
  get_time vs (s "time") fs' = Some (t, z') -> get_timezone vs (s "timezone") fs' = Some (n, o) ->
  convert_timezone vs fs = convert_timezone vs fs'.
Proof. intros. erewrite !convert_keeps_instant; eauto. Qed.

(* ------------------------------------------------------------------------------------- *)
(* 3. composition: what `T ZONE_A to ZONE_B` and `T to ZONE_B` print                      *)
(* ------------------------------------------------------------------------------------- *)
Theorem convert_shows day w cur na a nb b fs1 :
  get_time vs (s "time") fs1 = Some (instant_of day w (tz_off cur), cur) ->
  get_timezone vs (s "timezone") fs1 = Some (na, a) ->
  let t1 := instant_of day w a in
  time_with_timezone vs fs1 = Ok (Some (TTime t1 (zone_of na a))) /\
  time_print t1 (zone_of na a) = clock_text (shown w a a) ++ 32%N :: to_uppercase na /\
  forall fs2,
    get_time vs (s "time") fs2 = Some (t1, zone_of na a) ->
    get_timezone vs (s "timezone") fs2 = Some (nb, b) ->
    convert_timezone vs fs2 = Ok (Some (TTime t1 (zone_of nb b))) /\
    time_print t1 (zone_of nb b) = clock_text (shown w a b) ++ 32%N :: to_uppercase nb.
Proof.
  intros Ht Hz t1. split; [|split].
  - apply (with_timezone_wall _ _ _ _ _ _ Ht Hz).
  - rewrite print_clock. cbn [tz_off tz_name zone_of]. unfold t1. rewrite clock_of_instant. reflexivity.
  - intros fs2 Ht2 Hz2. split.
    + apply (convert_keeps_instant _ _ _ _ _ Ht2 Hz2).
    + rewrite print_clock. cbn [tz_off tz_name zone_of]. unfold t1. rewrite clock_of_instant. reflexivity.
Qed.

(* source written without a zone: it is the default zone [cur] *)
Theorem convert_default_shows day w cur nb b fs :
  get_time vs (s "time") fs = Some (instant_of day w (tz_off cur), cur) ->
  get_timezone vs (s "timezone") fs = Some (nb, b) ->
  convert_timezone vs fs = Ok (Some (TTime (instant_of day w (tz_off cur)) (zone_of nb b))) /\
  time_print (instant_of day w (tz_off cur)) (zone_of nb b)
    = clock_text (shown w (tz_off cur) b) ++ 32%N :: to_uppercase nb.
Proof.
  intros Ht Hz. split.
  - apply (convert_keeps_instant _ _ _ _ _ Ht Hz).
  - rewrite print_clock. cbn [tz_off tz_name zone_of]. rewrite clock_of_instant. reflexivity.
Qed.

(* a literal prints its own wall time in its own zone *)
Theorem literal_prints day w z : wall_ok w ->
  time_print (instant_of day w (tz_off z)) z = clock_text w ++ 32%N :: tz_name z.
Proof. intro H. rewrite print_clock, clock_of_instant, shown_same by exact H. reflexivity. Qed.

Theorem item_print_time cfg lang now_year t tz :
  item_print cfg lang now_year (ITime t tz : item F) = Ok (time_print t tz).
Proof. reflexivity. Qed.

(* ------------------------------------------------------------------------------------- *)
(* 4. arithmetic                                                                          *)
(* ------------------------------------------------------------------------------------- *)
Lemma as_time_mod d : duration_as_time d = Z.abs d mod DAY_SECS.
Proof.
  unfold duration_as_time, DAY_SECS. change HOUR with 3600. change MINUTE with 60.
  destruct (Z.leb_spec 3600 (Z.abs d)) as [H1|H1].
  - destruct (Z.leb_spec 60 (Z.abs d mod 3600)) as [H2|H2]; lia.
  - destruct (Z.leb_spec 60 (Z.abs d)) as [H2|H2]; lia.
Qed.

(* exactly what the model does; [dt_ok] is the range of chrono's NaiveDateTime (years +-262000) *)
Theorem calc_time_duration cfg t tz d op :
  calculate bexec cfg (ITime t tz : item F) (IDuration d) op =
  let m := Z.abs d mod DAY_SECS in
  let plus := if dt_ok (t + m) then Ok (Some (ITime (t + m) tz)) else Panic SITE_DT_ADD in
  let minus := if dt_ok (t - m) then Ok (Some (ITime (t - m) tz)) else Panic SITE_DT_ADD in
  if d <? 0 then minus
  else match op with OAdd => plus | OSub => minus | _ => Ok None end.
Proof.
  cbn [calculate]. rewrite as_time_mod. cbv zeta.
  unfold dt_sub, dt_add. replace (t + - (Z.abs d mod DAY_SECS)) with (t - Z.abs d mod DAY_SECS) by ring.
  destruct (d <? 0); [|destruct op];
    try destruct (dt_ok (t - Z.abs d mod DAY_SECS)); try destruct (dt_ok (t + Z.abs d mod DAY_SECS)); reflexivity.
Qed.

(* the clock moves by the duration modulo 24 h, in every display zone; the zone is kept *)
Theorem calc_add_clock cfg t tz d t' tz' :
  0 <= d ->
  calculate bexec cfg (ITime t tz : item F) (IDuration d) OAdd = Ok (Some (ITime t' tz')) ->
  tz' = tz /\ forall off, clock_of t' off = shift_add (clock_of t off) d.
Proof.
  intros Hd. rewrite calc_time_duration. cbv zeta.
  destruct (Z.ltb_spec d 0) as [Hn|_]; [lia|].
  destruct (dt_ok _); [|discriminate]. intro H. injection H as <- <-. split; [reflexivity|].
  intro off. unfold clock_of, shift_add, DAY_SECS. rewrite Z.abs_eq by lia. lia.
Qed.

Theorem calc_sub_clock cfg t tz d t' tz' :
  0 <= d ->
  calculate bexec cfg (ITime t tz : item F) (IDuration d) OSub = Ok (Some (ITime t' tz')) ->
  tz' = tz /\ forall off, clock_of t' off = shift_sub (clock_of t off) d.
Proof.
  intros Hd. rewrite calc_time_duration. cbv zeta.
  destruct (Z.ltb_spec d 0) as [Hn|_]; [lia|].
  destruct (dt_ok _); [|discriminate]. intro H. injection H as <- <-. split; [reflexivity|].
  intro off. unfold clock_of, shift_sub, DAY_SECS. rewrite Z.abs_eq by lia. lia.
Qed.

(* a negative duration moves the clock back by its magnitude, whichever of + and - is written *)
Theorem calc_negative_clock cfg t tz d op t' tz' :
  d < 0 ->
  calculate bexec cfg (ITime t tz : item F) (IDuration d) op = Ok (Some (ITime t' tz')) ->
  tz' = tz /\ forall off, clock_of t' off = shift_sub (clock_of t off) (- d).
Proof.
  intros Hd. rewrite calc_time_duration. cbv zeta.
  destruct (Z.ltb_spec d 0) as [_|Hn]; [|lia].
  destruct (dt_ok _); [|discriminate]. intro H. injection H as <- <-. split; [reflexivity|].
  intro off. unfold clock_of, shift_sub, DAY_SECS. rewrite Z.abs_neq by lia. lia.
Qed.

(* it always succeeds on instants of any plausible year *)
Theorem calc_time_duration_total cfg t tz d op :
  - 8 * 10 ^ 12 <= t <= 8 * 10 ^ 12 -> op = OAdd \/ op = OSub ->
  exists t', calculate bexec cfg (ITime t tz : item F) (IDuration d) op = Ok (Some (ITime t' tz)).
Proof.
  intros Ht Hop. rewrite calc_time_duration. cbv zeta.
  assert (Hm : 0 <= Z.abs d mod DAY_SECS < 86400) by (unfold DAY_SECS; lia).
  assert (Hok : forall x, - 8 * 10 ^ 12 - 86400 <= x <= 8 * 10 ^ 12 + 86400 -> dt_ok x = true).
  { intros x Hx. unfold dt_ok. change (MIN_DAY * 86400) with (-8334601228800).
    change ((MAX_DAY + 1) * 86400) with 8210266876800. change (10 ^ 12) with 1000000000000 in Hx.
    apply andb_true_iff. split; [apply Z.leb_le | apply Z.ltb_lt]; lia. }
  rewrite !Hok by lia.
  destruct (d <? 0); [eauto|]. destruct Hop as [-> | ->]; eauto.
Qed.

(* printed result, for a literal of wall time w in zone z *)
Corollary calc_add_prints cfg day w z d t' tz' :
  0 <= d ->
  calculate bexec cfg (ITime (instant_of day w (tz_off z)) z : item F) (IDuration d) OAdd = Ok (Some (ITime t' tz')) ->
  time_print t' tz' = clock_text (shift_add w d) ++ 32%N :: tz_name z.
Proof.
  intros Hd H. destruct (calc_add_clock _ _ _ _ _ _ Hd H) as [-> Hc].
  rewrite print_clock, Hc, clock_of_instant. unfold shown, shift_add, DAY_SECS.
  replace (w - 60 * tz_off z + 60 * tz_off z) with w by ring. rewrite Zplus_mod_idemp_l. reflexivity.
Qed.

Corollary calc_sub_prints cfg day w z d t' tz' :
  0 <= d ->
  calculate bexec cfg (ITime (instant_of day w (tz_off z)) z : item F) (IDuration d) OSub = Ok (Some (ITime t' tz')) ->
  time_print t' tz' = clock_text (shift_sub w d) ++ 32%N :: tz_name z.
Proof.
  intros Hd H. destruct (calc_sub_clock _ _ _ _ _ _ Hd H) as [-> Hc].
  rewrite print_clock, Hc, clock_of_instant. unfold shown, shift_sub, DAY_SECS.
  replace (w - 60 * tz_off z + 60 * tz_off z) with w by ring. rewrite Zminus_mod_idemp_l. reflexivity.
Qed.

(* T1 to T2 *)
Theorem to_duration_abs fs t1 z1 t2 z2 :
  get_time vs (s "source") fs = Some (t1, z1) -> get_time vs (s "target") fs = Some (t2, z2) ->
  to_duration vs fs = Ok (Some (TDuration (clock_diff t1 t2))).
Proof.
  intros H1 H2. unfold to_duration.
  rewrite (get_time_has _ _ _ H1), (get_time_has _ _ _ H2), H1, H2. cbn [andb].
  unfold some, clock_diff. do 3 f_equal. lia.
Qed.

(* two literals of the same day under the same default zone: the difference of the wall times *)
Corollary to_duration_walls fs day w1 w2 z :
  get_time vs (s "source") fs = Some (instant_of day w1 (tz_off z), z) ->
  get_time vs (s "target") fs = Some (instant_of day w2 (tz_off z), z) ->
  to_duration vs fs = Ok (Some (TDuration (clock_diff w1 w2))).
Proof.
  intros H1 H2. rewrite (to_duration_abs _ _ _ _ _ H1 H2). unfold clock_diff, instant_of. do 4 f_equal. ring.
Qed.

End WithNum.

(* ------------------------------------------------------------------------------------- *)
(* 6. finite tables: the zone names of config.json and the GMT forms, through the real     *)
(*    regexes and the whole pipeline (executed instance, binary64)                         *)
(* ------------------------------------------------------------------------------------- *)
Definition CK1 : clock := {| ck_today := 20000; ck_year := 2024 |}.

(* one-line execution: (printed text, value) *)
Definition run_line (cfg : config float) (text : str) : option (str * option (token float)) :=
  match execute LX CK1 cfg (s "en") text with
  | Ok r => match er_lines r with
            | [Some o] => match lo_result o with LOk out a => Some (out, ast_as_token a) | _ => None end
            | _ => None end
  | Panic _ => None
  end.

Definition time_is (r : option (str * option (token float))) (out : str) (t : Z) (n : str) (o : Z) : bool :=
  match r with
  | Some (out', Some (TTime t' z)) => str_eqb out' out && Z.eqb t' t && str_eqb (tz_name z) n && Z.eqb (tz_off z) o
  | _ => false
  end.

Lemma time_is_true r out t n o : time_is r out t n o = true ->
  r = Some (out, Some (TTime t {| tz_name := n; tz_off := o |})).
Proof.
  destruct r as [[out' [tok|]]|]; try discriminate. destruct tok; try discriminate.
  cbn [time_is]. rewrite !andb_true_iff, !str_eqb_eq, !Z.eqb_eq. intros [[[-> ->] H3] H4].
  destruct tz as [n' o']. cbn in H3, H4. subst. reflexivity.
Qed.

(* the zone names the zone syntax (?P<timezone_1>[A-Z]{2,4}) can express ... *)
Definition expressible (n : str) : bool :=
  (2 <=? length n)%nat && (length n <=? 4)%nat && forallb (fun c => (65 <=? c)%N && (c <=? 90)%N) n.
(* ... and that are not also currency codes (`30 TMT` is money) *)
Definition is_currency_code (n : str) : bool := assoc_mem (to_lowercase n) d_currency.
Definition table_zones : list (str * Z) :=
  filter (fun p => expressible (fst p) && negb (is_currency_code (fst p))) d_timezones.

Definition W1030 : Z := wall_of 10 30 0.

(* every table zone: `10:30 Z` is 10:30 in Z; `10:30 Z to GMT+3` and `10:30 EST to Z` convert *)
Definition zone_row_ok (p : str * Z) : bool :=
  let '(n, o) := p in
  time_is (run_line default_config (s "10:30 " ++ n))
          (clock_text W1030 ++ 32%N :: n) (instant_of 20000 W1030 o) n o &&
  time_is (run_line default_config (s "10:30 " ++ n ++ s " to GMT+3"))
          (clock_text (shown W1030 o 180) ++ s " GMT+3") (instant_of 20000 W1030 o) (s "GMT+3") 180 &&
  time_is (run_line default_config (s "10:30 EST to " ++ n))
          (clock_text (shown W1030 (-300) o) ++ 32%N :: n) (instant_of 20000 W1030 (-300)) n o &&
  match set_timezone default_config n with Some (n', o') => str_eqb n' n && Z.eqb o' o | None => false end.

Lemma zone_table_check : forallb zone_row_ok table_zones = true.
Proof. vm_compute. reflexivity. Qed.

Theorem zone_table : forall n o, In (n, o) table_zones ->
  run_line default_config (s "10:30 " ++ n)
    = Some (clock_text W1030 ++ 32%N :: n, Some (TTime (instant_of 20000 W1030 o) {| tz_name := n; tz_off := o |})) /\
  run_line default_config (s "10:30 " ++ n ++ s " to GMT+3")
    = Some (clock_text (shown W1030 o 180) ++ s " GMT+3",
            Some (TTime (instant_of 20000 W1030 o) {| tz_name := s "GMT+3"; tz_off := 180 |})) /\
  run_line default_config (s "10:30 EST to " ++ n)
    = Some (clock_text (shown W1030 (-300) o) ++ 32%N :: n,
            Some (TTime (instant_of 20000 W1030 (-300)) {| tz_name := n; tz_off := o |})) /\
  set_timezone default_config n = Some (n, o).
Proof.
  intros n o Hin. pose proof zone_table_check as T. rewrite forallb_forall in T. specialize (T _ Hin).
  unfold zone_row_ok in T. rewrite !andb_true_iff in T. destruct T as [[[T1 T2] T3] T4].
  repeat split; try (apply time_is_true; assumption).
  destruct (set_timezone default_config n) as [[n' o']|]; [|discriminate].
  apply andb_true_iff in T4 as [A B]. apply str_eqb_eq in A. apply Z.eqb_eq in B. subst. reflexivity.
Qed.

(* how many zones that is, and that the table has no two offsets for one name *)
Lemma zone_table_size : length d_timezones = 191%nat /\ length table_zones = 174%nat.
Proof. vm_compute. split; reflexivity. Qed.

(* the zones recognised in a text: the zone regex's captures run through parse_timezone *)
Definition lex_zone (cfg : config float) (text : str) : list (str * Z) :=
  match timezone_cre with
  | Some c => let data := to_uppercase text in
     flat_map (fun cp => match parse_timezone cfg c data cp with Some r => [r] | None => [] end) (caps_iter c data)
  | None => []
  end.

(* GMT forms: sign +, - or none; hour 0..19 written with one or two digits; optional :mm *)
Definition num_str (z : Z) : str := Z_to_str z.
Definition gmt_text (sign : str) (hh : str) (mm : option Z) : str :=
  s "GMT" ++ sign ++ hh ++ match mm with Some m => 58%N :: two_digits m | None => [] end.
Definition gmt_offset (sign : str) (h : Z) (mm : option Z) : Z :=
  (60 * h + match mm with Some m => m | None => 0 end) * (if str_eqb sign (s "-") then -1 else 1).

Definition zrange (n : nat) : list Z := map Z.of_nat (seq 0 n).
Definition hour_spellings (h : Z) : list str := if h <? 10 then [num_str h; two_digits h] else [num_str h].
Definition minute_options : list (option Z) := None :: map Some (zrange 60).

Definition gmt_form_ok (sign : str) (h : Z) (hh : str) (mm : option Z) : bool :=
  let text := gmt_text sign hh mm in
  let off := gmt_offset sign h mm in
  match lex_zone default_config text with
  | [(n, o)] => str_eqb n text && Z.eqb o off
  | _ => false
  end &&
  match set_timezone default_config text with
  | Some (n, o) => str_eqb n text && Z.eqb o off
  | None => false
  end.

Lemma gmt_forms_check :
  forallb (fun sign => forallb (fun h => forallb (fun hh => forallb (fun mm => gmt_form_ok sign h hh mm)
     minute_options) (hour_spellings h)) (zrange 20)) [s "+"; s "-"; []] = true.
Proof. vm_compute. reflexivity. Qed.

Theorem gmt_forms : forall sign h hh mm,
  In sign [s "+"; s "-"; []] -> 0 <= h < 20 -> In hh (hour_spellings h) ->
  match mm with Some m => 0 <= m < 60 | None => True end ->
  lex_zone default_config (gmt_text sign hh mm) = [(gmt_text sign hh mm, gmt_offset sign h mm)] /\
  set_timezone default_config (gmt_text sign hh mm) = Some (gmt_text sign hh mm, gmt_offset sign h mm).
Proof.
  intros sign h hh mm Hs Hh Hhh Hm. pose proof gmt_forms_check as T.
  rewrite forallb_forall in T. specialize (T _ Hs).
  rewrite forallb_forall in T. specialize (T h).
  assert (Hin : In h (zrange 20)).
  { unfold zrange. apply in_map_iff. exists (Z.to_nat h). split; [lia | apply in_seq; lia]. }
  specialize (T Hin). rewrite forallb_forall in T. specialize (T _ Hhh).
  rewrite forallb_forall in T. specialize (T mm).
  assert (Hmm : In mm minute_options).
  { unfold minute_options. destruct mm as [m|]; [right | left; reflexivity].
    apply in_map. unfold zrange. apply in_map_iff. exists (Z.to_nat m). split; [lia | apply in_seq; lia]. }
  specialize (T Hmm). unfold gmt_form_ok in T. apply andb_true_iff in T as [T1 T2].
  split.
  - destruct (lex_zone default_config (gmt_text sign hh mm)) as [|[n o] [|? ?]]; try discriminate.
    apply andb_true_iff in T1 as [A B]. apply str_eqb_eq in A. apply Z.eqb_eq in B. subst. reflexivity.
  - destruct (set_timezone default_config (gmt_text sign hh mm)) as [[n o]|]; try discriminate.
    apply andb_true_iff in T2 as [A B]. apply str_eqb_eq in A. apply Z.eqb_eq in B. subst. reflexivity.
Qed.

(* the sign convention: east is positive *)
Lemma gmt_offset_signs h m : gmt_offset (s "+") h (Some m) = 60 * h + m /\
  gmt_offset [] h (Some m) = 60 * h + m /\ gmt_offset (s "-") h (Some m) = - (60 * h + m) /\
  gmt_offset (s "+") h None = 60 * h /\ gmt_offset (s "-") h None = - (60 * h).
Proof.
  repeat split; unfold gmt_offset;
    match goal with |- context [str_eqb ?a ?b] =>
      let v := eval vm_compute in (str_eqb a b) in change (str_eqb a b) with v end; cbv beta iota; lia.
Qed.

(* ------------------------------------------------------------------------------------- *)
(* 7. the default zone: set_timezone / get_time_offset as steps of the operation machine   *)
(* ------------------------------------------------------------------------------------- *)
Section Steps.
Variable ck : clock.

Theorem set_tz_ok m v n o : set_timezone (m_cfg m) v = Some (n, o) ->
  let m' := fst (step ck m (OSetTz v)) in
  snd (step ck m (OSetTz v)) = MTz true n o /\
  get_time_offset (m_cfg m') = {| tz_name := n; tz_off := o |} /\
  step ck m' OGetTz = (m', MTz true n o) /\
  m_sessions m' = m_sessions m.
Proof. intro H. cbn [step]. rewrite H. cbn. repeat split. Qed.

Theorem set_tz_fail m v : set_timezone (m_cfg m) v = None -> step ck m (OSetTz v) = (m, MTz false [] 0).
Proof. intro H. cbn [step]. rewrite H. reflexivity. Qed.

Theorem get_tz_reads m :
  step ck m OGetTz = (m, MTz true (tz_name (get_time_offset (m_cfg m))) (tz_off (get_time_offset (m_cfg m)))).
Proof. reflexivity. Qed.

Theorem exec_keeps_state m lang text : fst (step ck m (OExec lang text)) = m.
Proof. reflexivity. Qed.

(* no operation other than a successful set_timezone changes the default zone *)
Theorem only_set_tz_changes_zone m o :
  (forall v, o <> OSetTz v) -> get_time_offset (m_cfg (fst (step ck m o))) = get_time_offset (m_cfg m).
Proof.
  intro Hn. destruct o; try reflexivity; cbn [step].
  - destruct (sess_get sid (m_sessions m)); reflexivity.
  - destruct (sess_get sid (m_sessions m)); reflexivity.
  - destruct (sess_get sid (m_sessions m)); [|reflexivity].
    destruct (execute_session _ _ _ _) as [[? ?]|]; reflexivity.
  - exfalso. eapply Hn. reflexivity.
  - destruct (read_currency _ _); reflexivity.
  - destruct (tokenise_patterns _ _ _ _ _); [|reflexivity].
    destruct (assoc lang _); reflexivity.
  - destruct (assoc lang _); [|reflexivity]. destruct (find_index _ _); reflexivity.
  - destruct (assoc name _); reflexivity.
  - destruct (assoc name _); [|reflexivity]. destruct (nassoc _ _); [reflexivity|].
    destruct (tokenise_patterns _ _ _ _ _); reflexivity.
  - unfold set_date_rule. destruct (tokenise_patterns _ _ _ _ _); reflexivity.
Qed.

(* histories: the default zone after a run is the last one set successfully *)
Fixpoint final_state (m : mstate) (ops : list op) : mstate :=
  match ops with [] => m | o :: r => final_state (fst (step ck m o)) r end.

Fixpoint last_zone (cfg0 : config float) (z : tzinfo) (ops : list op) : tzinfo :=
  match ops with
  | [] => z
  | OSetTz v :: r =>
    match set_timezone cfg0 v with
    | Some (n, o) => last_zone cfg0 {| tz_name := n; tz_off := o |} r
    | None => last_zone cfg0 z r
    end
  | _ :: r => last_zone cfg0 z r
  end.

(* set_timezone reads only the zone table and the zone regex, which no operation changes *)
Lemma set_timezone_depends cfg cfg' v : cf_timezones cfg = cf_timezones cfg' -> set_timezone cfg v = set_timezone cfg' v.
Proof.
  intro H. unfold set_timezone. destruct timezone_cre; [|reflexivity].
  destruct (captures_at_p _ _ _ _ _); [|reflexivity]. destruct (cap_name _ _ "timezone"); [|reflexivity].
  unfold parse_timezone. rewrite H. reflexivity.
Qed.

Lemma step_keeps_table m o : cf_timezones (m_cfg (fst (step ck m o))) = cf_timezones (m_cfg m).
Proof.
  destruct o; try reflexivity; cbn [step].
  - destruct (sess_get sid (m_sessions m)); reflexivity.
  - destruct (sess_get sid (m_sessions m)); reflexivity.
  - destruct (sess_get sid (m_sessions m)); [|reflexivity].
    destruct (execute_session _ _ _ _) as [[? ?]|]; reflexivity.
  - destruct (set_timezone _ _) as [[? ?]|]; reflexivity.
  - destruct (read_currency _ _); reflexivity.
  - destruct (tokenise_patterns _ _ _ _ _); [|reflexivity].
    destruct (assoc lang _); reflexivity.
  - destruct (assoc lang _); [|reflexivity]. destruct (find_index _ _); reflexivity.
  - destruct (assoc name _); reflexivity.
  - destruct (assoc name _); [|reflexivity]. destruct (nassoc _ _); [reflexivity|].
    destruct (tokenise_patterns _ _ _ _ _); reflexivity.
  - unfold set_date_rule. destruct (tokenise_patterns _ _ _ _ _); reflexivity.
Qed.

Lemma last_zone_ext cfg cfg' :
  (forall v, set_timezone cfg v = set_timezone cfg' v) ->
  forall ops z, last_zone cfg z ops = last_zone cfg' z ops.
Proof.
  intros E ops. induction ops as [|o r IH]; intro z; [reflexivity|].
  destruct o; cbn [last_zone]; try apply IH.
  rewrite E. destruct (set_timezone cfg' v) as [[? ?]|]; apply IH.
Qed.

Theorem default_zone_history ops : forall m,
  get_time_offset (m_cfg (final_state m ops)) = last_zone (m_cfg m) (get_time_offset (m_cfg m)) ops.
Proof.
  induction ops as [|o r IH]; intro m; [reflexivity|].
  cbn [final_state]. rewrite IH.
  rewrite (last_zone_ext _ (m_cfg m)) by (intro v; apply set_timezone_depends, step_keeps_table).
  destruct o; cbn [last_zone];
    try (f_equal; apply only_set_tz_changes_zone; intros v' Hv; discriminate).
  cbn [step]. destruct (set_timezone (m_cfg m) v) as [[n o]|]; reflexivity.
Qed.

End Steps.

(* ------------------------------------------------------------------------------------- *)
(* 8. whole-pipeline examples (non-vacuity)                                               *)
(* ------------------------------------------------------------------------------------- *)
Definition cfg_with_zone (v : str) : config float := m_cfg (fst (step CK1 init_state (OSetTz v))).

Theorem examples :
  (* 10:30 in New York is 18:30 at GMT+3; the instant is 15:30 UTC of the day *)
  run_line default_config (s "10:30 EST to GMT+3")
    = Some (s "18:30:00 GMT+3", Some (TTime (20000 * 86400 + 15 * 3600 + 30 * 60) {| tz_name := s "GMT+3"; tz_off := 180 |})) /\
  (* a zone east of Greenwich as the source, across midnight backwards *)
  run_line default_config (s "1:15 JST to PST")
    = Some (s "08:15:00 PST", Some (TTime (20000 * 86400 + 3600 + 900 - 9 * 3600) {| tz_name := s "PST"; tz_off := -480 |})) /\
  run_line default_config (s "3 pm") = Some (s "15:00:00 UTC", Some (TTime (20000 * 86400 + 15 * 3600) {| tz_name := s "UTC"; tz_off := 0 |})) /\
  run_line default_config (s "11:05 AM CET") = Some (s "11:05:00 CET", Some (TTime (20000 * 86400 + 10 * 3600 + 300) {| tz_name := s "CET"; tz_off := 60 |})) /\
  (* wrap across midnight in both directions *)
  option_map fst (run_line default_config (s "23:30 + 45 minutes")) = Some (s "00:15:00 UTC") /\
  option_map fst (run_line default_config (s "0:15 - 30 minutes")) = Some (s "23:45:00 UTC") /\
  option_map fst (run_line default_config (s "12:00 - 36 hours")) = Some (s "00:00:00 UTC") /\
  run_line default_config (s "10:30 to 13:00") = Some (s "2 hours 30 minutes", Some (TDuration 9000)) /\
  run_line default_config (s "13:00 to 10:30") = Some (s "2 hours 30 minutes", Some (TDuration 9000)) /\
  (* the default zone: literals are read in it; an explicit conversion does not depend on it *)
  option_map fst (run_line (cfg_with_zone (s "GMT+5:30")) (s "9:00 pm to UTC")) = Some (s "15:30:00 UTC") /\
  option_map fst (run_line (cfg_with_zone (s "GMT+5:30")) (s "10:30 EST to GMT+3")) = Some (s "18:30:00 GMT+3") /\
  run_line (cfg_with_zone (s "GMT+5:30")) (s "21:00")
    = Some (s "21:00:00 GMT+5:30", Some (TTime (20000 * 86400 + 21 * 3600 - 330 * 60) {| tz_name := s "GMT+5:30"; tz_off := 330 |})) /\
  (* set_timezone *)
  set_timezone default_config (s "EST") = Some (s "EST", -300) /\
  set_timezone default_config (s "Mars") = None /\
  shown (wall_of 10 30 0) (-300) 180 = wall_of 18 30 0.
Proof. vm_compute. repeat split; reflexivity. Qed.

(* ------------------------------------------------------------------------------------- *)
(* 5. literals: the token time_body makes from a match of a time regex                    *)
(* ------------------------------------------------------------------------------------- *)
(* for ALL days, ALL default zones (|offset| < 24 h), all hour/minute/second values the groups
   read as: the token is the instant of that wall time of today in the default zone *)
Section Lit.
Context {F : Type} {NF : Num F}.

(* an optional numeric capture group: its digits read as v, or absent and v = 0 *)
Definition group_reads (line : str) (o : option (N * N)) (v : Z) : Prop :=
  match o with Some sp => parse_i64 (slice line sp) = Some v | None => v = 0 end.

Definition is_pm (line : str) (o : option (N * N)) : bool :=
  match o with Some sp => str_eqb (to_lowercase (slice line sp)) (s "pm") | None => false end.

Theorem time_body_token (today : Z) (cfg : config F) line c cp (st : Lexer.tstate) hsp h0 m sec b e :
  cap_name c cp "hour" = Some hsp -> parse_i64 (slice line hsp) = Some h0 ->
  group_reads line (cap_name c cp "minute") m ->
  group_reads line (cap_name c cp "second") sec ->
  cap_get cp 0 = Some (b, e) ->
  let h := if is_pm line (cap_name c cp "meridiem") && (h0 <? 12) && (0 <=? h0) then h0 + 12 else h0 in
  Z.abs (tz_off (cf_tz cfg)) < 1440 -> h < 24 -> m < 60 -> sec < 60 ->
  exists en,
    time_body today cfg line c cp st =
    let '(st1, ok) := add_token st b en
          (Some (TTime (instant_of today (wall_of h m sec) (tz_off (cf_tz cfg))) (cf_tz cfg))) (slice line (b, e)) in
    Ok (if ok then with_ui st1 (ui_add line (ts_ui st1) b e UDateTime) else st1).
Proof.
  intros Hh Hh0 Hm Hs H0 h Htz Hh24 Hm60 Hs60.
  unfold time_body. rewrite Hh. cbn [need bind]. rewrite Hh0.
  unfold group_reads in Hm, Hs.
  assert (Em : match cap_name c cp "minute" with Some sp => parse_i64 (slice line sp) | None => Some 0 end = Some m).
  { destruct (cap_name c cp "minute"); [exact Hm | subst; reflexivity]. }
  assert (Es : match cap_name c cp "second" with Some sp => parse_i64 (slice line sp) | None => Some 0 end = Some sec).
  { destruct (cap_name c cp "second"); [exact Hs | subst; reflexivity]. }
  rewrite Em, Es.
  assert (Eh : match cap_name c cp "meridiem" with
               | Some sp => if str_eqb (to_lowercase (slice line sp)) (s "pm") && (h0 <? 12) && (0 <=? h0) then h0 + 12 else h0
               | None => h0 end = h).
  { unfold h, is_pm. destruct (cap_name c cp "meridiem"); reflexivity. }
  rewrite Eh. unfold get_time_offset.
  destruct (Z.leb_spec 86400 (Z.abs (tz_off (cf_tz cfg) * 60))) as [Hbad|_]; [lia|].
  replace ((h <? 24) && (m <? 60) && (sec <? 60)) with true
    by (symmetry; rewrite !andb_true_iff, !Z.ltb_lt; lia).
  cbn [negb]. rewrite H0. eexists.
  replace (dt_of today (h * 3600 + m * 60 + sec) - tz_off (cf_tz cfg) * 60)
    with (instant_of today (wall_of h m sec) (tz_off (cf_tz cfg)))
    by (unfold dt_of, instant_of, wall_of, DAY_SECS; ring).
  reflexivity.
Qed.
End Lit.

(* --- finite check through the five time regexes of config.json --- *)
Definition time_res : list cre := match assoc (s "time") g_parse with Some l => l | None => [] end.

(* the tokens the time parser leaves on a line: (start, end, token) *)
Definition literal_tokens (today : Z) (cfg : config float) (line : str) : option (list (N * N * option (token float))) :=
  match over_regexes (time_body today cfg line) line time_res empty_state with
  | Ok st => Some (map (fun t => (ti_start t, ti_end t, ti_ty t)) (ts_infos st))
  | Panic _ => None
  end.

(* one time token spanning the whole line: wall time w of the day in the default zone *)
Definition whole_line_time (today : Z) (cfg : config float) (line : str) (w : Z) :=
  Some [(0%N, N.of_nat (length line),
         Some (TTime (instant_of today w (tz_off (cf_tz cfg))) (cf_tz cfg) : token float))].

Definition lit_ok (today : Z) (cfg : config float) (line : str) (w : Z) : bool :=
  match literal_tokens today cfg line with
  | Some [(0%N, e, Some (TTime t z))] =>
    N.eqb e (N.of_nat (length line)) && Z.eqb t (instant_of today w (tz_off (cf_tz cfg))) && tz_eqb z (cf_tz cfg)
  | _ => false
  end.

Lemma lit_ok_true today cfg line w : lit_ok today cfg line w = true ->
  literal_tokens today cfg line = whole_line_time today cfg line w.
Proof.
  unfold lit_ok, whole_line_time. destruct (literal_tokens today cfg line) as [[|[[b e] [tok|]] [|? ?]]|]; try discriminate;
    destruct b; try discriminate; destruct tok; try discriminate.
  rewrite !andb_true_iff. intros [[A B] C]. apply N.eqb_eq in A. apply Z.eqb_eq in B.
  unfold tz_eqb in C. apply andb_true_iff in C as [C1 C2]. apply str_eqb_eq in C1. apply Z.eqb_eq in C2.
  destruct tz as [n o], (cf_tz cfg) as [n' o']. cbn in *. subst. reflexivity.
Qed.

Lemma in_zrange z n : 0 <= z < Z.of_nat n -> In z (zrange n).
Proof. intro H. unfold zrange. apply in_map_iff. exists (Z.to_nat z). split; [lia | apply in_seq; lia]. Qed.

Definition lit_cfgs : list (config float) := [default_config; cfg_with_zone (s "GMT+5:30"); cfg_with_zone (s "HNT")].
Definition DAY1 : Z := 20000.

(* H:MM and HH:MM, every minute of the day, under three default zones *)
Definition text_hm (hs : str) (m : Z) : str := hs ++ 58%N :: two_digits m.
Definition text_hms (hs : str) (m sec : Z) : str := hs ++ 58%N :: two_digits m ++ 58%N :: two_digits sec.
Lemma literal_hm_check :
  forallb (fun cfg => forallb (fun h => forallb (fun hs => forallb (fun m =>
     lit_ok DAY1 cfg (text_hm hs m) (wall_of h m 0)) (zrange 60)) (hour_spellings h)) (zrange 24)) lit_cfgs = true.
Proof. vm_compute. reflexivity. Qed.

(* H:MM:SS, every hour and second, minutes 0, 7, 30, 59 *)
Definition some_minutes : list Z := [0; 7; 30; 59].
Lemma literal_hms_check :
  forallb (fun h => forallb (fun hs => forallb (fun m => forallb (fun sec =>
     lit_ok DAY1 default_config (text_hms hs m sec) (wall_of h m sec)) (zrange 60)) some_minutes) (hour_spellings h)) (zrange 24) = true.
Proof. vm_compute. reflexivity. Qed.

(* 1-11 am/pm: H:MM am, H:MMam, HH:MM am, ...; H am, Ham; four spellings of the meridiem *)
Definition meridiems : list (str * bool) := [(s "am", false); (s "pm", true); (s "AM", false); (s "PM", true); (s "Pm", true)].
Definition seps : list str := [s " "; []].
Lemma literal_ampm_check :
  forallb (fun h => forallb (fun hs => forallb (fun mer => forallb (fun sep =>
     forallb (fun m => lit_ok DAY1 default_config (text_hm hs m ++ sep ++ fst mer) (wall_of (hour24 h (snd mer)) m 0)) (zrange 60) &&
     lit_ok DAY1 default_config (hs ++ sep ++ fst mer) (wall_of (hour24 h (snd mer)) 0 0))
     seps) meridiems) (hour_spellings h)) (map (Z.add 1) (zrange 11)) = true.
Proof. vm_compute. reflexivity. Qed.

Theorem literal_hm cfg h hs m :
  In cfg lit_cfgs -> 0 <= h < 24 -> In hs (hour_spellings h) -> 0 <= m < 60 ->
  literal_tokens DAY1 cfg (text_hm hs m) = whole_line_time DAY1 cfg (text_hm hs m) (wall_of h m 0).
Proof.
  intros Hc Hh Hhs Hm. apply lit_ok_true. pose proof literal_hm_check as T.
  rewrite forallb_forall in T. specialize (T _ Hc).
  rewrite forallb_forall in T. specialize (T h (in_zrange h 24 ltac:(lia))).
  rewrite forallb_forall in T. specialize (T _ Hhs).
  rewrite forallb_forall in T. exact (T m (in_zrange m 60 ltac:(lia))).
Qed.

Theorem literal_hms h hs m sec :
  0 <= h < 24 -> In hs (hour_spellings h) -> In m some_minutes -> 0 <= sec < 60 ->
  literal_tokens DAY1 default_config (text_hms hs m sec)
    = whole_line_time DAY1 default_config (text_hms hs m sec) (wall_of h m sec).
Proof.
  intros Hh Hhs Hm Hs. apply lit_ok_true. pose proof literal_hms_check as T.
  rewrite forallb_forall in T. specialize (T h (in_zrange h 24 ltac:(lia))).
  rewrite forallb_forall in T. specialize (T _ Hhs).
  rewrite forallb_forall in T. specialize (T _ Hm).
  rewrite forallb_forall in T. exact (T sec (in_zrange sec 60 ltac:(lia))).
Qed.

Theorem literal_ampm h hs mer pm sep m :
  1 <= h <= 11 -> In hs (hour_spellings h) -> In (mer, pm) meridiems -> In sep seps -> 0 <= m < 60 ->
  literal_tokens DAY1 default_config (text_hm hs m ++ sep ++ mer)
    = whole_line_time DAY1 default_config (text_hm hs m ++ sep ++ mer) (wall_of (hour24 h pm) m 0) /\
  literal_tokens DAY1 default_config (hs ++ sep ++ mer)
    = whole_line_time DAY1 default_config (hs ++ sep ++ mer) (wall_of (hour24 h pm) 0 0).
Proof.
  intros Hh Hhs Hmer Hsep Hm. pose proof literal_ampm_check as T.
  rewrite forallb_forall in T.
  assert (Hin : In h (map (Z.add 1) (zrange 11))).
  { apply in_map_iff. exists (h - 1). split; [lia | apply in_zrange; lia]. }
  specialize (T h Hin).
  rewrite forallb_forall in T. specialize (T _ Hhs).
  rewrite forallb_forall in T. specialize (T _ Hmer).
  rewrite forallb_forall in T. specialize (T _ Hsep). cbn [fst snd] in T.
  apply andb_true_iff in T as [T1 T2]. split; apply lit_ok_true; [|exact T2].
  rewrite forallb_forall in T1. exact (T1 m (in_zrange m 60 ltac:(lia))).
Qed.

(* 1-11 am/pm with seconds (H:MM:SS pm, H:MM:SSpm, HH:MM:SS pm, ...): every hour and second, minutes
   0, 7, 30, 59, five spellings of the meridiem.  (Before /repo 6e1968b the regexes with seconds had
   no meridiem group and `1:20:30 pm` was read as 01:20:30.) *)
Lemma literal_hms_ampm_check :
  forallb (fun h => forallb (fun hs => forallb (fun mer => forallb (fun sep => forallb (fun m => forallb (fun sec =>
     lit_ok DAY1 default_config (text_hms hs m sec ++ sep ++ fst mer) (wall_of (hour24 h (snd mer)) m sec))
     (zrange 60)) some_minutes) seps) meridiems) (hour_spellings h)) (map (Z.add 1) (zrange 11)) = true.
Proof. vm_compute. reflexivity. Qed.

Theorem literal_hms_ampm h hs mer pm sep m sec :
  1 <= h <= 11 -> In hs (hour_spellings h) -> In (mer, pm) meridiems -> In sep seps ->
  In m some_minutes -> 0 <= sec < 60 ->
  literal_tokens DAY1 default_config (text_hms hs m sec ++ sep ++ mer)
    = whole_line_time DAY1 default_config (text_hms hs m sec ++ sep ++ mer) (wall_of (hour24 h pm) m sec).
Proof.
  intros Hh Hhs Hmer Hsep Hm Hs. apply lit_ok_true. pose proof literal_hms_ampm_check as T.
  rewrite forallb_forall in T.
  assert (Hin : In h (map (Z.add 1) (zrange 11))).
  { apply in_map_iff. exists (h - 1). split; [lia | apply in_zrange; lia]. }
  specialize (T h Hin).
  rewrite forallb_forall in T. specialize (T _ Hhs).
  rewrite forallb_forall in T. specialize (T _ Hmer).
  rewrite forallb_forall in T. specialize (T _ Hsep). cbn [fst snd] in T.
  rewrite forallb_forall in T. specialize (T _ Hm).
  rewrite forallb_forall in T. exact (T sec (in_zrange sec 60 ltac:(lia))).
Qed.

Theorem meridiem_with_seconds_examples :
  option_map fst (run_line default_config (s "1:20:30 pm")) = Some (s "13:20:30 UTC") /\
  option_map fst (run_line default_config (s "11:59:59 PM + 1 second")) = Some (s "00:00:00 UTC") /\
  option_map fst (run_line default_config (s "1:20:30 pm EST to CET")) = Some (s "19:20:30 CET") /\
  (* the statement's own exclusion *)
  option_map fst (run_line default_config (s "12:30 am")) = Some (s "12:30:00 UTC").
Proof. vm_compute. repeat split; reflexivity. Qed.

(* ------------------------------------------------------------------------------------- *)
(* KNOWN FINDING C11-K1: both operands of `T1 to T2` carry a zone on the line.  One pass of  *)
(* the rule loop applies every rule once, in name order: time_with_timezone joins only the   *)
(* first time with its zone, to_duration (later in the same pass) rewrites `time to time`,   *)
(* and the second zone word is left over - the line fails.  With one zone, or with the first *)
(* operand held in a variable, the difference of the two instants is computed.               *)
(* ------------------------------------------------------------------------------------- *)
Definition line_error (cfg : config float) (text : str) : option str :=
  match execute LX CK1 cfg (s "en") text with
  | Ok r => match er_lines r with
            | [Some o] => match lo_result o with LErr m => Some m | _ => None end
            | _ => None end
  | Panic _ => None
  end.
Definition last_line (cfg : config float) (text : str) : option str :=
  match execute LX CK1 cfg (s "en") text with
  | Ok r => match rev (er_lines r) with
            | Some o :: _ => match lo_result o with LOk out _ => Some out | _ => None end
            | _ => None end
  | Panic _ => None
  end.

Theorem both_zoned_refuted :
  line_error default_config (s "10:00 EST to 12:00 CET") = Some (s "No more token") /\
  option_map fst (run_line default_config (s "10:00 EST to 12:00")) = Some (s "3 hours") /\
  option_map fst (run_line default_config (s "10:00 to 12:00 CET")) = Some (s "1 hour") /\
  last_line default_config (s "a = 10:00 EST
a to 12:00 CET") = Some (s "4 hours").
Proof. vm_compute. repeat split; reflexivity. Qed.

Print Assumptions both_zoned_refuted.
