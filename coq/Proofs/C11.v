(* Proofs for property C11. *)
From SC.Model Require Import Base.
