(* SC.Proofs.C13_EndToEnd — from TEXT to VALUE for based literals with ONE letter, unbounded:
   the line  0 p ds  (p one of b o x, ds any non-empty string of decimal digits that are digits of the base,
   value < 2^63) under the regenerated default configuration evaluates to the number read in base 2 / 8 / 16,
   of number type Binary / Octal / Hexadecimal, and prints with NumberItem::print.

   New regex theory (generic, on top of Proofs/RegexNeeds.v): [fails_gen] / [gsafe_gen], the analysis of
   RegexNeeds over an arbitrary suffix-closed text invariant Q and an arbitrary sound base test; instance
   "no two adjacent letters in the text": a repetition {2,} of a letter set cannot match (the money regex
   `digits *[a-zA-Z]{2,}` and the zone-name group `[A-Z]{2,4}` of the timezone regex).

   No axioms. *)
From Coq Require Import Floats List NArith ZArith Bool Arith Lia.
From SC.Model Require Import Base Num NumF64 Types Config Case Chrono UiTokens Regex Rx Match Post Parser Items Interp
     RuleFns Rules Format Lexer Api Run64.
From SC.Gen Require Import RustConsts Regexes.
From SC.Proofs Require Import RegexLemmas RegexNeeds SessionLemmas.
Import ListNotations.

(* ===================================================================================== *)
(* 1. The analysis over an arbitrary text invariant                                       *)
(* ===================================================================================== *)
Section Gen.
Variable pt : ptables.
Variable Q : list N -> option N -> Prop.          (* a property of (unconsumed text, previous character) *)
Hypothesis Qstep : forall c t prev, Q (c :: t) prev -> Q t (Some c).

Definition QI (st : mstate) : Prop := Q (ms_rest st) (ms_prev st).

Lemma QI_step : step_closed QI.
Proof. intros c t pos prev rem caps H. exact (Qstep c t prev H). Qed.
Lemma QI_cap idx : cap_closed QI idx.
Proof. intros st p0 H. exact H. Qed.

Lemma compile_keeps_Q r : keeps QI (compile pt r).
Proof.
  induction r; cbn [compile].
  - apply keeps_eps.
  - apply keeps_set, QI_step.
  - apply keeps_cat; assumption.
  - apply keeps_alt; assumption.
  - apply keeps_rep; assumption.
  - apply keeps_group; [apply QI_cap|assumption].
  - apply keeps_assert.
  - apply keeps_assert.
  - apply keeps_assert.
  - apply keeps_assert.
Qed.

Variable base : rx -> bool.                         (* sub-regexes known to have no match from a Q-position *)
Hypothesis base_ok : forall r, base r = true -> mfails QI (compile pt r).

Fixpoint fails_gen (r : rx) : bool :=
  base r ||
  match r with
  | RCat a b => fails_gen a || fails_gen b
  | RAlt a b => fails_gen a && fails_gen b
  | RRep r' mn _ _ => Nat.leb 1 mn && fails_gen r'
  | RGroup _ r' => fails_gen r'
  | _ => false
  end.

Theorem fails_sound r : fails_gen r = true -> mfails QI (compile pt r).
Proof.
  induction r; cbn [fails_gen]; intros Hn; apply orb_true_iff in Hn as [Hb|Hn]; try (apply base_ok; exact Hb);
    try discriminate; cbn [compile]; intros st k Hi.
  - unfold m_cat. apply orb_true_iff in Hn as [Ha|Hb].
    + apply IHr1; assumption.
    + destruct (compile pt r1 st (fun st' => compile pt r2 st' k)) as [res|] eqn:E; [|reflexivity].
      destruct (compile_keeps_Q r1 _ _ _ Hi E) as (st1 & Hi1 & H1).
      rewrite (IHr2 Hb _ _ Hi1) in H1. discriminate.
  - unfold m_alt. apply andb_true_iff in Hn as [Ha Hb]. rewrite (IHr1 Ha _ _ Hi). apply IHr2; assumption.
  - apply andb_true_iff in Hn as [Hm Hr]. apply Nat.leb_le in Hm.
    exact (mfails_rep QI _ _ _ _ (compile_keeps_Q r) (IHr Hr) Hm st k Hi).
  - unfold m_group. apply IHr; assumption.
Qed.

Lemma search_none_gen r : fails_gen r = true ->
  forall rest pos prev rem, Q rest prev -> search (compile pt r) rest pos prev rem = None.
Proof.
  intros Hn rest. induction rest as [|c t IH]; intros pos prev rem Hq; cbn [search].
  - rewrite (fails_sound r Hn (MS [] pos prev rem []) k_done Hq). reflexivity.
  - rewrite (fails_sound r Hn (MS (c :: t) pos prev rem []) k_done Hq). apply IH. exact (Qstep _ _ _ Hq).
Qed.

Theorem fails_iter_nil r ng x : fails_gen r = true -> Q x None -> captures_iter_p pt r ng x = [].
Proof.
  intros Hn Hx. unfold captures_iter_p. cbn [iter_loop].
  rewrite (search_none_gen r Hn x 0%N None (length x) Hx). reflexivity.
Qed.

(* groups that cannot be set *)
Variable bad : nat -> bool.

Fixpoint gsafe_gen (r : rx) : bool :=
  match r with
  | RCat a b | RAlt a b => gsafe_gen a && gsafe_gen b
  | RRep r' _ _ _ => gsafe_gen r'
  | RGroup idx r' => (negb (bad idx) || fails_gen r') && gsafe_gen r'
  | _ => true
  end.

Definition QI_nobad (st : mstate) : Prop := QI st /\ nobad bad (ms_caps st).

Theorem compile_keeps_nobad_gen r : gsafe_gen r = true -> keeps QI_nobad (compile pt r).
Proof.
  induction r; cbn [gsafe_gen compile]; intros Hg.
  - apply keeps_eps.
  - apply keeps_set. intros c t pos prev rem caps [Hc Hb]. split; [exact (QI_step _ _ _ _ _ _ Hc)|exact Hb].
  - apply andb_true_iff in Hg as [Ha Hb]. apply keeps_cat; auto.
  - apply andb_true_iff in Hg as [Ha Hb]. apply keeps_alt; auto.
  - apply keeps_rep; auto.
  - apply andb_true_iff in Hg as [Hi Hr]. destruct (bad idx) eqn:Eb.
    + cbn in Hi. apply mfails_keeps. intros st k Hc. unfold m_group.
      apply (fails_sound r Hi). exact (proj1 Hc).
    + apply keeps_group; [|auto].
      intros st p0 [Hc Hb]. split; [exact Hc|].
      intros i Hbi. cbn [ms_caps lookup_cap]. destruct (Nat.eqb i idx) eqn:E.
      * apply Nat.eqb_eq in E. subst i. congruence.
      * apply Hb. exact Hbi.
  - apply keeps_assert.
  - apply keeps_assert.
  - apply keeps_assert.
  - apply keeps_assert.
Qed.

Lemma search_nobad_gen r : gsafe_gen r = true ->
  forall rest pos prev rem ms st, Q rest prev ->
    search (compile pt r) rest pos prev rem = Some (ms, st) -> QI_nobad st.
Proof.
  intros Hg rest. induction rest as [|c t IH]; intros pos prev rem ms st Hc H; cbn [search] in H.
  - destruct (compile pt r (MS [] pos prev rem []) k_done) as [st0|] eqn:E; [|discriminate].
    inversion H; subst.
    destruct (compile_keeps_nobad_gen r Hg (MS [] ms prev rem []) _ _ (conj Hc (fun i _ => eq_refl)) E) as (st1 & Hi1 & H1).
    unfold k_done in H1. inversion H1; subst. exact Hi1.
  - destruct (compile pt r (MS (c :: t) pos prev rem []) k_done) as [st0|] eqn:E.
    + inversion H; subst.
      destruct (compile_keeps_nobad_gen r Hg (MS (c :: t) ms prev rem []) _ _ (conj Hc (fun i _ => eq_refl)) E) as (st1 & Hi1 & H1).
      unfold k_done in H1. inversion H1; subst. exact Hi1.
    + eapply IH; [|exact H]. exact (Qstep _ _ _ Hc).
Qed.

Lemma iter_loop_nobad_gen r ng : gsafe_gen r = true ->
  forall fuel rest pos prev rem last, Q rest prev ->
    Forall (unset_bad bad) (iter_loop fuel (compile pt r) ng rest pos prev rem last).
Proof.
  intros Hg fuel. induction fuel as [|f IH]; intros rest pos prev rem last Hc; cbn [iter_loop]; [constructor|].
  destruct (search (compile pt r) rest pos prev rem) as [[ms st]|] eqn:Ese; [|constructor].
  pose proof (search_nobad_gen r Hg _ _ _ _ _ _ Hc Ese) as [Hcl Hnb].
  match goal with |- context [if ?c then _ else _] => destruct c end.
  - destruct rest as [|c t]; [constructor|].
    destruct (search (compile pt r) t (pos + utf8_width c)%N (Some c) (Nat.pred rem)) as [[ms' st']|] eqn:Ese';
      [|constructor].
    pose proof (search_nobad_gen r Hg _ _ _ _ _ _ (Qstep _ _ _ Hc) Ese') as [Hcl' Hnb'].
    constructor; [apply render_caps_unset; exact Hnb'|]. apply IH. exact Hcl'.
  - constructor; [apply render_caps_unset; exact Hnb|]. apply IH. exact Hcl.
Qed.

Theorem gsafe_iter_unset_gen r ng x : gsafe_gen r = true -> Q x None ->
  Forall (unset_bad bad) (captures_iter_p pt r ng x).
Proof. intros Hg Hx. unfold captures_iter_p. apply iter_loop_nobad_gen; assumption. Qed.

End Gen.

(* ---- instance: texts over a finite alphabet A without two adjacent (ASCII) letters ---- *)
Definition isl (c : N) : bool := ((65 <=? c) && (c <=? 90) || (97 <=? c) && (c <=? 122))%N.

Fixpoint noadj (l : list N) : bool :=
  match l with
  | c1 :: t => match t with c2 :: _ => negb (isl c1 && isl c2) | [] => true end && noadj t
  | [] => true
  end.

Definition QA (A : list N) (rest : list N) (prev : option N) : Prop :=
  nop (p_out A) rest /\ match prev with Some c => p_out A c = false | None => True end /\ noadj rest = true.

Lemma QA_step A c t prev : QA A (c :: t) prev -> QA A t (Some c).
Proof.
  intros (Hr & _ & Hn). apply nop_cons in Hr as [Hc Ht]. split; [exact Ht|]. split; [exact Hc|].
  cbn [noadj] in Hn. apply andb_true_iff in Hn as [_ Hn]. exact Hn.
Qed.

Lemma QA_clean A st : QI (QA A) st -> clean (p_out A) st.
Proof. intros (Hr & Hp & _). split; assumption. Qed.

(* a repetition {2,} of a set whose members inside A are letters *)
Definition two_letters (A : list N) (r : rx) : bool :=
  match r with
  | RRep (RSet neg items) mn _ _ =>
      Nat.leb 2 mn && forallb (fun a => negb (set_mem PT neg items a) || isl a) A
  | _ => false
  end.

Definition base_A (A : list N) (r : rx) : bool := needs_out PT A r || two_letters A r.

Lemma p_out_false_In A c : p_out A c = false -> In c A.
Proof. unfold p_out. intros H. apply negb_false_iff in H. apply in_alpha_In. exact H. Qed.

Section TwoLetters.
Variable A : list N.
Variable f : N -> bool.
Hypothesis Hf : forall a, In a A -> f a = true -> isl a = true.

Lemma set_first st K : QI (QA A) st ->
  (forall c t, ms_rest st = c :: t -> isl c = true ->
     K (MS t (ms_pos st + utf8_width c)%N (Some c) (Nat.pred (ms_rem st)) (ms_caps st)) = None) ->
  m_set f st K = None.
Proof.
  intros (Hr & _ & _) HK. unfold m_set. destruct (ms_rest st) as [|c t] eqn:E; [reflexivity|].
  destruct (f c) eqn:Ef; [|reflexivity]. apply HK; [reflexivity|].
  apply nop_cons in Hr as [Hc _]. exact (Hf c (p_out_false_In _ _ Hc) Ef).
Qed.

Lemma set_second c t pos rem caps K : isl c = true -> nop (p_out A) (c :: t) -> noadj (c :: t) = true ->
  m_set f (MS t pos (Some c) rem caps) K = None.
Proof.
  intros Hc Hr Hn. unfold m_set. cbn [ms_rest]. destruct t as [|c2 t']; [reflexivity|].
  destruct (f c2) eqn:Ef; [|reflexivity].
  apply nop_cons in Hr as [_ Hr]. apply nop_cons in Hr as [Hc2 _].
  pose proof (Hf c2 (p_out_false_In _ _ Hc2) Ef) as Hl.
  cbn [noadj] in Hn. rewrite Hc, Hl in Hn. discriminate.
Qed.

Lemma rep2_fails mn mx g : (2 <= mn)%nat -> mfails (QI (QA A)) (m_rep (m_set f) mn mx g).
Proof.
  intros Hmn st k Hi. destruct mn as [|[|n]]; try lia. pose proof Hi as (Hr & _ & Hn).
  unfold m_rep. destruct mx as [mxn|].
  - cbn [m_exactly]. apply set_first; [exact Hi|]. intros c t E Hc. rewrite E in Hr, Hn.
    apply set_second; assumption.
  - cbn [m_exactly]. apply set_first; [exact Hi|]. intros c t E Hc. rewrite E in Hr, Hn.
    destruct n as [|n'].
    + cbn [m_exactly]. unfold m_eps, plus_fuel. cbn [m_plus]. apply set_second; assumption.
    + cbn [m_exactly]. apply set_second; assumption.
Qed.
End TwoLetters.

Lemma base_A_ok A r : base_A A r = true -> mfails (QI (QA A)) (compile PT r).
Proof.
  intros H. apply orb_true_iff in H as [H|H].
  - intros st k Hi. exact (needs_sound PT (p_out A) _ _ (chk_out_ok PT A) (wb_out_ok PT A) r H st k (QA_clean A st Hi)).
  - destruct r; try discriminate. destruct r; try discriminate. cbn [two_letters] in H.
    apply andb_true_iff in H as [Hm Hs]. apply Nat.leb_le in Hm. cbn [compile].
    apply rep2_fails; [|exact Hm]. intros a Ha Hfa. rewrite forallb_forall in Hs. specialize (Hs a Ha).
    rewrite Hfa in Hs. exact Hs.
Qed.

Definition fails_A (A : list N) : rx -> bool := fails_gen (base_A A).
Definition gsafe_A (A : list N) (bad : nat -> bool) : rx -> bool := gsafe_gen (base_A A) bad.

Definition text_ok (A : list N) (x : list N) : Prop := over A x /\ noadj x = true.

Lemma text_ok_QA A x : text_ok A x -> QA A x None.
Proof. intros [Ho Hn]. split; [apply over_nop; exact Ho|]. split; [exact Logic.I|exact Hn]. Qed.

Theorem fails_A_caps_iter A (c : cre) x : fails_A A (cre_rx c) = true -> text_ok A x -> caps_iter c x = [].
Proof.
  intros Hn Hx. unfold caps_iter.
  exact (fails_iter_nil PT (QA A) (QA_step A) (base_A A) (base_A_ok A) _ _ _ Hn (text_ok_QA A x Hx)).
Qed.

Theorem gsafe_A_caps_iter A bad (c : cre) x i :
  gsafe_A A bad (cre_rx c) = true -> text_ok A x -> bad i = true -> (1 <= i)%nat ->
  Forall (fun cp => cap_get cp i = None) (caps_iter c x).
Proof.
  intros Hg Hx Hb Hi. unfold caps_iter.
  pose proof (gsafe_iter_unset_gen PT (QA A) (QA_step A) (base_A A) (base_A_ok A) bad _ (cre_n c) _ Hg (text_ok_QA A x Hx)) as H.
  eapply Forall_impl; [|exact H]. intros cp Hu. unfold cap_get. destruct (Hu i Hb Hi) as [-> | ->]; reflexivity.
Qed.

(* ===================================================================================== *)
(* 2. Tables for the three one-letter alphabets                                            *)
(* ===================================================================================== *)
Definition DIGITS : list N := [48; 49; 50; 51; 52; 53; 54; 55; 56; 57]%N.
Definition AL (pl : N) : list N := DIGITS ++ [pl].                       (* the line's alphabet *)
Definition PLS : list N := [98; 111; 120]%N.                               (* b o x *)
Definition up (pl : N) : N := (pl - 32)%N.

Inductive bk := KB | KO | KX.                                              (* binary, octal, hexadecimal *)
Definition pl_of (k : bk) : N := match k with KB => 98 | KO => 111 | KX => 120 end%N.
Definition ty_of (k : bk) : numtype := match k with KB => Binary | KO => Octal | KX => Hexadecimal end.
Definition radix_of (k : bk) : Z := match k with KB => 2 | KO => 8 | KX => 16 end%Z.
Definition idx_of (k : bk) : nat := match k with KB => 2 | KO => 1 | KX => 0 end.
(* the digit characters accepted here: digits of the base that are decimal digits *)
Definition dig_ok (k : bk) (c : N) : bool :=
  match k with KB => (48 <=? c) && (c <=? 49) | KO => (48 <=? c) && (c <=? 55) | KX => (48 <=? c) && (c <=? 57) end%N.

Definition tz_quiet_A (A : list N) (c : cre) : bool :=
  forallb (fun name => match assoc name (cre_names c) with Some j => Nat.leb 1 j | None => true end) TZ_GROUPS
  && gsafe_A A (tz_bad c) (cre_rx c).

Definition QUIET_KEYS : list str :=
  map s ["comment"; "field"; "money"; "atom"; "percent"; "time"; "whitespace"; "operator"]%string.

(* everything that is decided by the analysis, for one alphabet *)
Definition based_table (k : bk) : bool :=
  let A := AL (pl_of k) in
  let AU := AL (up (pl_of k)) in
  forallb (fun kv => negb (mem_str (fst kv) QUIET_KEYS) || forallb (fun c => fails_A A (cre_rx c)) (snd kv)) g_parse
  && forallb (fun kv => negb (str_eqb (fst kv) KEY_TIMEZONE) || forallb (tz_quiet_A AU) (snd kv)) g_parse
  && forallb (fun lm => forallb (fun cm => needs_out PT A (cre_rx (fst cm))) (snd lm)) g_months
  && forallb (fun cs => needs_out PT A (cre_rx (fst cs))) g_alias
  && forallb (fun la => forallb (fun cs => needs_out PT A (cre_rx (fst cs))) (snd la)) g_lang_alias
  && forallb (fun i => Nat.eqb i (idx_of k) || fails_A A (cre_rx (nth i (cres_of "number") dummy_cre))) [0; 1; 2]%nat.

Theorem g_based_table : forall k, based_table k = true.
Proof. destruct k; vm_compute; reflexivity. Qed.

(* ===================================================================================== *)
(* 3. The regexes that DO match on the line, by induction over the matcher                 *)
(* ===================================================================================== *)
Section Matchers.
Local Open Scope N_scope.

Definition zf := set_mem PT false [CRange 48 48].
Definition lf := set_mem PT false [CLetter].
Definition pf (k : bk) : N -> bool :=
  match k with
  | KB => set_mem PT false [CRange 98 98; CRange 66 66]
  | KO => set_mem PT false [CRange 111 111; CRange 79 79]
  | KX => set_mem PT false [CRange 120 120; CRange 88 88]
  end.
Definition df (k : bk) : N -> bool :=
  match k with
  | KB => set_mem PT false [CRange 48 48; CRange 49 49]
  | KO => set_mem PT false [CRange 48 55]
  | KX => set_mem PT false [CRange 48 57; CRange 97 102; CRange 65 70]
  end.

Definition MB (k : bk) : matcher :=
  m_group 1 (m_cat (m_set zf) (m_cat (m_set (pf k)) (m_group 2 (m_rep (m_set (df k)) 1 None true)))).
Definition MT : matcher := m_group 1 (m_rep (m_set lf) 1 None true).

Definition OWN (k : bk) : cre := nth (idx_of k) (cres_of "number") dummy_cre.
Definition TXT : cre := nth 0 (cres_of "text") dummy_cre.

Lemma OWN_matcher k : compile PT (cre_rx (OWN k)) = MB k. Proof. destruct k; reflexivity. Qed.
Lemma TXT_matcher : compile PT (cre_rx TXT) = MT. Proof. reflexivity. Qed.

Definition line_of (k : bk) (ds : list N) : list N := 48 :: pl_of k :: ds.

Lemma dig_ok_facts k c : dig_ok k c = true -> digit c = true /\ df k c = true.
Proof.
  destruct k; unfold dig_ok, digit, df, set_mem; cbn [items_mem cls_mem]; intros H;
    apply andb_true_iff in H as [H1 H2]; apply N.leb_le in H1; apply N.leb_le in H2;
    repeat match goal with
    | |- context [?a <? ?b] => destruct (N.ltb_spec a b); try lia
    | |- context [?a <=? ?b] => destruct (N.leb_spec a b); try lia
    end; repeat split.
Qed.

Lemma dig_ok_all k ds : forallb (dig_ok k) ds = true -> forallb digit ds = true /\ forallb (df k) ds = true.
Proof.
  induction ds as [|d r IH]; intros H; [split; reflexivity|]. cbn [forallb] in *. apply andb_true_iff in H as [Hd Hr].
  destruct (dig_ok_facts k d Hd) as [A B]. destruct (IH Hr) as [A' B']. rewrite A, B, A', B'. split; reflexivity.
Qed.

Lemma digit_in_DIGITS c : digit c = true -> In c DIGITS.
Proof.
  unfold digit. intros H. apply andb_true_iff in H as [H1 H2]. apply N.leb_le in H1. apply N.leb_le in H2.
  assert (Hc : c = 48 \/ c = 49 \/ c = 50 \/ c = 51 \/ c = 52 \/ c = 53 \/ c = 54 \/ c = 55 \/ c = 56 \/ c = 57) by lia.
  unfold DIGITS. cbn [In]. intuition.
Qed.

(* a letter test is false on every decimal digit *)
Lemma digit_not f c : forallb (fun a => negb (f a)) DIGITS = true -> digit c = true -> f c = false.
Proof.
  intros H Hc. rewrite forallb_forall in H. specialize (H c (digit_in_DIGITS c Hc)). apply negb_true_iff in H. exact H.
Qed.

Lemma lf_digit c : digit c = true -> lf c = false.
Proof. apply digit_not. vm_compute. reflexivity. Qed.
Lemma letf_digit c : digit c = true -> letf c = false.
Proof. apply digit_not. vm_compute. reflexivity. Qed.

Lemma digits_reject f ds : (forall c, digit c = true -> f c = false) -> forallb digit ds = true ->
  forallb (fun c => negb (f c)) ds = true.
Proof.
  intros Hf. induction ds as [|d r IH]; intros H; [reflexivity|]. cbn [forallb] in *. apply andb_true_iff in H as [Hd Hr].
  rewrite (Hf d Hd), (IH Hr). reflexivity.
Qed.

Lemma stops_digits f ds : (forall c, digit c = true -> f c = false) -> forallb digit ds = true -> stops f ds.
Proof.
  intros Hf H. destruct ds as [|d r]; [exact Logic.I|]. cbn [forallb] in H. apply andb_true_iff in H as [Hd _].
  cbn. exact (Hf d Hd).
Qed.

Section OneLine.
Variable k : bk.
Variable ds : list N.
Hypothesis Hne : ds <> [].
Hypothesis Hok : forallb (dig_ok k) ds = true.

Let L := line_of k ds.
Let len := 2 + N.of_nat (length ds).

Lemma ds_digits : forallb digit ds = true. Proof. exact (proj1 (dig_ok_all k ds Hok)). Qed.
Lemma ds_ascii : forallb ascii ds = true. Proof. destruct (digits_all ds ds_digits) as (_ & H & _). exact H. Qed.

(* the regex of the own base: the whole line, digits in group 2 *)
Theorem caps_OWN : caps_iter (OWN k) L = [[Some (0, len); Some (0, len); Some (2, len)]].
Proof.
  destruct (dig_ok_all k ds Hok) as [Hd Hdf].
  unfold caps_iter, captures_iter_p. rewrite OWN_matcher. replace (cre_n (OWN k)) with 2%nat by (destruct k; reflexivity).
  destruct (advst_fields ds [] 2 (Some (pl_of k)) (length ds) [] ds_ascii) as (A & B & C & D).
  assert (E : MB k (MS L 0 None (length L) []) k_done
              = Some (pushcap 1 0 (pushcap 2 2 (advst [] 2 (Some (pl_of k)) (length ds) [] ds)))).
  { unfold MB, L, line_of. unfold m_group at 1. unfold m_cat. unfold m_set at 1. cbn [ms_rest ms_pos ms_prev ms_rem ms_caps length Nat.pred].
    change (zf 48) with true. cbv iota. unfold m_set at 1. cbn [ms_rest ms_pos ms_prev ms_rem ms_caps Nat.pred].
    replace (pf k (pl_of k)) with true by (destruct k; reflexivity).
    replace (0 + utf8_width 48 + utf8_width (pl_of k)) with 2 by (destruct k; reflexivity).
    unfold m_group at 1. cbn [ms_pos]. rewrite <- (app_nil_r ds) at 1.
    apply rep1_run; [exact Hne|exact Hdf|exact Logic.I|lia|]. reflexivity. }
  rewrite (iter_hit (MB k) 2 _ _ _ _ _ _ _ _ (search_hit _ _ _ _ _ _ E)).
  2:{ unfold pushcap. cbn [ms_pos]. rewrite B. lia. }
  unfold pushcap at 1 2 3 4 5. cbn [ms_rest ms_pos ms_prev ms_rem]. unfold render_caps at 1.
  cbn [ms_pos ms_caps pushcap seq map lookup_cap Nat.eqb]. rewrite A, B. fold len.
  f_equal. all: apply iter_none_any; cbn [search]; destruct k; reflexivity.
Qed.

(* the text regex: the prefix letter alone *)
Theorem caps_TXT : caps_iter TXT L = [[Some (1, 2); Some (1, 2)]].
Proof.
  unfold caps_iter, captures_iter_p. rewrite TXT_matcher. change (cre_n TXT) with 1%nat.
  assert (Hrej : rejects MT (fun c => negb (lf c))).
  { intros c t pos prev rem caps k0 H. apply negb_true_iff in H. unfold MT, m_group. apply rep1_stops. exact H. }
  assert (E : MT (MS (pl_of k :: ds) 1 (Some 48) (length (pl_of k :: ds)) []) k_done
              = Some (pushcap 1 1 (advst ds 1 (Some 48) (length (pl_of k :: ds)) [] [pl_of k]))).
  { unfold MT, m_group. cbn [ms_pos]. change (pl_of k :: ds) with ([pl_of k] ++ ds).
    apply rep1_run; [discriminate| |apply stops_digits; [exact lf_digit|exact ds_digits]|cbn [length]; lia|reflexivity].
    destruct k; reflexivity. }
  assert (S1 : search MT L 0 None (length L) = Some (1, pushcap 1 1 (advst ds 1 (Some 48) (length (pl_of k :: ds)) [] [pl_of k]))).
  { unfold L, line_of. rewrite search_skip1.
    - change (0 + utf8_width 48) with 1. apply search_hit. exact E.
    - apply Hrej. reflexivity. }
  rewrite (iter_hit MT 1 _ _ _ _ _ _ _ _ S1).
  2:{ unfold pushcap. cbn [ms_pos advst]. destruct k; discriminate. }
  unfold pushcap at 1 2 3 4 5. cbn [ms_rest ms_pos ms_prev ms_rem advst]. unfold render_caps at 1.
  cbn [ms_pos ms_caps pushcap seq map lookup_cap Nat.eqb advst].
  replace (1 + utf8_width (pl_of k)) with 2 by (destruct k; reflexivity).
  f_equal. apply iter_none_any. cbn [length Nat.pred].
  rewrite <- (app_nil_r ds) at 1 2.
  rewrite (search_skip_run MT _ Hrej ds [] _ _ (digits_reject lf ds lf_digit ds_digits) ds_ascii).
  reflexivity.
Qed.
End OneLine.
End Matchers.

Section DecOnLine.
Local Open Scope N_scope.
Variable k : bk.
Variable ds : list N.
Hypothesis Hne : ds <> [].
Hypothesis Hok : forallb (dig_ok k) ds = true.

Let L := line_of k ds.
Let len := 2 + N.of_nat (length ds).

(* the decimal regex: "0" with the prefix letter as notation, then the digits *)
Lemma MD_prefix :
  MD (MS L 0 None (length L) []) k_done
  = Some (MS ds 2 (Some (pl_of k)) (length ds) [(2%nat, (1, 2)); (1%nat, (0, 1))]).
Proof.
  pose proof (ds_digits k ds Hok) as Hd.
  unfold MD, m_cat, L, line_of. unfold m_group at 1. cbn [ms_pos].
  unfold m_rep at 1. cbn [Nat.sub m_exactly m_upto]. unfold m_eps. unfold m_set at 1. cbn [ms_rest].
  change (signf 48) with false. cbv iota.
  change (48 :: pl_of k :: ds) with ([48] ++ pl_of k :: ds).
  apply rep1_run; [discriminate|reflexivity|destruct k; reflexivity|cbn [length]; lia|].
  cbn [advst length Nat.pred]. change (0 + utf8_width 48) with 1.
  rewrite rep0_none by (destruct k; reflexivity).
  cbn [ms_rest ms_pos ms_prev ms_rem ms_caps].
  unfold m_rep at 1. cbn [Nat.sub m_exactly m_upto]. unfold m_eps. unfold m_group at 1. cbn [ms_pos].
  change (pl_of k :: ds) with ([pl_of k] ++ ds).
  erewrite rep1_run; [reflexivity|discriminate|destruct k; reflexivity|
                      apply stops_digits; [exact letf_digit|exact Hd]|cbn [length]; lia|].
  cbn [advst ms_rest ms_pos ms_prev ms_rem ms_caps length Nat.pred]. unfold k_done.
  replace (1 + utf8_width (pl_of k)) with 2 by (destruct k; reflexivity). reflexivity.
Qed.

Theorem caps_DEC_based :
  caps_iter DEC L = [[Some (0, 2); Some (0, 1); Some (1, 2)]; [Some (2, len); Some (2, len); None]].
Proof.
  pose proof (ds_digits k ds Hok) as Hd. pose proof (ds_ascii k ds Hok) as Ha.
  unfold caps_iter, captures_iter_p. rewrite DEC_matcher. change (cre_n DEC) with 2%nat.
  rewrite (iter_hit MD 2 _ _ _ _ _ _ _ _ (search_hit _ _ _ _ _ _ MD_prefix)) by (cbn [ms_pos]; discriminate).
  unfold render_caps at 1. cbn [ms_rest ms_pos ms_prev ms_rem ms_caps seq map lookup_cap Nat.eqb].
  f_equal.
  assert (E2 : MD (MS (ds ++ []) 2 (Some (pl_of k)) (length (ds ++ [])) []) k_done
               = Some (pushcap 1 2 (advst [] 2 (Some (pl_of k)) (length (ds ++ [])) [] ds))).
  { apply MD_hit; [exact Hne|exact Hd|exact Logic.I|rewrite app_length; lia]. }
  rewrite app_nil_r in E2.
  destruct (advst_fields ds [] 2 (Some (pl_of k)) (length ds) [] Ha) as (A & B & C & D).
  rewrite (iter_hit MD 2 _ _ _ _ _ _ _ _ (search_hit _ _ _ _ _ _ E2)).
  2:{ unfold pushcap. cbn [ms_pos]. rewrite B. destruct ds; [congruence|]. cbn [length]. lia. }
  unfold pushcap at 1 2 3 4 5. cbn [ms_rest ms_pos ms_prev ms_rem]. unfold render_caps at 1.
  cbn [ms_pos ms_caps pushcap seq map lookup_cap Nat.eqb]. rewrite A, B, C. fold len. cbn [lookup_cap].
  f_equal. all: apply iter_none_any; cbn [search]; rewrite MD_nil; reflexivity.
Qed.
End DecOnLine.

(* ===================================================================================== *)
(* 4. The lexer on the line                                                                *)
(* ===================================================================================== *)
Section BasedLexer.
Local Open Scope N_scope.
Variable today : Z.
Variable lang : str.
Variable k : bk.
Variable ds : list N.
Variable x : float.
Hypothesis Hne : ds <> [].
Hypothesis Hok : forallb (dig_ok k) ds = true.
Hypothesis Hx : from_radix (radix_of k) ds = Some x.       (* i64::from_str_radix succeeds: value < 2^63 *)

Notation cfg := default_config.
Notation tstate := (@Rules.tstate float).

Let pl := pl_of k.
Let L := line_of k ds.
Let len := 2 + N.of_nat (length ds).
Let tok := mk_tok 0 len (TNumber x (ty_of k)) L.

Lemma table_parts :
  (forall key res, assoc key g_parse = Some res -> In key QUIET_KEYS -> Forall (fun c => fails_A (AL pl) (cre_rx c) = true) res) /\
  (forall res, assoc KEY_TIMEZONE g_parse = Some res -> Forall (fun c => tz_quiet_A (AL (up pl)) c = true) res) /\
  (forall lg ms, assoc lg g_months = Some ms -> Forall (fun cm : cre * monthinfo => needs_out PT (AL pl) (cre_rx (fst cm)) = true) ms) /\
  forallb (fun cs : cre * str => needs_out PT (AL pl) (cre_rx (fst cs))) g_alias = true /\
  (forall lg al, assoc lg g_lang_alias = Some al -> forallb (fun cs : cre * str => needs_out PT (AL pl) (cre_rx (fst cs))) al = true) /\
  (forall i, In i [0; 1; 2]%nat -> i <> idx_of k -> fails_A (AL pl) (cre_rx (nth i (cres_of "number") dummy_cre)) = true).
Proof.
  pose proof (g_based_table k) as H. unfold based_table in H.
  apply andb_true_iff in H as [H H6']. apply andb_true_iff in H as [H H5']. apply andb_true_iff in H as [H H4'].
  apply andb_true_iff in H as [H H3']. apply andb_true_iff in H as [H1 H2].
  repeat split.
  - intros key res Ha Hk. rewrite forallb_forall in H1. specialize (H1 _ (assoc_In _ _ _ Ha)). cbn [fst snd] in H1.
    assert (Hm : mem_str key QUIET_KEYS = true).
    { clear -Hk. induction QUIET_KEYS as [|q r IH]; [destruct Hk|]. cbn [mem_str].
      destruct Hk as [->|Hk]; [rewrite str_eqb_refl; reflexivity|]. rewrite (IH Hk). apply orb_true_r. }
    rewrite Hm in H1. cbn [negb orb] in H1. rewrite forallb_forall in H1. apply Forall_forall. exact H1.
  - intros res Ha. rewrite forallb_forall in H2. specialize (H2 _ (assoc_In _ _ _ Ha)). cbn [fst snd] in H2.
    rewrite str_eqb_refl in H2. cbn [negb orb] in H2. rewrite forallb_forall in H2. apply Forall_forall. exact H2.
  - intros lg ms Ha. rewrite forallb_forall in H3'. specialize (H3' _ (assoc_In _ _ _ Ha)). cbn [snd] in H3'.
    rewrite forallb_forall in H3'. apply Forall_forall. exact H3'.
  - exact H4'.
  - intros lg al Ha. rewrite forallb_forall in H5'. exact (H5' _ (assoc_In _ _ _ Ha)).
  - intros i Hi Hne'. rewrite forallb_forall in H6'. specialize (H6' i Hi).
    apply orb_true_iff in H6' as [E|E]; [apply Nat.eqb_eq in E; congruence|exact E].
Qed.
(* --- the text and its case images --- *)
Lemma nonletters_noadj c t : forallb (fun a => negb (isl a)) t = true -> noadj (c :: t) = true.
Proof.
  revert c. induction t as [|d r IH]; intros c H; [reflexivity|]. cbn [forallb] in H. apply andb_true_iff in H as [Hd Hr].
  change (noadj (c :: d :: r)) with (negb (isl c && isl d) && noadj (d :: r))%bool.
  apply negb_true_iff in Hd. rewrite Hd, andb_false_r. cbn [negb andb]. exact (IH d Hr).
Qed.

Lemma ds_nonletters : forallb (fun a => negb (isl a)) ds = true.
Proof. apply digits_reject; [|exact (ds_digits k ds Hok)]. intros c. apply digit_not. vm_compute. reflexivity. Qed.

Lemma ds_over c : over (AL c) ds.
Proof.
  pose proof (ds_digits k ds Hok) as Hd. unfold over. rewrite forallb_forall in *. intros a Ha.
  apply in_alpha_In. unfold AL. apply in_or_app. left. apply digit_in_DIGITS. exact (Hd a Ha).
Qed.

Lemma line_ok c : isl 48 = false -> text_ok (AL c) (48 :: c :: ds).
Proof.
  intros _. split.
  - apply over_cons. split; [reflexivity|]. apply over_cons. split; [|apply ds_over].
    apply in_alpha_In. unfold AL. apply in_or_app. right. left. reflexivity.
  - cbn [noadj]. change (isl 48) with false. cbn [andb negb]. apply (nonletters_noadj c ds ds_nonletters).
Qed.

Lemma L_ok : text_ok (AL pl) L. Proof. apply line_ok. reflexivity. Qed.

Lemma ds_case : to_lowercase ds = ds /\ to_uppercase ds = ds.
Proof.
  assert (Hf : case_fixed DIGITS = true) by (vm_compute; reflexivity).
  assert (Ho : over DIGITS ds).
  { pose proof (ds_digits k ds Hok) as Hd. unfold over. rewrite forallb_forall in *. intros a Ha.
    apply in_alpha_In, digit_in_DIGITS. exact (Hd a Ha). }
  split; [exact (case_fixed_lower DIGITS ds Hf Ho)|exact (case_fixed_upper DIGITS ds Hf Ho)].
Qed.

Lemma L_lower : to_lowercase L = L.
Proof.
  unfold L, line_of, to_lowercase. cbn [flat_map]. fold (to_lowercase ds). rewrite (proj1 ds_case).
  destruct k; reflexivity.
Qed.

Lemma L_upper : to_uppercase L = 48 :: up pl :: ds.
Proof.
  unfold L, line_of, to_uppercase. cbn [flat_map]. fold (to_uppercase ds). rewrite (proj2 ds_case).
  unfold pl. destruct k; reflexivity.
Qed.

Lemma quiet_of_fails res data A : Forall (fun c => fails_A A (cre_rx c) = true) res -> text_ok A data -> Forall (quiet data) res.
Proof. intros H Hd. eapply Forall_impl; [|exact H]. intros c Hc. exact (fails_A_caps_iter A c data Hc Hd). Qed.

(* --- month parser --- *)
Lemma based_month (st : tstate) : month_parser LX cfg lang L st = Ok st.
Proof.
  destruct table_parts as (_ & _ & Hm & _). unfold month_parser. rewrite L_lower.
  destruct (assoc lang (lx_months LX)) as [months|] eqn:Ea; [|reflexivity].
  specialize (Hm _ _ Ea). clear Ea.
  assert (Hd : over (AL pl) (before_hash L)) by (apply over_before_hash; exact (proj1 L_ok)).
  induction Hm as [|[c mi] r Hc Hr IH]; [reflexivity|]. cbn [fst] in Hc.
  rewrite (needs_out_caps_iter (AL pl) c _ Hc Hd). cbn [over_captures bind]. exact IH.
Qed.

(* --- the parsers without any match, and the timezone parser --- *)
Lemma based_quiet key regexes (st : tstate) : In key QUIET_KEYS -> assoc key (lx_parse LX) = Some regexes ->
  run_parser today cfg lang L key regexes st = Ok st.
Proof.
  intros Hk Ha. destruct table_parts as (Hq & _). pose proof (quiet_of_fails _ L _ (Hq _ _ Ha Hk) L_ok) as Hqq.
  cbn [QUIET_KEYS map In] in Hk.
  destruct Hk as [<-|[<-|[<-|[<-|[<-|[<-|[<-|[<-|[]]]]]]]]].
  - change (over_regexes (comment_body (F:=float) L) L regexes st = Ok st). apply over_regexes_quiet, Hqq.
  - change (over_regexes (field_body cfg lang L) L regexes st = Ok st). apply over_regexes_quiet, Hqq.
  - change (over_regexes (money_body cfg L) L regexes st = Ok st). apply over_regexes_quiet, Hqq.
  - change (atom_parser today cfg L regexes st = Ok st). apply atom_parser_quiet, Hqq.
  - change (over_regexes (percent_body cfg L) L regexes st = Ok st). apply over_regexes_quiet, Hqq.
  - change (over_regexes (time_body today cfg L) L regexes st = Ok st). apply over_regexes_quiet, Hqq.
  - change (over_regexes (whitespace_body (F:=float) L) L regexes st = Ok st). apply over_regexes_quiet, Hqq.
  - change (over_regexes (operator_body (F:=float) L) L regexes st = Ok st). apply over_regexes_quiet, Hqq.
Qed.

Lemma based_timezone regexes (st : tstate) : assoc KEY_TIMEZONE (lx_parse LX) = Some regexes ->
  run_parser today cfg lang L KEY_TIMEZONE regexes st = Ok st.
Proof.
  intros Ha. destruct table_parts as (_ & Htz & _). specialize (Htz _ Ha).
  change (run_parser today cfg lang L KEY_TIMEZONE regexes st)
    with (over_regexes (timezone_body cfg L (to_uppercase L)) (to_uppercase L) regexes st).
  rewrite L_upper. apply over_regexes_id.
  assert (Hu : text_ok (AL (up pl)) (48 :: up pl :: ds)) by (apply line_ok; reflexivity).
  eapply Forall_impl; [|exact Htz]. intros c Hc. unfold tz_quiet_A in Hc.
  apply andb_true_iff in Hc as [Hpos Hg]. rewrite forallb_forall in Hpos.
  assert (Hname : forall name, In name TZ_GROUPS ->
            Forall (fun cp => match assoc name (cre_names c) with Some i => cap_get cp i | None => None end = None)
                   (caps_iter c (48 :: up pl :: ds))).
  { intros name Hin. specialize (Hpos name Hin). destruct (assoc name (cre_names c)) as [j|] eqn:Ej.
    - apply Nat.leb_le in Hpos.
      apply (gsafe_A_caps_iter (AL (up pl)) (tz_bad c)); [exact Hg|exact Hu| |exact Hpos].
      unfold tz_bad. apply existsb_exists. exists name. split; [exact Hin|]. rewrite Ej. apply Nat.eqb_refl.
    - apply Forall_forall. intros; reflexivity. }
  pose proof (Hname (s "timezone_1") (or_introl eq_refl)) as H1.
  pose proof (Hname (s "timezone_2") (or_intror (or_introl eq_refl))) as H2.
  unfold body_id. rewrite Forall_forall in *. intros cp Hcp st0.
  apply timezone_body_id; [exact (H1 cp Hcp)|exact (H2 cp Hcp)].
Qed.
End BasedLexer.

(* --- number parser and text parser --- *)
Definition nre (i : nat) : cre := nth i (cres_of "number") dummy_cre.
Definition pre_of (k : bk) : list cre := match k with KB => [nre 0; nre 1] | KO => [nre 0] | KX => [] end.
Definition post_of (k : bk) : list cre := match k with KB => [] | KO => [nre 2] | KX => [nre 1; nre 2] end.

Lemma number_split k : cres_of "number" = pre_of k ++ OWN k :: post_of k ++ [DEC].
Proof. destruct k; reflexivity. Qed.

Lemma pre_post_fail k c : In c (pre_of k ++ post_of k) -> fails_A (AL (pl_of k)) (cre_rx c) = true.
Proof. destruct k; cbn [pre_of post_of app In]; intros H; repeat destruct H as [<-|H]; try destruct H; vm_compute; reflexivity. Qed.

Ltac eval_names :=
  repeat match goal with
  | |- context [assoc (s ?a) (cre_names ?c)] =>
      let v := eval vm_compute in (assoc (s a) (cre_names c)) in change (assoc (s a) (cre_names c)) with v; cbv iota
  end.

Section NumberText.
Local Open Scope N_scope.
Notation cfg := default_config.
Notation tstate := (@Rules.tstate float).

Lemma add_collides (st : tstate) t0 len text0 b pe ty text :
  ts_infos st = [mk_tok 0 len t0 (F:=float) text0] -> b < len -> 0 < pe ->
  add_token st b pe ty text = (st, false).
Proof.
  intros Hi Hb Hp. unfold add_token, collides. rewrite Hi. cbn [existsb mk_tok ti_start ti_end].
  apply N.ltb_lt in Hb. apply N.ltb_lt in Hp. rewrite Hb, Hp. reflexivity.
Qed.

Lemma number_body_own k L ds x len (st : tstate) :
  slice L (2, len) = ds -> from_radix (radix_of k) ds = Some x -> ts_infos st = [] ->
  exists ui, number_body cfg L (OWN k) [Some (0, len); Some (0, len); Some (2, len)] st
             = Ok {| ts_infos := [mk_tok 0 len (TNumber x (ty_of k)) (slice L (0, len))]; ts_ui := ui |}.
Proof.
  intros Hs Hx Hi. destruct k; unfold number_body, cap_name; eval_names; unfold cap_get; cbn [nth_opt snd];
    rewrite Hs; cbn [radix_of] in Hx; rewrite Hx; unfold add_token, collides; rewrite Hi; cbn [existsb app];
    eexists; reflexivity.
Qed.

Lemma read_zero : read_decimal cfg [48] = Some 0%float.
Proof. vm_compute. reflexivity. Qed.

Lemma number_body_dec1 k ds t0 len text (st : tstate) :
  ts_infos st = [mk_tok 0 len t0 text] -> 0 < len ->
  number_body cfg (line_of k ds) DEC [Some (0, 2); Some (0, 1); Some (1, 2)] st = Ok st.
Proof.
  intros Hi Hl. unfold number_body, cap_name. eval_names. unfold cap_get. cbn [nth_opt snd].
  change (slice (line_of k ds) (0, 1)) with [48]. rewrite read_zero.
  match goal with |- context [if ?c then 1 else 2] => destruct c end;
    rewrite (add_collides st t0 len text 0 _ _ _ Hi Hl) by lia; reflexivity.
Qed.

Lemma number_body_dec2 k ds t0 len text (st : tstate) :
  ts_infos st = [mk_tok 0 len t0 text] -> 2 < len ->
  number_body cfg (line_of k ds) DEC [Some (2, len); Some (2, len); None] st = Ok st.
Proof.
  intros Hi Hl. unfold number_body, cap_name. eval_names. unfold cap_get. cbn [nth_opt snd].
  destruct (read_decimal cfg (slice (line_of k ds) (2, len))); [|reflexivity].
  rewrite (add_collides st t0 len text 2 _ _ _ Hi Hl) by lia. reflexivity.
Qed.

Lemma text_body_collides today lang L b e t0 len text (st : tstate) :
  ts_infos st = [mk_tok 0 len t0 text] -> b < len -> 0 < e ->
  text_body today cfg lang L TXT [Some (b, e); Some (b, e)] st = Ok st.
Proof.
  intros Hi Hb He. unfold text_body, cap_name. eval_names. unfold cap_get. cbn [nth_opt need bind].
  match goal with |- context [match trim ?t with _ => _ end] => destruct (trim t) end; [reflexivity|].
  match goal with |- context [match assoc ?a ?b with _ => _ end] => destruct (assoc a b) as [[]|] end;
    rewrite ?(add_collides st t0 len text b _ _ _ Hi Hb He); reflexivity.
Qed.
End NumberText.

Section Assembly.
Local Open Scope N_scope.
Variable today : Z.
Variable lang : str.
Variable k : bk.
Variable ds : list N.
Variable x : float.
Hypothesis Hne : ds <> [].
Hypothesis Hok : forallb (dig_ok k) ds = true.
Hypothesis Hx : from_radix (radix_of k) ds = Some x.

Notation cfg := default_config.
Notation tstate := (@Rules.tstate float).

Notation L := (line_of k ds).
Let len := 2 + N.of_nat (length ds).
Let tok := mk_tok 0 len (TNumber x (ty_of k)) L.

Lemma L_ascii : forallb ascii L = true.
Proof. unfold line_of. cbn [forallb]. rewrite (ds_ascii k ds Hok). destruct k; reflexivity. Qed.

Lemma L_len : N.of_nat (length L) = len.
Proof. unfold line_of, len. cbn [length]. lia. Qed.

Lemma slice_whole : slice L (0, len) = L.
Proof.
  pose proof (slice_mid [] L [] eq_refl L_ascii) as H. cbn [length app N.of_nat] in H.
  rewrite app_nil_r, N.add_0_l, L_len in H. exact H.
Qed.

Lemma slice_digits : slice L (2, len) = ds.
Proof.
  assert (Hp : forallb ascii [48; pl_of k] = true) by (destruct k; reflexivity).
  specialize (slice_mid [48; pl_of k] ds [] Hp (ds_ascii k ds Hok)) as H'. cbn [length app] in H'.
  rewrite app_nil_r in H'. exact H'.
Qed.

Lemma number_parser_based :
  exists ui, over_regexes (number_body cfg L) L (cres_of "number") empty_state = Ok {| ts_infos := [tok]; ts_ui := ui |}.
Proof.
  assert (Hq : Forall (quiet L) (pre_of k) /\ Forall (quiet L) (post_of k)).
  { split; apply Forall_forall; intros c Hc; apply (fails_A_caps_iter (AL (pl_of k)));
      try (apply pre_post_fail; apply in_or_app; auto); exact (L_ok k ds Hok). }
  destruct Hq as [Hpre Hpost].
  rewrite (number_split k), over_regexes_app, (over_regexes_quiet _ _ _ _ Hpre). cbn [bind over_regexes].
  pose proof (caps_OWN k ds Hne Hok) as HC1. cbv zeta in HC1. fold len in HC1. rewrite HC1. cbn [over_captures].
  destruct (number_body_own k L ds x len empty_state slice_digits Hx eq_refl) as (ui & E).
  rewrite E. cbn [bind]. rewrite slice_whole. fold tok.
  rewrite over_regexes_app, (over_regexes_quiet _ _ _ _ Hpost). cbn [bind over_regexes].
  pose proof (caps_DEC_based k ds Hne Hok) as HC2. cbv zeta in HC2. fold len in HC2. rewrite HC2. cbn [over_captures].
  assert (Hl : 2 < len) by (unfold len; destruct ds; [congruence|cbn [length]; lia]).
  assert (Hl0 : 0 < len) by lia.
  pose proof (number_body_dec1 k ds (TNumber x (ty_of k)) len L {| ts_infos := [tok]; ts_ui := ui |} eq_refl Hl0) as D1.
  pose proof (number_body_dec2 k ds (TNumber x (ty_of k)) len L {| ts_infos := [tok]; ts_ui := ui |} eq_refl Hl) as D2.
  rewrite D1. cbn [bind]. rewrite D2. cbn [bind]. exists ui. reflexivity.
Qed.

Definition is_quiet_key (key : str) : bool := mem_str key (KEY_TIMEZONE :: QUIET_KEYS).

Lemma run_keys_based : forall keys (st : tstate),
  run_keys LX today cfg lang L keys st = run_keys LX today cfg lang L (filter (fun q => negb (is_quiet_key q)) keys) st.
Proof.
  induction keys as [|q r IH]; intros st; [reflexivity|]. cbn [filter run_keys].
  destruct (is_quiet_key q) eqn:E; cbn [negb].
  - destruct (assoc q (lx_parse LX)) as [regexes|] eqn:Ea; [|apply IH].
    apply mem_str_In in E. destruct E as [<-|E].
    + rewrite (based_timezone today lang k ds x Hok Hx regexes st Ea). cbn [bind]. apply IH.
    + rewrite (based_quiet today lang k ds Hok q regexes st E Ea). cbn [bind]. apply IH.
  - cbn [run_keys]. destruct (assoc q (lx_parse LX)) as [regexes|]; [|apply IH].
    destruct (run_parser today cfg lang L q regexes st); cbn [bind]; [apply IH|reflexivity].
Qed.

Example remaining_based : filter (fun q => negb (is_quiet_key q)) PARSER_ORDER = [s "number"; s "text"].
Proof. vm_compute. reflexivity. Qed.

Theorem based_regex_tokinizer :
  exists ui, regex_tokinizer LX today cfg lang L empty_state = Ok {| ts_infos := [tok]; ts_ui := ui |}.
Proof.
  rewrite regex_tokinizer_run_keys, run_keys_based, remaining_based. cbn [run_keys].
  change (assoc (s "number") (lx_parse LX)) with (Some (cres_of "number")).
  change (assoc (s "text") (lx_parse LX)) with (Some [TXT]). cbv iota.
  change (run_parser today cfg lang L (s "number") (cres_of "number") empty_state)
    with (over_regexes (number_body cfg L) L (cres_of "number") empty_state).
  destruct number_parser_based as (ui & E). rewrite E. cbn [bind].
  match goal with |- context [run_parser today cfg lang L (s "text") [TXT] ?st] =>
    change (run_parser today cfg lang L (s "text") [TXT] st) with (over_regexes (text_body today cfg lang L) L [TXT] st) end.
  cbn [over_regexes]. pose proof (caps_TXT k ds Hok) as HC3. cbv zeta in HC3. rewrite HC3. cbn [over_captures].
  assert (Hl : 1 < len) by (unfold len; lia).
  rewrite (text_body_collides today lang L 1 2 (TNumber x (ty_of k)) len L {| ts_infos := [tok]; ts_ui := ui |} eq_refl Hl) by lia. cbn [bind].
  exists ui. reflexivity.
Qed.

Lemma alias_apply_based aliases (t : token_info float) :
  forallb (fun cs : cre * str => needs_out PT (AL (pl_of k)) (cre_rx (fst cs))) aliases = true ->
  ti_text t = L -> alias_apply LX today cfg aliases t = Ok t.
Proof.
  intros Ha Ht. rewrite forallb_forall in Ha.
  induction aliases as [|[c data] r IH]; [reflexivity|]. cbn [alias_apply]. rewrite Ht, (L_lower k ds x Hok Hx).
  rewrite (needs_out_no_match (AL (pl_of k)) c L (Ha (c, data) (or_introl eq_refl)) (proj1 (L_ok k ds Hok))).
  apply IH. intros y Hy. apply Ha. right. exact Hy.
Qed.

Theorem based_lexed :
  exists ui,
    (do st1 <- language_tokinizer LX cfg lang L empty_state;
     do st2 <- regex_tokinizer LX today cfg lang L st1;
     alias_tokinizer LX today cfg lang st2) = Ok {| ts_infos := [tok]; ts_ui := ui |}.
Proof.
  unfold language_tokinizer. rewrite (based_month lang k ds x Hok Hx empty_state). cbn [bind].
  change (cleanup (F:=float) empty_state) with (empty_state (F:=float)).
  destruct based_regex_tokinizer as (ui & E). rewrite E. cbn [bind]. exists ui.
  destruct (table_parts k) as (_ & _ & _ & Ha & Hla & _).
  unfold alias_tokinizer. change (lx_alias LX) with g_alias. change (lx_lang_alias LX) with g_lang_alias.
  cbn [ts_infos mapM]. rewrite (alias_apply_based _ tok Ha eq_refl). cbn [bind].
  destruct (assoc lang g_lang_alias) as [al|] eqn:El; [|reflexivity].
  cbn [mapM]. rewrite (alias_apply_based _ tok (Hla _ _ El) eq_refl). reflexivity.
Qed.
End Assembly.

(* ===================================================================================== *)
(* 5. Rewriting stages, parser, interpreter, printing; SmartCalc::execute                   *)
(* ===================================================================================== *)
Section OneToken.
Variable bexec : config float -> str -> res (option float).
Variable ny : Z.
Variable line : str.
Variables b e : N.
Variable txt : str.
Variable x : float.
Variable ui : list uitoken.

Definition one (k : bk) : list (token_info float) := [mk_tok b e (TNumber x (ty_of k)) txt].

Lemma subst_one k :
  update_token_variables line [] {| ts_infos := one k; ts_ui := ui |} = Ok (Some {| ts_infos := one k; ts_ui := ui_sort ui |}).
Proof. destruct k; vm_compute; reflexivity. Qed.

Lemma dyn_one k ui' :
  dyn_loop (loop_fuel {| ts_infos := one k; ts_ui := ui' |}) line default_config [] {| ts_infos := one k; ts_ui := ui' |}
  = Ok (Some {| ts_infos := one k; ts_ui := ui' |}).
Proof. destruct k; vm_compute; reflexivity. Qed.

Lemma rule_one k ui' lang :
  rule_tokinizer bexec ny (loop_fuel {| ts_infos := one k; ts_ui := ui' |}) line default_config lang []
                 {| ts_infos := one k; ts_ui := ui' |}
  = Ok (Some {| ts_infos := one k; ts_ui := ui' |}).
Proof.
  destruct (assoc lang (cf_rules default_config)) as [rules|] eqn:E.
  - apply assoc_In in E. apply (in_map fst) in E. cbn [fst] in E. vm_compute in E.
    destruct E as [<-|[<-|[]]]; destruct k; vm_compute; reflexivity.
  - unfold rule_tokinizer, Config.lang_rules. rewrite E. reflexivity.
Qed.

Lemma parse_exec_one k :
  parse (missing_token_adder (token_cleaner (one k) (token_generator (one k)))) []
    = (PAst (AItem (INumber x (ty_of k))), []) /\
  execute_ast bexec default_config [] (AItem (INumber x (ty_of k))) = Ok (IOk (AItem (INumber x (ty_of k))), []).
Proof. destruct k; split; vm_compute; reflexivity. Qed.
End OneToken.

(* NumberItem::print of a based number (Format.item_print; see C13 print_based for the digits) *)
Definition based_text (k : bk) (x : float) : str :=
  match k with
  | KB => fmt_radix_i64 (s "0b") false 2 (as_i64 x)
  | KO => fmt_radix_i64 (s "0o") false 8 (as_i64 x)
  | KX => fmt_radix_i64 (s "0x") true 16 (as_i64 x)
  end.

Lemma format_based cfg lang ny k x : format_result cfg lang ny (AItem (INumber x (ty_of k))) = Ok (based_text k x).
Proof. destruct k; reflexivity. Qed.

Section BasedEndToEnd.
Local Open Scope N_scope.
Variable ck : clock.
Variable lang : str.
Variable k : bk.
Variable ds : list N.
Variable x : float.
Hypothesis Hne : ds <> [].
Hypothesis Hok : forallb (dig_ok k) ds = true.
Hypothesis Hx : from_radix (radix_of k) ds = Some x.

Notation L := (line_of k ds).
Let len := 2 + N.of_nat (length ds).

(* C13 end to end: the based literal evaluates to the number read in its base, keeps its number type, and prints *)
Theorem based_execute_text :
  exists ui,
    execute_text LX ck default_config lang [] L
    = Ok (Some {| lo_result := LOk (based_text k x) (AItem (INumber x (ty_of k)));
                  lo_ui := ui; lo_tokens := [TNumber x (ty_of k)];
                  lo_infos := [mk_tok 0 len (TNumber x (ty_of k)) L] |}, []).
Proof.
  destruct (based_lexed (ck_today ck) lang k ds x Hne Hok Hx) as (ui & E). exists (ui_sort ui).
  unfold execute_text. unfold line_of at 1. cbv iota. unfold tokinize.
  destruct (language_tokinizer LX default_config lang L empty_state) as [st1|]; cbn [bind] in E |- *; [|discriminate].
  destruct (regex_tokinizer LX (ck_today ck) default_config lang L st1) as [st2|]; cbn [bind] in E |- *; [|discriminate].
  rewrite E. cbn [bind]. fold len.
  change [mk_tok 0 len (TNumber x (ty_of k)) L] with (one 0 len L x k).
  rewrite subst_one. cbn [unfuel bind]. rewrite dyn_one. cbn [unfuel bind].
  rewrite (rule_one (basic_execute LX ck) (ck_year ck)). cbn [unfuel bind ts_infos ts_ui].
  destruct (parse_exec_one (basic_execute LX ck) 0 len L x k) as [Hp He].
  unfold one at 1. cbv iota. rewrite Hp, He. cbn [bind]. rewrite format_based.
  destruct k; reflexivity.
Qed.

Theorem based_execute :
  exists obs,
    execute LX ck default_config lang L = Ok {| er_status := true; er_lines := [Some obs] |} /\
    lo_result obs = LOk (based_text k x) (AItem (INumber x (ty_of k))) /\
    lo_tokens obs = [TNumber x (ty_of k)].
Proof.
  destruct based_execute_text as (ui & E). eexists. split; [|split].
  - rewrite execute_spec.
    assert (Hs : split_lines L [] = [L]).
    { assert (G : forall y cur, forallb digit y = true -> split_lines y cur = [rev cur ++ y]).
      { induction y as [|c r IH]; intros cur Hy; [cbn; rewrite app_nil_r; reflexivity|].
        cbn [forallb] in Hy. apply andb_true_iff in Hy as [Hc Hr].
        assert (Ec : split_lines (c :: r) cur = split_lines r (c :: cur)).
        { pose proof (digit_in_DIGITS c Hc) as Hin. unfold DIGITS in Hin. cbn [In] in Hin.
          repeat (destruct Hin as [<-|Hin]; [reflexivity|]). destruct Hin. }
        rewrite Ec, (IH (c :: cur) Hr). cbn [rev]. rewrite <- app_assoc. reflexivity. }
      unfold line_of.
      assert (E2 : split_lines (48 :: pl_of k :: ds) [] = split_lines ds [pl_of k; 48]) by (destruct k; reflexivity).
      rewrite E2, (G ds _ (ds_digits k ds Hok)). reflexivity. }
    rewrite Hs. cbn [eval_lines]. rewrite E. reflexivity.
  - reflexivity.
  - reflexivity.
Qed.
End BasedEndToEnd.

(* non-vacuity: 0b1011 = 11 -> "0b1011", 0o777 = 511 -> "0o777", 0x2024 = 8228 -> "0x2024" *)
Local Open Scope float_scope.
Example based_instances ck :
  (exists obs, execute LX ck default_config (s "en") (s "0b1011") = Ok {| er_status := true; er_lines := [Some obs] |}
               /\ lo_result obs = LOk (s "0b1011") (AItem (INumber 11 Binary))) /\
  (exists obs, execute LX ck default_config (s "tr") (s "0o777") = Ok {| er_status := true; er_lines := [Some obs] |}
               /\ lo_result obs = LOk (s "0o777") (AItem (INumber 511 Octal))) /\
  (exists obs, execute LX ck default_config (s "en") (s "0x2024") = Ok {| er_status := true; er_lines := [Some obs] |}
               /\ lo_result obs = LOk (s "0x2024") (AItem (INumber 8228 Hexadecimal))).
Proof.
  assert (R1 : from_radix (radix_of KB) (s "1011") = Some 11) by (vm_compute; reflexivity).
  assert (R2 : from_radix (radix_of KO) (s "777") = Some 511) by (vm_compute; reflexivity).
  assert (R3 : from_radix (radix_of KX) (s "2024") = Some 8228) by (vm_compute; reflexivity).
  repeat split.
  - destruct (based_execute ck (s "en") KB (s "1011") 11 ltac:(discriminate) eq_refl R1) as (obs & E & R & _).
    exists obs. split; [exact E|]. rewrite R. vm_compute. reflexivity.
  - destruct (based_execute ck (s "tr") KO (s "777") 511 ltac:(discriminate) eq_refl R2) as (obs & E & R & _).
    exists obs. split; [exact E|]. rewrite R. vm_compute. reflexivity.
  - destruct (based_execute ck (s "en") KX (s "2024") 8228 ltac:(discriminate) eq_refl R3) as (obs & E & R & _).
    exists obs. split; [exact E|]. rewrite R. vm_compute. reflexivity.
Qed.

Print Assumptions fails_sound.
Print Assumptions fails_A_caps_iter.
Print Assumptions gsafe_A_caps_iter.
Print Assumptions g_based_table.
Print Assumptions caps_OWN.
Print Assumptions caps_TXT.
Print Assumptions caps_DEC_based.
Print Assumptions based_regex_tokinizer.
Print Assumptions based_lexed.
Print Assumptions based_execute_text.
Print Assumptions based_execute.
Print Assumptions based_instances.
