(* SC.Proofs.RegexNeeds — a sound syntactic analysis of the regex AST, proved once against the
   backtracking matcher of SC.Model.Regex, and what it gives for the lexer on UNBOUNDED inputs.

   1. needs_gen / needs / needs_out
        "every match of r passes over a character satisfying p"; soundness: on a text without
        a p-character the regex has no match at all (search, captures_at_p, captures_iter_p,
        is_match_p, Rx.caps_iter).
      gsafe / caps_iter_nobad
        "group i can only be set by passing over a p-character": on a text without a
        p-character every reported match leaves the groups of [bad] unset.
   2. finite tables over the regenerated regexes (Gen/Regexes.v), by vm_compute, lifted with
      forallb_forall: they re-run when config.json changes.
   3. lexer theorems for every Num F, configuration, language, text length:
        blank lines produce no token; the parsers comment, field, money, atom, percent,
        timezone, time, text are silent on lines over the arithmetic alphabet; alias_tokinizer is the
        identity on such token texts.
   4. the positive direction for the shape  digits blanks op blanks digits  (any lengths): the decimal, whitespace
      and operator regexes are run by induction over the matcher (technique of C05 `spellings`) and
      Lexer.token_infos is exactly [TNumber; TOperator; TNumber].

   Findings recorded as Examples: a tab is lexed as an operator (tab_is_an_operator); the timezone regex matches
   the empty string at every word boundary (timezone_matches_on_digits), so its silence on arithmetic text is a
   statement about its name groups (gsafe), not about caps_iter = []; the third time regex has no ':' (table C);
   a sign directly before digits joins the literal (sign_joins_the_literal).

   No axioms. *)
From Coq Require Import List NArith ZArith Bool Arith Lia.
From SC.Model Require Import Base Num Types Config Case Chrono UiTokens Regex Rx Match Post Parser Items Interp
     RuleFns Rules Format Lexer Api.
From SC.Gen Require Import RustConsts Regexes.
Require Import SC.Proofs.RegexLemmas.
Import ListNotations.

(* ===================================================================================== *)
(* 1. The analysis and its soundness                                                      *)
(* ===================================================================================== *)

(* ---- continuation-passing invariants, for any state invariant I ---- *)
Section Keeps.
Variable I : mstate -> Prop.

(* a successful run of m from an I-state is a successful run of its continuation on an I-state *)
Definition keeps (m : matcher) : Prop :=
  forall st k res, I st -> m st k = Some res -> exists st', I st' /\ k st' = Some res.

(* m has no successful run from an I-state *)
Definition mfails (m : matcher) : Prop := forall st k, I st -> m st k = None.

Lemma mfails_keeps m : mfails m -> keeps m.
Proof. intros Hf st k res Hi H. rewrite (Hf st k Hi) in H. discriminate. Qed.

Lemma keeps_eps : keeps m_eps.
Proof. intros st k res Hi H. exists st. split; assumption. Qed.

Lemma keeps_assert f : keeps (m_assert f).
Proof.
  intros st k res Hi H. unfold m_assert in H. destruct (f st); [|discriminate].
  exists st. split; assumption.
Qed.

Definition step_closed : Prop :=
  forall c t pos prev rem caps,
    I (MS (c :: t) pos prev rem caps) -> I (MS t (pos + utf8_width c)%N (Some c) (Nat.pred rem) caps).

Lemma keeps_set f : step_closed -> keeps (m_set f).
Proof.
  intros Hs st k res Hi H. unfold m_set in H. destruct st as [rest pos prev rem caps]. cbn in H.
  destruct rest as [|c t]; [discriminate|]. destruct (f c); [|discriminate].
  eexists. split; [|exact H]. exact (Hs _ _ _ _ _ _ Hi).
Qed.

Lemma keeps_cat ma mb : keeps ma -> keeps mb -> keeps (m_cat ma mb).
Proof.
  intros Ha Hb st k res Hi H. unfold m_cat in H.
  destruct (Ha _ _ _ Hi H) as (st1 & Hi1 & H1). exact (Hb _ _ _ Hi1 H1).
Qed.

Lemma keeps_alt ma mb : keeps ma -> keeps mb -> keeps (m_alt ma mb).
Proof.
  intros Ha Hb st k res Hi H. unfold m_alt in H. destruct (ma st k) as [r|] eqn:E.
  - inversion H; subst. exact (Ha _ _ _ Hi E).
  - exact (Hb _ _ _ Hi H).
Qed.

Definition cap_closed (idx : nat) : Prop :=
  forall st p0, I st ->
    I (MS (ms_rest st) (ms_pos st) (ms_prev st) (ms_rem st) ((idx, (p0, ms_pos st)) :: ms_caps st)).

Lemma keeps_group idx mr : cap_closed idx -> keeps mr -> keeps (m_group idx mr).
Proof.
  intros Hc Hr st k res Hi H. unfold m_group in H.
  destruct (Hr _ _ _ Hi H) as (st1 & Hi1 & H1). eexists. split; [|exact H1]. exact (Hc _ _ Hi1).
Qed.

Lemma keeps_exactly mr n : keeps mr -> keeps (m_exactly mr n).
Proof.
  intros Hr. induction n as [|n IH]; cbn [m_exactly]; [apply keeps_eps|].
  intros st k res Hi H. destruct (Hr _ _ _ Hi H) as (st1 & Hi1 & H1). exact (IH _ _ _ Hi1 H1).
Qed.

Lemma keeps_upto mr g d : keeps mr -> keeps (m_upto mr g d).
Proof.
  intros Hr. induction d as [|d IH]; cbn [m_upto]; [apply keeps_eps|].
  assert (Htake : forall st k res, I st -> mr st (fun st' => m_upto mr g d st' k) = Some res ->
                    exists st', I st' /\ k st' = Some res).
  { intros st k res Hi H. destruct (Hr _ _ _ Hi H) as (st1 & Hi1 & H1). exact (IH _ _ _ Hi1 H1). }
  destruct g; intros st k res Hi H.
  - destruct (mr st (fun st' => m_upto mr true d st' k)) as [r|] eqn:E.
    + inversion H; subst. exact (Htake _ _ _ Hi E).
    + exists st. split; assumption.
  - destruct (k st) as [r|] eqn:E.
    + inversion H; subst. exists st. split; assumption.
    + exact (Htake _ _ _ Hi H).
Qed.

Lemma keeps_plus mr g : keeps mr -> forall fuel first, keeps (m_plus mr g fuel first).
Proof.
  intros Hr fuel. induction fuel as [|f IH]; intros first st k res Hi H; cbn [m_plus] in H; [discriminate|].
  destruct (Hr _ _ _ Hi H) as (st1 & Hi1 & H1). clear H. cbv beta in H1.
  destruct (ms_pos st1 =? ms_pos st)%N.
  - destruct first; [|discriminate]. exists st1. split; assumption.
  - destruct g.
    + destruct (m_plus mr true f false st1 k) as [r|] eqn:E.
      * inversion H1; subst. exact (IH _ _ _ _ Hi1 E).
      * exists st1. split; assumption.
    + destruct (k st1) as [r|] eqn:E.
      * inversion H1; subst. exists st1. split; assumption.
      * exact (IH _ _ _ _ Hi1 H1).
Qed.

Lemma keeps_rep mr mn mx g : keeps mr -> keeps (m_rep mr mn mx g).
Proof.
  intros Hr. unfold m_rep. destruct mx as [mxn|].
  - intros st k res Hi H.
    destruct (keeps_exactly mr mn Hr _ _ _ Hi H) as (st1 & Hi1 & H1).
    exact (keeps_upto mr g (mxn - mn) Hr _ _ _ Hi1 H1).
  - destruct mn as [|mn'].
    + destruct g; intros st k res Hi H.
      * destruct (m_plus mr true (plus_fuel st) true st k) as [r|] eqn:E.
        -- inversion H; subst. exact (keeps_plus mr true Hr _ _ _ _ _ Hi E).
        -- exists st. split; assumption.
      * destruct (k st) as [r|] eqn:E.
        -- inversion H; subst. exists st. split; assumption.
        -- exact (keeps_plus mr false Hr _ _ _ _ _ Hi H).
    + intros st k res Hi H.
      destruct (keeps_exactly mr mn' Hr _ _ _ Hi H) as (st1 & Hi1 & H1).
      exact (keeps_plus mr g Hr _ _ _ _ _ Hi1 H1).
Qed.

(* a repetition with min >= 1 of a failing body fails *)
Lemma mfails_rep mr mn mx g : keeps mr -> mfails mr -> (1 <= mn)%nat -> mfails (m_rep mr mn mx g).
Proof.
  intros Hk Hf Hmn st k Hi. unfold m_rep. destruct mx as [mxn|].
  - destruct mn as [|n]; [lia|]. cbn [m_exactly]. apply Hf. exact Hi.
  - destruct mn as [|mn']; [lia|].
    destruct (m_exactly mr mn' st (fun st' => m_plus mr g (plus_fuel st') true st' k)) as [r|] eqn:E; [|reflexivity].
    destruct (keeps_exactly mr mn' Hk _ _ _ Hi E) as (st1 & Hi1 & H1).
    unfold plus_fuel in H1. cbn [m_plus] in H1. rewrite (Hf _ _ Hi1) in H1. discriminate.
Qed.

End Keeps.

(* ---- the analysis ---- *)
Section Needs.
Variable pt : ptables.
Variable p : N -> bool.                       (* the characters a match must pass over *)
Variable chk : bool -> list cls -> bool.      (* decides "every member of the set satisfies p" *)
Variable wb : bool.                           (* "every word character satisfies p" *)

Hypothesis chk_ok : forall neg items c, chk neg items = true -> set_mem pt neg items c = true -> p c = true.
Hypothesis wb_ok : wb = true -> forall c, is_word pt c = true -> p c = true.

(* needs_gen r = true: every match of r consumes a p-character or stands next to one.
   A word boundary [\b] has a word character on one side, so with [wb] it counts. *)
Fixpoint needs_gen (r : rx) : bool :=
  match r with
  | REps => false
  | RSet neg items => chk neg items
  | RCat a b => needs_gen a || needs_gen b
  | RAlt a b => needs_gen a && needs_gen b
  | RRep r' mn _ _ => Nat.leb 1 mn && needs_gen r'
  | RGroup _ r' => needs_gen r'
  | RWordB => wb
  | RNotWordB | RStart | REnd => false
  end.

Definition nop (x : list N) : Prop := forallb (fun c => negb (p c)) x = true.

(* a position inside a text without p-characters *)
Definition clean (st : mstate) : Prop :=
  nop (ms_rest st) /\ match ms_prev st with Some c => p c = false | None => True end.

Lemma nop_cons c t : nop (c :: t) -> p c = false /\ nop t.
Proof.
  unfold nop. cbn [forallb]. intros H. apply andb_true_iff in H as [H1 H2].
  split; [apply negb_true_iff; exact H1|exact H2].
Qed.

Lemma nop_app a b : nop (a ++ b) <-> nop a /\ nop b.
Proof. unfold nop. rewrite forallb_app, andb_true_iff. reflexivity. Qed.

Lemma clean_step : step_closed clean.
Proof.
  intros c t pos prev rem caps [Hr _]. cbn in Hr. apply nop_cons in Hr as [Hc Ht]. split; cbn; assumption.
Qed.

Lemma clean_cap idx : cap_closed clean idx.
Proof. intros st p0 [H1 H2]. split; cbn; assumption. Qed.

Lemma compile_keeps_clean r : keeps clean (compile pt r).
Proof.
  induction r; cbn [compile].
  - apply keeps_eps.
  - apply keeps_set, clean_step.
  - apply keeps_cat; assumption.
  - apply keeps_alt; assumption.
  - apply keeps_rep; assumption.
  - apply keeps_group; [apply clean_cap|assumption].
  - apply keeps_assert.
  - apply keeps_assert.
  - apply keeps_assert.
  - apply keeps_assert.
Qed.

(* SOUNDNESS against the matcher: from a position of a text without p-characters a regex
   that needs one has no successful run, whatever the continuation *)
Theorem needs_sound r : needs_gen r = true -> mfails clean (compile pt r).
Proof.
  induction r; cbn [needs_gen compile]; intros Hn st k Hi; try discriminate.
  - (* RSet *)
    unfold m_set. destruct st as [rest pos prev rem caps]. cbn.
    destruct rest as [|c t]; [reflexivity|].
    destruct (set_mem pt neg items c) eqn:E; [|reflexivity].
    destruct Hi as [Hr _]. cbn in Hr. apply nop_cons in Hr as [Hc _].
    rewrite (chk_ok _ _ _ Hn E) in Hc. discriminate.
  - (* RCat *)
    unfold m_cat. apply orb_true_iff in Hn as [Ha|Hb].
    + apply IHr1; assumption.
    + destruct (compile pt r1 st (fun st' => compile pt r2 st' k)) as [res|] eqn:E; [|reflexivity].
      destruct (compile_keeps_clean r1 _ _ _ Hi E) as (st1 & Hi1 & H1).
      rewrite (IHr2 Hb _ _ Hi1) in H1. discriminate.
  - (* RAlt *)
    unfold m_alt. apply andb_true_iff in Hn as [Ha Hb].
    rewrite (IHr1 Ha _ _ Hi). apply IHr2; assumption.
  - (* RRep *)
    apply andb_true_iff in Hn as [Hm Hr]. apply Nat.leb_le in Hm.
    exact (mfails_rep clean _ _ _ _ (compile_keeps_clean r) (IHr Hr) Hm st k Hi).
  - (* RGroup *)
    unfold m_group. apply IHr; assumption.
  - (* RWordB *)
    unfold m_assert, at_word_boundary.
    assert (H1 : is_word_opt pt (ms_prev st) = false).
    { destruct Hi as [_ Hp]. destruct (ms_prev st) as [c|]; [|reflexivity]. cbn.
      destruct (is_word pt c) eqn:E; [|reflexivity]. rewrite (wb_ok Hn _ E) in Hp. discriminate. }
    assert (H2 : is_word_opt pt (hd_error (ms_rest st)) = false).
    { destruct Hi as [Hr _]. destruct (ms_rest st) as [|c t]; [reflexivity|]. cbn.
      apply nop_cons in Hr as [Hc _].
      destruct (is_word pt c) eqn:E; [|reflexivity]. rewrite (wb_ok Hn _ E) in Hc. discriminate. }
    rewrite H1, H2. reflexivity.
Qed.

(* ---- search / captures_at / captures_iter / is_match ---- *)
Definition clean_at (rest : list N) (prev : option N) : Prop :=
  nop rest /\ match prev with Some c => p c = false | None => True end.

Lemma search_none r : needs_gen r = true ->
  forall rest pos prev rem, clean_at rest prev -> search (compile pt r) rest pos prev rem = None.
Proof.
  intros Hn rest. induction rest as [|c t IH]; intros pos prev rem Hc; cbn [search].
  - rewrite (needs_sound r Hn (MS [] pos prev rem []) k_done Hc). reflexivity.
  - rewrite (needs_sound r Hn (MS (c :: t) pos prev rem []) k_done Hc).
    apply IH. destruct Hc as [Hr _]. apply nop_cons in Hr as [Hpc Ht]. split; assumption.
Qed.

Lemma skip_to_clean : forall rest pos prev target rest' pos' prev',
  clean_at rest prev -> skip_to rest pos prev target = Some (rest', pos', prev') -> clean_at rest' prev'.
Proof.
  induction rest as [|c t IH]; intros pos prev target rest' pos' prev' Hc H; cbn [skip_to] in H.
  - destruct (target <=? pos)%N; [|discriminate]. inversion H; subst. exact Hc.
  - destruct (target <=? pos)%N.
    + inversion H; subst. exact Hc.
    + eapply IH; [|exact H]. destruct Hc as [Hr _]. apply nop_cons in Hr as [Hpc Ht]. split; assumption.
Qed.

Theorem needs_iter_nil r ng x : needs_gen r = true -> nop x -> captures_iter_p pt r ng x = [].
Proof.
  intros Hn Hx. unfold captures_iter_p. cbn [iter_loop].
  rewrite (search_none r Hn x 0%N None (length x)); [reflexivity|]. split; [exact Hx|exact Logic.I].
Qed.

Theorem needs_at_none r ng x start : needs_gen r = true -> nop x -> captures_at_p pt r ng x start = None.
Proof.
  intros Hn Hx. unfold captures_at_p.
  destruct (skip_to x 0%N None start) as [[[rest pos] prev]|] eqn:E; [|reflexivity].
  rewrite (search_none r Hn rest pos prev (length rest)); [reflexivity|].
  eapply skip_to_clean; [|exact E]. split; [exact Hx|exact Logic.I].
Qed.

Theorem needs_is_match_false r x : needs_gen r = true -> nop x -> is_match_p pt r x = false.
Proof.
  intros Hn Hx. unfold is_match_p.
  rewrite (search_none r Hn x 0%N None (length x)); [reflexivity|]. split; [exact Hx|exact Logic.I].
Qed.

(* ---- groups that can only be set by passing over a p-character ---- *)
Variable bad : nat -> bool.

(* every capture group with a [bad] index has a body that needs a p-character *)
Fixpoint gsafe (r : rx) : bool :=
  match r with
  | RCat a b | RAlt a b => gsafe a && gsafe b
  | RRep r' _ _ _ => gsafe r'
  | RGroup idx r' => (negb (bad idx) || needs_gen r') && gsafe r'
  | _ => true
  end.

Definition nobad (l : list (nat * (N * N))) : Prop := forall i, bad i = true -> lookup_cap i l = None.

Definition clean_nobad (st : mstate) : Prop := clean st /\ nobad (ms_caps st).

Lemma clean_nobad_step : step_closed clean_nobad.
Proof. intros c t pos prev rem caps [Hc Hb]. split; [exact (clean_step _ _ _ _ _ _ Hc)|exact Hb]. Qed.

Lemma mfails_weaken (I J : mstate -> Prop) m : (forall st, J st -> I st) -> mfails I m -> mfails J m.
Proof. intros HJI Hf st k Hj. apply Hf, HJI, Hj. Qed.

Theorem compile_keeps_nobad r : gsafe r = true -> keeps clean_nobad (compile pt r).
Proof.
  induction r; cbn [gsafe compile]; intros Hg.
  - apply keeps_eps.
  - apply keeps_set, clean_nobad_step.
  - apply andb_true_iff in Hg as [Ha Hb]. apply keeps_cat; auto.
  - apply andb_true_iff in Hg as [Ha Hb]. apply keeps_alt; auto.
  - apply keeps_rep; auto.
  - apply andb_true_iff in Hg as [Hi Hr]. destruct (bad idx) eqn:Eb.
    + cbn in Hi. apply mfails_keeps. intros st k Hc. unfold m_group.
      apply (needs_sound r Hi). exact (proj1 Hc).
    + apply keeps_group; [|auto].
      intros st p0 [Hc Hb]. split; [exact (clean_cap idx _ p0 Hc)|].
      intros i Hbi. cbn [ms_caps lookup_cap]. destruct (Nat.eqb i idx) eqn:E.
      * apply Nat.eqb_eq in E. subst i. congruence.
      * apply Hb. exact Hbi.
  - apply keeps_assert.
  - apply keeps_assert.
  - apply keeps_assert.
  - apply keeps_assert.
Qed.

Lemma clean_nobad_init rest pos prev rem : clean_at rest prev -> clean_nobad (MS rest pos prev rem []).
Proof. intros Hc. split; [exact Hc|]. intros i _. reflexivity. Qed.

Lemma search_nobad r : gsafe r = true ->
  forall rest pos prev rem ms st, clean_at rest prev ->
    search (compile pt r) rest pos prev rem = Some (ms, st) -> clean_nobad st.
Proof.
  intros Hg rest. induction rest as [|c t IH]; intros pos prev rem ms st Hc H; cbn [search] in H.
  - destruct (compile pt r (MS [] pos prev rem []) k_done) as [st0|] eqn:E; [|discriminate].
    inversion H; subst.
    destruct (compile_keeps_nobad r Hg _ _ _ (clean_nobad_init _ _ _ _ Hc) E) as (st1 & Hi1 & H1).
    unfold k_done in H1. inversion H1; subst. exact Hi1.
  - destruct (compile pt r (MS (c :: t) pos prev rem []) k_done) as [st0|] eqn:E.
    + inversion H; subst.
      destruct (compile_keeps_nobad r Hg _ _ _ (clean_nobad_init _ _ _ _ Hc) E) as (st1 & Hi1 & H1).
      unfold k_done in H1. inversion H1; subst. exact Hi1.
    + eapply IH; [|exact H]. destruct Hc as [Hr _]. apply nop_cons in Hr as [Hpc Ht]. split; assumption.
Qed.

(* a reported match leaves the bad groups unset *)
Definition unset_bad (cp : list (option (N * N))) : Prop :=
  forall i, bad i = true -> (1 <= i)%nat -> nth_opt cp i = None \/ nth_opt cp i = Some None.

Lemma nth_opt_map {A B} (f : A -> B) l n : nth_opt (map f l) n = option_map f (nth_opt l n).
Proof. revert n. induction l as [|x l IH]; intros [|n]; cbn; auto. Qed.

Lemma nth_opt_seq a len n : nth_opt (seq a len) n = if Nat.ltb n len then Some (a + n)%nat else None.
Proof.
  revert a n. induction len as [|len IH]; intros a [|n]; cbn [seq nth_opt]; try reflexivity.
  - rewrite Nat.add_0_r. reflexivity.
  - rewrite IH. change (Nat.ltb (S n) (S len)) with (Nat.ltb n len).
    destruct (Nat.ltb n len); [f_equal; lia|reflexivity].
Qed.

Lemma render_caps_unset ng ms st : nobad (ms_caps st) -> unset_bad (render_caps ng ms st).
Proof.
  intros Hb i Hi H1. unfold render_caps. destruct i as [|j]; [lia|]. cbn [nth_opt].
  rewrite nth_opt_map, nth_opt_seq. destruct (Nat.ltb j ng); [|left; reflexivity].
  right. cbn [option_map]. f_equal. apply Hb. exact Hi.
Qed.

Lemma iter_loop_nobad r ng : gsafe r = true ->
  forall fuel rest pos prev rem last, clean_at rest prev ->
    Forall unset_bad (iter_loop fuel (compile pt r) ng rest pos prev rem last).
Proof.
  intros Hg fuel. induction fuel as [|f IH]; intros rest pos prev rem last Hc; cbn [iter_loop]; [constructor|].
  destruct (search (compile pt r) rest pos prev rem) as [[ms st]|] eqn:Ese; [|constructor].
  pose proof (search_nobad r Hg _ _ _ _ _ _ Hc Ese) as [Hcl Hnb].
  match goal with |- context [if ?c then _ else _] => destruct c end.
  - destruct rest as [|c t]; [constructor|].
    destruct (search (compile pt r) t (pos + utf8_width c)%N (Some c) (Nat.pred rem)) as [[ms' st']|] eqn:Ese';
      [|constructor].
    assert (Hc' : clean_at t (Some c)).
    { destruct Hc as [Hr _]. apply nop_cons in Hr as [Hpc Ht]. split; assumption. }
    pose proof (search_nobad r Hg _ _ _ _ _ _ Hc' Ese') as [Hcl' Hnb'].
    constructor; [apply render_caps_unset; exact Hnb'|]. apply IH. exact Hcl'.
  - constructor; [apply render_caps_unset; exact Hnb|]. apply IH. exact Hcl.
Qed.

Theorem gsafe_iter_unset r ng x : gsafe r = true -> nop x -> Forall unset_bad (captures_iter_p pt r ng x).
Proof.
  intros Hg Hx. unfold captures_iter_p. apply iter_loop_nobad; [exact Hg|]. split; [exact Hx|exact Logic.I].
Qed.

End Needs.

(* ---- instance 1: the characters OUTSIDE a finite alphabet A (exact on every class) ---- *)
Definition in_alpha (A : list N) (c : N) : bool := existsb (N.eqb c) A.
Definition over (A : list N) (x : list N) : Prop := forallb (in_alpha A) x = true.
Definition p_out (A : list N) (c : N) : bool := negb (in_alpha A c).
Definition chk_out (pt : ptables) (A : list N) (neg : bool) (items : list cls) : bool :=
  forallb (fun a => negb (set_mem pt neg items a)) A.
Definition wb_out (pt : ptables) (A : list N) : bool := forallb (fun a => negb (is_word pt a)) A.

(* every match of r passes over (or, for \b, stands next to) a character that is not in A *)
Definition needs_out (pt : ptables) (A : list N) : rx -> bool := needs_gen (chk_out pt A) (wb_out pt A).
(* every group of [bad] can only be set by passing over a character that is not in A *)
Definition gsafe_out (pt : ptables) (A : list N) (bad : nat -> bool) : rx -> bool :=
  gsafe (chk_out pt A) (wb_out pt A) bad.

Lemma in_alpha_In A c : in_alpha A c = true <-> In c A.
Proof.
  unfold in_alpha. rewrite existsb_exists. split.
  - intros (a & Hin & E). apply N.eqb_eq in E. subst. exact Hin.
  - intros H. exists c. split; [exact H|apply N.eqb_refl].
Qed.

Lemma chk_out_ok pt A neg items c :
  chk_out pt A neg items = true -> set_mem pt neg items c = true -> p_out A c = true.
Proof.
  intros H Hm. unfold p_out. destruct (in_alpha A c) eqn:E; [|reflexivity].
  apply in_alpha_In in E. unfold chk_out in H. rewrite forallb_forall in H.
  specialize (H c E). rewrite Hm in H. discriminate.
Qed.

Lemma wb_out_ok pt A : wb_out pt A = true -> forall c, is_word pt c = true -> p_out A c = true.
Proof.
  intros H c Hw. unfold p_out. destruct (in_alpha A c) eqn:E; [|reflexivity].
  apply in_alpha_In in E. unfold wb_out in H. rewrite forallb_forall in H.
  specialize (H c E). rewrite Hw in H. discriminate.
Qed.

Lemma over_nop A x : over A x -> nop (p_out A) x.
Proof.
  unfold over, nop, p_out. intros H. rewrite forallb_forall in *. intros c Hc.
  rewrite (H c Hc). reflexivity.
Qed.

Lemma over_app A a b : over A (a ++ b) <-> over A a /\ over A b.
Proof. unfold over. rewrite forallb_app, andb_true_iff. reflexivity. Qed.

Lemma over_cons A c t : over A (c :: t) <-> in_alpha A c = true /\ over A t.
Proof. unfold over. cbn [forallb]. rewrite andb_true_iff. reflexivity. Qed.

Lemma over_repeat A c n : in_alpha A c = true -> over A (repeat c n).
Proof. intros H. induction n as [|n IH]; [reflexivity|]. cbn [repeat]. apply over_cons. split; assumption. Qed.

(* ---- instance 2: an arbitrary predicate p, conservative on sets:
        negated sets and Unicode classes are never known to lie inside p ---- *)
Definition range_list (lo hi : N) : list N :=
  map (fun i => (lo + N.of_nat i)%N) (seq 0 (S (N.to_nat (hi - lo)))).

Definition item_all (p : N -> bool) (i : cls) : bool :=
  match i with
  | CRange lo hi => N.ltb (hi - lo) 4096 && forallb p (range_list lo hi)
  | _ => false
  end.

Definition chk_p (p : N -> bool) (neg : bool) (items : list cls) : bool :=
  negb neg && forallb (item_all p) items.

(* needs p r = true: every match of r consumes a character satisfying p *)
Definition needs (p : N -> bool) : rx -> bool := needs_gen (chk_p p) false.

Lemma range_list_In lo hi c : (lo <= c)%N -> (c <= hi)%N -> In c (range_list lo hi).
Proof.
  intros H1 H2. unfold range_list. apply in_map_iff. exists (N.to_nat (c - lo)). split.
  - rewrite N2Nat.id. lia.
  - apply in_seq. lia.
Qed.

Lemma chk_p_ok pt p neg items c : chk_p p neg items = true -> set_mem pt neg items c = true -> p c = true.
Proof.
  unfold chk_p, set_mem. intros H Hm. apply andb_true_iff in H as [Hn Ha].
  destruct neg; [discriminate|]. clear Hn.
  induction items as [|i r IH]; cbn [items_mem] in Hm; [discriminate|].
  cbn [forallb] in Ha. apply andb_true_iff in Ha as [Hi Hr].
  destruct (cls_mem pt c i) eqn:E; [|exact (IH Hr Hm)].
  destruct i; cbn [item_all] in Hi; try discriminate.
  apply andb_true_iff in Hi as [_ Hi]. rewrite forallb_forall in Hi. apply Hi.
  cbn [cls_mem] in E. destruct (c <? lo)%N eqn:E1; [discriminate|].
  apply N.ltb_ge in E1. apply N.leb_le in E. apply range_list_In; assumption.
Qed.

(* ---- the statements for Rx.caps_iter / re_is_match (tables PT) ---- *)
Theorem needs_out_caps_iter A (c : cre) x : needs_out PT A (cre_rx c) = true -> over A x -> caps_iter c x = [].
Proof.
  intros Hn Hx. unfold caps_iter.
  exact (needs_iter_nil PT (p_out A) _ _ (chk_out_ok PT A) (wb_out_ok PT A) _ _ _ Hn (over_nop _ _ Hx)).
Qed.

Theorem needs_out_no_match A (c : cre) x : needs_out PT A (cre_rx c) = true -> over A x -> re_is_match c x = false.
Proof.
  intros Hn Hx. unfold re_is_match.
  exact (needs_is_match_false PT (p_out A) _ _ (chk_out_ok PT A) (wb_out_ok PT A) _ _ Hn (over_nop _ _ Hx)).
Qed.

Theorem needs_out_captures_at A r ng x start :
  needs_out PT A r = true -> over A x -> captures_at_p PT r ng x start = None.
Proof.
  intros Hn Hx.
  exact (needs_at_none PT (p_out A) _ _ (chk_out_ok PT A) (wb_out_ok PT A) _ _ _ _ Hn (over_nop _ _ Hx)).
Qed.

Lemma wb_false_ok pt p : false = true -> forall c : N, is_word pt c = true -> p c = true.
Proof. discriminate. Qed.

Theorem needs_caps_iter p (c : cre) x :
  needs p (cre_rx c) = true -> forallb (fun a => negb (p a)) x = true -> caps_iter c x = [].
Proof.
  intros Hn Hx. unfold caps_iter.
  exact (needs_iter_nil PT p _ _ (chk_p_ok PT p) (wb_false_ok PT p) _ _ _ Hn Hx).
Qed.

Theorem needs_no_match p (c : cre) x :
  needs p (cre_rx c) = true -> forallb (fun a => negb (p a)) x = true -> re_is_match c x = false.
Proof.
  intros Hn Hx. unfold re_is_match.
  exact (needs_is_match_false PT p _ _ (chk_p_ok PT p) (wb_false_ok PT p) _ _ Hn Hx).
Qed.

(* on a text over A every match leaves the groups of [bad] unset *)
Theorem gsafe_out_caps_iter A bad (c : cre) x i :
  gsafe_out PT A bad (cre_rx c) = true -> over A x -> bad i = true -> (1 <= i)%nat ->
  Forall (fun cp => cap_get cp i = None) (caps_iter c x).
Proof.
  intros Hg Hx Hb Hi. unfold caps_iter.
  pose proof (gsafe_iter_unset PT (p_out A) _ _ (chk_out_ok PT A) (wb_out_ok PT A) bad _ (cre_n c) _ Hg (over_nop _ _ Hx))
    as H.
  eapply Forall_impl; [|exact H]. intros cp Hu. unfold cap_get.
  destruct (Hu i Hb Hi) as [-> | ->]; reflexivity.
Qed.

(* ===================================================================================== *)
(* 2. Tables over the regenerated regexes                                                 *)
(* ===================================================================================== *)
Definition BLANK : list N := [32%N].
Definition ARITH : list N :=
  [48; 49; 50; 51; 52; 53; 54; 55; 56; 57; 43; 45; 42; 47; 40; 41; 32; 46; 44]%N.

(* lower/upper-casing leaves the alphabet's characters alone (month parser, timezone parser) *)
Definition case_fixed (A : list N) : bool :=
  forallb (fun a => str_eqb (upper_char a) [a] && str_eqb (lower_char a) [a]) A.

Lemma case_fixed_upper A x : case_fixed A = true -> over A x -> to_uppercase x = x.
Proof.
  intros Hf. unfold case_fixed in Hf. rewrite forallb_forall in Hf.
  induction x as [|c t IH]; intros Hx; [reflexivity|]. apply over_cons in Hx as [Hc Ht].
  unfold to_uppercase. cbn [flat_map]. apply in_alpha_In in Hc. specialize (Hf c Hc).
  apply andb_true_iff in Hf as [Hu _]. apply str_eqb_eq in Hu. rewrite Hu. cbn [app]. f_equal. exact (IH Ht).
Qed.

Lemma case_fixed_lower A x : case_fixed A = true -> over A x -> to_lowercase x = x.
Proof.
  intros Hf. unfold case_fixed in Hf. rewrite forallb_forall in Hf.
  induction x as [|c t IH]; intros Hx; [reflexivity|]. apply over_cons in Hx as [Hc Ht].
  unfold to_lowercase. cbn [flat_map]. apply in_alpha_In in Hc. specialize (Hf c Hc).
  apply andb_true_iff in Hf as [_ Hl]. apply str_eqb_eq in Hl. rewrite Hl. cbn [app]. f_equal. exact (IH Ht).
Qed.

Lemma over_before_hash A x : over A x -> over A (before_hash x).
Proof.
  induction x as [|c t IH]; intros Hx; [reflexivity|]. apply over_cons in Hx as [Hc Ht].
  cbn [before_hash]. destruct (N.eqb c 35); [reflexivity|]. apply over_cons. split; [exact Hc|exact (IH Ht)].
Qed.

Lemma assoc_In {V} k (l : list (str * V)) v : assoc k l = Some v -> In (k, v) l.
Proof.
  induction l as [|[k' v'] r IH]; cbn [assoc]; [discriminate|].
  destruct (str_eqb k k') eqn:E; intros H.
  - inversion H; subst. apply str_eqb_eq in E. subst. left. reflexivity.
  - right. exact (IH H).
Qed.

Definition all_need (A : list N) (res : list cre) : bool := forallb (fun c => needs_out PT A (cre_rx c)) res.

(* -- table B: on a text over A no regex of any parser except "whitespace" matches, and no month regex -- *)
Definition KEY_WHITESPACE : str := s "whitespace".

Definition months_table (A : list N) (months : list (str * list (cre * monthinfo))) : bool :=
  forallb (fun lm => forallb (fun cm => needs_out PT A (cre_rx (fst cm))) (snd lm)) months && case_fixed A.

Definition blank_table (A : list N) (parse : list (str * list cre)) (months : list (str * list (cre * monthinfo))) : bool :=
  forallb (fun kv => str_eqb (fst kv) KEY_WHITESPACE || all_need A (snd kv)) parse
  && months_table A months.

(* -- table S: on a text over A the regexes of comment, field, money, atom, percent, time, text never match,
      and every match of a timezone regex leaves the groups timezone_1 and timezone_2 unset -- *)
Definition SILENT_KEYS : list str := map s ["comment"; "field"; "money"; "atom"; "percent"; "time"; "text"]%string.
Definition KEY_TIMEZONE : str := s "timezone".
Definition TZ_GROUPS : list str := map s ["timezone_1"; "timezone_2"]%string.

Definition tz_bad (c : cre) (i : nat) : bool :=
  existsb (fun name => match assoc name (cre_names c) with Some j => Nat.eqb i j | None => false end) TZ_GROUPS.

Definition tz_quiet (A : list N) (c : cre) : bool :=
  forallb (fun name => match assoc name (cre_names c) with Some j => Nat.leb 1 j | None => true end) TZ_GROUPS
  && gsafe_out PT A (tz_bad c) (cre_rx c).

Definition silent_table (A : list N) (parse : list (str * list cre)) : bool :=
  forallb (fun kv => negb (mem_str (fst kv) SILENT_KEYS) || all_need A (snd kv)) parse
  && forallb (fun kv => negb (str_eqb (fst kv) KEY_TIMEZONE) || forallb (tz_quiet A) (snd kv)) parse
  && case_fixed A.

(* -- table C: characters one of which every match must contain, on ARBITRARY text.
      (time: the third regex `\b(hour) ?(am|pm)\b` has no ':', so ':' alone is not enough) -- *)
Definition NEEDED_CHARS : list (str * list N) :=
  [(s "comment", [35%N]); (s "field", [123%N]); (s "atom", [91%N]); (s "percent", [37%N]);
   (s "time", [58; 65; 97; 80; 112; 77; 109]%N)].

Definition one_of (l : list N) (c : N) : bool := existsb (N.eqb c) l.

Definition char_table (parse : list (str * list cre)) : bool :=
  forallb (fun kc => match assoc (fst kc) parse with
                     | Some res => forallb (fun c => needs (one_of (snd kc)) (cre_rx c)) res
                     | None => true end) NEEDED_CHARS.

Theorem g_blank_table : blank_table BLANK g_parse g_months = true.
Proof. vm_compute. reflexivity. Qed.

Theorem g_silent_table : silent_table ARITH g_parse = true.
Proof. vm_compute. reflexivity. Qed.

Theorem g_char_table : char_table g_parse = true.
Proof. vm_compute. reflexivity. Qed.

(* information: what does NOT hold on the regenerated regexes *)
(* a tab is not a blank for this lexer: the operator regex [^0-9\p{L} ] matches it *)
Example tab_is_an_operator :
  map fst (filter (fun kv => negb (str_eqb (fst kv) KEY_WHITESPACE || all_need [32; 9]%N (snd kv))) g_parse)
  = [s "operator"].
Proof. vm_compute. reflexivity. Qed.

(* the timezone regex \b((GMT..)?([A-Z]{2,4})?)\b matches the EMPTY string at every word boundary, so on
   arithmetic text it does match (next to every digit run); only its two name groups stay unset *)
Example timezone_matches_on_digits :
  map (fun kv => (fst kv, map (fun c => needs_out PT ARITH (cre_rx c)) (snd kv)))
      (filter (fun kv => str_eqb (fst kv) KEY_TIMEZONE) g_parse) = [(KEY_TIMEZONE, [false])]
  /\ caps_iter (hd {| cre_rx := REps; cre_n := 0; cre_names := [] |}
                   (match assoc KEY_TIMEZONE g_parse with Some l => l | None => [] end)) (s "12")
     = [[Some (0, 0); Some (0, 0); None; None; None; None; None]; [Some (2, 2); Some (2, 2); None; None; None; None; None]]%N.
Proof. vm_compute. split; reflexivity. Qed.

(* ---- lifting: from the boolean tables to the regexes a parser runs ---- *)
Definition quiet (data : str) (c : cre) : Prop := caps_iter c data = [].

Lemma all_need_quiet A res data : all_need A res = true -> over A data -> Forall (quiet data) res.
Proof.
  intros H Hd. unfold all_need in H. rewrite forallb_forall in H. apply Forall_forall. intros c Hc.
  apply (needs_out_caps_iter A); [exact (H c Hc)|exact Hd].
Qed.

Lemma blank_table_parse A parse months key res data :
  blank_table A parse months = true -> assoc key parse = Some res -> str_eqb key KEY_WHITESPACE = false ->
  over A data -> Forall (quiet data) res.
Proof.
  intros H Ha Hk Hd. unfold blank_table in H. apply andb_true_iff in H as [H _].
  rewrite forallb_forall in H. specialize (H _ (assoc_In _ _ _ Ha)). cbn [fst snd] in H. rewrite Hk in H.
  cbn [orb] in H. exact (all_need_quiet A res data H Hd).
Qed.

Lemma blank_table_months A parse months : blank_table A parse months = true -> months_table A months = true.
Proof. intros H. unfold blank_table in H. apply andb_true_iff in H as [_ H]. exact H. Qed.

Lemma months_table_quiet A months lang ms data :
  months_table A months = true -> assoc lang months = Some ms -> over A data ->
  Forall (fun cm : cre * monthinfo => quiet data (fst cm)) ms.
Proof.
  intros H Ha Hd. unfold months_table in H. apply andb_true_iff in H as [H _].
  rewrite forallb_forall in H. specialize (H _ (assoc_In _ _ _ Ha)). cbn [snd] in H.
  rewrite forallb_forall in H. apply Forall_forall. intros cm Hc.
  apply (needs_out_caps_iter A); [exact (H cm Hc)|exact Hd].
Qed.

Lemma months_table_case A months : months_table A months = true -> case_fixed A = true.
Proof. intros H. unfold months_table in H. apply andb_true_iff in H as [_ H]. exact H. Qed.

Lemma blank_table_case A parse months : blank_table A parse months = true -> case_fixed A = true.
Proof. intros H. exact (months_table_case A months (blank_table_months A parse months H)). Qed.

Lemma silent_table_parse A parse key res data :
  silent_table A parse = true -> assoc key parse = Some res -> In key SILENT_KEYS ->
  over A data -> Forall (quiet data) res.
Proof.
  intros H Ha Hk Hd. unfold silent_table in H. apply andb_true_iff in H as [H _]. apply andb_true_iff in H as [H _].
  rewrite forallb_forall in H. specialize (H _ (assoc_In _ _ _ Ha)). cbn [fst snd] in H.
  assert (Hm : mem_str key SILENT_KEYS = true).
  { clear -Hk. induction SILENT_KEYS as [|k r IH]; [destruct Hk|]. cbn [mem_str].
    destruct Hk as [->|Hk]; [rewrite str_eqb_refl; reflexivity|]. rewrite (IH Hk). apply orb_true_r. }
  rewrite Hm in H. cbn [negb orb] in H. exact (all_need_quiet A res data H Hd).
Qed.

Lemma silent_table_case A parse : silent_table A parse = true -> case_fixed A = true.
Proof. intros H. unfold silent_table in H. apply andb_true_iff in H as [_ H]. exact H. Qed.

(* every match of a timezone regex on a text over A has no timezone_1 / timezone_2 group *)
Lemma silent_table_timezone A parse res data :
  silent_table A parse = true -> assoc KEY_TIMEZONE parse = Some res -> over A data ->
  Forall (fun c => Forall (fun cp => cap_name c cp "timezone_1" = None /\ cap_name c cp "timezone_2" = None)
                          (caps_iter c data)) res.
Proof.
  intros H Ha Hd. unfold silent_table in H. apply andb_true_iff in H as [H _]. apply andb_true_iff in H as [_ H].
  rewrite forallb_forall in H. specialize (H _ (assoc_In _ _ _ Ha)). cbn [fst snd] in H.
  rewrite str_eqb_refl in H. cbn [negb orb] in H. rewrite forallb_forall in H.
  apply Forall_forall. intros c Hc. specialize (H c Hc). unfold tz_quiet in H.
  apply andb_true_iff in H as [Hpos Hg]. rewrite forallb_forall in Hpos.
  assert (Hname : forall name, In name TZ_GROUPS ->
            Forall (fun cp => match assoc name (cre_names c) with Some i => cap_get cp i | None => None end = None)
                   (caps_iter c data)).
  { intros name Hin. specialize (Hpos name Hin). destruct (assoc name (cre_names c)) as [j|] eqn:Ej.
    - apply Nat.leb_le in Hpos.
      apply (gsafe_out_caps_iter A (tz_bad c)); [exact Hg|exact Hd| |exact Hpos].
      unfold tz_bad. apply existsb_exists. exists name. split; [exact Hin|]. rewrite Ej. apply Nat.eqb_refl.
    - apply Forall_forall. intros; reflexivity. }
  pose proof (Hname (s "timezone_1") (or_introl eq_refl)) as H1.
  pose proof (Hname (s "timezone_2") (or_intror (or_introl eq_refl))) as H2.
  rewrite Forall_forall in *. intros cp Hcp. split; [exact (H1 cp Hcp)|exact (H2 cp Hcp)].
Qed.

(* ===================================================================================== *)
(* 3. The lexer on unbounded inputs                                                       *)
(* ===================================================================================== *)
Section LexerFacts.
Context {F : Type} {NF : Num F}.
Variable lx : lexdata.
Variable today : Z.

Notation tstate := (@Rules.tstate F).

(* a body that returns its state unchanged on every capture that occurs *)
Definition body_id (body : @parser_body F) (c : cre) (cps : list capture) : Prop :=
  Forall (fun cp => forall st, body c cp st = Ok st) cps.

Lemma over_captures_id (body : @parser_body F) c cps st : body_id body c cps -> over_captures body c cps st = Ok st.
Proof.
  induction 1 as [|cp r Hcp Hr IH]; cbn [over_captures]; [reflexivity|]. rewrite Hcp. cbn [bind]. exact IH.
Qed.

Lemma over_regexes_id (body : @parser_body F) data res st :
  Forall (fun c => body_id body c (caps_iter c data)) res -> over_regexes body data res st = Ok st.
Proof.
  induction 1 as [|c r Hc Hr IH]; cbn [over_regexes]; [reflexivity|].
  rewrite (over_captures_id body c _ st Hc). cbn [bind]. exact IH.
Qed.

Lemma over_regexes_quiet (body : @parser_body F) data res st :
  Forall (quiet data) res -> over_regexes body data res st = Ok st.
Proof.
  intros H. apply over_regexes_id. eapply Forall_impl; [|exact H].
  intros c Hq. unfold quiet in Hq. rewrite Hq. constructor.
Qed.

Lemma atom_parser_quiet (cfg : config F) data res st :
  Forall (quiet data) res -> atom_parser today cfg data res st = Ok st.
Proof.
  intros H. unfold atom_parser.
  assert (Hg : get_atom today cfg data res = Ok []).
  { unfold get_atom. induction H as [|c r Hc Hr IH]; [reflexivity|].
    unfold quiet in Hc. rewrite Hc. cbn [bind]. rewrite IH. reflexivity. }
  rewrite Hg. reflexivity.
Qed.

(* ---- (c) the silent parsers ---- *)
Lemma timezone_body_id (cfg : config F) line data c cp st :
  cap_name c cp "timezone_1" = None -> cap_name c cp "timezone_2" = None ->
  timezone_body cfg line data c cp st = Ok st.
Proof. intros H1 H2. unfold timezone_body, parse_timezone. rewrite H1, H2. reflexivity. Qed.

(* C02: on a line over an alphabet A for which the table holds (ARITH for the regenerated regexes) the parsers
   comment, field, money, atom, percent, timezone, time, text return the state they were given *)
Theorem silent_parsers A (cfg : config F) lang line key regexes st :
  silent_table A (lx_parse lx) = true -> over A line ->
  In key (KEY_TIMEZONE :: SILENT_KEYS) -> assoc key (lx_parse lx) = Some regexes ->
  run_parser today cfg lang line key regexes st = Ok st.
Proof.
  intros Ht Hl Hk Ha. destruct Hk as [<-|Hk].
  - change (run_parser today cfg lang line KEY_TIMEZONE regexes st)
      with (over_regexes (timezone_body cfg line (to_uppercase line)) (to_uppercase line) regexes st).
    rewrite (case_fixed_upper A line (silent_table_case _ _ Ht) Hl).
    apply over_regexes_id. pose proof (silent_table_timezone A _ _ line Ht Ha Hl) as H.
    eapply Forall_impl; [|exact H]. intros c Hc. unfold body_id. eapply Forall_impl; [|exact Hc].
    intros cp [H1 H2] st0. apply timezone_body_id; assumption.
  - pose proof (silent_table_parse A _ _ _ line Ht Ha Hk Hl) as Hq.
    cbn [SILENT_KEYS map In] in Hk.
    destruct Hk as [<-|[<-|[<-|[<-|[<-|[<-|[<-|[]]]]]]]].
    + change (over_regexes (comment_body line) line regexes st = Ok st). apply over_regexes_quiet, Hq.
    + change (over_regexes (field_body cfg lang line) line regexes st = Ok st). apply over_regexes_quiet, Hq.
    + change (over_regexes (money_body cfg line) line regexes st = Ok st). apply over_regexes_quiet, Hq.
    + change (atom_parser today cfg line regexes st = Ok st). apply atom_parser_quiet, Hq.
    + change (over_regexes (percent_body cfg line) line regexes st = Ok st). apply over_regexes_quiet, Hq.
    + change (over_regexes (time_body today cfg line) line regexes st = Ok st). apply over_regexes_quiet, Hq.
    + change (over_regexes (text_body today cfg lang line) line regexes st = Ok st). apply over_regexes_quiet, Hq.
Qed.

(* the parser loop of regex_tokinizer, as a function of the key list *)
Fixpoint run_keys (cfg : config F) (lang line : str) (keys : list str) (st : tstate) : res tstate :=
  match keys with
  | [] => Ok st
  | k :: r =>
    match assoc k (lx_parse lx) with
    | Some regexes => do st' <- run_parser today cfg lang line k regexes st; run_keys cfg lang line r st'
    | None => run_keys cfg lang line r st
    end
  end.

Lemma regex_tokinizer_run_keys cfg lang line st :
  regex_tokinizer lx today cfg lang line st = do st' <- run_keys cfg lang line PARSER_ORDER st; Ok (cleanup st').
Proof. reflexivity. Qed.

Definition is_silent_key (k : str) : bool := mem_str k (KEY_TIMEZONE :: SILENT_KEYS).

Lemma mem_str_In k l : mem_str k l = true -> In k l.
Proof.
  induction l as [|x r IH]; cbn [mem_str]; [discriminate|]. intros H. apply orb_true_iff in H as [H|H].
  - apply str_eqb_eq in H. left. symmetry. exact H.
  - right. exact (IH H).
Qed.

Lemma run_keys_silent A cfg lang line : silent_table A (lx_parse lx) = true -> over A line ->
  forall keys st, run_keys cfg lang line keys st
                  = run_keys cfg lang line (filter (fun k => negb (is_silent_key k)) keys) st.
Proof.
  intros Ht Hl keys. induction keys as [|k r IH]; intros st; [reflexivity|]. cbn [filter run_keys].
  destruct (is_silent_key k) eqn:E; cbn [negb].
  - destruct (assoc k (lx_parse lx)) as [regexes|] eqn:Ea; [|apply IH].
    rewrite (silent_parsers A cfg lang line k regexes st Ht Hl (mem_str_In _ _ E) Ea). cbn [bind]. apply IH.
  - cbn [run_keys]. destruct (assoc k (lx_parse lx)) as [regexes|]; [|apply IH].
    destruct (run_parser today cfg lang line k regexes st); cbn [bind]; [apply IH|reflexivity].
Qed.

(* C02: on such a line regex_tokinizer is the run of the remaining parsers alone *)
Theorem silent_regex_tokinizer A cfg lang line st : silent_table A (lx_parse lx) = true -> over A line ->
  regex_tokinizer lx today cfg lang line st
  = do st' <- run_keys cfg lang line (filter (fun k => negb (is_silent_key k)) PARSER_ORDER) st; Ok (cleanup st').
Proof.
  intros Ht Hl. rewrite regex_tokinizer_run_keys, (run_keys_silent A cfg lang line Ht Hl). reflexivity.
Qed.

(* ---- (a) blank lines ---- *)
(* no highlighting, no typed token *)
Definition blankish (st : tstate) : Prop := ts_ui st = [] /\ Forall (fun t => ti_ty t = None) (ts_infos st).

Lemma blankish_empty : blankish empty_state.
Proof. split; [reflexivity|constructor]. Qed.

Lemma cleanup_blankish st : blankish st -> cleanup st = empty_state.
Proof.
  intros [Hu Hi]. unfold cleanup, empty_state. rewrite Hu. f_equal.
  assert (E : filter (fun t : token_info F => match ti_ty t with Some _ => true | None => false end) (ts_infos st) = []).
  { induction Hi as [|t r Ht Hr IH]; [reflexivity|]. cbn [filter]. rewrite Ht. exact IH. }
  rewrite E. reflexivity.
Qed.

Lemma whitespace_body_blankish line c cp st : blankish st ->
  exists st', whitespace_body line c cp st = Ok st' /\ blankish st'.
Proof.
  intros [Hu Hi]. unfold whitespace_body. destruct (cap_get cp 0) as [[b e]|]; [|exists st; split; [reflexivity|split; assumption]].
  eexists. split; [reflexivity|]. unfold add_token. destruct (collides _ _ _); cbn [fst]; [split; assumption|].
  split; cbn [ts_ui ts_infos]; [exact Hu|]. apply Forall_app. split; [exact Hi|]. repeat constructor.
Qed.

Lemma over_regexes_inv (P : tstate -> Prop) (body : @parser_body F) data :
  (forall c cp st, P st -> exists st', body c cp st = Ok st' /\ P st') ->
  forall res st, P st -> exists st', over_regexes body data res st = Ok st' /\ P st'.
Proof.
  intros Hb res. induction res as [|c r IH]; intros st Hp; cbn [over_regexes]; [exists st; split; [reflexivity|exact Hp]|].
  assert (Hc : forall cps st, P st -> exists st', over_captures body c cps st = Ok st' /\ P st').
  { induction cps as [|cp cr IHc]; intros st0 Hp0; cbn [over_captures]; [exists st0; split; [reflexivity|exact Hp0]|].
    destruct (Hb c cp st0 Hp0) as (st1 & E1 & Hp1). rewrite E1. cbn [bind]. exact (IHc st1 Hp1). }
  destruct (Hc (caps_iter c data) st Hp) as (st1 & E1 & Hp1). rewrite E1. cbn [bind]. exact (IH st1 Hp1).
Qed.

Lemma run_parser_blank A cfg lang line key regexes st :
  blank_table A (lx_parse lx) (lx_months lx) = true -> over A line ->
  assoc key (lx_parse lx) = Some regexes -> blankish st ->
  exists st', run_parser today cfg lang line key regexes st = Ok st' /\ blankish st'.
Proof.
  intros Ht Hl Ha Hb. destruct (str_eqb key KEY_WHITESPACE) eqn:Ew.
  - apply str_eqb_eq in Ew. subst key.
    change (run_parser today cfg lang line KEY_WHITESPACE regexes st)
      with (over_regexes (whitespace_body (F:=F) line) line regexes st).
    apply (over_regexes_inv blankish); [|exact Hb]. intros c cp st0. apply whitespace_body_blankish.
  - pose proof (blank_table_parse A _ _ _ _ line Ht Ha Ew Hl) as Hq.
    exists st. split; [|exact Hb]. unfold run_parser.
    rewrite (case_fixed_upper A line (blank_table_case _ _ _ Ht) Hl).
    assert (Hw : str_is key "whitespace" = false) by exact Ew.
    rewrite Hw.
    repeat match goal with
           | |- (if ?c then _ else _) = _ => destruct c
           end;
      first [apply over_regexes_quiet, Hq | apply atom_parser_quiet, Hq | reflexivity].
Qed.

Lemma run_keys_blank A cfg lang line : blank_table A (lx_parse lx) (lx_months lx) = true -> over A line ->
  forall keys st, blankish st -> exists st', run_keys cfg lang line keys st = Ok st' /\ blankish st'.
Proof.
  intros Ht Hl keys. induction keys as [|k r IH]; intros st Hb; cbn [run_keys]; [exists st; split; [reflexivity|exact Hb]|].
  destruct (assoc k (lx_parse lx)) as [regexes|] eqn:Ea; [|exact (IH st Hb)].
  destruct (run_parser_blank A cfg lang line k regexes st Ht Hl Ea Hb) as (st1 & E1 & Hb1).
  rewrite E1. cbn [bind]. exact (IH st1 Hb1).
Qed.

Theorem blank_regex_tokinizer A cfg lang line st :
  blank_table A (lx_parse lx) (lx_months lx) = true -> over A line -> blankish st ->
  regex_tokinizer lx today cfg lang line st = Ok empty_state.
Proof.
  intros Ht Hl Hb. rewrite regex_tokinizer_run_keys.
  destruct (run_keys_blank A cfg lang line Ht Hl PARSER_ORDER st Hb) as (st1 & E1 & Hb1).
  rewrite E1. cbn [bind]. rewrite (cleanup_blankish st1 Hb1). reflexivity.
Qed.

Theorem quiet_month_parser A (cfg : config F) lang line (st : tstate) :
  months_table A (lx_months lx) = true -> over A line ->
  month_parser lx cfg lang line st = Ok st.
Proof.
  intros Ht Hl. unfold month_parser. destruct (assoc lang (lx_months lx)) as [months|] eqn:Ea; [|reflexivity].
  assert (Hd : over A (before_hash (to_lowercase line))).
  { rewrite (case_fixed_lower A line (months_table_case _ _ Ht) Hl). apply over_before_hash, Hl. }
  pose proof (months_table_quiet A _ _ _ _ Ht Ea Hd) as Hq. clear Ea.
  induction Hq as [|[c mi] r Hc Hr IH]; [reflexivity|]. cbn [fst] in Hc. unfold quiet in Hc.
  rewrite Hc. cbn [over_captures bind]. exact IH.
Qed.

Theorem blank_month_parser A (cfg : config F) lang line (st : tstate) :
  blank_table A (lx_parse lx) (lx_months lx) = true -> over A line ->
  month_parser lx cfg lang line st = Ok st.
Proof. intros Ht. exact (quiet_month_parser A cfg lang line st (blank_table_months _ _ _ Ht)). Qed.

Theorem blank_language_tokinizer A (cfg : config F) lang line :
  blank_table A (lx_parse lx) (lx_months lx) = true -> over A line ->
  language_tokinizer lx cfg lang line empty_state = Ok empty_state.
Proof.
  intros Ht Hl. unfold language_tokinizer. rewrite (blank_month_parser A cfg lang line _ Ht Hl). reflexivity.
Qed.

Lemma alias_tokinizer_empty (cfg : config F) lang : alias_tokinizer lx today cfg lang empty_state = Ok empty_state.
Proof. unfold alias_tokinizer. cbn. destruct (assoc lang (lx_lang_alias lx)); reflexivity. Qed.

(* C16/C01: a line of blanks of ANY length has no token_info at all after the lexer *)
Theorem blank_token_infos A (cfg : config F) lang line :
  blank_table A (lx_parse lx) (lx_months lx) = true -> over A line ->
  token_infos lx today cfg lang line = Ok [].
Proof.
  intros Ht Hl. unfold token_infos.
  rewrite (blank_language_tokinizer A cfg lang line Ht Hl). cbn [bind].
  rewrite (blank_regex_tokinizer A cfg lang line _ Ht Hl blankish_empty). cbn [bind].
  rewrite alias_tokinizer_empty. reflexivity.
Qed.

End LexerFacts.

(* ---- (a) continued: the stages after the lexer on an empty token_info list ---- *)
Section EmptyPipeline.
Context {F : Type} {NF : Num F}.
Variable lx : lexdata.
Variable ck : clock.

Notation tstate := (@Rules.tstate F).

(* side conditions: no empty pattern / empty variable token list (an empty pattern matches the empty token list
   and the replacement then indexes out of bounds: Rules.SITE_MATCH_INDEX / SITE_VAR_SLICE).  They follow from
   the `at least two tokens` conditions of C01 (cfg_rules_ok, cfg_units_ok). *)
Definition pats_nonempty (ps : list (list (token_info F))) : Prop := Forall (fun p => p <> []) ps.
Definition cfg_rules_nonempty (cfg : config F) : Prop :=
  Forall (fun lr : str * list (rule F) => Forall (fun r => pats_nonempty (rule_patterns r)) (snd lr)) (cf_rules cfg).
Definition cfg_units_nonempty (cfg : config F) : Prop :=
  Forall (fun d : dyntype F => pats_nonempty (dt_parse d)) (all_units cfg).
Definition vars_nonempty (vs : vars F) : Prop := Forall (fun kv : str * varinfo F => v_tokens (snd kv) <> []) vs.

Lemma pick_variable_nil (vs : vars F) : vars_nonempty vs -> pick_variable vs [] None = Ok None.
Proof.
  induction 1 as [|[name vi] r Hv Hr IH]; [reflexivity|]. cbn [pick_variable snd] in *.
  destruct (v_tokens vi) as [|p pr] eqn:E; [congruence|]. cbn [find_location find_location_from bind]. exact IH.
Qed.

Lemma update_token_variables_empty line (vs : vars F) : vars_nonempty vs ->
  update_token_variables line vs empty_state = Ok (Some empty_state).
Proof.
  intros Hv. unfold update_token_variables, empty_state. cbn [ts_infos ts_ui ui_sort fold_left bind length subst_loop skipn].
  rewrite (pick_variable_nil vs Hv). reflexivity.
Qed.

Lemma find_match_nil (vs : vars F) pat :
  find_match vs pat [] = Ok {| fm_total := length pat; fm_rule_idx := 0; fm_start := 0; fm_target := 0; fm_fields := [] |}.
Proof. reflexivity. Qed.

Lemma dyn_try_patterns_empty line (vs : vars F) d pats (st : tstate) : ts_infos st = [] -> pats_nonempty pats ->
  dyn_try_patterns line vs d pats st = Ok None.
Proof.
  intros Hi. induction 1 as [|pat r Hp Hr IH]; [reflexivity|]. cbn [dyn_try_patterns]. rewrite Hi, find_match_nil.
  cbn [bind fm_total fm_rule_idx]. destruct pat as [|p pr]; [congruence|]. cbn [length Nat.eqb]. exact IH.
Qed.

Lemma dyn_sweep_empty line (vs : vars F) units (st : tstate) fired : ts_infos st = [] ->
  Forall (fun d : dyntype F => pats_nonempty (dt_parse d)) units ->
  dyn_sweep_units line vs units st fired = Ok (st, fired).
Proof.
  intros Hi. induction 1 as [|d r Hd Hr IH]; [reflexivity|]. cbn [dyn_sweep_units].
  rewrite (dyn_try_patterns_empty line vs d _ st Hi Hd). cbn [bind]. exact IH.
Qed.

Lemma dyn_loop_empty fuel line (cfg : config F) vs (st : tstate) : ts_infos st = [] -> cfg_units_nonempty cfg ->
  dyn_loop (S fuel) line cfg vs st = Ok (Some st).
Proof. intros Hi Hu. cbn [dyn_loop]. rewrite (dyn_sweep_empty line vs _ st false Hi Hu). reflexivity. Qed.

Section Rule.
Variable bexec : config F -> str -> res (option F).
Variable now_year : Z.

Lemma rule_try_patterns_empty line (cfg : config F) lang vs r pats (st : tstate) : ts_infos st = [] -> pats_nonempty pats ->
  rule_try_patterns bexec now_year line cfg lang vs r pats st = Ok None.
Proof.
  intros Hi. induction 1 as [|pat rr Hp Hr IH]; [reflexivity|]. cbn [rule_try_patterns]. rewrite Hi, find_match_nil.
  cbn [bind fm_total fm_rule_idx]. destruct pat as [|p pr]; [congruence|]. cbn [length Nat.eqb]. exact IH.
Qed.

Lemma rule_sweep_empty line (cfg : config F) lang vs rules (st : tstate) fired : ts_infos st = [] ->
  Forall (fun r : rule F => pats_nonempty (rule_patterns r)) rules ->
  rule_sweep bexec now_year line cfg lang vs rules st fired = Ok (st, fired).
Proof.
  intros Hi. induction 1 as [|r rr Hd Hr IH]; [reflexivity|]. cbn [rule_sweep].
  rewrite (rule_try_patterns_empty line cfg lang vs r _ st Hi Hd). cbn [bind]. exact IH.
Qed.

Lemma rule_tokinizer_empty fuel line (cfg : config F) lang vs (st : tstate) : ts_infos st = [] -> cfg_rules_nonempty cfg ->
  rule_tokinizer bexec now_year (S fuel) line cfg lang vs st = Ok (Some st).
Proof.
  intros Hi Hr. unfold rule_tokinizer, lang_rules. destruct (assoc lang (cf_rules cfg)) as [rules|] eqn:E; [|reflexivity].
  cbn [rule_loop]. unfold cfg_rules_nonempty in Hr. rewrite Forall_forall in Hr.
  specialize (Hr _ (assoc_In _ _ _ E)). cbn [snd] in Hr.
  rewrite (rule_sweep_empty line cfg lang vs rules st false Hi Hr). reflexivity.
Qed.
End Rule.

(* C16/C01 blank_line_no_tokens: a line of blanks of ANY length evaluates to nothing and leaves the variables alone *)
Theorem blank_execute_text A (cfg : config F) lang (vs : vars F) line :
  blank_table A (lx_parse lx) (lx_months lx) = true -> over A line ->
  cfg_rules_nonempty cfg -> cfg_units_nonempty cfg -> vars_nonempty vs ->
  execute_text lx ck cfg lang vs line = Ok (None, vs).
Proof.
  intros Ht Hl Hr Hu Hv. unfold execute_text. destruct line as [|c0 l0]; [reflexivity|].
  set (line := c0 :: l0) in *. unfold tokinize.
  rewrite (blank_language_tokinizer lx A cfg lang line Ht Hl). cbn [bind].
  rewrite (blank_regex_tokinizer lx (ck_today ck) A cfg lang line _ Ht Hl blankish_empty). cbn [bind].
  rewrite alias_tokinizer_empty. cbn [bind].
  rewrite (update_token_variables_empty line vs Hv). cbn [unfuel bind].
  change (loop_fuel (F:=F) empty_state) with 8%nat.
  rewrite (dyn_loop_empty 7 line cfg vs empty_state eq_refl Hu). cbn [unfuel bind].
  rewrite (rule_tokinizer_empty (basic_execute lx ck) (ck_year ck) 7 line cfg lang vs empty_state eq_refl Hr).
  reflexivity.
Qed.

End EmptyPipeline.

(* ---- aliases: on token texts over A no alias regex matches, alias_tokinizer is the identity ---- *)
Definition alias_table (A : list N) (alias : list (cre * str)) (lang_alias : list (str * list (cre * str))) : bool :=
  forallb (fun cs => needs_out PT A (cre_rx (fst cs))) alias
  && forallb (fun la => forallb (fun cs => needs_out PT A (cre_rx (fst cs))) (snd la)) lang_alias
  && case_fixed A.

Theorem g_alias_table : alias_table ARITH g_alias g_lang_alias = true.
Proof. vm_compute. reflexivity. Qed.

Section AliasFacts.
Context {F : Type} {NF : Num F}.
Variable lx : lexdata.
Variable today : Z.

Lemma alias_apply_quiet A (cfg : config F) aliases (t : token_info F) :
  forallb (fun cs : cre * str => needs_out PT A (cre_rx (fst cs))) aliases = true -> case_fixed A = true ->
  over A (ti_text t) -> alias_apply lx today cfg aliases t = Ok t.
Proof.
  intros Ha Hc Ht. rewrite forallb_forall in Ha.
  induction aliases as [|[c data] r IH]; [reflexivity|]. cbn [alias_apply].
  rewrite (case_fixed_lower A _ Hc Ht).
  rewrite (needs_out_no_match A c (ti_text t) (Ha (c, data) (or_introl eq_refl)) Ht).
  apply IH. intros x Hx. apply Ha. right. exact Hx.
Qed.

Lemma mapM_id {X} (f : X -> res X) l : Forall (fun x => f x = Ok x) l -> mapM f l = Ok l.
Proof. induction 1 as [|x r Hx Hr IH]; [reflexivity|]. cbn [mapM]. rewrite Hx. cbn [bind]. rewrite IH. reflexivity. Qed.

Theorem alias_tokinizer_id A (cfg : config F) lang (st : @Rules.tstate F) :
  alias_table A (lx_alias lx) (lx_lang_alias lx) = true ->
  Forall (fun t => over A (ti_text t)) (ts_infos st) ->
  alias_tokinizer lx today cfg lang st = Ok st.
Proof.
  intros Ht Hs. unfold alias_table in Ht. apply andb_true_iff in Ht as [Ht Hc]. apply andb_true_iff in Ht as [H1 H2].
  unfold alias_tokinizer.
  assert (E1 : mapM (alias_apply lx today cfg (lx_alias lx)) (ts_infos st) = Ok (ts_infos st)).
  { apply mapM_id. eapply Forall_impl; [|exact Hs]. intros t Hx. exact (alias_apply_quiet A cfg _ t H1 Hc Hx). }
  rewrite E1. cbn [bind]. destruct (assoc lang (lx_lang_alias lx)) as [aliases|] eqn:Ea; [|destruct st; reflexivity].
  rewrite forallb_forall in H2. specialize (H2 _ (assoc_In _ _ _ Ea)). cbn [snd] in H2.
  assert (E2 : mapM (alias_apply lx today cfg aliases) (ts_infos st) = Ok (ts_infos st)).
  { apply mapM_id. eapply Forall_impl; [|exact Hs]. intros t Hx. exact (alias_apply_quiet A cfg _ t H2 Hc Hx). }
  rewrite E2. destruct st; reflexivity.
Qed.
End AliasFacts.

(* ===================================================================================== *)
(* 3'. The same theorems for the regenerated tables (what the crate runs)                  *)
(* ===================================================================================== *)
From SC.Model Require Import Run64.

Section Regenerated.
Context {F : Type} {NF : Num F}.

Definition blank_line (line : str) : Prop := over BLANK line.     (* spaces only: a tab is an operator *)
Definition arith_line (line : str) : Prop := over ARITH line.     (* 0-9 + - * / ( ) space . , *)

Lemma LX_blank_table : blank_table BLANK (lx_parse LX) (lx_months LX) = true.
Proof. exact g_blank_table. Qed.
Lemma LX_silent_table : silent_table ARITH (lx_parse LX) = true.
Proof. exact g_silent_table. Qed.
Lemma LX_alias_table : alias_table ARITH (lx_alias LX) (lx_lang_alias LX) = true.
Proof. exact g_alias_table. Qed.

(* (a) C16 / C01 *)
Theorem blank_line_no_tokens today (cfg : config F) lang line : blank_line line ->
  language_tokinizer LX cfg lang line empty_state = Ok empty_state /\
  regex_tokinizer LX today cfg lang line empty_state = Ok empty_state /\
  token_infos LX today cfg lang line = Ok [].
Proof.
  intros Hl. split; [|split].
  - exact (blank_language_tokinizer LX BLANK cfg lang line LX_blank_table Hl).
  - exact (blank_regex_tokinizer LX today BLANK cfg lang line _ LX_blank_table Hl blankish_empty).
  - exact (blank_token_infos LX today BLANK cfg lang line LX_blank_table Hl).
Qed.

Theorem blank_line_evaluates_to_nothing ck (cfg : config F) lang (vs : vars F) line : blank_line line ->
  cfg_rules_nonempty cfg -> cfg_units_nonempty cfg -> vars_nonempty vs ->
  execute_text LX ck cfg lang vs line = Ok (None, vs).
Proof. intros Hl. exact (blank_execute_text LX ck BLANK cfg lang vs line LX_blank_table Hl). Qed.

(* every length *)
Corollary spaces_no_tokens today (cfg : config F) lang n : token_infos LX today cfg lang (repeat 32%N n) = Ok [].
Proof. apply blank_line_no_tokens. apply over_repeat. reflexivity. Qed.

(* (c) C02 *)
Theorem arith_line_silent_parsers today (cfg : config F) lang line key regexes (st : @Rules.tstate F) :
  arith_line line -> In key (KEY_TIMEZONE :: SILENT_KEYS) -> assoc key g_parse = Some regexes ->
  run_parser today cfg lang line key regexes st = Ok st.
Proof. intros Hl. exact (silent_parsers LX today ARITH cfg lang line key regexes st LX_silent_table Hl). Qed.

Example remaining_parsers :
  filter (fun k => negb (is_silent_key k)) PARSER_ORDER = [s "number"; s "whitespace"; s "operator"].
Proof. vm_compute. reflexivity. Qed.

Theorem arith_line_regex_tokinizer today (cfg : config F) lang line (st : @Rules.tstate F) : arith_line line ->
  regex_tokinizer LX today cfg lang line st
  = do st' <- run_keys LX today cfg lang line [s "number"; s "whitespace"; s "operator"] st; Ok (cleanup st').
Proof. intros Hl. rewrite <- remaining_parsers. exact (silent_regex_tokinizer LX today ARITH cfg lang line st LX_silent_table Hl). Qed.

(* an arithmetic line has no month either *)
Theorem arith_line_no_month (cfg : config F) lang line (st : @Rules.tstate F) : arith_line line ->
  month_parser LX cfg lang line st = Ok st.
Proof.
  intros Hl. apply (quiet_month_parser LX ARITH cfg lang line st); [|exact Hl]. vm_compute. reflexivity.
Qed.
End Regenerated.

(* ===================================================================================== *)
(* 4. The positive direction on the simplest shape: digits, blanks, one operator, blanks, digits *)
(* ===================================================================================== *)
Section Runs.
Local Open Scope N_scope.

(* the state after consuming xs *)
Fixpoint advst (tail : list N) (pos : N) (prev : option N) (rem : nat) (caps : list (nat * (N * N)))
         (xs : list N) : mstate :=
  match xs with
  | [] => MS tail pos prev rem caps
  | c :: t => advst tail (pos + utf8_width c) (Some c) (Nat.pred rem) caps t
  end.

Definition stops (f : N -> bool) (tail : list N) : Prop :=
  match tail with [] => True | c :: _ => f c = false end.

Definition ascii (c : N) : bool := c <? 128.

Lemma ascii_width c : ascii c = true -> utf8_width c = 1.
Proof. unfold ascii, utf8_width. intros ->. reflexivity. Qed.

Lemma advst_fields : forall xs tail pos prev rem caps, forallb ascii xs = true ->
  ms_rest (advst tail pos prev rem caps xs) = tail /\
  ms_pos (advst tail pos prev rem caps xs) = pos + N.of_nat (length xs) /\
  ms_caps (advst tail pos prev rem caps xs) = caps /\
  ms_rem (advst tail pos prev rem caps xs) = (rem - length xs)%nat.
Proof.
  induction xs as [|d xs IH]; intros tail pos prev rem caps Hd.
  - cbn. repeat split; lia.
  - cbn [forallb] in Hd. apply andb_true_iff in Hd as [Hd Hds]. cbn [advst]. rewrite (ascii_width d Hd).
    destruct (IH tail (pos + 1) (Some d) (Nat.pred rem) caps Hds) as (A & B & C & D).
    rewrite A, B, C, D. repeat split; cbn [length]; lia.
Qed.

(* greedy x+ over a run of characters of the set: the whole run is taken first *)
Lemma plus_run f : forall xs tail pos prev rem caps fuel first k r,
  xs <> [] -> forallb f xs = true -> stops f tail -> (length xs <= fuel)%nat ->
  k (advst tail pos prev rem caps xs) = Some r ->
  m_plus (m_set f) true fuel first (MS (xs ++ tail) pos prev rem caps) k = Some r.
Proof.
  induction xs as [|d ds IH]; intros tail pos prev rem caps fuel first k r Hne Hd Ht Hf Hk; [congruence|].
  cbn [forallb] in Hd. apply andb_true_iff in Hd as [Hd Hds].
  destruct fuel as [|fu]; [cbn [length] in Hf; lia|].
  cbn [m_plus]. unfold m_set at 1. cbn [ms_rest app]. rewrite Hd. cbn [ms_pos ms_prev ms_rem ms_caps].
  assert (E : (pos + utf8_width d =? pos) = false) by (apply N.eqb_neq; pose proof (utf8_width_pos d); lia).
  rewrite E. cbn [advst] in Hk.
  destruct ds as [|d' ds'].
  - cbn [advst] in Hk. cbn [app].
    assert (N0 : m_plus (m_set f) true fu false (MS tail (pos + utf8_width d) (Some d) (Nat.pred rem) caps) k = None).
    { destruct fu; [reflexivity|]. cbn [m_plus]. unfold m_set. cbn [ms_rest].
      destruct tail as [|c t]; [reflexivity|]. cbn in Ht. rewrite Ht. reflexivity. }
    rewrite N0. exact Hk.
  - rewrite (IH tail (pos + utf8_width d) (Some d) (Nat.pred rem) caps fu false k r); try assumption.
    + reflexivity.
    + discriminate.
    + cbn [length] in Hf |- *. lia.
Qed.

Lemma set_stops f tail pos prev rem caps k : stops f tail -> m_set f (MS tail pos prev rem caps) k = None.
Proof. intros H. unfold m_set. cbn [ms_rest]. destruct tail as [|c t]; [reflexivity|]. cbn in H. rewrite H. reflexivity. Qed.

(* x+ and x* (greedy, unbounded) over a run *)
Lemma rep1_run f xs tail pos prev rem caps k r :
  xs <> [] -> forallb f xs = true -> stops f tail -> (length xs <= S (S rem))%nat ->
  k (advst tail pos prev rem caps xs) = Some r ->
  m_rep (m_set f) 1 None true (MS (xs ++ tail) pos prev rem caps) k = Some r.
Proof. intros. unfold m_rep. cbn [m_exactly]. unfold m_eps, plus_fuel. cbn [ms_rem]. apply plus_run; assumption. Qed.

Lemma rep0_none f tail pos prev rem caps k :
  stops f tail -> m_rep (m_set f) 0 None true (MS tail pos prev rem caps) k = k (MS tail pos prev rem caps).
Proof. intros H. unfold m_rep, plus_fuel. cbn [m_plus ms_rem]. rewrite (set_stops f _ _ _ _ _ _ H). reflexivity. Qed.

(* ---- search / iteration steps ---- *)
Lemma search_hit mr rest pos prev rem st :
  mr (MS rest pos prev rem []) k_done = Some st -> search mr rest pos prev rem = Some (pos, st).
Proof. intros H. destruct rest; cbn [search]; rewrite H; reflexivity. Qed.

Lemma search_skip1 mr c t pos prev :
  mr (MS (c :: t) pos prev (length (c :: t)) []) k_done = None ->
  search mr (c :: t) pos prev (length (c :: t)) = search mr t (pos + utf8_width c) (Some c) (length t).
Proof. intros H. cbn [search]. rewrite H. reflexivity. Qed.

Definition rejects (mr : matcher) (P : N -> bool) : Prop :=
  forall c t pos prev rem caps k, P c = true -> mr (MS (c :: t) pos prev rem caps) k = None.

Fixpoint lastp (xs : list N) (prev : option N) : option N :=
  match xs with [] => prev | c :: t => lastp t (Some c) end.

Lemma search_skip_run mr P : rejects mr P -> forall xs tail pos prev,
  forallb P xs = true -> forallb ascii xs = true ->
  search mr (xs ++ tail) pos prev (length (xs ++ tail))
  = search mr tail (pos + N.of_nat (length xs)) (lastp xs prev) (length tail).
Proof.
  intros Hr xs. induction xs as [|c t IH]; intros tail pos prev Hp Ha.
  - cbn [app length lastp]. rewrite N.add_0_r. reflexivity.
  - cbn [forallb] in Hp, Ha. apply andb_true_iff in Hp as [Hc Hp]. apply andb_true_iff in Ha as [Hac Ha].
    cbn [app]. rewrite search_skip1; [|apply Hr; exact Hc]. rewrite (ascii_width c Hac).
    rewrite (IH tail (pos + 1) (Some c) Hp Ha). cbn [length lastp]. f_equal. lia.
Qed.

(* one turn of the iteration on a non-empty match *)
Lemma iter_hit mr ng fuel rest pos prev rem last ms st :
  search mr rest pos prev rem = Some (ms, st) -> ms <> ms_pos st ->
  iter_loop (S fuel) mr ng rest pos prev rem last
  = render_caps ng ms st :: iter_loop fuel mr ng (ms_rest st) (ms_pos st) (ms_prev st) (ms_rem st) (Some (ms_pos st)).
Proof.
  intros H Hne. cbn [iter_loop]. rewrite H. apply N.eqb_neq in Hne. rewrite Hne. reflexivity.
Qed.

Lemma iter_none mr ng fuel rest pos prev rem last :
  search mr rest pos prev rem = None -> iter_loop (S fuel) mr ng rest pos prev rem last = [].
Proof. intros H. cbn [iter_loop]. rewrite H. reflexivity. Qed.

End Runs.

Section Shape.
Local Open Scope N_scope.

Definition digit (c : N) : bool := (48 <=? c) && (c <=? 57).
Definition digf := set_mem PT false [CRange 48 57].
Definition signf := set_mem PT false [CRange 45 45; CRange 43 43].
Definition dsepf := set_mem PT false [CRange 48 57; CRange 46 46; CRange 44 44].
Definition letf := set_mem PT false [CRange 97 122; CRange 65 90].
Definition spf := set_mem PT false [CRange 32 32].
Definition opf := set_mem PT true [CRange 48 57; CLetter; CRange 32 32].

Lemma digit_facts c : digit c = true ->
  digf c = true /\ signf c = false /\ dsepf c = true /\ spf c = false /\ opf c = false /\ ascii c = true.
Proof.
  unfold digit, digf, signf, dsepf, spf, opf, set_mem, ascii. cbn [items_mem cls_mem negb].
  intros H. apply andb_true_iff in H as [H1 H2]. apply N.leb_le in H1. apply N.leb_le in H2.
  repeat match goal with
  | |- context [?a <? ?b] => destruct (N.ltb_spec a b); try lia
  | |- context [?a <=? ?b] => destruct (N.leb_spec a b); try lia
  end; repeat split.
Qed.

Lemma digits_all ds : forallb digit ds = true ->
  forallb digf ds = true /\ forallb ascii ds = true /\ forallb (fun c => negb (spf c)) ds = true
  /\ forallb (fun c => negb (opf c)) ds = true.
Proof.
  induction ds as [|d ds IH]; intros H; [repeat split|]. cbn [forallb] in *. apply andb_true_iff in H as [Hd Hds].
  destruct (digit_facts d Hd) as (A & _ & _ & B & C & D). destruct (IH Hds) as (A' & D' & B' & C').
  rewrite A, B, C, D, A', B', C', D'. repeat split.
Qed.

(* the decimal regex of the number parser, the whitespace regex, the operator regex *)
Definition MD : matcher :=
  m_cat (m_group 1 (m_cat (m_rep (m_set signf) 0 (Some 1%nat) true)
                          (m_cat (m_rep (m_set digf) 1 None true) (m_rep (m_set dsepf) 0 None true))))
        (m_rep (m_group 2 (m_rep (m_set letf) 1 None true)) 0 (Some 1%nat) true).
Definition MW : matcher := m_group 1 (m_rep (m_set spf) 1 None true).
Definition MO : matcher := m_group 1 (m_set opf).

Definition cres_of (key : string) : list cre := match assoc (s key) g_parse with Some l => l | None => [] end.
Definition dummy_cre : cre := {| cre_rx := REps; cre_n := 0; cre_names := [] |}.
Definition DEC : cre := nth 3 (cres_of "number") dummy_cre.
Definition WS : cre := nth 0 (cres_of "whitespace") dummy_cre.
Definition OPR : cre := nth 0 (cres_of "operator") dummy_cre.

(* the regenerated regexes ARE these matchers (re-checked when config.json changes) *)
Lemma DEC_matcher : compile PT (cre_rx DEC) = MD. Proof. reflexivity. Qed.
Lemma WS_matcher : compile PT (cre_rx WS) = MW. Proof. reflexivity. Qed.
Lemma OPR_matcher : compile PT (cre_rx OPR) = MO. Proof. reflexivity. Qed.

(* what may follow a literal: not a digit, separator or letter *)
Definition dstop (tail : list N) : Prop :=
  match tail with [] => True | h :: _ => digf h = false /\ dsepf h = false /\ letf h = false end.

Definition pushcap (i : nat) (p0 : N) (st : mstate) : mstate :=
  MS (ms_rest st) (ms_pos st) (ms_prev st) (ms_rem st) ((i, (p0, ms_pos st)) :: ms_caps st).

Lemma MD_hit ds tail pos prev rem :
  ds <> [] -> forallb digit ds = true -> dstop tail -> (length ds <= S (S rem))%nat ->
  MD (MS (ds ++ tail) pos prev rem []) k_done = Some (pushcap 1 pos (advst tail pos prev rem [] ds)).
Proof.
  intros Hne Hd Ht Hf. destruct (digits_all ds Hd) as (Hdf & Ha & _ & _).
  destruct (advst_fields ds tail pos prev rem [] Ha) as (A & B & C & D).
  unfold MD, m_cat. unfold m_group at 1. cbn [ms_pos].
  (* optional sign: the first character is a digit *)
  assert (Hs : forall k, m_rep (m_set signf) 0 (Some 1%nat) true (MS (ds ++ tail) pos prev rem []) k
                         = k (MS (ds ++ tail) pos prev rem [])).
  { intros k. unfold m_rep. cbn [Nat.sub m_exactly m_upto]. unfold m_eps, m_set. cbn [ms_rest].
    destruct ds as [|d ds']; [congruence|]. cbn [app]. cbn [forallb] in Hd. apply andb_true_iff in Hd as [Hd0 _].
    destruct (digit_facts d Hd0) as (_ & S0 & _). rewrite S0. reflexivity. }
  rewrite Hs.
  apply rep1_run; try assumption.
  { destruct tail as [|h t]; [exact Logic.I|]. exact (proj1 Ht). }
  set (a := advst tail pos prev rem [] ds) in *.
  assert (Ea : a = MS tail (ms_pos a) (ms_prev a) (ms_rem a) []).
  { destruct a as [r0 p0 pv0 rm0 c0]. cbn in *. subst. reflexivity. }
  rewrite Ea at 1. rewrite rep0_none.
  2:{ destruct tail as [|h t]; [exact Logic.I|]. exact (proj1 (proj2 Ht)). }
  rewrite <- Ea. cbv beta.
  (* the optional notation group *)
  unfold m_rep at 1. cbn [Nat.sub m_exactly m_upto]. unfold m_eps.
  unfold m_group at 1. unfold m_rep at 1. cbn [m_exactly]. unfold m_eps, plus_fuel. cbn [m_plus ms_rest ms_pos ms_rem].
  rewrite A. rewrite set_stops.
  2:{ destruct tail as [|h t]; [exact Logic.I|]. exact (proj2 (proj2 Ht)). }
  unfold k_done, pushcap. rewrite A, C. reflexivity.
Qed.

Lemma rep1_stops f st k : stops f (ms_rest st) -> m_rep (m_set f) 1 None true st k = None.
Proof.
  intros H. unfold m_rep. cbn [m_exactly]. unfold m_eps, plus_fuel. cbn [m_plus].
  destruct st as [r0 p0 pv0 rm0 c0]. cbn [ms_rest] in H. apply set_stops. exact H.
Qed.

Lemma MD_rejects : rejects MD (fun c => negb (signf c) && negb (digf c)).
Proof.
  intros c t pos prev rem caps k H. apply andb_true_iff in H as [H1 H2].
  apply negb_true_iff in H1. apply negb_true_iff in H2.
  unfold MD, m_cat. unfold m_group at 1. unfold m_rep at 1. cbn [Nat.sub m_exactly m_upto]. unfold m_eps.
  unfold m_set at 1. cbn [ms_rest]. rewrite H1.
  apply rep1_stops. exact H2.
Qed.

Lemma MD_reject_sign c t pos prev rem caps k :
  digf c = false -> stops digf t -> MD (MS (c :: t) pos prev rem caps) k = None.
Proof.
  intros H2 Ht.
  unfold MD, m_cat. unfold m_group at 1. unfold m_rep at 1. cbn [Nat.sub m_exactly m_upto]. unfold m_eps.
  unfold m_set at 1. cbn [ms_rest].
  destruct (signf c).
  - rewrite rep1_stops by exact Ht. apply rep1_stops. exact H2.
  - apply rep1_stops. exact H2.
Qed.

Lemma MD_nil pos prev rem caps k : MD (MS [] pos prev rem caps) k = None.
Proof. reflexivity. Qed.

Lemma MW_rejects : rejects MW (fun c => negb (spf c)).
Proof.
  intros c t pos prev rem caps k H. apply negb_true_iff in H.
  unfold MW, m_group. apply rep1_stops. exact H.
Qed.

Lemma MW_nil pos prev rem caps k : MW (MS [] pos prev rem caps) k = None.
Proof. reflexivity. Qed.

Lemma MW_hit xs tail pos prev rem :
  xs <> [] -> forallb spf xs = true -> stops spf tail -> (length xs <= S (S rem))%nat ->
  MW (MS (xs ++ tail) pos prev rem []) k_done = Some (pushcap 1 pos (advst tail pos prev rem [] xs)).
Proof.
  intros Hne Hx Ht Hf. unfold MW, m_group. cbn [ms_pos]. apply rep1_run; try assumption. reflexivity.
Qed.

Lemma MO_rejects : rejects MO (fun c => negb (opf c)).
Proof.
  intros c t pos prev rem caps k H. apply negb_true_iff in H.
  unfold MO, m_group. unfold m_set. cbn [ms_rest]. rewrite H. reflexivity.
Qed.

Lemma MO_nil pos prev rem caps k : MO (MS [] pos prev rem caps) k = None.
Proof. reflexivity. Qed.

Lemma MO_hit c t pos prev rem : opf c = true ->
  MO (MS (c :: t) pos prev rem []) k_done
  = Some (MS t (pos + utf8_width c) (Some c) (Nat.pred rem) [(1%nat, (pos, pos + utf8_width c))]).
Proof. intros H. unfold MO, m_group, m_set. cbn [ms_rest ms_pos ms_prev ms_rem ms_caps]. rewrite H. reflexivity. Qed.

(* ---- the line  d1 blanks op blanks d2 ---- *)
Definition blanks (k : nat) : list N := repeat 32 k.
Definition shape_line (d1 : list N) (k1 : nat) (op : N) (k2 : nat) (d2 : list N) : list N :=
  d1 ++ blanks k1 ++ op :: blanks k2 ++ d2.

(* + - need a blank before the next literal: a sign directly in front of digits is read into the literal *)
Definition shape_ok (op : N) (k2 : nat) : Prop :=
  (op = 42 \/ op = 47) \/ ((op = 43 \/ op = 45) /\ (1 <= k2)%nat).

Definition sepch (h : N) : bool := existsb (N.eqb h) [32; 42; 43; 45; 47].

Lemma sepch_facts h : sepch h = true ->
  digf h = false /\ dsepf h = false /\ letf h = false /\ ascii h = true /\ utf8_width h = 1.
Proof.
  unfold sepch. cbn [existsb]. intros H.
  repeat (apply orb_true_iff in H as [H|H]); try discriminate; apply N.eqb_eq in H; subst h; vm_compute; repeat split.
Qed.

Lemma forallb_repeat {X} (f : X -> bool) x n : f x = true -> forallb f (repeat x n) = true.
Proof. intros H. induction n as [|n IH]; [reflexivity|]. cbn [repeat forallb]. rewrite H, IH. reflexivity. Qed.

Lemma blanks_length k : length (blanks k) = k.
Proof. apply repeat_length. Qed.

Lemma iter_none_any mr ng fuel rest pos prev rem last :
  search mr rest pos prev rem = None -> iter_loop fuel mr ng rest pos prev rem last = [].
Proof. intros H. destruct fuel; [reflexivity|]. apply iter_none. exact H. Qed.

Lemma op_of_shape op k2 : shape_ok op k2 -> sepch op = true /\ op <> 32.
Proof. intros [[->| ->]|[[->| ->] _]]; split; (reflexivity || discriminate). Qed.

Section Line.
Variables (d1 d2 : list N) (k1 k2 : nat) (op : N).
Hypothesis Hne1 : d1 <> [].
Hypothesis Hne2 : d2 <> [].
Hypothesis Hd1 : forallb digit d1 = true.
Hypothesis Hd2 : forallb digit d2 = true.
Hypothesis Hop : shape_ok op k2.

Let n1 := N.of_nat (length d1).
Let n2 := N.of_nat (length d2).
Let pop := n1 + N.of_nat k1.
Let p2 := pop + 1 + N.of_nat k2.
Let L := shape_line d1 k1 op k2 d2.
Let tail2 := blanks k2 ++ d2.
Let tail1 := blanks k1 ++ op :: tail2.

Lemma L_eq : L = d1 ++ tail1. Proof. reflexivity. Qed.

Lemma len_tail1 : (length L - length d1)%nat = length tail1.
Proof. rewrite L_eq, app_length. lia. Qed.

Lemma tail1_head : dstop tail1.
Proof.
  unfold tail1. destruct k1 as [|k]; cbn [blanks repeat app dstop].
  - destruct (sepch_facts op (proj1 (op_of_shape _ _ Hop))) as (A & B & C & _). repeat split; assumption.
  - vm_compute. repeat split.
Qed.

Lemma MD_op_fails pos prev rem caps k : MD (MS (op :: tail2) pos prev rem caps) k = None.
Proof.
  destruct Hop as [[->| ->]|[[->| ->] Hk]].
  - apply MD_rejects. reflexivity.
  - apply MD_rejects. reflexivity.
  - apply MD_reject_sign; [reflexivity|]. unfold tail2. destruct k2 as [|k2']; [lia|]. reflexivity.
  - apply MD_reject_sign; [reflexivity|]. unfold tail2. destruct k2 as [|k2']; [lia|]. reflexivity.
Qed.

Lemma n1_pos : 0 <> 0 + n1.
Proof. unfold n1. destruct d1; [congruence|]. cbn [length]. lia. Qed.

(* the decimal regex: exactly the two literals *)
Theorem caps_DEC :
  caps_iter DEC L = [[Some (0, n1); Some (0, n1); None]; [Some (p2, p2 + n2); Some (p2, p2 + n2); None]].
Proof.
  destruct (digits_all d1 Hd1) as (_ & Ha1 & _ & _). destruct (digits_all d2 Hd2) as (_ & Ha2 & _ & _).
  unfold caps_iter, captures_iter_p. rewrite DEC_matcher. change (cre_n DEC) with 2%nat.
  (* first literal *)
  assert (E1 : MD (MS L 0 None (length L) []) k_done = Some (pushcap 1 0 (advst tail1 0 None (length L) [] d1))).
  { rewrite L_eq. apply MD_hit; [exact Hne1|exact Hd1|exact tail1_head|]. rewrite app_length. lia. }
  destruct (advst_fields d1 tail1 0 None (length L) [] Ha1) as (A & B & C & D).
  rewrite (iter_hit MD 2 _ _ _ _ _ _ _ _ (search_hit _ _ _ _ _ _ E1)).
  2:{ unfold pushcap. cbn [ms_pos]. rewrite B. exact n1_pos. }
  unfold pushcap at 1 2 3 4 5. cbn [ms_rest ms_pos ms_prev ms_rem]. unfold render_caps at 1. cbn [ms_pos ms_caps pushcap seq map lookup_cap Nat.eqb].
  rewrite A, B, C, D, len_tail1. fold n1. cbn [lookup_cap]. rewrite N.add_0_l.
  f_equal.
  (* skip blanks, the operator, blanks *)
  set (pv := ms_prev (advst tail1 0 None (length L) [] d1)).
  assert (Hb : forall k, forallb (fun c => negb (signf c) && negb (digf c)) (blanks k) = true)
    by (intros k; apply forallb_repeat; reflexivity).
  assert (Hba : forall k, forallb ascii (blanks k) = true) by (intros k; apply forallb_repeat; reflexivity).
  assert (S2 : search MD tail1 n1 pv (length tail1)
               = search MD (d2 ++ []) p2 (lastp (blanks k2) (Some op)) (length (d2 ++ []))).
  { unfold tail1. rewrite (search_skip_run MD _ MD_rejects (blanks k1) _ n1 pv (Hb k1) (Hba k1)).
    rewrite blanks_length. fold pop.
    rewrite search_skip1 by apply MD_op_fails.
    destruct (sepch_facts op (proj1 (op_of_shape _ _ Hop))) as (_ & _ & _ & _ & W). rewrite W.
    unfold tail2. rewrite (search_skip_run MD _ MD_rejects (blanks k2) _ _ _ (Hb k2) (Hba k2)).
    rewrite blanks_length. fold p2. rewrite app_nil_r. reflexivity. }
  assert (E2 : MD (MS (d2 ++ []) p2 (lastp (blanks k2) (Some op)) (length (d2 ++ [])) []) k_done
               = Some (pushcap 1 p2 (advst [] p2 (lastp (blanks k2) (Some op)) (length (d2 ++ [])) [] d2))).
  { apply MD_hit; [exact Hne2|exact Hd2|exact Logic.I|]. rewrite app_length. lia. }
  destruct (advst_fields d2 [] p2 (lastp (blanks k2) (Some op)) (length (d2 ++ [])) [] Ha2) as (A2 & B2 & C2 & D2).
  rewrite (search_hit _ _ _ _ _ _ E2) in S2.
  rewrite (iter_hit MD 2 _ _ _ _ _ _ _ _ S2).
  2:{ unfold pushcap. cbn [ms_pos]. rewrite B2. fold n2. unfold n2. destruct d2; [congruence|]. cbn [length]. lia. }
  unfold pushcap at 1 2 3 4 5. cbn [ms_rest ms_pos ms_prev ms_rem]. unfold render_caps at 1. cbn [ms_pos ms_caps pushcap seq map lookup_cap Nat.eqb].
  rewrite A2, B2, C2. fold n2. cbn [lookup_cap].
  f_equal. apply iter_none_any. cbn [search]. rewrite MD_nil. reflexivity.
Qed.

(* the operator regex: exactly the operator character *)
Lemma opf_op : opf op = true.
Proof. destruct Hop as [[->| ->]|[[->| ->] _]]; vm_compute; reflexivity. Qed.

Theorem caps_OPR : caps_iter OPR L = [[Some (pop, pop + 1); Some (pop, pop + 1)]].
Proof.
  destruct (digits_all d1 Hd1) as (_ & Ha1 & _ & Ho1). destruct (digits_all d2 Hd2) as (_ & Ha2 & _ & Ho2).
  assert (Hb : forall k, forallb (fun c => negb (opf c)) (blanks k) = true)
    by (intros k; apply forallb_repeat; vm_compute; reflexivity).
  assert (Hba : forall k, forallb ascii (blanks k) = true) by (intros k; apply forallb_repeat; reflexivity).
  destruct (sepch_facts op (proj1 (op_of_shape _ _ Hop))) as (_ & _ & _ & _ & W).
  unfold caps_iter, captures_iter_p. rewrite OPR_matcher. change (cre_n OPR) with 1%nat.
  assert (S1 : search MO L 0 None (length L)
               = Some (pop, MS tail2 (pop + 1) (Some op) (length tail2) [(1%nat, (pop, pop + 1))])).
  { rewrite L_eq. rewrite (search_skip_run MO _ MO_rejects d1 tail1 0 None Ho1 Ha1). rewrite N.add_0_l. fold n1.
    unfold tail1. rewrite (search_skip_run MO _ MO_rejects (blanks k1) _ n1 _ (Hb k1) (Hba k1)).
    rewrite blanks_length. fold pop.
    rewrite (search_hit MO _ _ _ _ _ (MO_hit op tail2 pop _ _ opf_op)). rewrite W. reflexivity. }
  rewrite (iter_hit MO 1 _ _ _ _ _ _ _ _ S1).
  2:{ cbn [ms_pos]. lia. }
  unfold render_caps at 1. cbn [ms_rest ms_pos ms_prev ms_rem ms_caps seq map lookup_cap Nat.eqb].
  f_equal. apply iter_none_any. unfold tail2.
  rewrite (search_skip_run MO _ MO_rejects (blanks k2) d2 _ _ (Hb k2) (Hba k2)).
  rewrite <- (app_nil_r d2) at 1 2. rewrite (search_skip_run MO _ MO_rejects d2 [] _ _ Ho2 Ha2).
  cbn [search]. rewrite MO_nil. reflexivity.
Qed.

End Line.

(* the whitespace regex: one turn of the iteration over  rejected-run blanks+ tail *)
Lemma advst_prev : forall xs tail pos prev rem caps, ms_prev (advst tail pos prev rem caps xs) = lastp xs prev.
Proof. induction xs as [|c t IH]; intros; cbn [advst lastp]; [reflexivity|apply IH]. Qed.

Lemma WS_step fuel xs0 k tail pos prev last :
  forallb (fun c => negb (spf c)) xs0 = true -> forallb ascii xs0 = true -> stops spf tail ->
  let a := pos + N.of_nat (length xs0) in
  let b := a + N.of_nat (S k) in
  iter_loop (S fuel) MW 1 (xs0 ++ blanks (S k) ++ tail) pos prev (length (xs0 ++ blanks (S k) ++ tail)) last
  = [Some (a, b); Some (a, b)]
    :: iter_loop fuel MW 1 tail b (lastp (blanks (S k)) (lastp xs0 prev)) (length tail) (Some b).
Proof.
  intros Hr Ha Ht a b.
  assert (Hbs : forallb spf (blanks (S k)) = true) by (apply forallb_repeat; reflexivity).
  assert (Hba : forallb ascii (blanks (S k)) = true) by (apply forallb_repeat; reflexivity).
  destruct (advst_fields (blanks (S k)) tail a (lastp xs0 prev) (length (blanks (S k) ++ tail)) [] Hba) as (A & B & C & D).
  assert (S1 : search MW (xs0 ++ blanks (S k) ++ tail) pos prev (length (xs0 ++ blanks (S k) ++ tail))
               = Some (a, pushcap 1 a (advst tail a (lastp xs0 prev) (length (blanks (S k) ++ tail)) [] (blanks (S k))))).
  { rewrite (search_skip_run MW _ MW_rejects xs0 _ pos prev Hr Ha). fold a.
    apply search_hit. apply MW_hit; [discriminate|exact Hbs|exact Ht|]. rewrite app_length. lia. }
  rewrite (iter_hit MW 1 _ _ _ _ _ _ _ _ S1).
  2:{ unfold pushcap. cbn [ms_pos]. rewrite B, blanks_length. lia. }
  unfold pushcap at 1 2 3 4 5. cbn [ms_rest ms_pos ms_prev ms_rem]. unfold render_caps at 1.
  cbn [ms_pos ms_caps pushcap seq map lookup_cap Nat.eqb].
  rewrite A, B, D, advst_prev, blanks_length. fold b.
  replace (length (blanks (S k) ++ tail) - S k)%nat with (length tail)
    by (rewrite app_length, blanks_length; lia).
  reflexivity.
Qed.

Lemma WS_end fuel xs0 pos prev last :
  forallb (fun c => negb (spf c)) xs0 = true -> forallb ascii xs0 = true ->
  iter_loop fuel MW 1 (xs0 ++ []) pos prev (length (xs0 ++ [])) last = [].
Proof.
  intros Hr Ha. apply iter_none_any. rewrite (search_skip_run MW _ MW_rejects xs0 [] pos prev Hr Ha).
  cbn [search]. rewrite MW_nil. reflexivity.
Qed.

Lemma WS_end' fuel xs0 pos prev last :
  forallb (fun c => negb (spf c)) xs0 = true -> forallb ascii xs0 = true ->
  iter_loop fuel MW 1 xs0 pos prev (length xs0) last = [].
Proof. intros Hr Ha. pose proof (WS_end fuel xs0 pos prev last Hr Ha) as H. rewrite app_nil_r in H. exact H. Qed.

Definition ws_span_ok (pop : N) (cp : capture) : Prop :=
  exists b e, cp = [Some (b, e); Some (b, e)] /\ (e <= pop \/ pop + 1 <= b).

(* the whitespace regex: at most the two blank runs, never across the operator *)
Theorem caps_WS_spans d1 k1 op k2 d2 :
  forallb digit d1 = true -> forallb digit d2 = true -> shape_ok op k2 ->
  Forall (ws_span_ok (N.of_nat (length d1) + N.of_nat k1)) (caps_iter WS (shape_line d1 k1 op k2 d2)).
Proof.
  intros Hd1 Hd2 Hop.
  destruct (digits_all d1 Hd1) as (_ & Ha1 & Hs1 & _). destruct (digits_all d2 Hd2) as (_ & Ha2 & Hs2 & _).
  destruct (sepch_facts op (proj1 (op_of_shape _ _ Hop))) as (_ & _ & _ & Hao & _).
  assert (Hso : spf op = false).
  { destruct Hop as [[->| ->]|[[->| ->] _]]; reflexivity. }
  assert (Hro : forallb (fun c => negb (spf c)) [op] = true) by (cbn [forallb]; rewrite Hso; reflexivity).
  assert (Hrao : forallb ascii [op] = true) by (cbn [forallb]; rewrite Hao; reflexivity).
  assert (Hst2 : stops spf d2).
  { destruct d2 as [|c t]; [exact Logic.I|]. cbn [forallb] in Hs2. apply andb_true_iff in Hs2 as [H _].
    apply negb_true_iff in H. exact H. }
  unfold caps_iter, captures_iter_p. rewrite WS_matcher. change (cre_n WS) with 1%nat.
  unfold shape_line. set (n := length (d1 ++ blanks k1 ++ op :: blanks k2 ++ d2)). unfold n.
  destruct k1 as [|k]; destruct k2 as [|k'].
  - (* no blanks *)
    cbn [blanks repeat app]. rewrite (WS_end' _ (d1 ++ op :: d2)); [constructor| |].
    + rewrite forallb_app. rewrite Hs1. cbn [forallb]. rewrite Hso, Hs2. reflexivity.
    + rewrite forallb_app. rewrite Ha1. cbn [forallb]. rewrite Hao, Ha2. reflexivity.
  - (* blanks after the operator *)
    change (d1 ++ blanks 0 ++ op :: blanks (S k') ++ d2) with (d1 ++ [op] ++ blanks (S k') ++ d2).
    rewrite app_assoc. rewrite WS_step; [|rewrite forallb_app, Hs1; exact Hro|rewrite forallb_app, Ha1; exact Hrao|exact Hst2].
    rewrite (WS_end' _ d2) by assumption.
    constructor; [|constructor]. eexists _, _. split; [reflexivity|]. right. rewrite app_length. cbn [length]. lia.
  - (* blanks before the operator *)
    change (d1 ++ blanks (S k) ++ op :: blanks 0 ++ d2) with (d1 ++ blanks (S k) ++ (op :: d2)).
    rewrite WS_step; [|exact Hs1|exact Ha1|exact Hso].
    rewrite (WS_end' _ (op :: d2)).
    + constructor; [|constructor]. eexists _, _. split; [reflexivity|]. left. lia.
    + cbn [forallb]. rewrite Hso, Hs2. reflexivity.
    + cbn [forallb]. rewrite Hao, Ha2. reflexivity.
  - (* both *)
    change (d1 ++ blanks (S k) ++ op :: blanks (S k') ++ d2) with (d1 ++ blanks (S k) ++ ([op] ++ blanks (S k') ++ d2)).
    rewrite WS_step; [|exact Hs1|exact Ha1|exact Hso].
    rewrite WS_step; [|exact Hro|exact Hrao|exact Hst2].
    rewrite (WS_end' _ d2) by assumption.
    constructor; [|constructor; [|constructor]]; eexists _, _; (split; [reflexivity|]); cbn [length]; lia.
Qed.

End Shape.

(* ---- the lexer on the shaped line ---- *)
Section ShapeSlices.
Local Open Scope N_scope.

Lemma ascii_w c : ascii c = true -> utf8_w c = 1.
Proof. unfold ascii, utf8_w. intros ->. reflexivity. Qed.

Lemma take_ascii xs : forall tail, forallb ascii xs = true -> take_bytes (xs ++ tail) (N.of_nat (length xs)) = xs.
Proof.
  induction xs as [|d xs IH]; intros tail Ha.
  - destruct tail; reflexivity.
  - cbn [forallb] in Ha. apply andb_true_iff in Ha as [Hd Hds].
    cbn [app take_bytes length]. rewrite (ascii_w d Hd).
    destruct (N.eqb_spec (N.of_nat (S (length xs))) 0) as [E|_]; [lia|].
    replace (N.of_nat (S (length xs)) - 1) with (N.of_nat (length xs)) by lia.
    rewrite IH by assumption. reflexivity.
Qed.

Lemma drop_ascii xs : forall tail, forallb ascii xs = true -> drop_bytes (xs ++ tail) (N.of_nat (length xs)) = tail.
Proof.
  induction xs as [|d xs IH]; intros tail Ha.
  - destruct tail; reflexivity.
  - cbn [forallb] in Ha. apply andb_true_iff in Ha as [Hd Hds].
    cbn [app drop_bytes length]. rewrite (ascii_w d Hd).
    destruct (N.eqb_spec (N.of_nat (S (length xs))) 0) as [E|_]; [lia|].
    replace (N.of_nat (S (length xs)) - 1) with (N.of_nat (length xs)) by lia.
    apply IH. exact Hds.
Qed.

(* the text between two positions of an ASCII line *)
Lemma slice_mid pre mid post : forallb ascii pre = true -> forallb ascii mid = true ->
  slice (pre ++ mid ++ post) (N.of_nat (length pre), N.of_nat (length pre) + N.of_nat (length mid)) = mid.
Proof.
  intros Hp Hm. unfold slice. cbn [fst snd]. rewrite (drop_ascii pre _ Hp).
  replace (N.of_nat (length pre) + N.of_nat (length mid) - N.of_nat (length pre)) with (N.of_nat (length mid)) by lia.
  apply take_ascii. exact Hm.
Qed.

Lemma digit_in_arith c : digit c = true -> in_alpha ARITH c = true.
Proof.
  unfold digit. intros H. apply andb_true_iff in H as [H1 H2]. apply N.leb_le in H1. apply N.leb_le in H2.
  assert (Hc : c = 48 \/ c = 49 \/ c = 50 \/ c = 51 \/ c = 52 \/ c = 53 \/ c = 54 \/ c = 55 \/ c = 56 \/ c = 57) by lia.
  repeat destruct Hc as [->|Hc]; try reflexivity. subst. reflexivity.
Qed.

Lemma digits_over ds : forallb digit ds = true -> over ARITH ds.
Proof.
  unfold over. intros H. rewrite forallb_forall in *. intros c Hc. apply digit_in_arith. exact (H c Hc).
Qed.

Lemma shape_line_over d1 k1 op k2 d2 :
  forallb digit d1 = true -> forallb digit d2 = true -> shape_ok op k2 -> over ARITH (shape_line d1 k1 op k2 d2).
Proof.
  intros H1 H2 Hop. unfold shape_line. apply over_app. split; [apply digits_over, H1|].
  apply over_app. split; [apply over_repeat; reflexivity|]. apply over_cons. split.
  - destruct Hop as [[->| ->]|[[->| ->] _]]; reflexivity.
  - apply over_app. split; [apply over_repeat; reflexivity|apply digits_over, H2].
Qed.
End ShapeSlices.

Section ShapeLexer.
Context {F : Type} {NF : Num F}.
Local Open Scope N_scope.
Variable today : Z.
Variable cfg : config F.
Variable lang : str.
Variables (d1 d2 : list N) (k1 k2 : nat) (op : N) (x1 x2 : F).
Hypothesis Hne1 : d1 <> [].
Hypothesis Hne2 : d2 <> [].
Hypothesis Hd1 : forallb digit d1 = true.
Hypothesis Hd2 : forallb digit d2 = true.
Hypothesis Hop : shape_ok op k2.
(* the literals are read by the configuration's separators (Lexer.read_decimal) *)
Hypothesis Hx1 : read_decimal cfg d1 = Some x1.
Hypothesis Hx2 : read_decimal cfg d2 = Some x2.

Notation tstate := (@Rules.tstate F).

Let n1 := N.of_nat (length d1).
Let n2 := N.of_nat (length d2).
Let pop := n1 + N.of_nat k1.
Let p2 := pop + 1 + N.of_nat k2.
Let L := shape_line d1 k1 op k2 d2.

Definition mk_tok (b e : N) (t : token F) (text : str) : token_info F :=
  {| ti_start := b; ti_end := e; ti_ty := Some t; ti_text := text; ti_active := true |}.

Let tokN1 := mk_tok 0 n1 (TNumber x1 Decimal) d1.
Let tokOp := mk_tok pop (pop + 1) (TOperator op) [op].
Let tokN2 := mk_tok p2 (p2 + n2) (TNumber x2 Decimal) d2.

Lemma slice1 : slice L (0, n1) = d1.
Proof.
  destruct (digits_all d1 Hd1) as (_ & Ha1 & _ & _).
  pose proof (slice_mid [] d1 (blanks k1 ++ op :: blanks k2 ++ d2) eq_refl Ha1) as H.
  cbn [length app N.of_nat] in H. rewrite N.add_0_l in H. exact H.
Qed.

Lemma ascii_op : ascii op = true.
Proof. destruct Hop as [[->| ->]|[[->| ->] _]]; reflexivity. Qed.

Lemma slice_op : slice L (pop, pop + 1) = [op].
Proof.
  destruct (digits_all d1 Hd1) as (_ & Ha1 & _ & _).
  assert (Hp : forallb ascii (d1 ++ blanks k1) = true)
    by (rewrite forallb_app, Ha1; apply forallb_repeat; reflexivity).
  assert (Hm : forallb ascii [op] = true) by (cbn [forallb]; rewrite ascii_op; reflexivity).
  pose proof (slice_mid (d1 ++ blanks k1) [op] (blanks k2 ++ d2) Hp Hm) as H.
  rewrite app_length, blanks_length in H. cbn [length] in H.
  replace (N.of_nat (length d1 + k1)) with pop in H by (unfold pop, n1; lia).
  change (N.of_nat 1) with 1 in H. rewrite <- app_assoc in H. exact H.
Qed.

Lemma slice2 : slice L (p2, p2 + n2) = d2.
Proof.
  destruct (digits_all d1 Hd1) as (_ & Ha1 & _ & _). destruct (digits_all d2 Hd2) as (_ & Ha2 & _ & _).
  assert (Hp : forallb ascii (d1 ++ blanks k1 ++ op :: blanks k2) = true).
  { assert (Hb : forall k, forallb ascii (blanks k) = true) by (intros k; apply forallb_repeat; reflexivity).
    rewrite forallb_app, Ha1. rewrite forallb_app, Hb. cbn [forallb andb]. rewrite ascii_op. apply Hb. }
  pose proof (slice_mid (d1 ++ blanks k1 ++ op :: blanks k2) d2 [] Hp Ha2) as H.
  rewrite !app_length in H. cbn [length] in H. rewrite !blanks_length in H.
  replace (N.of_nat (length d1 + (k1 + S k2))) with p2 in H by (unfold p2, pop, n1; lia).
  rewrite app_nil_r in H. rewrite <- !app_assoc in H. cbn [app] in H. exact H.
Qed.

(* --- number parser --- *)
Lemma number_cres_split : cres_of "number" = firstn 3 (cres_of "number") ++ [DEC].
Proof. reflexivity. Qed.

Lemma number_first3_quiet : all_need ARITH (firstn 3 (cres_of "number")) = true.
Proof. vm_compute. reflexivity. Qed.

Lemma over_regexes_app (body : @parser_body F) data a b st :
  over_regexes body data (a ++ b) st = do st' <- over_regexes body data a st; over_regexes body data b st'.
Proof.
  revert st. induction a as [|c r IH]; intros st; cbn [app over_regexes bind]; [reflexivity|].
  destruct (over_captures body c (caps_iter c data) st); cbn [bind]; [apply IH|reflexivity].
Qed.

Lemma number_body_DEC b e d x (st : tstate) :
  slice L (b, e) = d -> read_decimal cfg d = Some x -> collides (ts_infos st) b e = false ->
  exists ui, number_body cfg L DEC [Some (b, e); Some (b, e); None] st
             = Ok {| ts_infos := ts_infos st ++ [mk_tok b e (TNumber x Decimal) d]; ts_ui := ui |}.
Proof.
  intros Hs Hx Hc. unfold number_body, cap_name.
  change (assoc (s "BINARY") (cre_names DEC)) with (@None nat). cbv iota.
  change (assoc (s "HEX") (cre_names DEC)) with (@None nat). cbv iota.
  change (assoc (s "OCTAL") (cre_names DEC)) with (@None nat). cbv iota.
  change (assoc (s "DECIMAL") (cre_names DEC)) with (Some 1%nat). cbv iota.
  change (assoc (s "NOTATION") (cre_names DEC)) with (Some 2%nat). cbv iota.
  unfold cap_get. cbn [nth_opt]. rewrite Hs, Hx. cbn [snd].
  unfold add_token. rewrite Hc. eexists. reflexivity.
Qed.

Lemma number_parser_shape :
  exists ui, over_regexes (number_body cfg L) L (cres_of "number") empty_state
             = Ok {| ts_infos := [tokN1; tokN2]; ts_ui := ui |}.
Proof.
  rewrite number_cres_split, over_regexes_app.
  rewrite over_regexes_quiet.
  2:{ apply (all_need_quiet ARITH); [exact number_first3_quiet|]. apply shape_line_over; assumption. }
  cbn [bind over_regexes].
  pose proof (caps_DEC d1 d2 k1 k2 op Hne1 Hne2 Hd1 Hd2 Hop) as HC. cbv zeta in HC. fold n1 n2 pop p2 in HC.
  change (shape_line d1 k1 op k2 d2) with L in HC. rewrite HC. cbn [over_captures].
  destruct (number_body_DEC 0 n1 d1 x1 empty_state slice1 Hx1 eq_refl) as (ui1 & E1).
  rewrite E1. cbn [bind ts_infos empty_state app].
  assert (Hc : collides (F:=F) [mk_tok 0 n1 (TNumber x1 Decimal) d1] p2 (p2 + n2) = false).
  { unfold collides. cbn [existsb mk_tok ti_start ti_end]. 
    assert (E : N.ltb p2 n1 = false) by (apply N.ltb_ge; unfold p2, pop; lia).
    rewrite E. rewrite andb_false_r. reflexivity. }
  destruct (number_body_DEC p2 (p2 + n2) d2 x2 {| ts_infos := [mk_tok 0 n1 (TNumber x1 Decimal) d1]; ts_ui := ui1 |}
              slice2 Hx2 Hc) as (ui2 & E2).
  rewrite E2. cbn [bind ts_infos app]. exists ui2. reflexivity.
Qed.

(* --- whitespace parser: untyped infos that stay clear of the operator --- *)
Definition extra_ok (t : token_info F) : Prop :=
  ti_ty t = None /\ (ti_end t <= pop \/ pop + 1 <= ti_start t).

Lemma ws_captures : forall cps, Forall (ws_span_ok pop) cps -> forall st : tstate,
  exists extras, over_captures (whitespace_body L) WS cps st
                 = Ok {| ts_infos := ts_infos st ++ extras; ts_ui := ts_ui st |} /\ Forall extra_ok extras.
Proof.
  induction 1 as [|cp r (b & e & -> & Hbe) Hr IH]; intros st; cbn [over_captures].
  - exists []. rewrite app_nil_r. destruct st; split; [reflexivity|constructor].
  - unfold whitespace_body at 1. unfold cap_get. cbn [nth_opt]. unfold add_token.
    destruct (collides (ts_infos st) b e); cbn [fst bind].
    + exact (IH st).
    + destruct (IH {| ts_infos := ts_infos st ++ [{| ti_start := b; ti_end := e; ti_ty := None;
                                                      ti_text := slice L (b, e); ti_active := true |}];
                      ts_ui := ts_ui st |}) as (extras & E & Hx).
      cbn [ts_infos ts_ui] in E. rewrite <- app_assoc in E. eexists. split; [exact E|].
      constructor; [|exact Hx]. split; [reflexivity|exact Hbe].
Qed.

Lemma whitespace_parser_shape (st : tstate) :
  exists extras, over_regexes (whitespace_body L) L (cres_of "whitespace") st
                 = Ok {| ts_infos := ts_infos st ++ extras; ts_ui := ts_ui st |} /\ Forall extra_ok extras.
Proof.
  change (cres_of "whitespace") with [WS]. cbn [over_regexes].
  destruct (ws_captures _ (caps_WS_spans d1 k1 op k2 d2 Hd1 Hd2 Hop) st) as (extras & E & Hx).
  fold n1 pop in E. change (shape_line d1 k1 op k2 d2) with L in E. rewrite E. cbn [bind].
  exists extras. split; [reflexivity|exact Hx].
Qed.

(* --- operator parser --- *)
Lemma extras_clear extras : Forall extra_ok extras -> collides extras pop (pop + 1) = false.
Proof.
  unfold collides. induction 1 as [|t r [_ Ht] Hr IH]; [reflexivity|]. cbn [existsb]. rewrite IH, orb_false_r.
  destruct Ht as [Ht|Ht].
  - assert (E : N.ltb pop (ti_end t) = false) by (apply N.ltb_ge; exact Ht). rewrite E. apply andb_false_r.
  - assert (E : N.ltb (ti_start t) (pop + 1) = false) by (apply N.ltb_ge; exact Ht). rewrite E. reflexivity.
Qed.

Lemma operator_parser_shape extras ui : Forall extra_ok extras ->
  exists ui', over_regexes (operator_body L) L (cres_of "operator") {| ts_infos := [tokN1; tokN2] ++ extras; ts_ui := ui |}
              = Ok {| ts_infos := ([tokN1; tokN2] ++ extras) ++ [tokOp]; ts_ui := ui' |}.
Proof.
  intros Hx. change (cres_of "operator") with [OPR]. cbn [over_regexes].
  pose proof (caps_OPR d1 d2 k1 k2 op Hd1 Hd2 Hop) as HC. cbv zeta in HC. fold n1 pop in HC.
  change (shape_line d1 k1 op k2 d2) with L in HC. rewrite HC. cbn [over_captures].
  unfold operator_body at 1. unfold cap_get. cbn [nth_opt]. rewrite slice_op. unfold add_token. cbn [ts_infos].
  assert (Hc : collides ([tokN1; tokN2] ++ extras) pop (pop + 1) = false).
  { unfold collides. rewrite existsb_app. fold (collides extras pop (pop + 1)). rewrite (extras_clear extras Hx).
    rewrite orb_false_r. cbn [existsb tokN1 tokN2 mk_tok ti_start ti_end].
    assert (E1 : N.ltb pop n1 = false) by (apply N.ltb_ge; unfold pop; lia).
    assert (E2 : N.ltb p2 (pop + 1) = false) by (apply N.ltb_ge; unfold p2; lia).
    rewrite E1, E2. rewrite andb_false_r. reflexivity. }
  rewrite Hc. cbn [bind]. eexists. reflexivity.
Qed.

(* --- cleanup: the typed infos in order of position --- *)
Lemma cleanup_shape extras ui : Forall extra_ok extras ->
  ts_infos (cleanup {| ts_infos := ([tokN1; tokN2] ++ extras) ++ [tokOp]; ts_ui := ui |}) = [tokN1; tokOp; tokN2].
Proof.
  intros Hx. unfold cleanup. cbn [ts_infos].
  assert (Ef : filter (fun t : token_info F => match ti_ty t with Some _ => true | None => false end) extras = []).
  { induction Hx as [|t r [Ht _] Hr IH]; [reflexivity|]. cbn [filter]. rewrite Ht. exact IH. }
  rewrite !filter_app, Ef. cbn [filter tokN1 tokN2 tokOp mk_tok ti_ty app fold_left info_insert_sorted ti_start].
  assert (E1 : N.ltb p2 0 = false) by (apply N.ltb_ge; lia).
  assert (E2 : N.ltb pop 0 = false) by (apply N.ltb_ge; lia).
  assert (E3 : N.ltb pop p2 = true) by (apply N.ltb_lt; unfold p2; lia).
  rewrite E1. cbn [info_insert_sorted ti_start].
  change (ti_start tokOp) with pop. change (ti_start tokN1) with 0. change (ti_start tokN2) with p2.
  rewrite E2, E3. reflexivity.
Qed.

Lemma L_over : over ARITH L.
Proof. apply shape_line_over; assumption. Qed.

Lemma parse_keys :
  assoc (s "number") (lx_parse LX) = Some (cres_of "number") /\
  assoc (s "whitespace") (lx_parse LX) = Some (cres_of "whitespace") /\
  assoc (s "operator") (lx_parse LX) = Some (cres_of "operator").
Proof. repeat split. Qed.

(* C02, lexical step for the simplest shape: the three tokens, for every length of the literals and blank runs *)
Theorem shape_regex_tokinizer :
  exists ui, regex_tokinizer LX today cfg lang L empty_state = Ok {| ts_infos := [tokN1; tokOp; tokN2]; ts_ui := ui |}.
Proof.
  rewrite (arith_line_regex_tokinizer today cfg lang L empty_state L_over).
  destruct parse_keys as (K1 & K2 & K3). cbn [run_keys]. rewrite K1, K2, K3.
  change (run_parser today cfg lang L (s "number") (cres_of "number") empty_state)
    with (over_regexes (number_body cfg L) L (cres_of "number") empty_state).
  destruct number_parser_shape as (ui1 & E1). rewrite E1. cbn [bind].
  change (run_parser today cfg lang L (s "whitespace") (cres_of "whitespace") {| ts_infos := [tokN1; tokN2]; ts_ui := ui1 |})
    with (over_regexes (whitespace_body L) L (cres_of "whitespace") {| ts_infos := [tokN1; tokN2]; ts_ui := ui1 |}).
  destruct (whitespace_parser_shape {| ts_infos := [tokN1; tokN2]; ts_ui := ui1 |}) as (extras & E2 & Hx).
  rewrite E2. cbn [bind ts_infos ts_ui].
  match goal with |- context [run_parser today cfg lang L (s "operator") (cres_of "operator") ?st] =>
    change (run_parser today cfg lang L (s "operator") (cres_of "operator") st)
      with (over_regexes (operator_body L) L (cres_of "operator") st) end.
  destruct (operator_parser_shape extras ui1 Hx) as (ui3 & E3). rewrite E3. cbn [bind].
  pose proof (cleanup_shape extras ui3 Hx) as Hc.
  destruct (cleanup _) as [infos ui4]. cbn [ts_infos] in Hc. subst infos. exists ui4. reflexivity.
Qed.

Theorem shape_token_infos : token_infos LX today cfg lang L = Ok [tokN1; tokOp; tokN2].
Proof.
  unfold token_infos, language_tokinizer.
  rewrite (arith_line_no_month cfg lang L empty_state L_over). cbn [bind].
  change (cleanup (F:=F) empty_state) with (empty_state (F:=F)).
  destruct shape_regex_tokinizer as (ui & E). rewrite E. cbn [bind].
  rewrite (alias_tokinizer_id LX today ARITH cfg lang _ LX_alias_table); [reflexivity|].
  cbn [ts_infos]. repeat constructor; cbn [tokN1 tokOp tokN2 mk_tok ti_text].
  - apply digits_over, Hd1.
  - apply over_cons. split; [|reflexivity]. destruct Hop as [[->| ->]|[[->| ->] _]]; reflexivity.
  - apply digits_over, Hd2.
Qed.

End ShapeLexer.

(* non-vacuity: 12 + 30, 7*8, and a long one *)
Example shape_example :
  shape_line (s "12") 1 43 1 (s "30") = s "12 + 30" /\ shape_ok 43 1 /\
  shape_line (s "7") 0 42 0 (s "8") = s "7*8" /\ shape_ok 42 0.
Proof. repeat split; try reflexivity; [right; split; [left; reflexivity|apply le_n]|left; left; reflexivity]. Qed.

(* why shape_ok asks for a blank after + and -: without it the sign is read into the second literal (C16-K2) *)
Example sign_joins_the_literal :
  caps_iter DEC (s "1+2") = [[Some (0, 1); Some (0, 1); None]; [Some (1, 3); Some (1, 3); None]]%N.
Proof. vm_compute. reflexivity. Qed.

(* ===================================================================================== *)
Print Assumptions needs_sound.
Print Assumptions needs_out_caps_iter.
Print Assumptions needs_caps_iter.
Print Assumptions gsafe_out_caps_iter.
Print Assumptions g_blank_table.
Print Assumptions g_silent_table.
Print Assumptions g_char_table.
Print Assumptions g_alias_table.
Print Assumptions blank_line_no_tokens.
Print Assumptions blank_line_evaluates_to_nothing.
Print Assumptions arith_line_silent_parsers.
Print Assumptions arith_line_regex_tokinizer.
Print Assumptions arith_line_no_month.
Print Assumptions alias_tokinizer_id.
Print Assumptions caps_DEC.
Print Assumptions caps_OPR.
Print Assumptions caps_WS_spans.
Print Assumptions shape_regex_tokinizer.
Print Assumptions shape_token_infos.
