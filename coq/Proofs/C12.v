(* Proofs for property C12 (unit conversion).

   The conversion chain is DATA: every unit carries an upgrade and a downgrade code string
   ("{value} / 10", "{value} * 1024", ...), every bridge between two families two more.  The
   model (Items.unit_loop / calculate_unit / dyn_convert) substitutes the amount into the code
   and evaluates it through [bexec] (= Api.basic_execute: lexer + parser + interpreter).

   1. code_shape          a parser for the codes: "{value}", "{value} * c", "{value} / c" (c decimal);
      codes_shaped        finite-table: every code of the loaded table has one of these shapes
   2. walk_path/unit_path/conv_path
                          the chain walk of the model with the evaluator left out: the list of
                          steps (shapes) the model performs, in order
      convert_is_path     for every number algebra, evaluator and configuration: if the evaluator
                          computes [step sh x] on the code of shape [sh] with [x] substituted, then
                          dyn_convert = the steps of conv_path applied in order (all amounts)
   3. run_q_linear        over Qc the steps applied in order are x * path_factor (all x)
   4. factor_table        finite-table: all ordered pairs (u, v) of one kind, every name of v:
                          the path exists, ends in v, and its factor is size u / size v of Spec/Units
      linear / inverse / transitive as corollaries for all amounts
   5. kinds               dyn_convert never yields a unit of another kind (any evaluator)
   6. arithmetic          Items.calculate on quantities (any number algebra); the rule function
                          dynamic_type_convert; quantities of different kinds do not combine
   6b. separators         basic_execute and dyn_convert do not depend on the decimal / thousands
                          separator (all algebras, configurations, inputs)
   7. binary64            the faithful model (basic_execute on the substituted string) agrees with
                          the abstract step on samples x every code, and dyn_convert with the
                          abstract walk on every ordered pair for one amount; end-to-end examples

   The one link left to the correspondence check: [evaluates basic_execute default_config gstep]
   for ALL amounts (print the amount, substitute, lex, parse, evaluate = amount * c resp. / c). *)
From Coq Require Import QArith Qcanon.
From SC.Model Require Import Base Num NumF64 NumQ FloatIO Types Config UiTokens Rx Post Parser Items Interp RuleFns Rules Lexer Api Run64 Corr.
From SC.Spec Require Import Units.
From SC.Gen Require Import ConfigData.
From Coq Require Import Floats.
Open Scope Z_scope.

(* ------------------------------------------------------------------------------------- *)
(* 1. the shape of a conversion code                                                      *)
(* ------------------------------------------------------------------------------------- *)
(* the constant is the decimal m * 10^-k *)
Inductive shape := SId | SMul (m k : Z) | SDiv (m k : Z).

Fixpoint strip_prefix (p x : str) : option str :=
  match p, x with
  | [], _ => Some x
  | a :: p', b :: x' => if N.eqb a b then strip_prefix p' x' else None
  | _ :: _, [] => None
  end.

Definition is_digit (c : N) : bool := (48 <=? c)%N && (c <=? 57)%N.

(* digits [ '.' digits ] *)
Fixpoint dec_go (x : str) (m k : Z) (seen_dot any : bool) : option (Z * Z) :=
  match x with
  | [] => if any then Some (m, k) else None
  | c :: r =>
    if is_digit c then dec_go r (10 * m + Z.of_N (c - 48)) (if seen_dot then k + 1 else k) seen_dot true
    else if N.eqb c 46 && negb seen_dot && any then dec_go r m k true false
    else None
  end.

Definition dec_of (x : str) : option (Z * Z) := dec_go x 0 0 false false.

Definition code_shape (code : str) : option shape :=
  match strip_prefix (s "{value}") code with
  | None => None
  | Some [] => Some SId
  | Some rest =>
    match strip_prefix (s " * ") rest with
    | Some d => option_map (fun mk => SMul (fst mk) (snd mk)) (dec_of d)
    | None =>
      match strip_prefix (s " / ") rest with
      | Some d => option_map (fun mk => SDiv (fst mk) (snd mk)) (dec_of d)
      | None => None
      end
    end
  end.

Definition has_shape (code : str) : bool :=
  match code_shape code with Some _ => true | None => false end.

Definition units_of {G} (T : list (str * list (N * dyntype G))) : list (dyntype G) :=
  flat_map (fun g => map snd (snd g)) T.

(* the table the model loads (Api.load_config on Gen/ConfigData.d_types_raw, d_type_conv) *)
Definition TYPES := cf_types default_config.
Definition CONVS := cf_type_conv default_config.
Definition UNITS := units_of TYPES.

Definition raw_codes : list str :=
  flat_map (fun g => flat_map (fun it =>
     let '(_, _, _, up, down, _, _, _, _, _) := it in [up; down]) (snd g)) d_types_raw
  ++ flat_map (fun tc => [tc_to_source tc; tc_to_target tc]) d_type_conv.

Theorem codes_shaped :
  (forall code, In code raw_codes -> has_shape code = true) /\
  (forall u, In u UNITS -> has_shape (dt_up u) = true /\ has_shape (dt_down u) = true) /\
  (forall tc, In tc CONVS -> has_shape (tc_to_source tc) = true /\ has_shape (tc_to_target tc) = true).
Proof.
  split; [|split].
  - apply forallb_forall. vm_compute. reflexivity.
  - assert (H : forallb (fun u => has_shape (dt_up u) && has_shape (dt_down u)) UNITS = true)
      by (vm_compute; reflexivity).
    rewrite forallb_forall in H. intros u Hu. apply andb_true_iff. apply H, Hu.
  - assert (H : forallb (fun tc => has_shape (tc_to_source tc) && has_shape (tc_to_target tc)) CONVS = true)
      by (vm_compute; reflexivity).
    rewrite forallb_forall in H. intros u Hu. apply andb_true_iff. apply H, Hu.
Qed.

(* the loaded table is the regenerated one: same units in the same families, both bridges *)
Theorem table_loaded :
  length UNITS = 33%nat /\
  map (fun g => (fst g, map (fun e => (fst e, dt_index (snd e), dt_up (snd e), dt_down (snd e), dt_names (snd e), dt_group (snd e))) (snd g))) TYPES
  = map (fun g => (fst g, map (fun it => let '(i, _, _, up, down, names, _, _, _, grp) := it in (i, i, up, down, names, grp)) (snd g)))
        (fold_left (fun acc g => assoc_insert (fst g) (snd g) acc) d_types_raw []) /\
  CONVS = d_type_conv.
Proof. vm_compute. repeat split; reflexivity. Qed.

(* ------------------------------------------------------------------------------------- *)
(* 2. the chain walk with the evaluator left out                                          *)
(* ------------------------------------------------------------------------------------- *)
Section Path.
Context {G : Type}.

(* mirrors Items.unit_loop *)
Fixpoint walk_path (fuel : nat) (group : list (N * dyntype G)) (upgrade : bool) (target_index : N)
         (next_item : dyntype G) (search_index : Z) : option (list shape) :=
  match fuel with
  | O => None
  | S f =>
    match code_shape (if upgrade then dt_up next_item else dt_down next_item) with
    | None => None
    | Some sh =>
      match nassoc (Z.to_N search_index) group with
      | None => None
      | Some next' =>
        if N.eqb (dt_index next') target_index then Some [sh]
        else if negb upgrade && (search_index =? 0) then None
        else option_map (cons sh)
               (walk_path f group upgrade target_index next'
                          (if upgrade then search_index + 1 else search_index - 1))
      end
    end
  end.

(* mirrors Items.calculate_unit *)
Definition unit_path (src tgt : dyntype G) (group : list (N * dyntype G)) : option (list shape) :=
  if N.eqb (dt_index src) (dt_index tgt) then Some []
  else
    match nassoc (dt_index src) group with
    | None => None
    | Some next_item =>
      let upgrade := negb (N.ltb (dt_index tgt) (dt_index src)) in
      let search := if upgrade then Z.of_N (dt_index src) + 1 else Z.of_N (dt_index src) - 1 in
      let dist := Z.to_nat (Z.abs (Z.of_N (dt_index src) - Z.of_N (dt_index tgt))) in
      walk_path (S dist) group upgrade (dt_index tgt) next_item search
    end.

Definition conv_entry (C : list type_conv) (src : dyntype G) : option type_conv :=
  List.find (fun tc => str_eqb (tc_src_name tc) (dt_group src) || str_eqb (tc_tgt_name tc) (dt_group src)) C.

(* mirrors Items.dyn_convert: the steps and the unit reached *)
Definition conv_path (T : list (str * list (N * dyntype G))) (C : list type_conv)
           (src : dyntype G) (target_name : str) : option (list shape * dyntype G) :=
  match assoc (dt_group src) T with
  | None => None
  | Some group =>
    match find_by_name target_name (map snd group) with
    | Some target =>
      if N.eqb (dt_index src) (dt_index target) then Some ([], src)
      else option_map (fun p => (p, target)) (unit_path src target group)
    | None =>
      match conv_entry C src with
      | None => None
      | Some tc =>
        let is_src := str_eqb (tc_src_name tc) (dt_group src) in
        let source_index := if is_src then tc_src_index tc else tc_tgt_index tc in
        let target_index := if is_src then tc_tgt_index tc else tc_src_index tc in
        match nassoc source_index group with
        | None => None
        | Some bridge =>
          match unit_path src bridge group with
          | None => None
          | Some p1 =>
            match code_shape (if is_src then tc_to_source tc else tc_to_target tc) with
            | None => None
            | Some shb =>
              match assoc (if is_src then tc_tgt_name tc else tc_src_name tc) T with
              | None => None
              | Some g =>
                match find_by_name target_name (map snd g) with
                | None => None
                | Some tgt =>
                  match nassoc target_index g with
                  | None => None
                  | Some src2 =>
                    option_map (fun p3 => (p1 ++ shb :: p3, tgt)) (unit_path src2 tgt g)
                  end
                end
              end
            end
          end
        end
      end
    end
  end.

(* the units a conversion from [src] can end in, whatever the target name and the evaluator *)
Definition reach (T : list (str * list (N * dyntype G))) (C : list type_conv) (src : dyntype G)
  : list (dyntype G) :=
  match assoc (dt_group src) T with
  | None => []
  | Some group =>
    src :: map snd group ++
    match conv_entry C src with
    | None => []
    | Some tc =>
      match assoc (if str_eqb (tc_src_name tc) (dt_group src) then tc_tgt_name tc else tc_src_name tc) T with
      | None => []
      | Some g => map snd g
      end
    end
  end.

End Path.

Section Simulation.
Context {F : Type} {NF : Num F}.
Variable bexec : config F -> str -> res (option F).
Variable cfg : config F.
Variable step : shape -> F -> F.

(* the evaluator computes [step sh x] on a code of shape [sh] with the amount [x] substituted *)
Definition evaluates : Prop :=
  forall x code sh, code_shape code = Some sh ->
    bexec cfg (replace_all (s "{value}") (fdisplay x) code) = Ok (Some (step sh x)).

Definition run_path (path : list shape) (x : F) : F := fold_left (fun a sh => step sh a) path x.

Lemma run_path_app p q x : run_path (p ++ q) x = run_path q (run_path p x).
Proof. apply fold_left_app. Qed.

Hypothesis Hev : evaluates.

Lemma unit_loop_path : forall fuel group up ti x next si path,
  walk_path fuel group up ti next si = Some path ->
  unit_loop bexec fuel cfg group up ti x next si = Ok (Some (run_path path x)).
Proof.
  induction fuel as [|f IH]; intros group up ti x next si path H; [discriminate|].
  cbn [walk_path] in H. cbn [unit_loop].
  destruct (code_shape (if up then dt_up next else dt_down next)) as [sh|] eqn:Hs; [|discriminate].
  rewrite (Hev x _ sh Hs). cbn [bind].
  destruct (nassoc (Z.to_N si) group) as [next'|]; [|discriminate].
  destruct (N.eqb (dt_index next') ti).
  - inversion H; subst. reflexivity.
  - destruct (negb up && (si =? 0)); [discriminate|].
    destruct (walk_path f group up ti next' (if up then si + 1 else si - 1)) as [p|] eqn:Hw; [|discriminate].
    inversion H; subst. rewrite (IH _ _ _ (step sh x) _ _ _ Hw). reflexivity.
Qed.

Lemma calculate_unit_path : forall x src tgt group path,
  unit_path src tgt group = Some path ->
  calculate_unit bexec cfg x src tgt group = Ok (Some (run_path path x)).
Proof.
  intros x src tgt group path H. unfold unit_path in H. unfold calculate_unit.
  destruct (N.eqb (dt_index src) (dt_index tgt)).
  - inversion H; subst. reflexivity.
  - destruct (nassoc (dt_index src) group) as [ni|]; [|discriminate].
    apply unit_loop_path. exact H.
Qed.

Theorem convert_is_path : forall x src name path tgt,
  conv_path (cf_types cfg) (cf_type_conv cfg) src name = Some (path, tgt) ->
  dyn_convert bexec cfg x src name = Ok (Some (run_path path x, tgt)).
Proof.
  intros x src name path tgt H. unfold conv_path in H. unfold dyn_convert.
  destruct (assoc (dt_group src) (cf_types cfg)) as [group|]; [|discriminate].
  destruct (find_by_name name (map snd group)) as [target|].
  - destruct (N.eqb (dt_index src) (dt_index target)).
    + inversion H; subst. reflexivity.
    + destruct (unit_path src target group) as [p|] eqn:Hp; [|discriminate].
      inversion H; subst. rewrite (calculate_unit_path x _ _ _ _ Hp). reflexivity.
  - unfold conv_entry in H.
    destruct (find _ (cf_type_conv cfg)) as [tc|]; [|discriminate].
    destruct (str_eqb (tc_src_name tc) (dt_group src)).
    + destruct (nassoc (tc_src_index tc) group) as [bridge|]; [|discriminate].
      destruct (unit_path src bridge group) as [p1|] eqn:Hp1; [|discriminate].
      rewrite (calculate_unit_path x _ _ _ _ Hp1). cbn [bind].
      destruct (code_shape (tc_to_source tc)) as [shb|] eqn:Hs; [|discriminate].
      rewrite (Hev _ _ shb Hs). cbn [bind].
      destruct (assoc (tc_tgt_name tc) (cf_types cfg)) as [g|]; [|discriminate].
      destruct (find_by_name name (map snd g)) as [t|]; [|discriminate].
      destruct (nassoc (tc_tgt_index tc) g) as [src2|]; [|discriminate].
      destruct (unit_path src2 t g) as [p3|] eqn:Hp3; [|discriminate].
      inversion H; subst. rewrite (calculate_unit_path _ _ _ _ _ Hp3). cbn [bind option_map].
      rewrite run_path_app. reflexivity.
    + destruct (nassoc (tc_tgt_index tc) group) as [bridge|]; [|discriminate].
      destruct (unit_path src bridge group) as [p1|] eqn:Hp1; [|discriminate].
      rewrite (calculate_unit_path x _ _ _ _ Hp1). cbn [bind].
      destruct (code_shape (tc_to_target tc)) as [shb|] eqn:Hs; [|discriminate].
      rewrite (Hev _ _ shb Hs). cbn [bind].
      destruct (assoc (tc_src_name tc) (cf_types cfg)) as [g|]; [|discriminate].
      destruct (find_by_name name (map snd g)) as [t|]; [|discriminate].
      destruct (nassoc (tc_src_index tc) g) as [src2|]; [|discriminate].
      destruct (unit_path src2 t g) as [p3|] eqn:Hp3; [|discriminate].
      inversion H; subst. rewrite (calculate_unit_path _ _ _ _ _ Hp3). cbn [bind option_map].
      rewrite run_path_app. reflexivity.
Qed.

End Simulation.

(* whatever the evaluator does: the unit reached is one of [reach] *)
Section Reach.
Context {F : Type} {NF : Num F}.
Variable bexec : config F -> str -> res (option F).
Variable cfg : config F.

Lemma find_by_name_in name (l : list (dyntype F)) t :
  find_by_name name l = Some t -> In t l /\ mem_str name (dt_names t) = true.
Proof. intro H. apply find_some in H. exact H. Qed.

Theorem convert_reach : forall x src name y tgt,
  dyn_convert bexec cfg x src name = Ok (Some (y, tgt)) ->
  In tgt (reach (cf_types cfg) (cf_type_conv cfg) src) /\
  exists t', In t' (reach (cf_types cfg) (cf_type_conv cfg) src) /\ mem_str name (dt_names t') = true.
Proof.
  intros x src name y tgt H. unfold dyn_convert in H. unfold reach, conv_entry.
  destruct (assoc (dt_group src) (cf_types cfg)) as [group|]; [|discriminate].
  destruct (find_by_name name (map snd group)) as [target|] eqn:Hf.
  - apply find_by_name_in in Hf as [Hin Hm].
    destruct (N.eqb (dt_index src) (dt_index target)).
    + inversion H; subst. split; [left; reflexivity|].
      exists target. split; [|exact Hm]. right. apply in_or_app. left. exact Hin.
    + destruct (calculate_unit bexec cfg x src target group) as [[r|]|]; try discriminate.
      cbn in H. inversion H; subst.
      assert (In tgt (src :: map snd group ++
                match find (fun tc => str_eqb (tc_src_name tc) (dt_group src) || str_eqb (tc_tgt_name tc) (dt_group src)) (cf_type_conv cfg) with
                | Some tc => match assoc (if str_eqb (tc_src_name tc) (dt_group src) then tc_tgt_name tc else tc_src_name tc) (cf_types cfg) with
                             | Some g => map snd g | None => [] end
                | None => [] end)) as Hr by (right; apply in_or_app; left; exact Hin).
      split; [exact Hr|]. exists tgt. split; [exact Hr | exact Hm].
  - destruct (find _ (cf_type_conv cfg)) as [tc|]; [|discriminate].
    destruct (str_eqb (tc_src_name tc) (dt_group src)).
    + destruct (nassoc (tc_src_index tc) group) as [bridge|]; [|discriminate].
      destruct (calculate_unit bexec cfg x src bridge group) as [[n1|]|]; try discriminate.
      cbn [bind] in H.
      destruct (bexec cfg _) as [[n2|]|]; try discriminate. cbn [bind] in H.
      destruct (assoc (tc_tgt_name tc) (cf_types cfg)) as [g|]; [|discriminate].
      destruct (find_by_name name (map snd g)) as [t|] eqn:Hg; [|discriminate].
      apply find_by_name_in in Hg as [Hin Hm].
      destruct (nassoc (tc_tgt_index tc) g) as [src2|]; [|discriminate].
      destruct (calculate_unit bexec cfg n2 src2 t g) as [[r|]|]; try discriminate.
      cbn in H. inversion H; subst.
      assert (In tgt (src :: map snd group ++ map snd g)) as Hr by (right; apply in_or_app; right; exact Hin).
      split; [exact Hr|]. exists tgt. split; [exact Hr | exact Hm].
    + destruct (nassoc (tc_tgt_index tc) group) as [bridge|]; [|discriminate].
      destruct (calculate_unit bexec cfg x src bridge group) as [[n1|]|]; try discriminate.
      cbn [bind] in H.
      destruct (bexec cfg _) as [[n2|]|]; try discriminate. cbn [bind] in H.
      destruct (assoc (tc_src_name tc) (cf_types cfg)) as [g|]; [|discriminate].
      destruct (find_by_name name (map snd g)) as [t|] eqn:Hg; [|discriminate].
      apply find_by_name_in in Hg as [Hin Hm].
      destruct (nassoc (tc_src_index tc) g) as [src2|]; [|discriminate].
      destruct (calculate_unit bexec cfg n2 src2 t g) as [[r|]|]; try discriminate.
      cbn in H. inversion H; subst.
      assert (In tgt (src :: map snd group ++ map snd g)) as Hr by (right; apply in_or_app; right; exact Hin).
      split; [exact Hr|]. exists tgt. split; [exact Hr | exact Hm].
Qed.

End Reach.

(* ------------------------------------------------------------------------------------- *)
(* 3. exact arithmetic: the steps in order are one multiplication                          *)
(* ------------------------------------------------------------------------------------- *)
Definition shape_const (m k : Z) : Qc := Qc_dec m k.

(* a step in a number algebra: multiplication / guarded division by the decimal constant *)
Definition gstep {F : Type} {NF : Num F} (sh : shape) (a : F) : F :=
  match sh with
  | SId => a
  | SMul m k => fmul a (fdec m k)
  | SDiv m k => do_division a (fdec m k)
  end.

(* in exact arithmetic *)
Definition qstep : shape -> Qc -> Qc := gstep.

Definition shape_q (sh : shape) : Qc :=
  match sh with
  | SId => 1%Qc
  | SMul m k => shape_const m k
  | SDiv m k => (/ shape_const m k)%Qc
  end.

Fixpoint path_factor (p : list shape) : Qc :=
  match p with
  | [] => 1%Qc
  | sh :: r => (shape_q sh * path_factor r)%Qc
  end.

Lemma qstep_mul sh a : qstep sh a = (a * shape_q sh)%Qc.
Proof.
  destruct sh as [|m k|m k]; unfold qstep; cbn [gstep shape_q].
  - ring.
  - reflexivity.
  - reflexivity.
Qed.

Theorem run_q_linear : forall p x, run_path qstep p x = (x * path_factor p)%Qc.
Proof.
  induction p as [|sh r IH]; intro x; cbn [run_path fold_left path_factor].
  - ring.
  - change (fold_left (fun a sh0 => qstep sh0 a) r (qstep sh x)) with (run_path qstep r (qstep sh x)).
    rewrite IH, qstep_mul. ring.
Qed.

Lemma path_factor_app p q : path_factor (p ++ q) = (path_factor p * path_factor q)%Qc.
Proof.
  induction p as [|sh r IH]; cbn [app path_factor].
  - ring.
  - rewrite IH. ring.
Qed.

(* ------------------------------------------------------------------------------------- *)
(* 4. the factors of the loaded table are the statement's                                  *)
(* ------------------------------------------------------------------------------------- *)
(* a unit is identified in the specification by its (first) name *)
Definition unit_spec {G} (d : dyntype G) : option (kind * Qc) :=
  match dt_names d with n :: _ => spec_unit n | [] => None end.

Definition uref_eqb (a b : unitref) : bool :=
  str_eqb (u_group a) (u_group b) && N.eqb (u_index a) (u_index b).

Lemma uref_eqb_eq a b : uref_eqb a b = true -> a = b.
Proof.
  destruct a as [ga ia], b as [gb ib]. unfold uref_eqb. cbn [u_group u_index]. intro H.
  apply andb_true_iff in H as [H1 H2]. apply str_eqb_eq in H1. apply N.eqb_eq in H2. subst. reflexivity.
Qed.

Lemma mem_str_in x l : mem_str x l = true -> In x l.
Proof.
  induction l as [|y r IH]; cbn [mem_str]; intro H; [discriminate|].
  apply orb_true_iff in H as [H|H].
  - left. symmetry. apply str_eqb_eq. exact H.
  - right. apply IH, H.
Qed.

Definition spec_eqb (a b : option (kind * Qc)) : bool :=
  match a, b with
  | Some (ka, sa), Some (kb, sb) => kind_eqb ka kb && Qc_eq_bool sa sb
  | _, _ => false
  end.

Lemma kind_eqb_eq a b : kind_eqb a b = true -> a = b.
Proof. destruct a, b; cbn; intro H; try reflexivity; discriminate. Qed.

Lemma spec_eqb_eq a b : spec_eqb a b = true -> a = b /\ a <> None.
Proof.
  destruct a as [[ka sa]|], b as [[kb sb]|]; cbn [spec_eqb]; intro H; try discriminate.
  apply andb_true_iff in H as [H1 H2]. apply kind_eqb_eq in H1. apply Qc_eq_bool_correct in H2.
  subst. split; [reflexivity | discriminate].
Qed.

(* every unit of the table, under every one of its names, is a unit of the statement with one
   well-defined non-zero size *)
Definition unit_known (u : dyntype float) : bool :=
  match unit_spec u with
  | Some (_, su) => negb (Qc_eq_bool su 0%Qc) && forallb (fun n => spec_eqb (spec_unit n) (unit_spec u)) (dt_names u)
  | None => false
  end.

Lemma units_known_b : forallb unit_known UNITS = true.
Proof. vm_compute. reflexivity. Qed.

Theorem spec_total : forall u, In u UNITS ->
  exists k su, unit_spec u = Some (k, su) /\ su <> 0%Qc /\
               forall n, In n (dt_names u) -> spec_unit n = Some (k, su).
Proof.
  intros u Hu. pose proof units_known_b as H. rewrite forallb_forall in H. specialize (H u Hu).
  unfold unit_known in H. destruct (unit_spec u) as [[k su]|] eqn:Hs; [|discriminate].
  apply andb_true_iff in H as [H0 H1]. exists k, su. split; [reflexivity|]. split.
  - intro E. subst su. cbn in H0. discriminate.
  - intros n Hn. rewrite forallb_forall in H1. specialize (H1 n Hn).
    apply spec_eqb_eq in H1 as [H1 _]. exact H1.
Qed.

Definition pair_ok_on (T : list (str * list (N * dyntype float))) (C : list type_conv) (u v : dyntype float) : bool :=
  match unit_spec u, unit_spec v with
  | Some (ku, su), Some (kv, sv) =>
    if kind_eqb ku kv then
      forallb (fun name =>
                 match conv_path T C u name with
                 | Some (path, t) => uref_eqb (uref t) (uref v) && Qc_eq_bool (path_factor path) (factor su sv)
                 | None => false
                 end) (dt_names v)
    else true
  | _, _ => false
  end.

Definition pair_ok := pair_ok_on TYPES CONVS.

(* the rows that break the table, by first names (if [pairs_ok_b] below ever fails:
   Eval vm_compute in offending_on TYPES CONVS) *)
Definition offending_on (T : list (str * list (N * dyntype float))) (C : list type_conv) : list (str * str) :=
  flat_map (fun u => flat_map (fun v => if pair_ok_on T C u v then []
                                        else [(hd [] (dt_names u), hd [] (dt_names v))]) (units_of T)) (units_of T).

Lemma pairs_ok_b : forallb (fun u => forallb (pair_ok u) UNITS) UNITS = true.
Proof. vm_compute. reflexivity. Qed.

Theorem factor_table : forall u v name k su sv,
  In u UNITS -> In v UNITS -> In name (dt_names v) ->
  unit_spec u = Some (k, su) -> unit_spec v = Some (k, sv) ->
  exists path t, conv_path TYPES CONVS u name = Some (path, t) /\ uref t = uref v /\
                 path_factor path = factor su sv.
Proof.
  intros u v name k su sv Hu Hv Hn Hsu Hsv.
  pose proof pairs_ok_b as H. rewrite forallb_forall in H. specialize (H u Hu).
  rewrite forallb_forall in H. specialize (H v Hv). unfold pair_ok, pair_ok_on in H. rewrite Hsu, Hsv in H.
  replace (kind_eqb k k) with true in H by (destruct k; reflexivity).
  rewrite forallb_forall in H. specialize (H name Hn).
  destruct (conv_path TYPES CONVS u name) as [[path t]|]; [|discriminate].
  apply andb_true_iff in H as [H1 H2]. exists path, t. split; [reflexivity|]. split.
  - apply uref_eqb_eq, H1.
  - apply Qc_eq_bool_correct, H2.
Qed.

Lemma path_of_pair : forall u v name k su sv p t,
  In u UNITS -> In v UNITS -> In name (dt_names v) ->
  unit_spec u = Some (k, su) -> unit_spec v = Some (k, sv) ->
  conv_path TYPES CONVS u name = Some (p, t) ->
  uref t = uref v /\ path_factor p = factor su sv.
Proof.
  intros u v name k su sv p t Hu Hv Hn Hsu Hsv Hp.
  destruct (factor_table u v name k su sv Hu Hv Hn Hsu Hsv) as (p' & t' & E & H1 & H2).
  rewrite Hp in E. inversion E; subst. split; assumption.
Qed.

(* the conversion in exact arithmetic: amount times size u / size v, for all amounts *)
Theorem convert_exact : forall u v name k su sv p t,
  In u UNITS -> In v UNITS -> In name (dt_names v) ->
  unit_spec u = Some (k, su) -> unit_spec v = Some (k, sv) ->
  conv_path TYPES CONVS u name = Some (p, t) ->
  forall x, run_path qstep p x = (x * factor su sv)%Qc.
Proof.
  intros u v name k su sv p t Hu Hv Hn Hsu Hsv Hp x.
  destruct (path_of_pair u v name k su sv p t Hu Hv Hn Hsu Hsv Hp) as [_ Hf].
  rewrite run_q_linear, Hf. reflexivity.
Qed.

Theorem linear : forall p x y c,
  run_path qstep p (x + y)%Qc = (run_path qstep p x + run_path qstep p y)%Qc /\
  run_path qstep p (c * x)%Qc = (c * run_path qstep p x)%Qc.
Proof. intros p x y c. rewrite !run_q_linear. split; ring. Qed.

Theorem inverse : forall u v nu nv k su sv p1 t1 p2 t2,
  In u UNITS -> In v UNITS -> In nu (dt_names u) -> In nv (dt_names v) ->
  unit_spec u = Some (k, su) -> unit_spec v = Some (k, sv) ->
  conv_path TYPES CONVS u nv = Some (p1, t1) ->
  conv_path TYPES CONVS v nu = Some (p2, t2) ->
  forall x, run_path qstep p2 (run_path qstep p1 x) = x.
Proof.
  intros u v nu nv k su sv p1 t1 p2 t2 Hu Hv Hnu Hnv Hsu Hsv H1 H2 x.
  rewrite (convert_exact u v nv k su sv p1 t1 Hu Hv Hnv Hsu Hsv H1).
  rewrite (convert_exact v u nu k sv su p2 t2 Hv Hu Hnu Hsv Hsu H2).
  destruct (spec_total u Hu) as (k1 & s1 & E1 & N1 & _). rewrite Hsu in E1. inversion E1; subst.
  destruct (spec_total v Hv) as (k2 & s2 & E2 & N2 & _). rewrite Hsv in E2. inversion E2; subst.
  unfold factor. field. split; assumption.
Qed.

Theorem transitive : forall u v w nv nw k su sv sw p1 t1 p2 t2 p3 t3,
  In u UNITS -> In v UNITS -> In w UNITS -> In nv (dt_names v) -> In nw (dt_names w) ->
  unit_spec u = Some (k, su) -> unit_spec v = Some (k, sv) -> unit_spec w = Some (k, sw) ->
  conv_path TYPES CONVS u nv = Some (p1, t1) ->
  conv_path TYPES CONVS v nw = Some (p2, t2) ->
  conv_path TYPES CONVS u nw = Some (p3, t3) ->
  forall x, run_path qstep p2 (run_path qstep p1 x) = run_path qstep p3 x.
Proof.
  intros u v w nv nw k su sv sw p1 t1 p2 t2 p3 t3 Hu Hv Hw Hnv Hnw Hsu Hsv Hsw H1 H2 H3 x.
  rewrite (convert_exact u v nv k su sv p1 t1 Hu Hv Hnv Hsu Hsv H1).
  rewrite (convert_exact v w nw k sv sw p2 t2 Hv Hw Hnw Hsv Hsw H2).
  rewrite (convert_exact u w nw k su sw p3 t3 Hu Hw Hnw Hsu Hsw H3).
  destruct (spec_total v Hv) as (k2 & s2 & E2 & N2 & _). rewrite Hsv in E2. inversion E2; subst.
  destruct (spec_total w Hw) as (k3 & s3 & E3 & N3 & _). rewrite Hsw in E3. inversion E3; subst.
  unfold factor. field. split; assumption.
Qed.

(* the model itself, for every evaluator that computes the steps: one statement for all pairs *)
Theorem convert_pair : forall (bexec : config float -> str -> res (option float)) (step : shape -> float -> float),
  evaluates bexec default_config step ->
  forall u v name k su sv, In u UNITS -> In v UNITS -> In name (dt_names v) ->
  unit_spec u = Some (k, su) -> unit_spec v = Some (k, sv) ->
  exists path t,
    (forall x, dyn_convert bexec default_config x u name = Ok (Some (run_path step path x, t))) /\
    uref t = uref v /\
    (forall q, run_path qstep path q = (q * factor su sv)%Qc).
Proof.
  intros bexec step Hev u v name k su sv Hu Hv Hn Hsu Hsv.
  destruct (factor_table u v name k su sv Hu Hv Hn Hsu Hsv) as (p & t & Hp & Ht & Hf).
  exists p, t. split; [|split].
  - intro x. apply convert_is_path; assumption.
  - exact Ht.
  - intro q. rewrite run_q_linear, Hf. reflexivity.
Qed.

(* the check is sensitive: with the factors config.json had before the repair c1cbb1e (kilogram
   down to hectogram "* 1000", byte down to bit "* 1024") the offending rows are computed *)
Definition with_down (grp : string) (idx : N) (code : string) (T : list (str * list (N * dyntype float))) :=
  map (fun g => (fst g, map (fun e =>
     if str_eqb (fst g) (s grp) && N.eqb (fst e) idx then
       (fst e, {| dt_group := dt_group (snd e); dt_index := dt_index (snd e); dt_format := dt_format (snd e);
                  dt_parse := dt_parse (snd e); dt_up := dt_up (snd e); dt_down := s code;
                  dt_names := dt_names (snd e); dt_digits := dt_digits (snd e); dt_round := dt_round (snd e);
                  dt_rm := dt_rm (snd e) |})
     else e) (snd g))) T.

Theorem old_factors_refuted :
  offending_on TYPES CONVS = [] /\
  offending_on (with_down "metric-weight" 7 "{value} * 1000" TYPES) CONVS
  = flat_map (fun u => map (fun v => (s u, s v)) ["oz"; "lb"; "st"; "mg"; "cg"; "dg"; "g"; "dag"; "hg"]%string)
             ["kg"; "tonne"]%string /\
  offending_on (with_down "memory" 2 "{value} * 1024" TYPES) CONVS
  = map (fun u => (s u, s "bit")) ["byte"; "kb"; "mb"; "gb"; "tb"; "pb"; "eb"; "zb"; "yb"]%string.
Proof. vm_compute. repeat split; reflexivity. Qed.

(* ------------------------------------------------------------------------------------- *)
(* 5. kinds                                                                               *)
(* ------------------------------------------------------------------------------------- *)
Definition kind_of_spec (o : option (kind * Qc)) : option kind := option_map fst o.

Definition okind_eqb (a b : option kind) : bool :=
  match a, b with Some x, Some y => kind_eqb x y | _, _ => false end.

Lemma okind_eqb_eq a b : okind_eqb a b = true -> a = b /\ a <> None.
Proof.
  destruct a as [x|], b as [y|]; cbn; intro H; try discriminate.
  apply kind_eqb_eq in H. subst. split; [reflexivity|discriminate].
Qed.

(* every name of every unit reachable from u names a unit of u's kind *)
Definition reach_ok (u : dyntype float) : bool :=
  forallb (fun t => okind_eqb (kind_of_spec (unit_spec t)) (kind_of_spec (unit_spec u)) &&
                    forallb (fun n => okind_eqb (kind_of_spec (spec_unit n)) (kind_of_spec (unit_spec u))) (dt_names t))
          (reach TYPES CONVS u).

Lemma reach_ok_b : forallb reach_ok UNITS = true.
Proof. vm_compute. reflexivity. Qed.

(* the bridges link length with length and weight with weight; memory has none *)
Theorem bridges :
  map (fun tc => (tc_src_name tc, tc_tgt_name tc)) CONVS
  = [(s "imperial-unit-length", s "metric-length"); (s "imperial-unit-weight", s "metric-weight")].
Proof. vm_compute. reflexivity. Qed.

Theorem kinds : forall (bexec : config float -> str -> res (option float)) x u name y t,
  In u UNITS ->
  dyn_convert bexec default_config x u name = Ok (Some (y, t)) ->
  kind_of_spec (unit_spec t) = kind_of_spec (unit_spec u) /\ kind_of_spec (unit_spec u) <> None.
Proof.
  intros bexec x u name y t Hu H. apply convert_reach in H as [Hin _].
  pose proof reach_ok_b as R. rewrite forallb_forall in R. specialize (R u Hu). unfold reach_ok in R.
  rewrite forallb_forall in R. specialize (R t Hin). apply andb_true_iff in R as [R _].
  apply okind_eqb_eq in R as [R1 R2]. split; [exact R1|]. rewrite <- R1. exact R2.
Qed.

(* a target name of another kind is never converted to *)
Theorem cross_kind_declines : forall (bexec : config float -> str -> res (option float)) x u name k sz ku su,
  In u UNITS -> spec_unit name = Some (k, sz) -> unit_spec u = Some (ku, su) -> k <> ku ->
  forall y t, dyn_convert bexec default_config x u name <> Ok (Some (y, t)).
Proof.
  intros bexec x u name k sz ku su Hu Hn Hsu Hk y t H.
  apply convert_reach in H as [_ (t' & Hin & Hm)].
  pose proof reach_ok_b as R. rewrite forallb_forall in R. specialize (R u Hu). unfold reach_ok in R.
  rewrite forallb_forall in R. specialize (R t' Hin). apply andb_true_iff in R as [_ R].
  rewrite forallb_forall in R. specialize (R name (mem_str_in _ _ Hm)).
  apply okind_eqb_eq in R as [R _]. rewrite Hn, Hsu in R. cbn in R. inversion R. contradiction.
Qed.

(* ------------------------------------------------------------------------------------- *)
(* 6. arithmetic between quantities (Items.calculate), any number algebra                  *)
(* ------------------------------------------------------------------------------------- *)
Section Arith.
Context {F : Type} {NF : Num F}.
Variable bexec : config F -> str -> res (option F).
Variable cfg : config F.

(* quantity (+ - * /) number: the unit is kept *)
Theorem calc_scale : forall x u y nt op,
  calculate bexec cfg (IDynamicType x u) (INumber y nt) op = Ok (Some (IDynamicType (arith op x y) u)).
Proof. intros x u y nt op. destruct op; reflexivity. Qed.

(* quantity op quantity: the right operand is converted into the left operand's unit (under its
   first name); + - * give a quantity of the left unit, / gives a plain number *)
Theorem calc_quantities : forall x u y u' du du' name0 rest op,
  unit_of cfg u = Some du -> unit_of cfg u' = Some du' -> dt_names du = name0 :: rest ->
  calculate bexec cfg (IDynamicType x u) (IDynamicType y u') op =
  match dyn_convert bexec cfg y du' name0 with
  | Ok (Some (y', _)) =>
    Ok (Some (match op with
              | ODiv => INumber (do_division x y') Decimal
              | _ => IDynamicType (arith op x y') u
              end))
  | Ok None => Ok None
  | Panic site => Panic site
  end.
Proof.
  intros x u y u' du du' name0 rest op Hu Hu' Hn. cbn [calculate]. rewrite Hu, Hu', Hn.
  destruct (dyn_convert bexec cfg y du' name0) as [[[y' d]|]|site]; cbn [bind]; try reflexivity;
    destruct op; reflexivity.
Qed.

(* a quantity of an unrelated kind on the right: no result *)
Theorem calc_declines : forall x u y u' du du' name0 rest op,
  unit_of cfg u = Some du -> unit_of cfg u' = Some du' -> dt_names du = name0 :: rest ->
  dyn_convert bexec cfg y du' name0 = Ok None ->
  calculate bexec cfg (IDynamicType x u) (IDynamicType y u') op = Ok None.
Proof.
  intros x u y u' du du' name0 rest op Hu Hu' Hn Hc.
  rewrite (calc_quantities x u y u' du du' name0 rest op Hu Hu' Hn), Hc. reflexivity.
Qed.

End Arith.

(* the rule behind `<quantity> to <name>` (dynamic_type_convert): the token it yields *)
Section Rule.
Context {F : Type} {NF : Num F}.
Variable bexec : config F -> str -> res (option F).
Variable cfg : config F.

Theorem rule_convert : forall vs fs target number u src,
  has "source" fs = true -> has "type" fs = true ->
  get_text vs (s "type") fs = Some target ->
  get_dynamic_type vs (s "source") fs = Some (number, u) ->
  unit_of cfg u = Some src ->
  dynamic_type_convert bexec cfg vs fs =
  match dyn_convert bexec cfg number src target with
  | Ok (Some (x, d)) => Ok (Some (TDynamicType x (uref d)))
  | Ok None => Ok None
  | Panic site => Panic site
  end.
Proof.
  intros vs fs target number u src H1 H2 Ht Hd Hu. unfold dynamic_type_convert.
  rewrite H1, H2, Ht, Hd, Hu. cbn [andb].
  destruct (dyn_convert bexec cfg number src target) as [[[x d]|]|site]; reflexivity.
Qed.

End Rule.

(* quantities of different kinds do not add, subtract or divide, whatever the evaluator *)
Theorem calc_cross_kind : forall (bexec : config float -> str -> res (option float)) x u y u' du du' op ku su ku' su',
  unit_of default_config u = Some du -> unit_of default_config u' = Some du' ->
  In du UNITS -> In du' UNITS ->
  unit_spec du = Some (ku, su) -> unit_spec du' = Some (ku', su') -> ku <> ku' ->
  forall r, calculate bexec default_config (IDynamicType x u) (IDynamicType y u') op <> Ok (Some r).
Proof.
  intros bexec x u y u' du du' op ku su ku' su' Hu Hu' Hin Hin' Hs Hs' Hk r H.
  unfold unit_spec in Hs. destruct (dt_names du) as [|name0 rest] eqn:Hn; [discriminate|].
  rewrite (calc_quantities bexec default_config x u y u' du du' name0 rest op Hu Hu' Hn) in H.
  destruct (dyn_convert bexec default_config y du' name0) as [[[y' d]|]|site] eqn:Hc; try discriminate.
  exact (cross_kind_declines bexec y du' name0 ku su ku' su' Hin' Hs Hs' Hk y' d Hc).
Qed.

(* ------------------------------------------------------------------------------------- *)
(* 6b. every separator configuration: the evaluator of the codes does not read the separators *)
(* ------------------------------------------------------------------------------------- *)
Section Separators.
Context {F : Type} {NF : Num F}.
Variable lx : lexdata.
Variable ck : clock.

Lemma calculate_unit_nb (cfg cfg' : config F) x src tgt g :
  calculate_unit no_bexec cfg' x src tgt g = calculate_unit no_bexec cfg x src tgt g.
Proof.
  unfold calculate_unit. destruct (N.eqb (dt_index src) (dt_index tgt)); [reflexivity|].
  destruct (nassoc (dt_index src) g); [|reflexivity]. cbn [unit_loop]. reflexivity.
Qed.

Lemma dyn_convert_nb (cfg cfg' : config F) x src name :
  cf_types cfg' = cf_types cfg -> cf_type_conv cfg' = cf_type_conv cfg ->
  dyn_convert no_bexec cfg' x src name = dyn_convert no_bexec cfg x src name.
Proof.
  intros Ht Hc. unfold dyn_convert. rewrite Ht, Hc.
  destruct (assoc (dt_group src) (cf_types cfg)) as [group|]; [|reflexivity].
  destruct (find_by_name name (map snd group)) as [target|].
  - rewrite (calculate_unit_nb cfg cfg'). reflexivity.
  - destruct (find _ (cf_type_conv cfg)) as [tc|]; [|reflexivity].
    destruct (str_eqb (tc_src_name tc) (dt_group src));
      (match goal with |- context [nassoc ?i group] => destruct (nassoc i group) as [bridge|]; [|reflexivity] end);
      rewrite (calculate_unit_nb cfg cfg'); reflexivity.
Qed.

Lemma calculate_nb (cfg cfg' : config F) l r op :
  cf_types cfg' = cf_types cfg -> cf_type_conv cfg' = cf_type_conv cfg -> cf_rates cfg' = cf_rates cfg ->
  calculate no_bexec cfg' l r op = calculate no_bexec cfg l r op.
Proof.
  intros Ht Hc Hr. destruct l; destruct r; cbn [calculate]; try reflexivity.
  - unfold convert_currency, rate_of. rewrite Hr. reflexivity.
  - unfold unit_of. rewrite Ht.
    destruct (assoc (u_group u) (cf_types cfg)) as [g|]; [|reflexivity].
    destruct (nassoc (u_index u) g) as [du|]; [|reflexivity].
    destruct (assoc (u_group u0) (cf_types cfg)) as [g'|]; [|reflexivity].
    destruct (nassoc (u_index u0) g') as [du'|]; [|reflexivity].
    destruct (dt_names du) as [|name0 rest]; [reflexivity|].
    rewrite (dyn_convert_nb cfg cfg' _ _ _ Ht Hc). reflexivity.
Qed.

Lemma execute_ast_nb (cfg cfg' : config F) :
  cf_types cfg' = cf_types cfg -> cf_type_conv cfg' = cf_type_conv cfg -> cf_rates cfg' = cf_rates cfg ->
  forall a vs, execute_ast no_bexec cfg' vs a = execute_ast no_bexec cfg vs a.
Proof.
  intros Ht Hc Hr. induction a as [| | | |l IHl op r IHr|op e IHe|name ntoks e IHe| |]; intro vs; cbn [execute_ast]; try reflexivity.
  - rewrite IHl. destruct (execute_ast no_bexec cfg vs l) as [[[cl|m] vs1]|site]; cbn [bind]; try reflexivity.
    rewrite IHr. destruct (execute_ast no_bexec cfg vs1 r) as [[[cr|m] vs2]|site]; cbn [bind]; try reflexivity.
    assert (E : calculate_item no_bexec cfg' op cl cr = calculate_item no_bexec cfg op cl cr).
    { unfold calculate_item. destruct cl; try reflexivity. destruct cr; try reflexivity.
      rewrite !(calculate_nb cfg cfg' _ _ _ Ht Hc Hr). reflexivity. }
    rewrite E. reflexivity.
  - rewrite IHe. reflexivity.
  - rewrite IHe. reflexivity.
Qed.

(* SmartCalc::basic_execute reads its text with '.' and no grouping and evaluates it without
   the separators: setting the decimal or the thousands separator does not change it *)
Theorem basic_execute_separators : forall (cfg : config F) d t data,
  basic_execute lx ck (set_fmt cfg (cf_money cfg) (cf_number cfg) (cf_percent cfg) d t (cf_tz cfg)) data
  = basic_execute lx ck cfg data.
Proof.
  intros cfg d t data. unfold basic_execute.
  destruct (split_lines data []) as [|line [|l2 ls]]; try reflexivity.
  destruct line as [|c0 line]; [reflexivity|].
  change (set_fmt (set_fmt cfg (cf_money cfg) (cf_number cfg) (cf_percent cfg) d t (cf_tz cfg))
                  (cf_money (set_fmt cfg (cf_money cfg) (cf_number cfg) (cf_percent cfg) d t (cf_tz cfg)))
                  (cf_number (set_fmt cfg (cf_money cfg) (cf_number cfg) (cf_percent cfg) d t (cf_tz cfg)))
                  (cf_percent (set_fmt cfg (cf_money cfg) (cf_number cfg) (cf_percent cfg) d t (cf_tz cfg)))
                  [46%N] []
                  (cf_tz (set_fmt cfg (cf_money cfg) (cf_number cfg) (cf_percent cfg) d t (cf_tz cfg))))
    with (set_fmt cfg (cf_money cfg) (cf_number cfg) (cf_percent cfg) [46%N] [] (cf_tz cfg)).
  destruct (regex_tokinizer _ _ _ _ _ _) as [st1|site]; [|reflexivity]. cbn [bind].
  destruct (alias_tokinizer _ _ _ _ _) as [st2|site]; [|reflexivity]. cbn [bind].
  destruct (ts_infos st2) as [|i0 infos]; [reflexivity|].
  destruct (parse _ _) as [[a|m|] vs]; try reflexivity.
  rewrite (execute_ast_nb cfg (set_fmt cfg (cf_money cfg) (cf_number cfg) (cf_percent cfg) d t (cf_tz cfg)));
    reflexivity.
Qed.

(* hence the whole conversion is the same under every separator configuration *)
Section Congruence.
Variable bexec : config F -> str -> res (option F).
Variables cfg cfg' : config F.
Hypothesis Hb : forall code, bexec cfg' code = bexec cfg code.

Lemma unit_loop_cong : forall fuel group up ti x next si,
  unit_loop bexec fuel cfg' group up ti x next si = unit_loop bexec fuel cfg group up ti x next si.
Proof.
  induction fuel as [|f IH]; intros; cbn [unit_loop]; [reflexivity|].
  rewrite Hb. destruct (bexec cfg _) as [[n'|]|site]; cbn [bind]; try reflexivity.
  destruct (nassoc (Z.to_N si) group) as [next'|]; [|reflexivity].
  destruct (N.eqb (dt_index next') ti); [reflexivity|].
  destruct (negb up && (si =? 0)); [reflexivity|]. apply IH.
Qed.

Lemma calculate_unit_cong x src tgt g :
  calculate_unit bexec cfg' x src tgt g = calculate_unit bexec cfg x src tgt g.
Proof.
  unfold calculate_unit. destruct (N.eqb (dt_index src) (dt_index tgt)); [reflexivity|].
  destruct (nassoc (dt_index src) g); [|reflexivity]. apply unit_loop_cong.
Qed.

Lemma dyn_convert_cong x src name :
  cf_types cfg' = cf_types cfg -> cf_type_conv cfg' = cf_type_conv cfg ->
  dyn_convert bexec cfg' x src name = dyn_convert bexec cfg x src name.
Proof.
  intros Ht Hc. unfold dyn_convert. rewrite Ht, Hc.
  destruct (assoc (dt_group src) (cf_types cfg)) as [group|]; [|reflexivity].
  destruct (find_by_name name (map snd group)) as [target|].
  - rewrite calculate_unit_cong. reflexivity.
  - destruct (find _ (cf_type_conv cfg)) as [tc|]; [|reflexivity].
    destruct (str_eqb (tc_src_name tc) (dt_group src));
      (match goal with |- context [nassoc ?i group] => destruct (nassoc i group) as [bridge|]; [|reflexivity] end);
      rewrite calculate_unit_cong;
      (match goal with |- context [calculate_unit bexec cfg x src ?b group] =>
         destruct (calculate_unit bexec cfg x src b group) as [[n1|]|site] end); cbn [bind]; try reflexivity;
      rewrite Hb; (match goal with |- context [bexec cfg ?c] => destruct (bexec cfg c) as [[n2|]|site] end);
      cbn [bind]; try reflexivity;
      (match goal with |- context [assoc ?k (cf_types cfg)] => destruct (assoc k (cf_types cfg)) as [g|]; [|reflexivity] end);
      (match goal with |- context [find_by_name name (map snd ?g)] => destruct (find_by_name name (map snd g)) as [tgt|] end); try reflexivity;
      (match goal with |- context [match nassoc ?i ?g with Some _ => _ | None => _ end] => destruct (nassoc i g) as [src2|]; [|reflexivity] end);
      rewrite calculate_unit_cong; reflexivity.
Qed.

End Congruence.

Theorem convert_separators : forall (cfg : config F) d t x src name,
  dyn_convert (basic_execute lx ck) (set_fmt cfg (cf_money cfg) (cf_number cfg) (cf_percent cfg) d t (cf_tz cfg)) x src name
  = dyn_convert (basic_execute lx ck) cfg x src name.
Proof.
  intros cfg d t x src name. apply dyn_convert_cong; try reflexivity.
  intro code. apply basic_execute_separators.
Qed.

End Separators.

(* ------------------------------------------------------------------------------------- *)
(* 7. binary64: the faithful evaluator on samples, and end-to-end examples                 *)
(* ------------------------------------------------------------------------------------- *)
(* [evaluates basic_execute default_config gstep] is the one link that is not proved for all
   amounts (it runs the lexer, the parser and the interpreter on the printed amount); it is
   executed here on samples for every code of the table, bit for bit, and on every generated
   case of the correspondence check. *)
Definition sample_ok (x : float) (code : str) : bool :=
  match code_shape code,
        basic_execute LX CK0 default_config (replace_all (s "{value}") (fdisplay x) code) with
  | Some sh, Ok (Some y) => Z.eqb (f64_to_bits y) (f64_to_bits (gstep sh x))
  | _, _ => false
  end.

#[local] Set Warnings "-inexact-float".
Definition samples : list float :=
  [1; 2.5; -3; 0.1; 1234567.891; 0.0000001; 123456789012345680000; -0.000123; 0]%float.

Theorem evaluates_on_samples : forallb (fun x => forallb (sample_ok x) raw_codes) samples = true.
Proof. vm_compute. reflexivity. Qed.

(* the faithful model against the abstract walk, bit for bit, on EVERY ordered pair of one kind
   (first name of the target) for one amount: dyn_convert with the real basic_execute yields
   run_path gstep (conv_path ..) *)
Definition faithful_pair_ok (x : float) (u v : dyntype float) : bool :=
  match unit_spec u, unit_spec v, dt_names v with
  | Some (ku, _), Some (kv, _), name :: _ =>
    if kind_eqb ku kv then
      match conv_path TYPES CONVS u name, dyn_convert (basic_execute LX CK0) default_config x u name with
      | Some (path, t), Ok (Some (y, t')) =>
        Z.eqb (f64_to_bits y) (f64_to_bits (run_path gstep path x)) && uref_eqb (uref t) (uref t')
      | _, _ => false
      end
    else true
  | _, _, _ => false
  end.

Theorem faithful_pairs_sample :
  forallb (fun u => forallb (faithful_pair_ok 2.5 u) UNITS) UNITS = true.
Proof. vm_compute. reflexivity. Qed.

Definition CK : clock := {| ck_today := 19000; ck_year := 2022 |}.

Definition run12 (text : string) : list (option (str * option (token float))) :=
  match exec64 CK default_config (s "en") (s text) with
  | Ok r => map (fun l => match l with
                          | Some o => match lo_result o with
                                      | LOk out a => Some (out, ast_as_token a)
                                      | _ => None
                                      end
                          | None => None
                          end) (er_lines r)
  | Panic _ => []
  end.

Definition is_qty (text : string) (v : float) (group : string) (index : N) (out : string) : bool :=
  match run12 text with
  | [Some (o, Some (TDynamicType x u))] =>
    Z.eqb (f64_to_bits x) (f64_to_bits v) && str_eqb (u_group u) (s group) && N.eqb (u_index u) index &&
    str_eqb o (s out)
  | _ => false
  end.

Definition is_number (text : string) (v : float) : bool :=
  match run12 text with
  | [Some (_, Some (TNumber x _))] => Z.eqb (f64_to_bits x) (f64_to_bits v)
  | _ => false
  end.

Theorem examples64 :
  is_qty "1 km to m" 1000 "metric-length" 4 "1.000 Meter" = true /\
  is_qty "1 inch to mm" 25.4 "metric-length" 1 "25,40 Millimeter" = true /\
  is_qty "1 kg to hg" 10 "metric-weight" 6 "10 Hectogram" = true /\
  is_qty "1 byte to bit" 8 "memory" 1 "8bit" = true /\
  is_qty "1 mile to yard" 1760 "imperial-unit-length" 3 "1.760 Yard" = true /\
  is_qty "1 stone to oz" 224 "imperial-unit-weight" 1 "224 Ounce" = true /\
  is_qty "2 gb to mb" 2048 "memory" 4 "2.048MB" = true /\
  is_qty "3 kg + 500 g" 3.5 "metric-weight" 7 "3,50 Kilogram" = true /\
  is_qty "1 km / 2" 0.5 "metric-length" 7 "0,50 Kilometer" = true /\
  is_qty "2 m * 3" 6 "metric-length" 4 "6 Meter" = true /\
  is_number "10 m / 2 m" 5 = true /\
  is_number "1 km / 500 m" 2 = true /\
  (* other kinds: no conversion, the quantity stays as written *)
  is_qty "1 m to bit" 1 "metric-length" 4 "1 Meter" = true /\
  is_qty "1 oz to mm" 1 "imperial-unit-weight" 1 "1 Ounce" = true /\
  is_qty "1 kb to inch" 1 "memory" 3 "1KB" = true.
Proof. vm_compute. repeat split; reflexivity. Qed.
