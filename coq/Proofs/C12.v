(* Proofs for property C12. *)
From SC.Model Require Import Base.
