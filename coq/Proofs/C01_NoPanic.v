(* Property C01, panic-freedom part: everything the pipeline does AFTER the lexer
   (Api.tokinize = lexer passes; THEN update_token_variables, dyn_loop, rule_tokinizer, token_generator,
   token_cleaner, missing_token_adder; Api.execute_text = tokinize, parse, execute_ast, format_result).
   In the model every Rust operation that can unwind is a [Panic site] outcome; here the outcome is shown
   to be [Ok _], or a [Panic] at a site of the residual list [RESIDUAL = [1701]], for the regenerated
   default configuration and every configuration the setters reach.

   Sites excluded (with the reason):
     2102 SITE_USIZE_UNDERFLOW  unit_loop's `search_index - 1` at 0: the walk keeps target <= key while the
                                keys of a family are the indices of its entries ([cfg_keys_ok]: finite table
                                + invariant of add_type / add_type_item, which insert under dt_index)
     2003 SITE_DT_ADD           ITime +- Duration / Time: the clock time moves by < 1 day per binary operation;
                                instants bounded by B with B + 86400 * #operations <= T_MAX stay inside chrono
     2301 SITE_EMPTY_PATTERN    find_match on [] / find_location on []: patterns are non-empty (table; add_rule,
                                add_type_item and - since 9b7ed27 - set_date_rule drop empty patterns),
                                variable names have >= 1 token ([vars_ne],
                                an invariant of parse / execute_ast: section 6)
     2302 SITE_VAR_SLICE        the range pick_variable returns lies inside the token list
     2303 SITE_MATCH_INDEX      a FULL match of a non-empty pattern has start < len, 1 <= target <= len
                                (C01_Rewrite.find_match_seg)
     2304 SITE_VALUE_UNWRAP     no longer produced by the model: since 21a559a a unit pattern that binds no number to
                                "value" is skipped (found here: [unit_pattern_without_value_example])
     2202 SITE_RULE_UNWRAP      time_with_timezone / convert_timezone / from_unixtime: each pattern of these
                                rules binds the unwrapped fields with the kind that the accessor reads
                                ([pattern_binds], finite table over en and tr; internal rules are never
                                changed by the setters)
     2006/2007 as_duration      TIME source: seconds of the day, constructors far inside their range; the
                                checked `n * 30`, `n * 365`, Duration::days(n) are only reached through a
                                "duration" field, which no pattern of the rule binds
     format_number, item_print, format_result, date_calc, IDateTime +-: total by definition.
   Residual (NOT excluded): 1701, ui_update's `drain(a..j+1)` with a > j+1.  C17_update_no_panic excludes it
   when the merged span is non-empty over a chain; inside the pipeline the positions passed come from
   token_infos whose offsets are not ordered against the highlight tokens under the recorded C17-casemap
   defect, so no ordering argument is available without the lexer.

   EXPLICIT HYPOTHESES of the summary theorems (everything else is proved):
     (A1) [bexec_total (basic_execute lx ck)]: the nested evaluator of the unit formulas returns; it runs the
          LEXER on the formula text, and lexer panic freedom (regex captures) is out of scope here.
     (A2) [st_plain st3]: no field atom typed into the line is a type group listing "FIELD" (such an atom
          equals every field atom of a pattern and holds no value).  A lexer fact: the lexer takes the groups
          from cf_type_group, none of which lists "FIELD" ([default_type_groups_no_field]); it is preserved
          by all three rewrite stages (proved here).
     (A3) in [execute_text_no_panic]: the ITime instants of the tree the parser returns and of the variables'
          values ([vars_in B vs]; kept by the parser: [parse_vars_in], bound after a line: [execute_ast_ok]) are within B, B + 86400 * (binary operations) <= T_MAX = 8210266790400 (about year 262000).
          Needed: [execute_ast_range_refuted].
     (A4) [vars_np vs] = C01_Rewrite.vars_ok (termination of the substitution loop, see there) /\ [vars_ne]
          (every variable name has a token: invariant, section 6).
     (A5) for reachable configurations C01_Rewrite.history_ok: no operation registers a one-token pattern
          (termination).  The panic-freedom side conditions themselves ([cfg_keys_ok], [cfg_rules_np],
          [cfg_units_np]) are UNCONDITIONAL invariants of the setters ([step_preserves_np]).
   Two genuine panics of the crate were found while proving this (a unit pattern without {NUMBER:value}; an
   empty date-rule pattern); both are repaired in /repo (21a559a, 9b7ed27), the model follows, and the former
   witnesses are the computed examples [unit_pattern_without_value_example], [date_rule_empty_pattern_example].
   Finite-table facts are re-checked by vm_compute on the regenerated configuration: [default_rules_np_b],
   [default_units_np_b], [default_keys_ok_b], and C01_Rewrite's [default_rules_ok_b], [default_units_ok_b].
   Polymorphic in the number algebra except for section 5 and 7.  No axioms. *)
From Coq Require Import Floats Arith Lia.
From SC.Model Require Import Base Num NumF64 Types Config Case Match Chrono UiTokens Post Parser Items Interp
     RuleFns Rules Format Lexer Api Run64 Corr.
From SC.Spec Require Import Calendar.
From SC.Gen Require Import RustConsts.
From SC.Proofs Require Import C01_Parser C01_Rewrite C16 ParserPure.

Local Open Scope Z_scope.
Ltac Zify.zify_post_hook ::= Z.to_euclidean_division_equations.

(* ====================================================================================== *)
(* 1. interpreter and formatter                                                            *)
(* ====================================================================================== *)
Section Interp.
Context {F : Type} {NF : Num F}.
Variable bexec : config F -> str -> res (option F).

(* ASSUMPTION (explicit): the nested evaluator used by the unit formulas returns.  In the pipeline
   it is [Api.basic_execute], which runs the lexer; lexer panic freedom is out of scope here. *)
Definition bexec_total : Prop := forall c code, exists r, bexec c code = Ok r.

(* ---------- unit conversion: SITE_USIZE_UNDERFLOW ---------- *)
(* the keys of a unit family are the indices stored in its entries *)
Definition group_keys_ok (g : list (N * dyntype F)) : Prop :=
  Forall (fun kd : N * dyntype F => dt_index (snd kd) = fst kd) g.
Definition cfg_keys_ok (cfg : config F) : Prop :=
  Forall (fun ng : str * list (N * dyntype F) => group_keys_ok (snd ng)) (cf_types cfg).

Lemma nassoc_in {A} k (l : list (N * A)) v : nassoc k l = Some v -> In (k, v) l.
Proof.
  induction l as [|[k' v'] r IH]; cbn [nassoc]; [discriminate|].
  destruct (N.eqb_spec k k') as [->|Hne].
  - intro H. inversion H; subst. left. reflexivity.
  - intro H. right. exact (IH H).
Qed.

Lemma group_keys_nassoc g k d : group_keys_ok g -> nassoc k g = Some d -> dt_index d = k.
Proof.
  intros Hg H. apply nassoc_in in H. unfold group_keys_ok in Hg. rewrite Forall_forall in Hg.
  exact (Hg _ H).
Qed.

Lemma cfg_keys_assoc cfg name g : cfg_keys_ok cfg -> assoc name (cf_types cfg) = Some g -> group_keys_ok g.
Proof.
  intros Hc H. destruct (assoc_in _ _ _ H) as [k' Hin]. unfold cfg_keys_ok in Hc. rewrite Forall_forall in Hc.
  exact (Hc _ Hin).
Qed.

(* the downward walk never reaches `0usize - 1`: the searched key stays >= the target index *)
Lemma unit_loop_ok cfg g : bexec_total -> group_keys_ok g ->
  forall fuel upgrade tgt number next search,
  (upgrade = false -> Z.of_N tgt <= search) ->
  exists r, unit_loop bexec fuel cfg g upgrade tgt number next search = Ok r.
Proof.
  intros Hb Hg fuel. induction fuel as [|f IH]; intros upgrade tgt number next search Hinv; cbn [unit_loop].
  - eexists; reflexivity.
  - destruct (Hb cfg (replace_all (s "{value}") (fdisplay number) (if upgrade then dt_up next else dt_down next)))
      as [r Er]. rewrite Er. cbn [bind].
    destruct r as [number'|]; [|eexists; reflexivity].
    destruct (nassoc (Z.to_N search) g) as [next'|] eqn:En; [|eexists; reflexivity].
    destruct (N.eqb_spec (dt_index next') tgt) as [_|Hne]; [eexists; reflexivity|].
    pose proof (group_keys_nassoc g _ _ Hg En) as Hk.
    destruct upgrade; cbn [negb andb].
    + apply IH. discriminate.
    + specialize (Hinv eq_refl).
      destruct (Z.eqb_spec search 0) as [H0|H0].
      * exfalso. apply Hne. rewrite Hk, H0. cbn. lia.
      * apply IH. intros _.
        assert (Z.of_N tgt <> search) by (intro E; apply Hne; rewrite Hk, <- E, N2Z.id; reflexivity).
        lia.
Qed.

Lemma calculate_unit_ok cfg number src tgt g : bexec_total -> group_keys_ok g ->
  exists r, calculate_unit bexec cfg number src tgt g = Ok r.
Proof.
  intros Hb Hg. unfold calculate_unit.
  destruct (N.eqb (dt_index src) (dt_index tgt)); [eexists; reflexivity|].
  destruct (nassoc (dt_index src) g) as [next|]; [|eexists; reflexivity].
  apply unit_loop_ok; try assumption.
  destruct (N.ltb_spec (dt_index tgt) (dt_index src)); cbn [negb]; [lia|discriminate].
Qed.

Theorem dyn_convert_ok cfg number src name : bexec_total -> cfg_keys_ok cfg ->
  exists r, dyn_convert bexec cfg number src name = Ok r.
Proof.
  intros Hb Hc. unfold dyn_convert.
  destruct (assoc (dt_group src) (cf_types cfg)) as [group|] eqn:Eg; [|eexists; reflexivity].
  pose proof (cfg_keys_assoc _ _ _ Hc Eg) as Hg.
  destruct (find_by_name name (map snd group)) as [target|].
  - destruct (N.eqb (dt_index src) (dt_index target)); [eexists; reflexivity|].
    destruct (calculate_unit_ok cfg number src target group Hb Hg) as [r ->]. cbn [bind]. eexists; reflexivity.
  - destruct (List.find _ (cf_type_conv cfg)) as [tc|]; [|eexists; reflexivity].
    destruct (if str_eqb (tc_src_name tc) (dt_group src) then (tc_src_index tc, tc_tgt_index tc)
              else (tc_tgt_index tc, tc_src_index tc)) as [source_index target_index].
    destruct (nassoc source_index group) as [bridge|]; [|eexists; reflexivity].
    destruct (calculate_unit_ok cfg number src bridge group Hb Hg) as [r1 ->]. cbn [bind].
    destruct r1 as [n1|]; [|eexists; reflexivity].
    destruct (Hb cfg (replace_all (s "{value}") (fdisplay n1)
                (if str_eqb (tc_src_name tc) (dt_group src) then tc_to_source tc else tc_to_target tc))) as [r2 ->].
    cbn [bind]. destruct r2 as [n2|]; [|eexists; reflexivity].
    destruct (assoc (if str_eqb (tc_src_name tc) (dt_group src) then tc_tgt_name tc else tc_src_name tc)
                    (cf_types cfg)) as [g2|] eqn:Eg2; [|eexists; reflexivity].
    pose proof (cfg_keys_assoc _ _ _ Hc Eg2) as Hg2.
    destruct (find_by_name name (map snd g2)) as [tgt|]; [|eexists; reflexivity].
    destruct (nassoc target_index g2) as [src2|]; [|eexists; reflexivity].
    destruct (calculate_unit_ok cfg n2 src2 tgt g2 Hb Hg2) as [r3 ->]. cbn [bind]. eexists; reflexivity.
Qed.

(* without the key condition the site IS reachable (the walk passes key 0 holding another index) *)

(* ---------- calculate ---------- *)
(* instants within +-T_MAX stay inside chrono's NaiveDateTime range when a clock time moves by
   less than a day *)
Definition T_MAX : Z := 8210266790400.     (* (MAX_DAY + 1) * 86400 - 86400 *)

Definition item_in (B : Z) (i : item F) : Prop :=
  match i with ITime t _ => - B <= t <= B | _ => True end.

Lemma item_in_mono B B' i : B <= B' -> item_in B i -> item_in B' i.
Proof. intros Hle. destruct i; cbn [item_in]; try tauto. lia. Qed.

Lemma duration_as_time_range d : 0 <= duration_as_time d < 86400.
Proof.
  unfold duration_as_time. change HOUR with 3600. change MINUTE with 60.
  destruct (Z.leb_spec 3600 (Z.abs d)) as [H1|H1].
  - destruct (Z.leb_spec 60 (Z.abs d mod 3600)) as [H2|H2];
      pose proof (Z.mod_pos_bound (Z.abs d / 3600) 24 ltac:(lia));
      pose proof (Z.mod_pos_bound (Z.abs d) 3600 ltac:(lia));
      pose proof (Z.mod_pos_bound (Z.abs d mod 3600 / 60) 60 ltac:(lia));
      pose proof (Z.mod_pos_bound (Z.abs d mod 3600) 60 ltac:(lia)); lia.
  - destruct (Z.leb_spec 60 (Z.abs d)) as [H2|H2];
      pose proof (Z.mod_pos_bound (Z.abs d / 60) 60 ltac:(lia));
      pose proof (Z.mod_pos_bound (Z.abs d) 60 ltac:(lia)); lia.
Qed.

Lemma dt_ok_near B t m : B <= T_MAX -> - B <= t <= B -> -86400 < m < 86400 -> dt_ok (t + m) = true.
Proof.
  intros HB Ht Hm. unfold dt_ok. change (MIN_DAY * 86400) with (-8334601228800).
  change ((MAX_DAY + 1) * 86400) with 8210266876800. unfold T_MAX in HB.
  apply andb_true_iff. split; [apply Z.leb_le | apply Z.ltb_lt]; lia.
Qed.

(* every branch of calculate other than [ITime +-] and [IDynamicType op IDynamicType] is a
   total function by definition; these two are total under the stated conditions *)
Theorem calculate_ok cfg B l r op : bexec_total -> cfg_keys_ok cfg -> B <= T_MAX ->
  item_in B l -> item_in B r ->
  exists o, calculate bexec cfg l r op = Ok o /\
            match o with Some i => item_in (B + 86400) i | None => True end.
Proof.
  intros Hb Hc HB Hl Hr.
  destruct l as [x nt|x|x cur|t tz|d|days tz|t tz|x u]; cbn [calculate].
  - destruct r; eexists; (split; [reflexivity|exact I]).
  - destruct r; eexists; (split; [reflexivity|exact I]).
  - destruct r; eexists; (split; [reflexivity|]); try exact I; destruct op; cbn [item_in]; try exact I;
      match goal with |- context[if ?b then _ else _] => destruct b end; exact I.
  - cbn [item_in] in Hl.
    assert (Hgo : forall m neg, 0 <= m < 86400 ->
      exists o, (if neg : bool then do r0 <- dt_sub t m; Ok (Some (ITime r0 tz))
                 else match op with
                      | OAdd => do r0 <- dt_add t m; Ok (Some (ITime r0 tz))
                      | OSub => do r0 <- dt_sub t m; Ok (Some (ITime r0 tz))
                      | _ => Ok None end) = Ok o /\
                match o with Some i => item_in (B + 86400) i | None => True end).
    { intros m neg Hm. unfold dt_sub, dt_add.
      rewrite (dt_ok_near B t m HB Hl) by lia. rewrite (dt_ok_near B t (- m) HB Hl) by lia.
      destruct neg; [|destruct op]; cbn [bind]; eexists; (split; [reflexivity|]); cbn [item_in]; try exact I; lia. }
    destruct r as [ | | |t' tz'|d| | | ]; try (eexists; split; [reflexivity|exact I]).
    + exact (Hgo (secs_of_day t') false ltac:(unfold secs_of_day; apply Z.mod_pos_bound; lia)).
    + exact (Hgo (duration_as_time d) (d <? 0) (duration_as_time_range d)).
  - destruct r; try (eexists; split; [reflexivity|exact I]).
    destruct op; eexists; (split; [reflexivity|]); try exact I;
      match goal with |- context[if ?b then _ else _] => destruct b end; exact I.
  - destruct r as [ | | | |d| | | ]; try (eexists; split; [reflexivity|exact I]).
    assert (Hd : exists o, date_calc days d op = Ok o).
    { unfold date_calc. destruct (d <? 0); destruct op; eexists; reflexivity. }
    destruct Hd as [o ->]. cbn [bind]. eexists. split; [reflexivity|]. destruct o; exact I.
  - destruct r; try (eexists; split; [reflexivity|exact I]).
    destruct op; eexists; (split; [reflexivity|]); try exact I;
      match goal with |- context[if ?b then _ else _] => destruct b end; exact I.
  - destruct r as [y nt| |y c| | | | |y u']; try (eexists; split; [reflexivity|exact I]).
    + eexists. split; [reflexivity|]. destruct op; exact I.
    + eexists. split; [reflexivity|]. destruct op; exact I.
    + destruct (unit_of cfg u) as [du|]; [|eexists; split; [reflexivity|exact I]].
      destruct (unit_of cfg u') as [du'|]; [|eexists; split; [reflexivity|exact I]].
      destruct (dt_names du) as [|name0 ?]; [eexists; split; [reflexivity|exact I]|].
      destruct (dyn_convert_ok cfg y du' name0 Hb Hc) as [c ->]. cbn [bind].
      destruct c as [[y' ?]|]; eexists; (split; [reflexivity|]); try exact I. destruct op; exact I.
Qed.

(* ---------- execute_ast ---------- *)
Fixpoint ast_in (B : Z) (a : ast F) : Prop :=
  match a with
  | AItem i => item_in B i
  | ABinary l _ r => ast_in B l /\ ast_in B r
  | APrefixUnary _ e | AAssignment _ _ e => ast_in B e
  | _ => True
  end.

(* a computed value / the stored value of a variable: only the top constructor is ever read *)
Definition val_in (B : Z) (a : ast F) : Prop := match a with AItem i => item_in B i | _ => True end.
Definition vars_in (B : Z) (vs : vars F) : Prop :=
  Forall (fun kv : str * varinfo F => val_in B (v_data (snd kv))) vs.

(* the number of binary operations: each moves a clock time by less than a day *)
Fixpoint ast_ops (a : ast F) : Z :=
  match a with
  | ABinary l _ r => ast_ops l + ast_ops r + 1
  | APrefixUnary _ e | AAssignment _ _ e => ast_ops e
  | _ => 0
  end.

Lemma ast_ops_nonneg a : 0 <= ast_ops a.
Proof. induction a; cbn [ast_ops]; lia. Qed.

Lemma ast_in_mono B B' a : B <= B' -> ast_in B a -> ast_in B' a.
Proof.
  intro Hle. induction a; cbn [ast_in]; try tauto.
  apply item_in_mono. exact Hle.
Qed.

Lemma val_in_mono B B' a : B <= B' -> val_in B a -> val_in B' a.
Proof. intro Hle. destruct a; cbn [val_in]; try tauto. apply item_in_mono. exact Hle. Qed.

Lemma vars_in_mono B B' vs : B <= B' -> vars_in B vs -> vars_in B' vs.
Proof. intros Hle H. eapply Forall_impl; [|exact H]. intros kv. apply val_in_mono. exact Hle. Qed.

Lemma vars_in_assoc B vs n vi : vars_in B vs -> assoc n vs = Some vi -> val_in B (v_data vi).
Proof.
  intros H E. destruct (assoc_in _ _ _ E) as [k' Hin]. unfold vars_in in H. rewrite Forall_forall in H.
  exact (H _ Hin).
Qed.

Lemma unary_minus_in B i : item_in B i -> item_in B (unary_minus i).
Proof. destruct i; cbn [unary_minus item_in]; tauto. Qed.

Lemma calculate_item_ok cfg B op l r : bexec_total -> cfg_keys_ok cfg -> B <= T_MAX ->
  val_in B l -> val_in B r ->
  exists z, calculate_item bexec cfg op l r = Ok z /\
            match z with IOk v => val_in (B + 86400) v | IErr _ => True end.
Proof.
  intros Hb Hc HB Hl Hr.
  destruct l as [ | |li| | | | | | ]; try (eexists; split; [reflexivity|exact I]).
  destruct r as [ | |ri| | | | | | ]; try (eexists; split; [reflexivity|exact I]).
  cbn [val_in] in Hl, Hr. unfold calculate_item.
  assert (Hrun : forall o, exists z,
            (do x <- calculate bexec cfg li ri o;
             Ok (match x with Some i => IOk (AItem i) | None => IErr E_UNKNOWN_CALC end)) = Ok z /\
            match z with IOk v => val_in (B + 86400) v | IErr _ => True end).
  { intro o. destruct (calculate_ok cfg B li ri o Hb Hc HB Hl Hr) as [x [-> Hx]]. cbn [bind].
    eexists. split; [reflexivity|]. destruct x; [exact Hx|exact I]. }
  destruct (N.eqb op OP_PLUS); [apply Hrun|].
  destruct (N.eqb op OP_MINUS); [apply Hrun|].
  destruct (N.eqb op OP_MUL); [apply Hrun|].
  destruct (N.eqb op OP_DIV); [apply Hrun|].
  eexists. split; [reflexivity|exact I].
Qed.

(* The interpreter never panics.  [B] bounds the clock-time instants (ITime) of the tree and of
   the variables' values; the result and the variables afterwards are bounded by
   B + 86400 * (number of binary operations). *)
Theorem execute_ast_ok cfg : bexec_total -> cfg_keys_ok cfg ->
  forall a B vs, B + 86400 * ast_ops a <= T_MAX -> ast_in B a -> vars_in B vs ->
  exists r vs', execute_ast bexec cfg vs a = Ok (r, vs') /\
                vars_in (B + 86400 * ast_ops a) vs' /\
                match r with IOk v => val_in (B + 86400 * ast_ops a) v | IErr _ => True end.
Proof.
  intros Hb Hc. induction a as [ |f|i|m|l IHl op r IHr|op e IHe|name ntoks e IHe|v|name];
    intros B vs HB Ha Hvs; cbn [execute_ast ast_ops] in *; rewrite ?Z.mul_0_r, ?Z.add_0_r in *.
  - do 2 eexists. split; [reflexivity|]. split; [exact Hvs|exact I].
  - do 2 eexists. split; [reflexivity|]. split; [exact Hvs|exact I].
  - do 2 eexists. split; [reflexivity|]. split; [exact Hvs|exact Ha].
  - do 2 eexists. split; [reflexivity|]. split; [exact Hvs|exact I].
  - (* ABinary *)
    cbn [ast_in] in Ha. destruct Ha as [Hal Har].
    pose proof (ast_ops_nonneg l) as Nl. pose proof (ast_ops_nonneg r) as Nr.
    set (B1 := B + 86400 * ast_ops l). set (B2 := B1 + 86400 * ast_ops r).
    set (B3 := B + 86400 * (ast_ops l + ast_ops r + 1)).
    assert (E3 : B3 = B2 + 86400) by (unfold B3, B2, B1; ring).
    destruct (IHl B vs ltac:(lia) Hal Hvs) as (x & vs1 & -> & Hv1 & Hx). cbn [bind]. fold B1 in Hv1, Hx.
    destruct x as [cl|m1].
    2:{ do 2 eexists. split; [reflexivity|]. split; [|exact I]. apply (vars_in_mono B1); [unfold B3, B1; lia|exact Hv1]. }
    destruct (IHr B1 vs1 ltac:(unfold B1; lia) (ast_in_mono B B1 r ltac:(unfold B1; lia) Har) Hv1)
      as (y & vs2 & -> & Hv2 & Hy). cbn [bind]. fold B2 in Hv2, Hy.
    assert (Hv3 : vars_in B3 vs2) by (apply (vars_in_mono B2); [lia|exact Hv2]).
    destruct y as [cr|m2].
    2:{ do 2 eexists. split; [reflexivity|]. split; [exact Hv3|exact I]. }
    assert (Hcl : val_in B2 cl) by (apply (val_in_mono B1); [unfold B2; lia|exact Hx]).
    destruct (calculate_item_ok cfg B2 op cl cr Hb Hc ltac:(unfold B2, B1; lia) Hcl Hy) as [z [Ez Hz]].
    rewrite <- E3 in Hz.
    destruct cl; destruct cr; rewrite ?Ez; cbn [bind];
      do 2 eexists; (split; [reflexivity|]); (split; [exact Hv3|]); first [exact Hz|exact I].
  - (* APrefixUnary *)
    cbn [ast_in] in Ha.
    destruct (IHe B vs HB Ha Hvs) as (x & vs1 & -> & Hv1 & Hx). cbn [bind].
    destruct x as [v|m1]; [|do 2 eexists; split; [reflexivity|split; [exact Hv1|exact I]]].
    destruct (N.eqb op OP_PLUS); [do 2 eexists; split; [reflexivity|split; [exact Hv1|exact Hx]]|].
    destruct (N.eqb op OP_MINUS); [|do 2 eexists; split; [reflexivity|split; [exact Hv1|exact I]]].
    destruct v; do 2 eexists; (split; [reflexivity|]); (split; [exact Hv1|]); try exact I.
    cbn [val_in] in *. apply unary_minus_in. exact Hx.
  - (* AAssignment *)
    cbn [ast_in] in Ha.
    destruct (IHe B vs HB Ha Hvs) as (x & vs1 & -> & Hv1 & Hx). cbn [bind].
    destruct x as [v|m1]; [|do 2 eexists; split; [reflexivity|split; [exact Hv1|exact I]]].
    do 2 eexists. split; [reflexivity|]. split; [|exact Hx].
    destruct (assoc name vs1) as [vi|];
      apply (assoc_insert_Forall (fun vi : varinfo F => val_in _ (v_data vi))); [exact Hx|exact Hv1|exact Hx|exact Hv1].
  - do 2 eexists. split; [reflexivity|]. split; [exact Hvs|exact I].
  - (* AVariable *)
    do 2 eexists. split; [reflexivity|]. split; [exact Hvs|].
    destruct (assoc name vs) as [vi|] eqn:E; [|exact I]. exact (vars_in_assoc B vs name vi Hvs E).
Qed.

Corollary execute_ast_no_panic cfg vs a B : bexec_total -> cfg_keys_ok cfg ->
  B + 86400 * ast_ops a <= T_MAX -> ast_in B a -> vars_in B vs ->
  exists r, execute_ast bexec cfg vs a = Ok r.
Proof.
  intros Hb Hc HB Ha Hvs. destruct (execute_ast_ok cfg Hb Hc a B vs HB Ha Hvs) as (r & vs' & E & _).
  exists (r, vs'). exact E.
Qed.

(* the hypothesis on clock times is needed: chrono's `NaiveDateTime + Duration` panics at the end
   of its range *)
Theorem execute_ast_range_refuted cfg (tz : tzinfo) :
  execute_ast bexec cfg [] (ABinary (AItem (ITime 8210266876799 tz)) OP_PLUS (AItem (IDuration 1)))
  = Panic SITE_DT_ADD.
Proof. reflexivity. Qed.

(* ---------- the formatter ---------- *)
Lemma format_number_ok (x : F) tsep dsep digits rm rnd : exists r, format_number x tsep dsep digits rm rnd = Ok r.
Proof. unfold format_number. match goal with |- context[if ?b then _ else _] => destruct b end; eexists; reflexivity. Qed.

Theorem item_print_no_panic (cfg : config F) lang now_year i : exists r, item_print cfg lang now_year i = Ok r.
Proof.
  destruct i as [x nt|x|x code|t tz|d|d tz|t tz|x u]; cbn [item_print]; try (eexists; reflexivity).
  - destruct nt; try (eexists; reflexivity). apply format_number_ok.
  - destruct (format_number_ok x (cf_tsep cfg) (cf_dsep cfg) (nc_digits (cf_percent cfg))
               (nc_rm (cf_percent cfg)) (nc_round (cf_percent cfg))) as [r ->]. cbn [bind]. eexists; reflexivity.
  - destruct (currency_by_code cfg code) as [c|]; [|eexists; reflexivity].
    destruct (format_number_ok x (cf_tsep cfg) (cf_dsep cfg) (c_digits c) (nc_rm (cf_money cfg))
               (nc_round (cf_money cfg))) as [r ->]. cbn [bind]. eexists; reflexivity.
  - destruct (unit_of cfg u) as [d|]; [|eexists; reflexivity].
    match goal with |- context[format_number ?a ?b ?c ?d ?e ?f] => destruct (format_number_ok a b c d e f) as [r ->] end.
    cbn [bind]. eexists; reflexivity.
Qed.

Theorem format_result_no_panic (cfg : config F) lang now_year a : exists r, format_result cfg lang now_year a = Ok r.
Proof. destruct a; cbn [format_result]; try (eexists; reflexivity). apply item_print_no_panic. Qed.

End Interp.

(* ====================================================================================== *)
(* 2. the rewrite stages: find_match, the field map, the rule functions                    *)
(* ====================================================================================== *)
Local Open Scope nat_scope.

(* the panic sites that are NOT excluded below *)
Definition RESIDUAL : list N := [1701%N].       (* ui_update: drain(a..j+1) with a > j+1 *)

Definition safe {A} (x : res A) : Prop :=
  match x with Ok _ => True | Panic site => In site RESIDUAL end.

Lemma safe_bind {A B} (x : res A) (f : A -> res B) :
  safe x -> (forall a, x = Ok a -> safe (f a)) -> safe (bind x f).
Proof. destruct x as [a|site]; cbn [bind safe]; intros H Hf; [apply Hf; reflexivity|exact H]. Qed.

Lemma ok_safe {A} (x : res A) : (exists a, x = Ok a) -> safe x.
Proof. intros [a ->]. exact I. Qed.

Lemma ui_update_safe line us a b k : safe (ui_update line us a b k).
Proof.
  unfold ui_update.
  destruct (find_index _ us) as [i|]; [|exact I].
  destruct (as_i8 i >? -1)%Z; [|exact I].
  destruct (find_index _ us) as [j|]; [|exact I].
  destruct (Nat.ltb (S j) (Z.to_nat (as_i8 i))); [left; reflexivity|exact I].
Qed.

Section Rewrite.
Context {F : Type} {NF : Num F}.
Variable bexec : config F -> str -> res (option F).
Variable now_year : Z.

Notation tis := (list (token_info F)).

(* ---------- small facts ---------- *)
Lemma np_str_eqb_sym a b : str_eqb a b = str_eqb b a.
Proof.
  destruct (str_eqb a b) eqn:E.
  - apply str_eqb_eq in E. subst. symmetry. apply str_eqb_refl.
  - destruct (str_eqb b a) eqn:E'; [|reflexivity]. apply str_eqb_eq in E'. subst.
    rewrite str_eqb_refl in E. discriminate.
Qed.

Lemma np_assoc_insert_lookup {A} (k k' : str) (v : A) l :
  assoc k' (assoc_insert k v l) = if str_eqb k' k then Some v else assoc k' l.
Proof.
  induction l as [|[k0 v0] r IH]; cbn [assoc_insert assoc]; [reflexivity|].
  destruct (str_eqb k k0) eqn:E.
  - apply str_eqb_eq in E. subst k0. cbn [assoc]. destruct (str_eqb k' k); reflexivity.
  - destruct (str_ltb k k0); cbn [assoc].
    + reflexivity.
    + rewrite IH. destruct (str_eqb k' k) eqn:E2; [|reflexivity].
      apply str_eqb_eq in E2. subst k'. rewrite E. reflexivity.
Qed.

Lemma nth_opt_lt {A} (l : list A) n : n < length l -> exists x, nth_opt l n = Some x.
Proof.
  revert n. induction l as [|y l IH]; intros [|n] H; cbn [nth_opt length] in *; try lia.
  - eexists; reflexivity.
  - apply IH. lia.
Qed.

Lemma firstn_S_nth_opt {A} (l : list A) k p : nth_opt l k = Some p -> firstn (S k) l = firstn k l ++ [p].
Proof.
  revert k. induction l as [|y l IH]; intros [|k] H; cbn [nth_opt] in H; try discriminate.
  - inversion H; subst. reflexivity.
  - cbn [firstn app]. f_equal. rewrite <- IH by exact H. reflexivity.
Qed.

(* ---------- find_match never panics on a non-empty pattern (C18, any number algebra) ---------- *)
Lemma np_find_match_loop_ok vs (pat : tis) : pat <> [] -> forall tokens rule_idx start target fs,
  rule_idx < length pat ->
  exists r, find_match_loop vs pat tokens rule_idx start target fs = Ok r.
Proof.
  intros Hne tokens. induction tokens as [|t rest IH]; intros rule_idx start target fs Hlt; cbn [find_match_loop].
  - eexists; reflexivity.
  - destruct (ti_active t); cbn [negb]; [|apply IH; exact Hlt].
    destruct (ti_ty t) as [ty|].
    + destruct (nth_opt_lt pat rule_idx Hlt) as [p ->].
      set (same := match ty with TVariable v => variable_compare vs p (var_value vs v) | _ => info_eq t p end).
      destruct same.
      * destruct (Nat.eqb_spec (length pat) (S rule_idx)); [eexists; reflexivity|apply IH; lia].
      * destruct (Nat.eqb_spec (length pat) 0); [eexists; reflexivity|apply IH; lia].
    + destruct (Nat.eqb_spec (length pat) rule_idx); [eexists; reflexivity|apply IH; exact Hlt].
Qed.

Lemma np_find_match_ok vs (pat : tis) tokens : pat <> [] -> exists m, find_match vs pat tokens = Ok m.
Proof.
  intro Hne. unfold find_match.
  destruct (np_find_match_loop_ok vs pat Hne tokens 0 0 0 []) as [[[[ri st] tg] fs] E].
  { destruct pat; [contradiction|cbn [length]; lia]. }
  rewrite E. cbn [bind]. eexists; reflexivity.
Qed.

(* ---------- the indices of a full match are in range: SITE_MATCH_INDEX ---------- *)
Lemma seg_bounds (l : tis) st tg n : seg l st tg n -> 1 <= n -> st < length l /\ 1 <= tg /\ tg <= length l.
Proof.
  intros (a & b & c & -> & Ha & Hb & Hmu) Hn. pose proof (mu_le_length b). rewrite !app_length. lia.
Qed.

Lemma full_match_indices vs (pat : tis) l m : pat <> [] ->
  find_match vs pat l = Ok m -> fm_total m = fm_rule_idx m ->
  (exists first, nth_opt l (fm_start m) = Some first) /\
  (exists last, nth_opt l (Nat.pred (fm_target m)) = Some last) /\
  Nat.eqb (fm_target m) 0 = false.
Proof.
  intros Hne Hm Hfull. destruct (find_match_seg _ _ _ _ Hm) as [Ht Hseg].
  assert (Hn : 1 <= fm_rule_idx m). { rewrite <- Hfull, Ht. destruct pat; [contradiction|cbn [length]; lia]. }
  destruct (seg_bounds _ _ _ _ Hseg Hn) as (H1 & H2 & H3).
  repeat split.
  - apply nth_opt_lt. exact H1.
  - apply nth_opt_lt. lia.
  - apply Nat.eqb_neq. lia.
Qed.

Theorem replace_match_no_panic vs (pat : tis) l m tok : pat <> [] ->
  find_match vs pat l = Ok m -> fm_total m = fm_rule_idx m ->
  exists l', replace_match l m tok = Ok l'.
Proof.
  intros Hne Hm Hfull. destruct (full_match_indices vs pat l m Hne Hm Hfull) as ([f Ef] & [la El] & E0).
  unfold replace_match. rewrite Ef, El, E0. eexists; reflexivity.
Qed.

(* ---------- which token a field name is bound to after a full match ---------- *)
Definition fname_is (n : str) (p : token_info F) : bool :=
  match get_field_name p with Some n' => str_eqb n n' | None => false end.

(* the last atom of the pattern that carries field name n *)
Fixpoint last_field (n : str) (pat : tis) (acc : option (token_info F)) : option (token_info F) :=
  match pat with
  | [] => acc
  | p :: r => last_field n r (if fname_is n p then Some p else acc)
  end.

Lemma last_field_snoc n p : forall l acc,
  last_field n (l ++ [p]) acc = if fname_is n p then Some p else last_field n l acc.
Proof. induction l as [|q l IH]; intro acc; cbn [app last_field]; [reflexivity|apply IH]. Qed.

(* token [t] of the line matched pattern atom [p] *)
Definition tok_matches (vs : vars F) (t p : token_info F) : Prop :=
  ti_active t = true /\
  exists ty, ti_ty t = Some ty /\
             match ty with TVariable v => variable_compare vs p (var_value vs v) | _ => info_eq t p end = true.

Section Fields.
Variable vs : vars F.
Variable pat : tis.
Variable Q : token_info F -> Prop.

Definition FInv (k : nat) (fs : fields F) : Prop :=
  forall n p, last_field n (firstn k pat) None = Some p ->
  exists t, assoc n fs = Some t /\ Q t /\ tok_matches vs t p.

Lemma find_match_loop_fields : forall tokens rule_idx start target fs ri st tg fs',
  Forall Q tokens -> FInv rule_idx fs ->
  find_match_loop vs pat tokens rule_idx start target fs = Ok (ri, st, tg, fs') -> FInv ri fs'.
Proof.
  induction tokens as [|t rest IH]; intros rule_idx start target fs ri st tg fs' HQ Hinv H; cbn [find_match_loop] in H.
  - inversion H; subst. exact Hinv.
  - inversion HQ as [|? ? Hqt HQr]; subst.
    destruct (ti_active t) eqn:Ea; cbn [negb] in H; [|exact (IH _ _ _ _ _ _ _ _ HQr Hinv H)].
    destruct (ti_ty t) as [ty|] eqn:Et.
    2:{ destruct (Nat.eqb (length pat) rule_idx); [inversion H; subst; exact Hinv|exact (IH _ _ _ _ _ _ _ _ HQr Hinv H)]. }
    destruct (nth_opt pat rule_idx) as [p|] eqn:En; [|discriminate].
    destruct (match ty with TVariable v => variable_compare vs p (var_value vs v) | _ => info_eq t p end) eqn:Es.
    + assert (Hnew : FInv (S rule_idx)
                (match get_field_name p with Some n => assoc_insert n t fs | None => fs end)).
      { intros n q Hl. rewrite (firstn_S_nth_opt _ _ _ En), last_field_snoc in Hl. unfold fname_is in Hl.
        destruct (get_field_name p) as [n0|].
        - rewrite np_assoc_insert_lookup. destruct (str_eqb n n0).
          + inversion Hl; subst q. exists t. split; [reflexivity|]. split; [exact Hqt|].
            split; [exact Ea|]. exists ty. split; [exact Et|exact Es].
          + exact (Hinv n q Hl).
        - exact (Hinv n q Hl). }
      destruct (Nat.eqb (length pat) (S rule_idx)); [inversion H; subst; exact Hnew|].
      exact (IH _ _ _ _ _ _ _ _ HQr Hnew H).
    + assert (H0 : FInv 0 fs) by (intros n q Hl; discriminate Hl).
      destruct (Nat.eqb (length pat) 0); [inversion H; subst; exact H0|].
      exact (IH _ _ _ _ _ _ _ _ HQr H0 H).
Qed.

(* a name no atom carries is never bound *)
Lemma find_match_loop_nokey n : forallb (fun p => negb (fname_is n p)) pat = true ->
  forall tokens rule_idx start target fs ri st tg fs',
  assoc n fs = None ->
  find_match_loop vs pat tokens rule_idx start target fs = Ok (ri, st, tg, fs') -> assoc n fs' = None.
Proof.
  intro Hno. induction tokens as [|t rest IH]; intros rule_idx start target fs ri st tg fs' Hn H; cbn [find_match_loop] in H.
  - inversion H; subst. exact Hn.
  - destruct (ti_active t); cbn [negb] in H; [|exact (IH _ _ _ _ _ _ _ _ Hn H)].
    destruct (ti_ty t) as [ty|].
    2:{ destruct (Nat.eqb (length pat) rule_idx); [inversion H; subst; exact Hn|exact (IH _ _ _ _ _ _ _ _ Hn H)]. }
    destruct (nth_opt pat rule_idx) as [p|] eqn:En; [|discriminate].
    assert (Hp : fname_is n p = false).
    { rewrite forallb_forall in Hno. apply negb_true_iff. apply Hno.
      clear -En. revert rule_idx En. induction pat as [|x l IHl]; intros [|i] E; cbn [nth_opt] in E; try discriminate.
      - inversion E. left. reflexivity.
      - right. exact (IHl _ E). }
    destruct (match ty with TVariable v => variable_compare vs p (var_value vs v) | _ => info_eq t p end).
    + assert (Hn' : assoc n (match get_field_name p with Some n0 => assoc_insert n0 t fs | None => fs end) = None).
      { unfold fname_is in Hp. destruct (get_field_name p) as [n0|]; [|exact Hn].
        rewrite np_assoc_insert_lookup, Hp. exact Hn. }
      destruct (Nat.eqb (length pat) (S rule_idx)); [inversion H; subst; exact Hn'|exact (IH _ _ _ _ _ _ _ _ Hn' H)].
    + destruct (Nat.eqb (length pat) 0); [inversion H; subst; exact Hn|exact (IH _ _ _ _ _ _ _ _ Hn H)].
Qed.

End Fields.

Theorem full_match_binds vs (pat : tis) (Q : token_info F -> Prop) tokens m :
  Forall Q tokens -> find_match vs pat tokens = Ok m -> fm_total m = fm_rule_idx m ->
  forall n p, last_field n pat None = Some p ->
  exists t, assoc n (fm_fields m) = Some t /\ Q t /\ tok_matches vs t p.
Proof.
  intros HQ H Hfull n p Hl. unfold find_match in H.
  destruct (find_match_loop vs pat tokens 0 0 0 []) as [[[[ri st] tg] fs]|site] eqn:E; cbn [bind] in H; [|discriminate].
  inversion H; subst m. cbn [fm_total fm_rule_idx fm_fields] in *.
  assert (H0 : FInv vs pat Q 0 []) by (intros n0 q Hq; discriminate Hq).
  pose proof (find_match_loop_fields vs pat Q tokens 0 0 0 [] ri st tg fs HQ H0 E) as Hinv.
  apply Hinv. rewrite <- Hfull, firstn_all. exact Hl.
Qed.

Theorem match_never_binds vs (pat : tis) tokens m n :
  forallb (fun p => negb (fname_is n p)) pat = true ->
  find_match vs pat tokens = Ok m -> assoc n (fm_fields m) = None.
Proof.
  intros Hno H. unfold find_match in H.
  destruct (find_match_loop vs pat tokens 0 0 0 []) as [[[[ri st] tg] fs]|site] eqn:E; cbn [bind] in H; [|discriminate].
  inversion H; subst m. cbn [fm_fields].
  exact (find_match_loop_nokey vs pat n Hno tokens 0 0 0 [] ri st tg fs eq_refl E).
Qed.

End Rewrite.

(* ---------- what a matched token holds ---------- *)
Section Kinds.
Context {F : Type} {NF : Num F}.
Variable bexec : config F -> str -> res (option F).
Variable now_year : Z.
Notation tis := (list (token_info F)).

(* HYPOTHESIS on the lexed line (a lexer fact, out of scope here): a field atom typed into the line
   is a type group only for the groups of cf_type_group, none of which lists "FIELD"
   ([default_type_groups_no_field] below); such an atom would compare equal to every field atom
   of a pattern while holding no value *)
Definition plain_tok (ty : token F) : Prop :=
  match ty with TField (FTypeGroup types _) => mem_str (s "FIELD") types = false | _ => True end.
Definition plain (t : token_info F) : Prop :=
  match ti_ty t with Some ty => plain_tok ty | None => True end.
Definition infos_plain (l : tis) : Prop := Forall plain l.

Lemma var_value_item (vs : vars F) v i : var_value vs v = AItem i -> var_item vs v = Some i.
Proof. unfold var_value, var_item. destruct (assoc v vs) as [vi|]; [|discriminate]. intros ->. reflexivity. Qed.

Lemma bound_get_number vs (fs : fields F) k t p n :
  assoc k fs = Some t -> plain t -> ti_ty p = Some (TField (FNumber n)) -> tok_matches vs t p ->
  exists x, get_number vs k fs = Some x.
Proof.
  intros Ha Hpl Hp [Hact [ty [Hty Hs]]]. unfold get_number, field_token. rewrite Ha, Hty.
  unfold plain in Hpl. rewrite Hty in Hpl.
  destruct ty as [x nt|v| | | | |f| | | |v| | | ];
    try (unfold info_eq in Hs; rewrite Hty, Hp in Hs; destruct (negb (ti_active t) || negb (ti_active p));
         [discriminate|]; cbn [token_match token_field_compare] in Hs; discriminate).
  - eexists; reflexivity.
  - unfold info_eq in Hs. rewrite Hty, Hp in Hs. destruct (negb (ti_active t) || negb (ti_active p)); [discriminate|].
    cbn [token_match] in Hs. destruct f; cbn [token_field_compare token_type_name] in Hs; try discriminate.
    cbn [plain_tok] in Hpl. rewrite Hpl in Hs. discriminate.
  - unfold variable_compare in Hs. rewrite Hp in Hs.
    destruct (var_value vs v) as [ | |i| | | | | | ] eqn:Ev; cbn [ast_field_compare] in Hs; try discriminate.
    destruct i; try discriminate. rewrite (var_value_item _ _ _ Ev). eexists; reflexivity.
Qed.

Lemma bound_get_time vs (fs : fields F) k t p n :
  assoc k fs = Some t -> plain t -> ti_ty p = Some (TField (FTime n)) -> tok_matches vs t p ->
  exists x, get_time vs k fs = Some x.
Proof.
  intros Ha Hpl Hp [Hact [ty [Hty Hs]]]. unfold get_time, field_token. rewrite Ha, Hty.
  unfold plain in Hpl. rewrite Hty in Hpl.
  destruct ty as [x nt|v| | | | |f| | | |v| | | ];
    try (unfold info_eq in Hs; rewrite Hty, Hp in Hs; destruct (negb (ti_active t) || negb (ti_active p));
         [discriminate|]; cbn [token_match token_field_compare] in Hs; discriminate).
  - eexists; reflexivity.
  - unfold info_eq in Hs. rewrite Hty, Hp in Hs. destruct (negb (ti_active t) || negb (ti_active p)); [discriminate|].
    cbn [token_match] in Hs. destruct f; cbn [token_field_compare token_type_name] in Hs; try discriminate.
    cbn [plain_tok] in Hpl. rewrite Hpl in Hs. discriminate.
  - unfold variable_compare in Hs. rewrite Hp in Hs.
    destruct (var_value vs v) as [ | |i| | | | | | ] eqn:Ev; cbn [ast_field_compare] in Hs; try discriminate.
    destruct i; try discriminate. rewrite (var_value_item _ _ _ Ev). eexists; reflexivity.
Qed.

Lemma bound_get_timezone vs (fs : fields F) k t p n :
  assoc k fs = Some t -> plain t -> ti_ty p = Some (TField (FTimezone n)) -> tok_matches vs t p ->
  exists x, get_timezone vs k fs = Some x.
Proof.
  intros Ha Hpl Hp [Hact [ty [Hty Hs]]]. unfold get_timezone, field_token. rewrite Ha, Hty.
  unfold plain in Hpl. rewrite Hty in Hpl.
  destruct ty as [x nt|v| | | | |f| | | |v| | | ];
    try (unfold info_eq in Hs; rewrite Hty, Hp in Hs; destruct (negb (ti_active t) || negb (ti_active p));
         [discriminate|]; cbn [token_match token_field_compare] in Hs; discriminate).
  - unfold info_eq in Hs. rewrite Hty, Hp in Hs. destruct (negb (ti_active t) || negb (ti_active p)); [discriminate|].
    cbn [token_match] in Hs. destruct f; cbn [token_field_compare token_type_name] in Hs; try discriminate.
    cbn [plain_tok] in Hpl. rewrite Hpl in Hs. discriminate.
  - unfold variable_compare in Hs. rewrite Hp in Hs.
    destruct (var_value vs v) as [ | |i| | | | | | ] eqn:Ev; cbn [ast_field_compare] in Hs; discriminate.
  - eexists; reflexivity.
Qed.

End Kinds.

(* ---------- the rule functions ---------- *)
Section RuleFunctions.
Context {F : Type} {NF : Num F}.
Variable bexec : config F -> str -> res (option F).
Variable now_year : Z.

Ltac total := repeat match goal with |- context[match ?x with _ => _ end] => destruct x end; eexists; reflexivity.

Lemma dur_check_small site x : (0 <= x <= 604800)%Z -> dur_check site x = Ok x.
Proof.
  intro H. unfold dur_check, dur_ok. assert (E : DUR_MAX = 9223372036854775%Z) by reflexivity. rewrite E.
  rewrite (proj2 (Z.leb_le _ _)) by lia. rewrite (proj2 (Z.leb_le _ _)) by lia. reflexivity.
Qed.

(* the field shapes under which the four panicking functions return *)
Definition fields_fit (vs : vars F) (fname : str) (fs : fields F) : Prop :=
  (name_is fname "time_with_timezone" = true ->
     get_time vs (s "time") fs <> None /\ get_timezone vs (s "timezone") fs <> None) /\
  (name_is fname "convert_timezone" = true -> get_timezone vs (s "timezone") fs <> None) /\
  (name_is fname "from_unixtime" = true -> get_number vs (s "number") fs <> None) /\
  (name_is fname "as_duration" = true -> get_number vs (s "duration") fs = None).

Lemma time_with_timezone_ok vs (fs : fields F) :
  get_time vs (s "time") fs <> None -> get_timezone vs (s "timezone") fs <> None ->
  exists r, time_with_timezone vs fs = Ok r.
Proof.
  intros H1 H2. unfold time_with_timezone. destruct (has "time" fs && has "timezone" fs); [|eexists; reflexivity].
  destruct (get_time vs (s "time") fs) as [[a b]|]; [|contradiction].
  destruct (get_timezone vs (s "timezone") fs) as [[c d]|]; [|contradiction]. eexists; reflexivity.
Qed.

Lemma convert_timezone_ok vs (fs : fields F) :
  get_timezone vs (s "timezone") fs <> None -> exists r, convert_timezone vs fs = Ok r.
Proof.
  intros H. unfold convert_timezone. destruct (has "time" fs && has "timezone" fs); [|eexists; reflexivity].
  destruct (get_timezone vs (s "timezone") fs) as [[c d]|]; [|contradiction]. total.
Qed.

Lemma from_unixtime_ok cfg vs (fs : fields F) :
  get_number vs (s "number") fs <> None -> exists r, from_unixtime cfg vs fs = Ok r.
Proof.
  intros H. unfold from_unixtime. destruct (has "number" fs); [|eexists; reflexivity].
  destruct (get_number vs (s "number") fs) as [x|]; [|contradiction]. total.
Qed.

(* as_duration: a TIME source is reduced to its seconds of the day, so the chrono constructors stay
   far inside their range; the checked multiplications are only reached through a "duration"
   field, which no pattern of the rule binds *)
Lemma as_duration_ok cfg lang vs (fs : fields F) :
  get_number vs (s "duration") fs = None -> exists r, as_duration cfg lang vs fs = Ok r.
Proof.
  intros Hn. unfold as_duration. destruct (has "source" fs && has "type" fs); [|eexists; reflexivity].
  destruct (get_text vs (s "type") fs) as [ty|]; [|eexists; reflexivity].
  unfold constant_of. destruct (lang_constants cfg lang) as [m|]; cbn [bind]; [|eexists; reflexivity].
  destruct (assoc ty m) as [c|]; [|eexists; reflexivity].
  destruct (field_token vs (s "source") fs) as [[ | |t z| | | | | | | | | | | ]|]; rewrite ?Hn; try (eexists; reflexivity).
  - (* TTime *)
    assert (Hs : (0 <= secs_of_day t < 86400)%Z) by (unfold secs_of_day; apply Z.mod_pos_bound; lia).
    unfold dur_days, dur_seconds, dur_minutes, dur_hours, dur_weeks.
    change MONTH with 2592000%Z. change YEAR with 31536000%Z. change DAY with 86400%Z.
    change MINUTE with 60%Z. change HOUR with 3600%Z. change WEEK with 604800%Z.
    destruct c; try (eexists; reflexivity);
      rewrite dur_check_small by (pose proof Hs; clear - Hs; lia); cbn [bind]; eexists; reflexivity.
  - (* TDuration *) unfold opt_dur. destruct (duration_as c secs); eexists; reflexivity.
Qed.

Lemma combine_durations_ok vs (fs : fields F) : exists r, combine_durations vs fs = Ok r.
Proof.
  unfold combine_durations. destruct (has "1" fs && has "2" fs); [|eexists; reflexivity].
  match goal with |- exists r, ?g fs 0%Z = Ok r => assert (H : forall l sum, exists r, g l sum = Ok r) end; [|apply H].
  induction l as [|[k ti] r IH]; intro sum; [eexists; reflexivity|]. cbn [none].
  destruct (get_duration vs k fs) as [d|]; [|eexists; reflexivity].
  destruct (try_dur (sum + d)) as [sum'|]; [apply IH|eexists; reflexivity].
Qed.

Lemma dynamic_type_convert_ok cfg vs (fs : fields F) : bexec_total bexec -> cfg_keys_ok cfg ->
  exists r, dynamic_type_convert bexec cfg vs fs = Ok r.
Proof.
  intros Hb Hc. unfold dynamic_type_convert. destruct (has "source" fs && has "type" fs); [|eexists; reflexivity].
  destruct (get_text vs (s "type") fs) as [target|]; [|eexists; reflexivity].
  destruct (get_dynamic_type vs (s "source") fs) as [[number u]|]; [|eexists; reflexivity].
  destruct (unit_of cfg u) as [src|]; [|eexists; reflexivity].
  destruct (dyn_convert_ok bexec cfg number src target Hb Hc) as [r ->]. cbn [bind]. total.
Qed.

Lemma duration_parse_ok cfg lang vs (fs : fields F) : exists r, duration_parse cfg lang vs fs = Ok r.
Proof.
  unfold duration_parse. destruct (has "duration" fs && has "type" fs); [|eexists; reflexivity].
  destruct (get_number vs (s "duration") fs) as [x|]; [|eexists; reflexivity].
  destruct (get_text vs (s "type") fs) as [ty|]; [|eexists; reflexivity].
  unfold constant_of. destruct (lang_constants cfg lang) as [m|]; cbn [bind]; [|eexists; reflexivity].
  destruct (assoc ty m) as [c|]; [|eexists; reflexivity].
  unfold opt_dur. destruct (duration_of_const c (as_i64 x)); eexists; reflexivity.
Qed.

Lemma at_date_ok vs (fs : fields F) : exists r, at_date vs fs = Ok r.
Proof.
  unfold at_date. destruct (has "source" fs && has "time" fs); [|eexists; reflexivity].
  destruct (get_date vs (s "source") fs) as [[date tz]|]; [|eexists; reflexivity].
  unfold get_number_or_time. destruct (get_number vs (s "time") fs); cbn [bind]; total.
Qed.

(* every rule function returns on a field map that fits *)
Theorem call_rule_no_panic cfg lang vs fname (fs : fields F) : bexec_total bexec -> cfg_keys_ok cfg ->
  fields_fit vs fname fs -> exists r, call_rule bexec now_year cfg lang vs fname fs = Ok r.
Proof.
  intros Hb Hc (H1 & H2 & H3 & H4). unfold call_rule.
  destruct (name_is fname "percent_calculator"); [unfold percent_calculator; total|].
  destruct (name_is fname "convert_timezone"); [apply convert_timezone_ok, H2; reflexivity|].
  destruct (name_is fname "time_with_timezone"); [apply time_with_timezone_ok; apply H1; reflexivity|].
  destruct (name_is fname "to_unixtime"); [unfold to_unixtime; total|].
  destruct (name_is fname "from_unixtime"); [apply from_unixtime_ok, H3; reflexivity|].
  destruct (name_is fname "convert_money"); [unfold convert_money; total|].
  destruct (name_is fname "number_on"); [unfold number_on; total|].
  destruct (name_is fname "number_of"); [unfold number_of; total|].
  destruct (name_is fname "number_off"); [unfold number_off; total|].
  destruct (name_is fname "division_cleanup"); [unfold division_cleanup; total|].
  destruct (name_is fname "duration_parse"); [apply duration_parse_ok|].
  destruct (name_is fname "as_duration"); [apply as_duration_ok, H4; reflexivity|].
  destruct (name_is fname "to_duration"); [unfold to_duration; total|].
  destruct (name_is fname "at_date"); [apply at_date_ok|].
  destruct (name_is fname "combine_durations"); [apply combine_durations_ok|].
  destruct (name_is fname "find_numbers_percent"); [unfold find_numbers_percent; total|].
  destruct (name_is fname "find_total_from_percent"); [unfold find_total_from_percent; total|].
  destruct (name_is fname "number_type_convert"); [unfold number_type_convert; total|].
  destruct (name_is fname "dynamic_type_convert"); [apply dynamic_type_convert_ok; assumption|].
  destruct (name_is fname "small_date"); [unfold small_date; total|].
  eexists; reflexivity.
Qed.

End RuleFunctions.

(* ---------- the decidable side condition on patterns ---------- *)
Section Stages.
Context {F : Type} {NF : Num F}.
Variable bexec : config F -> str -> res (option F).
Variable now_year : Z.
Notation tis := (list (token_info F)).

Definition is_fnumber (o : option (token_info F)) : bool :=
  match o with Some p => match ti_ty p with Some (TField (FNumber _)) => true | _ => false end | None => false end.
Definition is_ftime (o : option (token_info F)) : bool :=
  match o with Some p => match ti_ty p with Some (TField (FTime _)) => true | _ => false end | None => false end.
Definition is_ftimezone (o : option (token_info F)) : bool :=
  match o with Some p => match ti_ty p with Some (TField (FTimezone _)) => true | _ => false end | None => false end.

Lemma is_fnumber_spec o : is_fnumber o = true -> exists p n, o = Some p /\ ti_ty p = Some (TField (FNumber n)).
Proof.
  destruct o as [p|]; [|discriminate]. cbn [is_fnumber].
  destruct (ti_ty p) as [[ | | | | | |[]| | | | | | | ]|] eqn:E; try discriminate. intros _. exists p. eexists. split; [reflexivity|exact E].
Qed.
Lemma is_ftime_spec o : is_ftime o = true -> exists p n, o = Some p /\ ti_ty p = Some (TField (FTime n)).
Proof.
  destruct o as [p|]; [|discriminate]. cbn [is_ftime].
  destruct (ti_ty p) as [[ | | | | | |[]| | | | | | | ]|] eqn:E; try discriminate. intros _. exists p. eexists. split; [reflexivity|exact E].
Qed.
Lemma is_ftimezone_spec o : is_ftimezone o = true -> exists p n, o = Some p /\ ti_ty p = Some (TField (FTimezone n)).
Proof.
  destruct o as [p|]; [|discriminate]. cbn [is_ftimezone].
  destruct (ti_ty p) as [[ | | | | | |[]| | | | | | | ]|] eqn:E; try discriminate. intros _. exists p. eexists. split; [reflexivity|exact E].
Qed.

(* [pattern_binds fname pat]: the atoms of [pat] bind the fields whose absence (or wrong kind)
   makes rule function [fname] unwind *)
Definition pattern_binds (fname : str) (pat : tis) : bool :=
  (negb (name_is fname "time_with_timezone")
   || (is_ftime (last_field (s "time") pat None) && is_ftimezone (last_field (s "timezone") pat None))) &&
  (negb (name_is fname "convert_timezone") || is_ftimezone (last_field (s "timezone") pat None)) &&
  (negb (name_is fname "from_unixtime") || is_fnumber (last_field (s "number") pat None)) &&
  (negb (name_is fname "as_duration") || forallb (fun p => negb (fname_is (s "duration") p)) pat).

Theorem match_fields_fit vs fname (pat : tis) tokens m :
  pattern_binds fname pat = true -> infos_plain tokens ->
  find_match vs pat tokens = Ok m -> fm_total m = fm_rule_idx m ->
  fields_fit vs fname (fm_fields m).
Proof.
  intros Hpb Hpl Hm Hfull. unfold pattern_binds in Hpb.
  apply andb_true_iff in Hpb as [Hpb H4]. apply andb_true_iff in Hpb as [Hpb H3].
  apply andb_true_iff in Hpb as [H1 H2].
  pose proof (full_match_binds vs pat plain tokens m Hpl Hm Hfull) as Hb.
  unfold fields_fit. split; [|split; [|split]].
  - intro Hn. rewrite Hn in H1. cbn [negb orb] in H1. apply andb_true_iff in H1 as [Ha Ha'].
    destruct (is_ftime_spec _ Ha) as (p & n & Hl & Hp). destruct (Hb _ _ Hl) as (t & Et & Hq & Hmt).
    destruct (bound_get_time vs _ _ t p n Et Hq Hp Hmt) as [x Ex].
    destruct (is_ftimezone_spec _ Ha') as (p' & n' & Hl' & Hp'). destruct (Hb _ _ Hl') as (t' & Et' & Hq' & Hmt').
    destruct (bound_get_timezone vs _ _ t' p' n' Et' Hq' Hp' Hmt') as [x' Ex'].
    rewrite Ex, Ex'. split; discriminate.
  - intro Hn. rewrite Hn in H2. cbn [negb orb] in H2.
    destruct (is_ftimezone_spec _ H2) as (p & n & Hl & Hp). destruct (Hb _ _ Hl) as (t & Et & Hq & Hmt).
    destruct (bound_get_timezone vs _ _ t p n Et Hq Hp Hmt) as [x ->]. discriminate.
  - intro Hn. rewrite Hn in H3. cbn [negb orb] in H3.
    destruct (is_fnumber_spec _ H3) as (p & n & Hl & Hp). destruct (Hb _ _ Hl) as (t & Et & Hq & Hmt).
    destruct (bound_get_number vs _ _ t p n Et Hq Hp Hmt) as [x ->]. discriminate.
  - intro Hn. rewrite Hn in H4. cbn [negb orb] in H4.
    unfold get_number, field_token. rewrite (match_never_binds vs pat tokens m _ H4 Hm). reflexivity.
Qed.

(* `get_number("value", &fields)` of the unit recogniser is Some for a pattern that binds {NUMBER:value}
   (a fact about the built-in patterns, [default_units_np_b]; since 21a559a no longer needed for panic freedom) *)
Theorem unit_value_bound vs (pat : tis) tokens m :
  is_fnumber (last_field (s "value") pat None) = true -> infos_plain tokens ->
  find_match vs pat tokens = Ok m -> fm_total m = fm_rule_idx m ->
  exists x, get_number vs (s "value") (fm_fields m) = Some x.
Proof.
  intros Hv Hpl Hm Hfull. destruct (is_fnumber_spec _ Hv) as (p & n & Hl & Hp).
  destruct (full_match_binds vs pat plain tokens m Hpl Hm Hfull _ _ Hl) as (t & Et & Hq & Hmt).
  exact (bound_get_number vs _ _ t p n Et Hq Hp Hmt).
Qed.

(* ---------- side conditions on a configuration and on the session variables ---------- *)
Definition rule_np (r : rule F) : Prop :=
  match r with
  | RInternal n ps => Forall (fun p : tis => p <> [] /\ pattern_binds n p = true) ps
  | RApi ps _ => Forall (fun p : tis => p <> []) ps
  end.
Definition cfg_rules_np (cfg : config F) : Prop :=
  Forall (fun lr : str * list (rule F) => Forall rule_np (snd lr)) (cf_rules cfg).
Definition unit_np (d : dyntype F) : Prop := Forall (fun p : tis => p <> []) (dt_parse d).
Definition cfg_units_np (cfg : config F) : Prop := Forall unit_np (all_units cfg).
(* every variable's name has at least one token *)
Definition vars_ne (vs : vars F) : Prop := Forall (fun kv : str * varinfo F => v_tokens (snd kv) <> []) vs.

(* ---------- outcomes: Ok with a property, or a residual site ---------- *)
Definition safe_and {A} (P : A -> Prop) (x : res A) : Prop :=
  match x with Ok a => P a | Panic site => In site RESIDUAL end.

Lemma safe_and_bind {A B} (P : A -> Prop) (Q : B -> Prop) (x : res A) (f : A -> res B) :
  safe_and P x -> (forall a, P a -> safe_and Q (f a)) -> safe_and Q (bind x f).
Proof. destruct x as [a|site]; cbn [bind safe_and]; intros H Hf; [apply Hf; exact H|exact H]. Qed.

Lemma safe_and_safe {A} (P : A -> Prop) (x : res A) : safe_and P x -> safe x.
Proof. destruct x; cbn; auto. Qed.

Lemma safe_true {A} (x : res A) : safe x -> safe_and (fun _ => True) x.
Proof. destruct x; cbn; auto. Qed.

(* ---------- plain tokens are kept by the rewrites ---------- *)
Lemma Forall_firstn {A} (P : A -> Prop) n : forall l, Forall P l -> Forall P (firstn n l).
Proof. induction n as [|n IH]; intros [|x l] H; cbn [firstn]; try constructor; inversion H; subst; auto. Qed.
Lemma Forall_skipn {A} (P : A -> Prop) n : forall l, Forall P l -> Forall P (skipn n l).
Proof. induction n as [|n IH]; intros [|x l] H; cbn [skipn]; try assumption; inversion H; subst; auto. Qed.
Lemma insert_at_Forall {A} (P : A -> Prop) x : forall n l, P x -> Forall P l -> Forall P (insert_at n x l).
Proof.
  induction n as [|n IH]; intros l Hx Hl; cbn [insert_at]; [constructor; assumption|].
  destruct l as [|y r]; [constructor; [exact Hx|constructor]|]. inversion Hl; subst. constructor; auto.
Qed.
Lemma mark_removed_plain (l : tis) from to : forall idx, infos_plain l -> infos_plain (mark_removed l from to idx).
Proof.
  induction l as [|t l IH]; intros idx H; cbn [mark_removed]; [constructor|]. inversion H; subst.
  constructor; [|apply IH; assumption].
  destruct (Nat.leb from idx && Nat.ltb idx to); [|assumption]. unfold plain in *. cbn [set_removed ti_ty]. assumption.
Qed.

Lemma replace_match_plain (l : tis) m tok l' : infos_plain l -> plain_tok tok ->
  replace_match l m tok = Ok l' -> infos_plain l'.
Proof.
  intros Hl Ht H. unfold replace_match in H.
  destruct (nth_opt l (fm_start m)); [|discriminate]. destruct (nth_opt l (Nat.pred (fm_target m))); [|discriminate].
  destruct (Nat.eqb (fm_target m) 0); [discriminate|]. inversion H; subst l'.
  apply insert_at_Forall; [unfold plain; cbn [ti_ty]; exact Ht|apply mark_removed_plain; exact Hl].
Qed.

Lemma find_match_loop_all vs (pat : tis) (Q : token_info F -> Prop) :
  forall tokens rule_idx start target fs ri st tg fs',
  Forall Q tokens -> Forall (fun kv : str * token_info F => Q (snd kv)) fs ->
  find_match_loop vs pat tokens rule_idx start target fs = Ok (ri, st, tg, fs') ->
  Forall (fun kv : str * token_info F => Q (snd kv)) fs'.
Proof.
  induction tokens as [|t rest IH]; intros rule_idx start target fs ri st tg fs' HQ Hfs H; cbn [find_match_loop] in H.
  - inversion H; subst. exact Hfs.
  - inversion HQ as [|? ? Hqt HQr]; subst.
    destruct (ti_active t); cbn [negb] in H; [|exact (IH _ _ _ _ _ _ _ _ HQr Hfs H)].
    destruct (ti_ty t) as [ty|].
    2:{ destruct (Nat.eqb (length pat) rule_idx); [inversion H; subst; exact Hfs|exact (IH _ _ _ _ _ _ _ _ HQr Hfs H)]. }
    destruct (nth_opt pat rule_idx) as [p|]; [|discriminate].
    destruct (match ty with TVariable v => variable_compare vs p (var_value vs v) | _ => info_eq t p end).
    + assert (Hnew : Forall (fun kv : str * token_info F => Q (snd kv))
                (match get_field_name p with Some n => assoc_insert n t fs | None => fs end)).
      { destruct (get_field_name p); [|exact Hfs]. apply (assoc_insert_Forall Q); assumption. }
      destruct (Nat.eqb (length pat) (S rule_idx)); [inversion H; subst; exact Hnew|exact (IH _ _ _ _ _ _ _ _ HQr Hnew H)].
    + destruct (Nat.eqb (length pat) 0); [inversion H; subst; exact Hfs|exact (IH _ _ _ _ _ _ _ _ HQr Hfs H)].
Qed.

Lemma find_match_all vs (pat : tis) (Q : token_info F -> Prop) tokens m :
  Forall Q tokens -> find_match vs pat tokens = Ok m ->
  Forall (fun kv : str * token_info F => Q (snd kv)) (fm_fields m).
Proof.
  intros HQ H. unfold find_match in H.
  destruct (find_match_loop vs pat tokens 0 0 0 []) as [[[[ri st] tg] fs]|site] eqn:E; cbn [bind] in H; [|discriminate].
  inversion H; subst m. cbn [fm_fields].
  exact (find_match_loop_all vs pat Q tokens 0 0 0 [] ri st tg fs HQ (Forall_nil _) E).
Qed.

End Stages.

(* ---------- what the rules put back into the line ---------- *)
Section Outputs.
Context {F : Type} {NF : Num F}.
Variable bexec : config F -> str -> res (option F).
Variable now_year : Z.
Notation tis := (list (token_info F)).

Definition not_field (tok : token F) : Prop := match tok with TField _ => False | _ => True end.
Lemma not_field_plain tok : not_field tok -> plain_tok tok.
Proof. destruct tok; cbn; tauto. Qed.

Ltac out H :=
  unfold some, none, opt_dur, money_or_number, constant_of, get_number_or_time, bind in H;
  repeat match type of H with context[match ?x with _ => _ end] => destruct x end;
  try discriminate; inversion H; subst; exact I.

Lemma combine_durations_out vs (fs : fields F) tok : combine_durations vs fs = Ok (Some tok) -> not_field tok.
Proof.
  unfold combine_durations. destruct (has "1" fs && has "2" fs); [|discriminate].
  match goal with |- ?g fs 0%Z = _ -> _ => assert (H : forall l sum, g l sum = Ok (Some tok) -> not_field tok) end; [|apply H].
  induction l as [|[k ti] r IH]; intros sum H; [inversion H; exact I|]. cbn [none] in H.
  destruct (get_duration vs k fs) as [d|]; [|discriminate].
  destruct (try_dur (sum + d)) as [sum'|]; [exact (IH _ H)|discriminate].
Qed.

Lemma division_cleanup_out vs (fs : fields F) tok : division_cleanup vs fs = Ok (Some tok) -> not_field tok.
Proof.
  unfold division_cleanup. intro H. destruct (has "data" fs && has "text" fs); [|discriminate].
  destruct (field_token vs (s "data") fs) as [[ | | | | | | | | | |v| | | ]|]; try discriminate; try (inversion H; exact I).
  destruct (var_item vs v) as [i|]; [|discriminate]. inversion H. destruct i; exact I.
Qed.

Theorem call_rule_out cfg lang vs fname (fs : fields F) tok :
  call_rule bexec now_year cfg lang vs fname fs = Ok (Some tok) -> not_field tok.
Proof.
  unfold call_rule. intro H.
  destruct (name_is fname "percent_calculator"); [unfold percent_calculator in H; out H|].
  destruct (name_is fname "convert_timezone"); [unfold convert_timezone in H; out H|].
  destruct (name_is fname "time_with_timezone"); [unfold time_with_timezone in H; out H|].
  destruct (name_is fname "to_unixtime"); [unfold to_unixtime in H; out H|].
  destruct (name_is fname "from_unixtime"); [unfold from_unixtime in H; out H|].
  destruct (name_is fname "convert_money"); [unfold convert_money in H; out H|].
  destruct (name_is fname "number_on"); [unfold number_on in H; out H|].
  destruct (name_is fname "number_of"); [unfold number_of in H; out H|].
  destruct (name_is fname "number_off"); [unfold number_off in H; out H|].
  destruct (name_is fname "division_cleanup"); [exact (division_cleanup_out _ _ _ H)|].
  destruct (name_is fname "duration_parse"); [unfold duration_parse in H; out H|].
  destruct (name_is fname "as_duration"); [unfold as_duration in H; out H|].
  destruct (name_is fname "to_duration"); [unfold to_duration in H; out H|].
  destruct (name_is fname "at_date"); [unfold at_date in H; out H|].
  destruct (name_is fname "combine_durations"); [exact (combine_durations_out _ _ _ H)|].
  destruct (name_is fname "find_numbers_percent"); [unfold find_numbers_percent in H; out H|].
  destruct (name_is fname "find_total_from_percent"); [unfold find_total_from_percent in H; out H|].
  destruct (name_is fname "number_type_convert"); [unfold number_type_convert in H; out H|].
  destruct (name_is fname "dynamic_type_convert"); [unfold dynamic_type_convert in H; out H|].
  destruct (name_is fname "small_date"); [unfold small_date in H; out H|].
  discriminate.
Qed.

Lemma api_call_out cfg (ar : apirule F) (fs : fields F) tok :
  Forall (fun kv : str * token_info F => plain (snd kv)) fs ->
  api_call cfg ar fs = Some tok -> plain_tok tok.
Proof.
  intros Hfs H. unfold api_call in H.
  assert (Hft : forall k t, field_tok fs k = Some t -> plain_tok t).
  { intros k t E. unfold field_tok in E. destruct (assoc (s k) fs) as [ti|] eqn:Ea; [|discriminate].
    destruct (assoc_in _ _ _ Ea) as [k' Hin]. rewrite Forall_forall in Hfs. specialize (Hfs _ Hin). cbn [snd] in Hfs.
    unfold plain in Hfs. rewrite E in Hfs. exact Hfs. }
  destruct (ar_kind ar).
  - discriminate.
  - destruct (field_tok fs "x") as [[]|]; try discriminate. inversion H. exact I.
  - destruct (field_tok fs "a") as [[]|]; try discriminate. destruct (field_tok fs "b") as [[]|]; try discriminate.
    inversion H. exact I.
  - destruct (assoc (ar_cur ar) (cf_currency cfg)); [|discriminate]. inversion H. exact I.
  - inversion H. exact I.
  - exact (Hft _ _ H).
Qed.

End Outputs.

(* ====================================================================================== *)
(* 3. the three rewrite stages                                                             *)
(* ====================================================================================== *)
Section Pipeline.
Context {F : Type} {NF : Num F}.
Variable bexec : config F -> str -> res (option F).
Variable now_year : Z.
Notation tis := (list (token_info F)).
Notation tstate := (@Rules.tstate F).

Definition st_plain (st : tstate) : Prop := infos_plain (ts_infos st).
Definition opt_plain (o : option tstate) : Prop := match o with Some st => st_plain st | None => True end.

Lemma ui_type_field_safe line ui (fs : fields F) : safe (ui_type_field line ui fs).
Proof. unfold ui_type_field. destruct (assoc (s "type") fs); [apply ui_update_safe|exact I]. Qed.

Lemma api_ui_fields_safe line : forall (fs : fields F) ui, safe (api_ui_fields line ui fs).
Proof.
  induction fs as [|[k t] r IH]; intro ui; cbn [api_ui_fields]; [exact I|].
  apply safe_bind; [apply ui_update_safe|]. intros ui' _. apply IH.
Qed.

(* ---------- unit recognition ---------- *)
Lemma dyn_try_patterns_safe line vs d : forall pats st,
  Forall (fun p : tis => p <> []) pats ->
  st_plain st -> safe_and opt_plain (dyn_try_patterns line vs d pats st).
Proof.
  induction pats as [|pat rest IH]; intros st Hp Hst; cbn [dyn_try_patterns]; [exact I|].
  inversion Hp as [|? ? Hne Hrest]; subst.
  destruct (np_find_match_ok vs pat (ts_infos st) Hne) as [m Em]. rewrite Em. cbn [bind].
  destruct (Nat.eqb (fm_total m) (fm_rule_idx m)) eqn:Ef; [|exact (IH st Hrest Hst)].
  apply Nat.eqb_eq in Ef.
  (* a pattern that binds no number to "value" is skipped (21a559a) *)
  destruct (get_number vs (s "value") (fm_fields m)) as [value|]; [|exact (IH st Hrest Hst)].
  destruct (full_match_indices vs pat _ m Hne Em Ef) as ([f ->] & [la ->] & ->).
  pose proof (ui_type_field_safe line (ts_ui st) (fm_fields m)) as Hu.
  destruct (ui_type_field line (ts_ui st) (fm_fields m)) as [ui'|site]; cbn [bind safe_and]; [|exact Hu].
  destruct (replace_match_no_panic vs pat _ m (TDynamicType value (uref d)) Hne Em Ef) as [l' El]. rewrite El. cbn [bind safe_and opt_plain].
  unfold st_plain. cbn [ts_infos]. exact (replace_match_plain _ m (TDynamicType value (uref d)) _ Hst I El).
Qed.

Lemma dyn_sweep_units_safe line vs : forall units st fired,
  Forall unit_np units -> st_plain st ->
  safe_and (fun x : tstate * bool => st_plain (fst x)) (dyn_sweep_units line vs units st fired).
Proof.
  induction units as [|d rest IH]; intros st fired Hu Hst; cbn [dyn_sweep_units]; [exact Hst|].
  inversion Hu as [|? ? Hd Hrest]; subst.
  eapply safe_and_bind; [exact (dyn_try_patterns_safe line vs d _ st Hd Hst)|].
  intros [st'|] Ho; [exact (IH st' true Hrest Ho)|exact (IH st fired Hrest Hst)].
Qed.

Theorem dyn_loop_safe line cfg vs : cfg_units_np cfg -> forall fuel st, st_plain st ->
  safe_and opt_plain (dyn_loop fuel line cfg vs st).
Proof.
  intros Hc fuel. induction fuel as [|f IH]; intros st Hst; cbn [dyn_loop]; [exact I|].
  eapply safe_and_bind; [exact (dyn_sweep_units_safe line vs _ st false Hc Hst)|].
  intros [st' fired] Hs. cbn [fst] in Hs. destruct fired; [exact (IH st' Hs)|exact Hs].
Qed.

(* ---------- the rule loop ---------- *)
Lemma rule_try_patterns_safe line cfg lang vs r : bexec_total bexec -> cfg_keys_ok cfg -> forall pats st,
  Forall (fun p : tis => p <> [] /\ match r with RInternal n _ => pattern_binds n p = true | RApi _ _ => True end) pats ->
  st_plain st -> safe_and opt_plain (rule_try_patterns bexec now_year line cfg lang vs r pats st).
Proof.
  intros Hb Hc. induction pats as [|pat rest IH]; intros st Hp Hst; cbn [rule_try_patterns]; [exact I|].
  inversion Hp as [|? ? [Hne Hv] Hrest]; subst.
  destruct (np_find_match_ok vs pat (ts_infos st) Hne) as [m Em]. rewrite Em. cbn [bind].
  destruct (Nat.eqb (fm_total m) (fm_rule_idx m)) eqn:Ef; [|exact (IH st Hrest Hst)].
  apply Nat.eqb_eq in Ef.
  destruct (full_match_indices vs pat _ m Hne Em Ef) as ([f Ef1] & [la El1] & E0).
  destruct r as [fname ps|ps ar].
  - destruct (call_rule_no_panic bexec now_year cfg lang vs fname (fm_fields m) Hb Hc
                (match_fields_fit vs fname pat _ m Hv Hst Em Ef)) as [out Eo].
    rewrite Eo. cbn [bind]. destruct out as [tok|]; [|exact (IH st Hrest Hst)].
    rewrite Ef1, El1.
    pose proof (ui_type_field_safe line (ts_ui st) (fm_fields m)) as Hu.
    destruct (ui_type_field line (ts_ui st) (fm_fields m)) as [ui'|site]; cbn [bind safe_and]; [|exact Hu].
    destruct (replace_match_no_panic vs pat _ m tok Hne Em Ef) as [l' El]. rewrite El. cbn [bind safe_and opt_plain].
    unfold st_plain. cbn [ts_infos].
    exact (replace_match_plain _ _ _ _ Hst (not_field_plain _ (call_rule_out bexec now_year _ _ _ _ _ _ Eo)) El).
  - destruct (api_call cfg ar (fm_fields m)) as [tok|] eqn:Ea; [|exact (IH st Hrest Hst)].
    rewrite Ef1, El1.
    pose proof (api_ui_fields_safe line (fm_fields m) (ts_ui st)) as Hu.
    destruct (api_ui_fields line (ts_ui st) (fm_fields m)) as [ui'|site]; cbn [bind safe_and]; [|exact Hu].
    destruct (replace_match_no_panic vs pat _ m tok Hne Em Ef) as [l' El]. rewrite El. cbn [bind safe_and opt_plain].
    unfold st_plain. cbn [ts_infos].
    exact (replace_match_plain _ _ _ _ Hst (api_call_out cfg ar _ tok (find_match_all vs pat plain _ m Hst Em) Ea) El).
Qed.

Lemma rule_np_patterns (r : rule F) : rule_np r ->
  Forall (fun p : tis => p <> [] /\ match r with RInternal n _ => pattern_binds n p = true | RApi _ _ => True end)
         (rule_patterns r).
Proof.
  destruct r as [n ps|ps ar]; cbn [rule_np rule_patterns]; intro H; [exact H|].
  eapply Forall_impl; [|exact H]. intros p Hp. split; [exact Hp|exact I].
Qed.

Lemma rule_sweep_safe line cfg lang vs : bexec_total bexec -> cfg_keys_ok cfg -> forall rules st fired,
  Forall rule_np rules -> st_plain st ->
  safe_and (fun x : tstate * bool => st_plain (fst x)) (rule_sweep bexec now_year line cfg lang vs rules st fired).
Proof.
  intros Hb Hc. induction rules as [|r rest IH]; intros st fired Hr Hst; cbn [rule_sweep]; [exact Hst|].
  inversion Hr as [|? ? Hr1 Hrest]; subst.
  eapply safe_and_bind; [exact (rule_try_patterns_safe line cfg lang vs r Hb Hc _ st (rule_np_patterns r Hr1) Hst)|].
  intros [st'|] Ho; [exact (IH st' true Hrest Ho)|exact (IH st fired Hrest Hst)].
Qed.

Lemma rule_loop_safe line cfg lang vs rules : bexec_total bexec -> cfg_keys_ok cfg -> Forall rule_np rules ->
  forall fuel st, st_plain st -> safe_and opt_plain (rule_loop bexec now_year fuel line cfg lang vs rules st).
Proof.
  intros Hb Hc Hr fuel. induction fuel as [|f IH]; intros st Hst; cbn [rule_loop]; [exact I|].
  eapply safe_and_bind; [exact (rule_sweep_safe line cfg lang vs Hb Hc rules st false Hr Hst)|].
  intros [st' fired] Hs. cbn [fst] in Hs. destruct fired; [exact (IH st' Hs)|exact Hs].
Qed.

Theorem rule_tokinizer_safe fuel line cfg lang vs st : bexec_total bexec -> cfg_keys_ok cfg -> cfg_rules_np cfg ->
  st_plain st -> safe_and opt_plain (rule_tokinizer bexec now_year fuel line cfg lang vs st).
Proof.
  intros Hb Hc Hr Hst. unfold rule_tokinizer, lang_rules.
  destruct (assoc lang (cf_rules cfg)) as [rules|] eqn:E; [|exact Hst].
  apply rule_loop_safe; try assumption.
  destruct (assoc_in _ _ _ E) as [k' Hin]. unfold cfg_rules_np in Hr. rewrite Forall_forall in Hr. exact (Hr _ Hin).
Qed.

(* ---------- variable substitution: SITE_EMPTY_PATTERN (find_location) and SITE_VAR_SLICE ---------- *)
Lemma prefix_match_len (pat : list (token F)) : forall tokens : tis,
  prefix_match tokens pat = true -> length pat <= length tokens.
Proof.
  induction pat as [|p pat IH]; intros tokens H; cbn [length]; [lia|].
  destruct tokens as [|t tr]; cbn [prefix_match] in H; [discriminate|].
  apply andb_true_iff in H as [_ H]. apply IH in H. cbn [length]. lia.
Qed.

Lemma find_location_from_range (pat : list (token F)) : forall (tokens : tis) start k,
  find_location_from tokens pat start = Some k -> start <= k /\ (k - start) + length pat <= length tokens.
Proof.
  induction tokens as [|t tr IH]; intros start k H; cbn [find_location_from] in H; [discriminate|].
  destruct (prefix_match (t :: tr) pat) eqn:Ep.
  - inversion H; subst. apply prefix_match_len in Ep. lia.
  - apply IH in H. cbn [length]. lia.
Qed.

Definition in_tail (tail : tis) (b : option (nat * str * nat)) : Prop :=
  match b with Some (c, _, size) => 1 <= size /\ c + size <= length tail | None => True end.

Lemma pick_variable_range (tail : tis) : forall vs best, vars_ne vs -> in_tail tail best ->
  exists r, pick_variable vs tail best = Ok r /\ in_tail tail r.
Proof.
  induction vs as [|[name vi] rest IH]; intros best Hne Hb; cbn [pick_variable]; [eauto|].
  inversion Hne as [|? ? Hv Hrest]; subst. cbn [snd] in Hv.
  unfold find_location. destruct (v_tokens vi) as [|p ps] eqn:Ev; [contradiction|]. cbn [bind]. rewrite <- Ev.
  apply IH; [exact Hrest|].
  destruct (find_location_from tail (v_tokens vi) 0) as [k|] eqn:El; [|exact Hb].
  apply find_location_from_range in El.
  assert (Hk : in_tail tail (Some (k, name, length (v_tokens vi)))).
  { cbn [in_tail]. rewrite Ev in *. cbn [length] in *. lia. }
  destruct best as [[[c0 n0] s0]|]; [|exact Hk].
  destruct ((Nat.eqb k c0 && Nat.ltb s0 (length (v_tokens vi))) || Nat.ltb k c0); [exact Hk|exact Hb].
Qed.

Lemma subst_loop_safe line vs start_index : vars_ne vs -> forall fuel st, st_plain st ->
  safe_and opt_plain (subst_loop fuel line vs start_index st).
Proof.
  intros Hne fuel. induction fuel as [|f IH]; intros st Hst; cbn [subst_loop]; [exact I|].
  destruct (pick_variable_range (skipn start_index (ts_infos st)) vs None Hne I) as [best [-> Hb]]. cbn [bind].
  destruct best as [[[closest name] size]|]; [|exact Hst].
  cbn [in_tail] in Hb. destruct Hb as [Hsz Hle]. rewrite skipn_length in Hle.
  destruct (nth_opt_lt (ts_infos st) (start_index + closest) ltac:(lia)) as [first ->].
  destruct (nth_opt_lt (ts_infos st) (Nat.pred (start_index + closest + size)) ltac:(lia)) as [last ->].
  destruct (Nat.ltb_spec (length (ts_infos st)) (start_index + closest + size)) as [Hlt|_]; [lia|].
  pose proof (ui_update_safe line (ts_ui st) (ti_start first) (ti_end last) UVariableUse) as Hu.
  destruct (ui_update line (ts_ui st) (ti_start first) (ti_end last) UVariableUse) as [ui'|site]; cbn [bind safe_and]; [|exact Hu].
  apply IH. unfold st_plain. cbn [ts_infos]. apply Forall_app. split; [apply Forall_firstn; exact Hst|].
  constructor; [exact I|apply Forall_skipn; exact Hst].
Qed.

Theorem update_token_variables_safe line vs st : vars_ne vs -> st_plain st ->
  safe_and opt_plain (update_token_variables line vs st).
Proof.
  intros Hne Hst. unfold update_token_variables.
  eapply (safe_and_bind (fun _ => True)).
  - destruct (match ts_infos st with [] => None | _ :: rest => option_map S (find_index info_is_eq_op rest) end) as [i|];
      [|exact I].
    destruct (nth_opt (ts_infos st) (Nat.pred i)) as [prev|]; [|exact I].
    apply safe_true. apply safe_bind; [apply ui_update_safe|]. intros; exact I.
  - intros [start_index ui1] _. apply subst_loop_safe; [exact Hne|exact Hst].
Qed.

End Pipeline.

(* the parser registers a new variable with the value None: the bound on the values is kept *)
Section ParseVars.
Context {F : Type} {NF : Num F}.

Lemma parse_vars_in B (tokens : list (token F)) vs : vars_in B vs -> vars_in B (snd (parse tokens vs)).
Proof.
  intro Hin. unfold parse.
  assert (H : vars_in B (snd (fst (parse_assignment tokens vs)))).
  { unfold parse_assignment.
    destruct (find_index (is_op OP_EQ) tokens) as [i|]; [|exact Hin].
    destruct (nth_opt tokens 0) as [t0|]; [|exact Hin].
    destruct (assign_name_loop (S (length tokens)) tokens vs 0 (to_lowercase (token_to_string vs t0))) as [idx name].
    destruct (parse_level (parse_fuel tokens) LAddSub (skipn idx tokens)) as [p i'].
    destruct p as [a|m|]; try exact Hin.
    destruct a; try exact Hin; cbn [fst snd];
      (destruct (assoc_mem name vs); [exact Hin|];
       apply (assoc_insert_Forall (fun vi : varinfo F => val_in B (v_data vi))); [exact I|exact Hin]). }
  destruct (parse_assignment tokens vs) as [[p vs'] rest]. cbn [fst snd] in H.
  destruct p as [a|m|]; try exact H. destruct a; exact H.
Qed.

End ParseVars.

(* ====================================================================================== *)
(* 4. composition: everything Api.tokinize / Api.execute_text do after the lexer           *)
(* ====================================================================================== *)
Section Composition.
Context {F : Type} {NF : Num F}.
Variable lx : lexdata.
Variable ck : clock.
Notation tstate := (@Rules.tstate F).

(* the side conditions on a configuration, collected *)
Definition cfg_np (cfg : config F) : Prop :=
  cfg_keys_ok cfg /\ cfg_rules_np cfg /\ cfg_units_np cfg /\ cfg_rules_ok cfg /\ cfg_units_ok cfg.
(* ... and on the session variables *)
Definition vars_np (vs : vars F) : Prop := vars_ok vs /\ vars_ne vs.

Lemma unfuel_safe (x : res (option tstate)) :
  safe_and opt_plain x -> x <> Ok None -> safe_and st_plain (unfuel x).
Proof. destruct x as [[st|]|site]; cbn [unfuel safe_and opt_plain]; intros H Hn; [exact H|contradiction|exact H]. Qed.

(* post_lexer returns, or unwinds at a residual site (ui_update's drain) *)
Theorem post_lexer_no_panic cfg lang vs line (st3 : tstate) :
  bexec_total (basic_execute lx ck) -> cfg_np cfg -> vars_np vs -> st_plain st3 ->
  safe_and (fun x : tstate * list (token F) => st_plain (fst x)) (post_lexer lx ck cfg lang vs line st3).
Proof.
  intros Hb (Hk & Hrn & Hun & Hro & Huo) (Hvo & Hvn) Hst. unfold post_lexer.
  destruct (tokinize_loops_terminate_cfg lx ck cfg lang vs line Hro Huo Hvo) as (T1 & T2 & T3).
  eapply safe_and_bind.
  { apply unfuel_safe; [exact (update_token_variables_safe (basic_execute lx ck) line vs st3 Hvn Hst)|apply T1]. }
  intros st4 H4. eapply safe_and_bind.
  { apply unfuel_safe; [exact (dyn_loop_safe line cfg vs Hun _ st4 H4)|apply T2]. }
  intros st5 H5. eapply safe_and_bind.
  { apply unfuel_safe; [exact (rule_tokinizer_safe (basic_execute lx ck) (ck_year ck) _ line cfg lang vs st5 Hb Hk Hrn H5)|apply T3]. }
  intros st6 H6. exact H6.
Qed.

Corollary tokinize_no_panic cfg lang vs line (st3 : tstate) :
  bexec_total (basic_execute lx ck) -> cfg_np cfg -> vars_np vs ->
  lexed lx ck cfg lang line = Ok st3 -> st_plain st3 ->
  safe (tokinize lx ck cfg lang vs line).
Proof.
  intros Hb Hc Hv Hl Hst. rewrite tokinize_split, Hl. cbn [bind].
  exact (safe_and_safe _ _ (post_lexer_no_panic cfg lang vs line st3 Hb Hc Hv Hst)).
Qed.

(* the whole line evaluator.  [B] bounds the clock-time instants of the parsed tree and of the
   variables' values (hypothesis on what the parser returns). *)
Theorem execute_text_no_panic cfg lang vs line (st3 : tstate) B :
  bexec_total (basic_execute lx ck) -> cfg_np cfg -> vars_np vs ->
  lexed lx ck cfg lang line = Ok st3 -> st_plain st3 -> vars_in B vs ->
  (forall st tokens a vs1, post_lexer lx ck cfg lang vs line st3 = Ok (st, tokens) ->
     parse tokens vs = (PAst a, vs1) -> (B + 86400 * ast_ops a <= T_MAX)%Z /\ ast_in B a) ->
  safe (execute_text lx ck cfg lang vs line).
Proof.
  intros Hb Hc Hv Hl Hst Hvin Hrange. unfold execute_text. destruct line as [|c0 line']; [exact I|].
  set (line := c0 :: line') in *.
  rewrite tokinize_split, Hl. cbn [bind].
  pose proof (safe_and_safe _ _ (post_lexer_no_panic cfg lang vs line st3 Hb Hc Hv Hst)) as Hs.
  destruct (post_lexer lx ck cfg lang vs line st3) as [[st tokens]|site] eqn:Ep; cbn [bind]; [|exact Hs].
  destruct (ts_infos st) as [|i0 infos]; [exact I|].
  pose proof (parse_terminates tokens vs) as Hpt.
  destruct (parse tokens vs) as [[a|m|] vs1] eqn:Epar; cbn [fst] in Hpt; [|exact I|contradiction].
  destruct (Hrange st tokens a vs1 eq_refl Epar) as (HB & Ha).
  pose proof (parse_vars_in B tokens vs Hvin) as Hvs. rewrite Epar in Hvs. cbn [snd] in Hvs.
  destruct Hc as (Hk & _).
  destruct (execute_ast_ok (basic_execute lx ck) cfg Hb Hk a B vs1 HB Ha Hvs) as (r & vs2 & -> & _). cbn [bind].
  destruct r as [v|m]; [|exact I].
  destruct (format_result_no_panic cfg lang (ck_year ck) v) as [out ->]. exact I.
Qed.

End Composition.

(* ====================================================================================== *)
(* 5. the regenerated configuration (F = float) and the configurations the setters reach   *)
(* ====================================================================================== *)
Definition pat_ne_b (p : list (token_info float)) : bool := match p with [] => false | _ => true end.
Lemma pat_ne_b_ok p : pat_ne_b p = true -> p <> [].
Proof. destruct p; [discriminate|]. intros _ H. discriminate H. Qed.

Definition rule_np_b (r : rule float) : bool :=
  match r with
  | RInternal n ps => forallb (fun p => pat_ne_b p && pattern_binds n p) ps
  | RApi ps _ => forallb pat_ne_b ps
  end.

Lemma rule_np_b_ok r : rule_np_b r = true -> rule_np r.
Proof.
  destruct r as [n ps|ps ar]; cbn [rule_np_b rule_np]; intro H.
  - refine (forallb_Forall _ _ _ _ H). intros p Hp. apply andb_true_iff in Hp as [H1 H2].
    split; [apply pat_ne_b_ok; exact H1|exact H2].
  - refine (forallb_Forall _ _ pat_ne_b_ok _ H).
Qed.

(* FINITE TABLE: every pattern of every built-in rule (en and tr) is non-empty and binds the
   fields its function unwraps *)
Lemma default_rules_np_b :
  forallb (fun lr : str * list (rule float) => forallb rule_np_b (snd lr)) (cf_rules default_config) = true.
Proof. vm_compute. reflexivity. Qed.

Theorem default_rules_np : cfg_rules_np default_config.
Proof.
  unfold cfg_rules_np. refine (forallb_Forall _ _ _ _ default_rules_np_b). intros lr H.
  refine (forallb_Forall _ _ rule_np_b_ok _ H).
Qed.

(* FINITE TABLE: every parse pattern of every built-in unit is non-empty (and binds {NUMBER:value}: since
   21a559a a pattern that does not is skipped, so this is a fact about the data, no longer a side condition) *)
Definition unit_np_b (d : dyntype float) : bool :=
  forallb (fun p => pat_ne_b p && is_fnumber (last_field (s "value") p None)) (dt_parse d).

Lemma unit_np_b_ok d : unit_np_b d = true -> unit_np d.
Proof.
  intro H. refine (forallb_Forall _ _ _ _ H). intros p Hp. apply andb_true_iff in Hp as [H1 H2].
  apply pat_ne_b_ok; exact H1.
Qed.

Lemma default_units_np_b : forallb unit_np_b (all_units default_config) = true.
Proof. vm_compute. reflexivity. Qed.

Theorem default_units_np : cfg_units_np default_config.
Proof. refine (forallb_Forall _ _ unit_np_b_ok _ default_units_np_b). Qed.

(* FINITE TABLE: the unit families are keyed by the indices of their entries *)
Lemma default_keys_ok_b :
  forallb (fun ng : str * list (N * dyntype float) =>
             forallb (fun kd : N * dyntype float => N.eqb (dt_index (snd kd)) (fst kd)) (snd ng))
          (cf_types default_config) = true.
Proof. vm_compute. reflexivity. Qed.

Theorem default_keys_ok : cfg_keys_ok default_config.
Proof.
  unfold cfg_keys_ok. refine (forallb_Forall _ _ _ _ default_keys_ok_b). intros ng H.
  refine (forallb_Forall _ _ _ _ H). intros kd Hk. apply N.eqb_eq. exact Hk.
Qed.

Theorem default_cfg_np : cfg_np default_config.
Proof.
  repeat split; [exact default_keys_ok|exact default_rules_np|exact default_units_np
                |exact default_rules_ok|exact default_units_ok].
Qed.

(* non-vacuity: the four unwrapping functions are in the table, and the check can fail *)
Example default_np_tables_nonempty :
  match assoc (s "en") (cf_rules default_config) with
  | Some rules =>
    map (fun k => existsb (fun r : rule float => match r with RInternal n _ => str_eqb n k | RApi _ _ => false end) rules)
        [s "time_with_timezone"; s "convert_timezone"; s "from_unixtime"; s "as_duration"] = [true; true; true; true]
  | None => False
  end /\
  pattern_binds (s "from_unixtime") (@nil (token_info float)) = false /\
  pattern_binds (F:=float) (s "as_duration")
    [{| ti_start := 0%N; ti_end := 0%N; ti_ty := Some (TField (FNumber (s "duration"))); ti_text := []; ti_active := true |}]
    = false.
Proof. vm_compute. repeat split; reflexivity. Qed.

(* the fact behind the hypothesis [plain] on lexed lines: no type group lists "FIELD" *)
Lemma default_type_groups_no_field :
  forallb (fun g : str * list str => negb (mem_str (s "FIELD") (snd g))) (cf_type_group default_config) = true.
Proof. vm_compute. reflexivity. Qed.

(* non-vacuity of hypothesis (A2): a lexed line that contains a type-group atom is plain *)
Definition plain_b (t : token_info float) : bool :=
  match ti_ty t with Some (TField (FTypeGroup types _)) => negb (mem_str (s "FIELD") types) | _ => true end.
Lemma plain_b_ok t : plain_b t = true -> plain t.
Proof.
  unfold plain_b, plain. destruct (ti_ty t) as [[ | | | | | |[]| | | | | | | ]|]; cbn [plain_tok]; try (intros; exact I).
  intro H. apply negb_true_iff in H. exact H.
Qed.
Example lexed_plain_example :
  match lexed LX {| ck_today := 20000; ck_year := 2024 |} default_config (s "en") (s "{NUMBER_OR_MONEY:x} 12:30 EST to 5 km") with
  | Ok st => forallb plain_b (ts_infos st) = true /\ (3 <= length (ts_infos st))%nat
  | Panic _ => False
  end.
Proof. vm_compute. split; [reflexivity|lia]. Qed.

(* ---------- the side conditions are invariants of the public setters ---------- *)
Definition types_np (tys : list (str * list (N * dyntype float))) : Prop :=
  Forall (fun g : str * list (N * dyntype float) => Forall (fun kd : N * dyntype float => unit_np (snd kd)) (snd g)) tys.

Lemma cfg_units_np_iff (cfg : config float) : cfg_units_np cfg <-> types_np (cf_types cfg).
Proof.
  unfold cfg_units_np, all_units, types_np. rewrite Forall_flat_map_iff.
  split; intro H; eapply Forall_impl; try exact H; intros g Hg; cbv beta in *; apply Forall_map_iff; exact Hg.
Qed.

Lemma ninsert_keys (g : list (N * dyntype float)) k d :
  dt_index d = k -> group_keys_ok g -> group_keys_ok (ninsert k d g).
Proof.
  intros Hd. unfold group_keys_ok. induction g as [|[k' d'] r IH]; intro H; cbn [ninsert].
  - constructor; [exact Hd|constructor].
  - inversion H as [|x l H1 Hr]. subst x l.
    destruct (N.eqb k k'); [constructor; [exact Hd|exact Hr]|].
    destruct (N.ltb k k'); [constructor; [exact Hd|exact H]|].
    constructor; [exact H1|exact (IH Hr)].
Qed.

Definition cfg_np3 (cfg : config float) : Prop := cfg_keys_ok cfg /\ cfg_rules_np cfg /\ cfg_units_np cfg.

Lemma filter_ne (ps0 : list (list (token_info float))) :
  Forall (fun p : list (token_info float) => p <> [])
         (filter (fun p : list (token_info float) => match p with [] => false | _ => true end) ps0).
Proof. apply Forall_forall. intros p Hin. apply filter_In in Hin as [_ H]. destruct p; [discriminate|]. discriminate. Qed.

(* unconditionally: add_rule, add_type_item and set_date_rule drop empty patterns, the families are keyed by
   the index of the inserted entry, and the built-in rules are never touched (small_date unwraps nothing) *)
Theorem step_preserves_np ck m o : cfg_np3 (m_cfg m) -> cfg_np3 (m_cfg (fst (step ck m o))).
Proof.
  intros Hsame. pose proof Hsame as (Hk & Hr & Hu).
  destruct o as [lang text|lang text|sid|sid text|sid lang|sid|v|v|v| |d rm rnd|d rm rnd|rm rnd|cur rate
                 |lang patterns name kind k cur|lang name|name|name index format parse up down names digits rnd rm
                 |lang patterns];
    cbn [step]; try exact Hsame.
  - destruct (sess_get sid (m_sessions m)); exact Hsame.
  - destruct (sess_get sid (m_sessions m)); exact Hsame.
  - destruct (sess_get sid (m_sessions m)) as [se|]; [|exact Hsame].
    destruct (execute_session LX ck (m_cfg m) se) as [[se' r]|site]; exact Hsame.
  - destruct (set_timezone (m_cfg m) v) as [[n o]|]; exact Hsame.
  - destruct (read_currency (m_cfg m) cur); exact Hsame.
  - (* OAddRule: an API rule with its non-empty patterns *)
    destruct (tokenise_patterns LX ck (m_cfg m) lang patterns) as [ps0|site]; [|exact Hsame].
    destruct (assoc lang (cf_rules (m_cfg m))); [|exact Hsame].
    cbn [fst with_cfg m_cfg]. split; [exact Hk|]. split; [|exact Hu].
    unfold cfg_rules_np. cbn [set_rules cf_rules].
    apply (assoc_update_Forall (fun rs => Forall rule_np rs)); [|exact Hr].
    intros rs Hrs. apply Forall_app. split; [exact Hrs|]. constructor; [|constructor].
    cbn [rule_np]. apply filter_ne.
  - (* ODeleteRule *)
    destruct (assoc lang (cf_rules (m_cfg m))) as [rs0|]; [|exact Hsame].
    destruct (find_index _ rs0) as [i|]; [|exact Hsame].
    cbn [fst with_cfg m_cfg]. split; [exact Hk|]. split; [|exact Hu].
    unfold cfg_rules_np. cbn [set_rules cf_rules].
    apply (assoc_update_Forall (fun rs => Forall rule_np rs)); [|exact Hr].
    intros rs Hrs. apply remove_at_Forall. exact Hrs.
  - (* OAddType *)
    destruct (assoc name (cf_types (m_cfg m))); [exact Hsame|].
    cbn [fst with_cfg m_cfg]. split; [|split; [exact Hr|]].
    + unfold cfg_keys_ok. cbn [set_types cf_types].
      apply (assoc_insert_Forall (fun g => group_keys_ok g)); [constructor|exact Hk].
    + apply cfg_units_np_iff. cbn [set_types cf_types].
      apply (assoc_insert_Forall (fun g => Forall (fun kd : N * dyntype float => unit_np (snd kd)) g)); [constructor|].
      apply cfg_units_np_iff. exact Hu.
  - (* OAddTypeItem *)
    destruct (assoc name (cf_types (m_cfg m))) as [g|] eqn:Eg; [|exact Hsame].
    destruct (nassoc index g); [exact Hsame|].
    destruct (tokenise_patterns LX ck (m_cfg m) (s "en") parse) as [ps0|site] eqn:Et; [|exact Hsame].
    cbn [fst with_cfg m_cfg]. destruct (assoc_in _ _ _ Eg) as [k' Hin]. split; [|split; [exact Hr|]].
    + unfold cfg_keys_ok. cbn [set_types cf_types].
      apply (assoc_insert_Forall (fun g => group_keys_ok g)); [|exact Hk].
      apply ninsert_keys; [reflexivity|]. unfold cfg_keys_ok in Hk. rewrite Forall_forall in Hk. exact (Hk _ Hin).
    + apply cfg_units_np_iff. cbn [set_types cf_types].
      pose proof (proj1 (cfg_units_np_iff _) Hu) as Hty.
      apply (assoc_insert_Forall (fun g => Forall (fun kd : N * dyntype float => unit_np (snd kd)) g)); [|exact Hty].
      apply (ninsert_Forall (fun d : dyntype float => unit_np d)).
      * unfold unit_np. cbn [dt_parse]. apply filter_ne.
      * unfold types_np in Hty. rewrite Forall_forall in Hty. exact (Hty _ Hin).
  - (* OSetDateRule: the small_date rule is replaced; small_date unwraps nothing *)
    unfold set_date_rule.
    destruct (tokenise_patterns LX ck (m_cfg m) lang patterns) as [ps0|site] eqn:Et; cbn [bind]; [|exact Hsame].
    cbn [fst with_cfg m_cfg]. split; [exact Hk|]. split; [|exact Hu].
    unfold cfg_rules_np. cbn [set_rules cf_rules].
    apply (assoc_update_Forall (fun rs => Forall rule_np rs)); [|exact Hr].
    intros rs Hrs. apply Forall_app. split.
    + apply Forall_forall. intros r Hin. apply filter_In in Hin as [Hin _]. rewrite Forall_forall in Hrs. exact (Hrs r Hin).
    + constructor; [|constructor]. cbn [rule_np].
      eapply Forall_impl; [|exact (filter_ne ps0)]. intros p Hp. split; [exact Hp|reflexivity].
Qed.

(* every configuration reached from the default one by a history that registers no one-token pattern
   (C01_Rewrite.history_ok: the termination side condition; nothing else is required) *)
Theorem reachable_cfg_np ck : forall ops m,
  cfg_np (m_cfg m) -> history_ok ck m ops -> cfg_np (m_cfg (final_state ck m ops)).
Proof.
  induction ops as [|o r IH]; intros m Hm Hh; cbn [final_state]; [exact Hm|].
  destruct Hh as [Ho1 Hr]. apply IH; [|exact Hr].
  destruct Hm as (Hk & Hrn & Hun & Hro & Huo).
  destruct (step_preserves_np ck m o (conj Hk (conj Hrn Hun))) as (Hk' & Hrn' & Hun').
  destruct (step_preserves_ok ck m o Ho1 (conj Hro Huo)) as (Hro' & Huo').
  repeat split; assumption.
Qed.

Corollary reachable_from_default_np ck ops :
  history_ok ck init_state ops -> cfg_np (m_cfg (final_state ck init_state ops)).
Proof. apply reachable_cfg_np. exact default_cfg_np. Qed.

(* the two panics this analysis found in the crate are repaired (21a559a: a unit pattern that does not bind
   {NUMBER:value} is skipped; 9b7ed27: set_date_rule ignores an empty pattern); the former witnesses now
   evaluate: the line is answered, with status true and one slot *)
Definition CKW : clock := {| ck_today := 20000; ck_year := 2024 |}.
Definition answered (o : mobs) : bool :=
  match o with MRes r => er_status r && Nat.eqb (length (er_lines r)) 1 | _ => false end.

Theorem unit_pattern_without_value_example :
  answered (last (run CKW init_state
          [OAddType (s "zz");
           OAddTypeItem (s "zz") 1 (s "{value} foo") [s "{NUMBER:v} foo"] (s "{value}") (s "{value}") [s "foo"] None None None;
           OExec (s "en") (s "5 foo")]) (MRet None)) = true.
Proof. vm_compute. reflexivity. Qed.

Theorem date_rule_empty_pattern_example :
  answered (last (run CKW init_state [OSetDateRule (s "en") [[]]; OExec (s "en") (s "5")]) (MRet None)) = true.
Proof. vm_compute. reflexivity. Qed.

(* ---------- the summary theorems on the regenerated configuration ---------- *)
Theorem post_lexer_no_panic_default ck lang (vs : vars float) line st3 :
  bexec_total (basic_execute LX ck) -> vars_np vs -> st_plain st3 ->
  safe (post_lexer LX ck default_config lang vs line st3).
Proof.
  intros Hb Hv Hst. exact (safe_and_safe _ _ (post_lexer_no_panic LX ck default_config lang vs line st3 Hb default_cfg_np Hv Hst)).
Qed.

Theorem post_lexer_no_panic_reachable ck ops lang (vs : vars float) line st3 :
  history_ok ck init_state ops ->
  bexec_total (basic_execute LX ck) -> vars_np vs -> st_plain st3 ->
  safe (post_lexer LX ck (m_cfg (final_state ck init_state ops)) lang vs line st3).
Proof.
  intros Hh Hb Hv Hst.
  exact (safe_and_safe _ _ (post_lexer_no_panic LX ck _ lang vs line st3 Hb (reachable_from_default_np ck ops Hh) Hv Hst)).
Qed.

Theorem execute_text_no_panic_reachable ck ops lang (vs : vars float) line st3 B :
  history_ok ck init_state ops ->
  let cfg := m_cfg (final_state ck init_state ops) in
  bexec_total (basic_execute LX ck) -> vars_np vs ->
  lexed LX ck cfg lang line = Ok st3 -> st_plain st3 -> vars_in B vs ->
  (forall st tokens a vs1, post_lexer LX ck cfg lang vs line st3 = Ok (st, tokens) ->
     parse tokens vs = (PAst a, vs1) -> (B + 86400 * ast_ops a <= T_MAX)%Z /\ ast_in B a) ->
  safe (execute_text LX ck cfg lang vs line).
Proof.
  intros Hh cfg Hb Hv Hl Hst Hvin Hr.
  exact (execute_text_no_panic LX ck cfg lang vs line st3 B Hb (reachable_from_default_np ck ops Hh) Hv Hl Hst Hvin Hr).
Qed.

Corollary execute_text_no_panic_default ck lang (vs : vars float) line st3 B :
  bexec_total (basic_execute LX ck) -> vars_np vs ->
  lexed LX ck default_config lang line = Ok st3 -> st_plain st3 -> vars_in B vs ->
  (forall st tokens a vs1, post_lexer LX ck default_config lang vs line st3 = Ok (st, tokens) ->
     parse tokens vs = (PAst a, vs1) -> (B + 86400 * ast_ops a <= T_MAX)%Z /\ ast_in B a) ->
  safe (execute_text LX ck default_config lang vs line).
Proof. exact (execute_text_no_panic_reachable ck [] lang vs line st3 B I). Qed.

(* ====================================================================================== *)
(* 6. [vars_ne] is an invariant of the session: the interpreter registers a variable under  *)
(*    the tokens left of '=' (at least one) that the parser put into the assignment node    *)
(* ====================================================================================== *)
Section VarsInvariant.
Context {F : Type} {NF : Num F}.
Local Open Scope nat_scope.

Lemma assign_name_loop_ge (tokens : list (token F)) vs : forall f idx name,
  idx <= fst (assign_name_loop f tokens vs idx name).
Proof.
  induction f as [|f IH]; intros idx name; cbn [assign_name_loop fst]; [lia|].
  destruct (nth_opt tokens (S idx)) as [t|]; cbn [fst]; [|lia].
  destruct t as [ | | | | |c| | | | | | | | ];
    try match goal with |- context[assign_name_loop f tokens vs (S idx) ?n] => pose proof (IH (S idx) n); lia end.
  destruct (N.eqb c OP_EQ); cbn [fst]; [lia|].
  match goal with |- context[assign_name_loop f tokens vs (S idx) ?n] => pose proof (IH (S idx) n); lia end.
Qed.

Lemma assign_name_loop_gt (tokens : list (token F)) vs f idx name :
  S idx <= fst (assign_name_loop (S f) tokens vs idx name).
Proof.
  cbn [assign_name_loop].
  destruct (nth_opt tokens (S idx)) as [t|]; cbn [fst]; [|lia].
  destruct t as [ | | | | |c| | | | | | | | ];
    try match goal with |- context[assign_name_loop f tokens vs (S idx) ?n] =>
          pose proof (assign_name_loop_ge tokens vs f (S idx) n); lia end.
  destruct (N.eqb c OP_EQ); cbn [fst]; [lia|].
  match goal with |- context[assign_name_loop f tokens vs (S idx) ?n] =>
    pose proof (assign_name_loop_ge tokens vs f (S idx) n); lia end.
Qed.

Lemma assign_name_loop_first (tokens : list (token F)) vs name :
  2 <= fst (assign_name_loop (S (length tokens)) tokens vs 0 name) \/
  (fst (assign_name_loop (S (length tokens)) tokens vs 0 name) = 1 /\ length tokens <= 1).
Proof.
  cbn [assign_name_loop].
  destruct (nth_opt tokens 1) as [t|] eqn:E.
  - left. apply nth_opt_some_lt in E. remember (length tokens) as f eqn:Ef. destruct f as [|f]; [lia|]. clear Ef E.
    destruct t as [ | | | | |c| | | | | | | | ];
      try match goal with |- context[assign_name_loop (S f) tokens vs 1 ?n] =>
            pose proof (assign_name_loop_gt tokens vs f 1 n); lia end.
    destruct (N.eqb c OP_EQ); cbn [fst]; [lia|].
    match goal with |- context[assign_name_loop (S f) tokens vs 1 ?n] =>
      pose proof (assign_name_loop_gt tokens vs f 1 n); lia end.
  - right. cbn [fst]. split; [reflexivity|].
    destruct tokens as [|a [|b r]]; cbn [length nth_opt] in *; try lia. discriminate.
Qed.

(* what the parser hands to the interpreter: an assignment-free tree, or an assignment node whose
   name tokens are not empty and whose right-hand side is assignment-free *)
Definition asg_ok (a : ast F) : Prop :=
  match a with
  | AAssignment _ toks e => toks <> [] /\ pure e = true
  | _ => pure a = true
  end.
Definition pres_ok (p : @pres F) : Prop := match p with PAst a => asg_ok a | _ => True end.

Lemma pure_asg_ok (a : ast F) : pure a = true -> asg_ok a.
Proof. destruct a; cbn [asg_ok pure]; intro H; try exact H. discriminate. Qed.

Lemma parse_level_pres_ok f l (ts : list (token F)) : pres_ok (fst (parse_level f l ts)).
Proof.
  destruct (parse_level f l ts) as [[a|m|] r] eqn:E; cbn [fst pres_ok]; try exact I.
  apply pure_asg_ok. exact (parse_level_pure _ _ _ _ _ E).
Qed.

Lemma parse_assignment_ok (tokens : list (token F)) vs :
  snd (fst (parse_assignment tokens vs)) = vs /\ pres_ok (fst (fst (parse_assignment tokens vs))).
Proof.
  unfold parse_assignment.
  destruct (find_index (is_op OP_EQ) tokens) as [i|]; [|split; [reflexivity|reflexivity]].
  destruct (nth_opt tokens 0) as [t0|] eqn:E0; [|split; reflexivity].
  pose proof (assign_name_loop_first tokens vs (to_lowercase (token_to_string vs t0))) as Hidx.
  destruct (assign_name_loop (S (length tokens)) tokens vs 0 (to_lowercase (token_to_string vs t0))) as [idx name].
  cbn [fst] in Hidx.
  destruct Hidx as [H2|[H1 Hlen]].
  - (* the name has at least one token *)
    assert (Hf : firstn (Nat.pred idx) tokens <> []).
    { destruct tokens as [|a r]; [discriminate|]. destruct idx as [|[|k]]; try lia. cbn [Nat.pred firstn]. discriminate. }
    destruct (parse_level (parse_fuel tokens) LAddSub (skipn idx tokens)) as [p i'] eqn:Ep.
    destruct p as [a|m|]; try (split; [reflexivity|exact I]).
    pose proof (parse_level_pure _ _ _ _ _ Ep) as Hp.
    destruct a; cbn [fst snd pres_ok asg_ok]; (split; [reflexivity|]); try (split; [exact Hf|exact Hp]).
    reflexivity.
  - (* the line is the single token '=': the right-hand side is empty *)
    subst idx. destruct tokens as [|a [|b r]]; cbn [length] in Hlen; try lia; [discriminate|].
    cbn [skipn]. vm_compute. split; reflexivity.
Qed.

(* the parser leaves the session alone (a variable is registered by the interpreter only) *)
Theorem parse_keeps_vars (tokens : list (token F)) vs : snd (parse tokens vs) = vs.
Proof.
  unfold parse. destruct (parse_assignment_ok tokens vs) as [H _].
  destruct (parse_assignment tokens vs) as [[p vs'] rest]. cbn [fst snd] in H. subst vs'.
  destruct p as [a|m|]; try reflexivity. destruct a; reflexivity.
Qed.

Theorem parse_pres_ok (tokens : list (token F)) vs : pres_ok (fst (parse tokens vs)).
Proof.
  unfold parse. destruct (parse_assignment_ok tokens vs) as [_ H].
  destruct (parse_assignment tokens vs) as [[p vs'] rest]. cbn [fst snd] in H.
  destruct p as [a|m|]; cbn [fst]; try exact H.
  destruct a; try exact H. apply parse_level_pres_ok.
Qed.

Theorem parse_vars_ne (tokens : list (token F)) vs : vars_ne vs -> vars_ne (snd (parse tokens vs)).
Proof. rewrite parse_keeps_vars. exact (fun H => H). Qed.

Theorem execute_ast_vars_ne (bexec : config F -> str -> res (option F)) cfg : forall a vs r vs',
  asg_ok a -> execute_ast bexec cfg vs a = Ok (r, vs') -> vars_ne vs -> vars_ne vs'.
Proof.
  intros a vs r vs' Ha H Hne.
  assert (Hpure : pure a = true -> vars_ne vs').
  { intro Hp. rewrite (exec_pure_vars bexec cfg a vs r vs' Hp H). exact Hne. }
  destruct a as [ |f|i|m|l op r0|op e|name ntoks e|v|name]; try (apply Hpure; exact Ha).
  destruct Ha as [Hf Hp]. cbn [execute_ast] in H.
  destruct (execute_ast bexec cfg vs e) as [[[v|m1] vs1]|site] eqn:Ee; cbn [bind] in H; try discriminate.
  2:{ inversion H; subst. rewrite (exec_pure_vars bexec cfg e vs _ _ Hp Ee). exact Hne. }
  pose proof (exec_pure_vars bexec cfg e vs _ _ Hp Ee) as E1. subst vs1. inversion H; subst.
  destruct (assoc name vs) as [vi|] eqn:Ea;
    apply (assoc_insert_Forall (fun vi : varinfo F => v_tokens vi <> [])); try exact Hne; cbn [v_tokens]; [|exact Hf].
  destruct (assoc_in _ _ _ Ea) as [k' Hin]. unfold vars_ne in Hne. rewrite Forall_forall in Hne. exact (Hne _ Hin).
Qed.

(* one evaluated line keeps the invariant, whatever its outcome *)
Theorem execute_text_vars_ne lx ck cfg lang vs line obs vs' :
  execute_text lx ck cfg lang vs line = Ok (obs, vs') -> vars_ne vs -> vars_ne vs'.
Proof.
  intros H Hne. unfold execute_text in H. destruct line as [|c0 line']; [inversion H; subst; exact Hne|].
  destruct (tokinize lx ck cfg lang vs (c0 :: line')) as [[st tokens]|site]; cbn [bind] in H; [|discriminate].
  destruct (ts_infos st); [inversion H; subst; exact Hne|].
  pose proof (parse_vars_ne tokens vs Hne) as Hp. pose proof (parse_pres_ok tokens vs) as Hok.
  destruct (parse tokens vs) as [[a|m|] vs1]; cbn [fst snd pres_ok] in Hp, Hok; [|inversion H; subst; exact Hp|discriminate].
  destruct (execute_ast (basic_execute lx ck) cfg vs1 a) as [[[v|m] vs2]|site] eqn:Ea; cbn [bind] in H; [| |discriminate].
  - destruct (format_result cfg lang (ck_year ck) v); cbn [bind] in H; [|discriminate].
    inversion H; subst. exact (execute_ast_vars_ne _ cfg a vs1 _ _ Hok Ea Hp).
  - inversion H; subst. exact (execute_ast_vars_ne _ cfg a vs1 _ _ Hok Ea Hp).
Qed.

End VarsInvariant.

(* ====================================================================================== *)
(* 7. the hypotheses are needed (model-level witnesses; none is reachable through the API) *)
(* ====================================================================================== *)
Definition dt_probe (i : N) : dyntype float :=
  {| dt_group := s "g"; dt_index := i; dt_format := []; dt_parse := []; dt_up := []; dt_down := [];
     dt_names := []; dt_digits := None; dt_round := None; dt_rm := None |}.

(* a family whose key 0 holds an entry of another index: the downward walk computes 0usize - 1.
   [ninsert (dt_index d) d] (load_items, add_type_item) never builds such a family: cfg_keys_ok. *)
Theorem unit_loop_keys_refuted :
  calculate_unit (fun _ _ => Ok (Some 0%float)) default_config 1%float (dt_probe 2) (dt_probe 1)
                 [(0%N, dt_probe 7); (1%N, dt_probe 9); (2%N, dt_probe 2)] = Panic SITE_USIZE_UNDERFLOW /\
  ~ group_keys_ok [(0%N, dt_probe 7); (1%N, dt_probe 9); (2%N, dt_probe 2)].
Proof.
  split; [vm_compute; reflexivity|]. intro H. inversion H as [|? ? H1 _]. discriminate H1.
Qed.

(* as_duration's chrono constructors do overflow on a "duration" field holding a large number; no
   pattern of the rule binds that name ([pattern_binds], [default_rules_np]) *)
Definition ti_probe (ty : token float) : token_info float :=
  {| ti_start := 0%N; ti_end := 0%N; ti_ty := Some ty; ti_text := []; ti_active := true |}.
Theorem as_duration_field_refuted :
  as_duration default_config (s "en") []
    [(s "duration", ti_probe (TNumber 1000000000000000000%float Decimal));
     (s "source", ti_probe (TNumber 1%float Decimal));
     (s "type", ti_probe (TText (s "days")))] = Panic SITE_DURATION_RANGE.
Proof. vm_compute. reflexivity. Qed.

(* a session variable without tokens makes find_location index an empty pattern; the parser never
   registers one ([parse_vars_ne]) *)
Theorem empty_variable_refuted (t : token_info float) :
  pick_variable [(s "a", {| v_tokens := []; v_data := ANone |})] [t] None = Panic SITE_EMPTY_PATTERN.
Proof. reflexivity. Qed.

Print Assumptions execute_ast_no_panic.
Print Assumptions format_result_no_panic.
Print Assumptions dyn_convert_ok.
Print Assumptions calculate_ok.
Print Assumptions call_rule_no_panic.
Print Assumptions match_fields_fit.
Print Assumptions replace_match_no_panic.
Print Assumptions unit_value_bound.
Print Assumptions update_token_variables_safe.
Print Assumptions dyn_loop_safe.
Print Assumptions rule_tokinizer_safe.
Print Assumptions post_lexer_no_panic.
Print Assumptions execute_text_no_panic.
Print Assumptions default_cfg_np.
Print Assumptions step_preserves_np.
Print Assumptions reachable_from_default_np.
Print Assumptions post_lexer_no_panic_default.
Print Assumptions post_lexer_no_panic_reachable.
Print Assumptions execute_text_no_panic_default.
Print Assumptions execute_text_no_panic_reachable.
Print Assumptions parse_vars_ne.
Print Assumptions parse_keeps_vars.
Print Assumptions parse_pres_ok.
Print Assumptions parse_vars_in.
Print Assumptions execute_text_vars_ne.
Print Assumptions unit_pattern_without_value_example.
Print Assumptions date_rule_empty_pattern_example.
Print Assumptions unit_loop_keys_refuted.
Print Assumptions as_duration_field_refuted.
