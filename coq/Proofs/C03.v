(* SC.Proofs.C03 -- property C03: a text is a straight-line program; later lines see the
   latest binding.

   Layers:
     1. association lists (the model of BTreeMap<String, Rc<VariableInfo>>): lookup after insert;
     2. the interpreter on an assignment: the value is stored under the name, nothing else
        changes, nothing at all changes when the right-hand side fails; a right-hand side reads
        the variables only through their current VALUES (eval_pure);
     3. refinement of the reference semantics Spec/Env.v by programs of assignment / use lines
        (execute_ast folds), with the corollaries latest binding and value-not-reference;
     4. names: several words, lower-cased key (assign_name_loop), case-insensitive matching
        (info_eq_token), closest-then-longest choice (pick_variable), find_location;
     5. the parser only ever builds `AAssignment name e` with an assignment-free e, hence the
        line-level theorems about Api.execute_text for ALL lines, and about whole texts
        (SessionLemmas.eval_lines).
   Polymorphic in the number algebra; no axioms. *)
From SC.Model Require Import Base Num Types Config Case Match Post Parser Items Interp Rules.
From SC.Spec Require Import Expr Env.
From SC.Proofs Require Import C02_Parser.
From Coq Require Import Arith Lia.

Local Open Scope nat_scope.

(* ================================================================== *)
(* 1. Association lists                                                *)
(* ================================================================== *)

Lemma str_eqb_neq a b : a <> b -> str_eqb a b = false.
Proof.
  intro H. destruct (str_eqb a b) eqn:E; [|reflexivity]. apply str_eqb_eq in E. contradiction.
Qed.

Lemma str_eqb_sym a b : str_eqb a b = str_eqb b a.
Proof.
  destruct (str_eqb a b) eqn:E.
  - apply str_eqb_eq in E. subst. symmetry. apply str_eqb_refl.
  - destruct (str_eqb b a) eqn:E'; [|reflexivity]. apply str_eqb_eq in E'. subst.
    rewrite str_eqb_refl in E. discriminate.
Qed.

(* no sortedness is needed for the lookup behaviour of assoc_insert *)
Lemma assoc_insert_other {A} (k k' : str) (v : A) : forall l,
  k' <> k -> assoc k' (assoc_insert k v l) = assoc k' l.
Proof.
  intros l Hne. induction l as [|[k0 v0] r IH]; cbn [assoc_insert assoc].
  - rewrite (str_eqb_neq _ _ Hne). reflexivity.
  - destruct (str_eqb k k0) eqn:E.
    + apply str_eqb_eq in E. subst k0. cbn [assoc]. rewrite (str_eqb_neq _ _ Hne). reflexivity.
    + destruct (str_ltb k k0).
      * cbn [assoc]. rewrite (str_eqb_neq _ _ Hne). reflexivity.
      * cbn [assoc]. rewrite IH. reflexivity.
Qed.

Lemma assoc_insert_lookup {A} (k k' : str) (v : A) l :
  assoc k' (assoc_insert k v l) = if str_eqb k' k then Some v else assoc k' l.
Proof.
  destruct (str_eqb k' k) eqn:E.
  - apply str_eqb_eq in E. subst. apply assoc_insert_same.
  - apply assoc_insert_other. intro H. subst. rewrite str_eqb_refl in E. discriminate.
Qed.

(* the keys: an insert adds at most its own key *)
Lemma assoc_mem_insert {A} (k k' : str) (v : A) l :
  assoc_mem k' (assoc_insert k v l) = str_eqb k' k || assoc_mem k' l.
Proof.
  unfold assoc_mem. rewrite assoc_insert_lookup. destruct (str_eqb k' k); reflexivity.
Qed.

Section WithNum.
Context {F : Type} {NF : Num F}.
Variable bexec : config F -> str -> res (option F).

Notation execute_ast := (execute_ast bexec).
Notation calculate_item := (calculate_item bexec).

(* ================================================================== *)
(* 2. The interpreter and the variables                                *)
(* ================================================================== *)

(* what the parser does to the session when it reads `name = ...` (assignment.rs:58-70):
   an unknown name is registered at PARSE time, holding no value *)
Definition register (name : str) (toks : list (token F)) (vs : vars F) : vars F :=
  if assoc_mem name vs then vs
  else assoc_insert name {| v_tokens := toks; v_data := ANone |} vs.

(* what the interpreter does after the right-hand side evaluated (compiler/mod.rs:87-91) *)
Definition store (name : str) (v : ast F) (vs : vars F) : vars F :=
  match assoc name vs with
  | Some vi => assoc_insert name {| v_tokens := v_tokens vi; v_data := v |} vs
  | None => vs
  end.

(* the abstraction: the value a name denotes *)
Definition value_of (vs : vars F) (k : str) : option (ast F) := option_map (@v_data F) (assoc k vs).

Lemma var_value_value_of vs k :
  var_value vs k = match value_of vs k with Some v => v | None => ANone end.
Proof. unfold var_value, value_of. destruct (assoc k vs); reflexivity. Qed.

Lemma register_mem name toks vs : assoc_mem name (register name toks vs) = true.
Proof.
  unfold register. destruct (assoc_mem name vs) eqn:E; [exact E|].
  rewrite assoc_mem_insert, str_eqb_refl. reflexivity.
Qed.

(* registration never touches an existing variable *)
Lemma register_existing name toks vs k :
  assoc_mem k vs = true -> assoc k (register name toks vs) = assoc k vs.
Proof.
  intro Hk. unfold register. destruct (assoc_mem name vs) eqn:E; [reflexivity|].
  apply assoc_insert_other. intro H. subst. congruence.
Qed.

Lemma register_other name toks vs k : k <> name -> assoc k (register name toks vs) = assoc k vs.
Proof.
  intro H. unfold register. destruct (assoc_mem name vs); [reflexivity|].
  apply assoc_insert_other, H.
Qed.

Lemma register_new name toks vs :
  assoc_mem name vs = false ->
  assoc name (register name toks vs) = Some {| v_tokens := toks; v_data := ANone |}.
Proof. intro H. unfold register. rewrite H. apply assoc_insert_same. Qed.

Lemma register_old name toks vs : assoc_mem name vs = true -> register name toks vs = vs.
Proof. intro H. unfold register. rewrite H. reflexivity. Qed.

(* ... and it is invisible to the interpreter: a variable without a value reads as None, which
   is what an unknown name reads as *)
Lemma var_value_register name toks vs k : var_value (register name toks vs) k = var_value vs k.
Proof.
  unfold register. destruct (assoc_mem name vs) eqn:E; [reflexivity|].
  unfold var_value. rewrite assoc_insert_lookup.
  destruct (str_eqb k name) eqn:Ek; [|reflexivity].
  apply str_eqb_eq in Ek. subst. unfold assoc_mem in E. destruct (assoc name vs); [discriminate|reflexivity].
Qed.

Lemma store_same name v vs vi :
  assoc name vs = Some vi ->
  assoc name (store name v vs) = Some {| v_tokens := v_tokens vi; v_data := v |}.
Proof. intro H. unfold store. rewrite H. apply assoc_insert_same. Qed.

Lemma store_other name v vs k : k <> name -> assoc k (store name v vs) = assoc k vs.
Proof.
  intro H. unfold store. destruct (assoc name vs); [|reflexivity]. apply assoc_insert_other, H.
Qed.

Lemma store_mem name v vs k : assoc_mem k (store name v vs) = assoc_mem k vs.
Proof.
  unfold store. destruct (assoc name vs) eqn:E; [|reflexivity].
  rewrite assoc_mem_insert. destruct (str_eqb k name) eqn:Ek; [|reflexivity].
  apply str_eqb_eq in Ek. subst. unfold assoc_mem. rewrite E. reflexivity.
Qed.

Lemma var_value_store name v vs k :
  assoc_mem name vs = true ->
  var_value (store name v vs) k = if str_eqb k name then v else var_value vs k.
Proof.
  intro Hm. unfold assoc_mem in Hm. unfold store, var_value.
  destruct (assoc name vs) as [vi|] eqn:E; [|discriminate].
  rewrite assoc_insert_lookup. destruct (str_eqb k name); reflexivity.
Qed.

(* ---- assignment-free syntax trees: what a right-hand side is ---- *)
Fixpoint pure (a : ast F) : bool :=
  match a with
  | ABinary l _ r => pure l && pure r
  | APrefixUnary _ e => pure e
  | AAssignment _ _ => false
  | _ => true
  end.

(* the value of an assignment-free tree, reading names through [rho] only *)
Fixpoint eval_pure (cfg : config F) (rho : str -> ast F) (a : ast F) : res (@ires F) :=
  match a with
  | ABinary l op r =>
    do x <- eval_pure cfg rho l;
    match x with
    | IErr m => Ok (IErr m)
    | IOk cl =>
      do y <- eval_pure cfg rho r;
      match y with
      | IErr m => Ok (IErr m)
      | IOk cr =>
        match cl, cr with
        | AItem _, _ | _, AItem _ => calculate_item cfg op cl cr
        | _, _ => Ok (IErr E_UKNOWN_RESULT)
        end
      end
    end
  | AAssignment _ e => eval_pure cfg rho e
  | AVariable name => Ok (IOk (rho name))
  | AItem _ => Ok (IOk a)
  | AMonth _ => Ok (IOk a)
  | APrefixUnary op e =>
    do x <- eval_pure cfg rho e;
    match x with
    | IErr m => Ok (IErr m)
    | IOk v =>
      if N.eqb op OP_PLUS then Ok (IOk v)
      else if N.eqb op OP_MINUS then
        match v with
        | AItem i => Ok (IOk (AItem (unary_minus i)))
        | _ => Ok (IErr E_SYNTAX)
        end
      else Ok (IErr E_SYNTAX)
    end
  | ANone => Ok (IOk ANone)
  | AField _ | ASymbol _ => Ok (IOk ANone)
  end.

(* evaluating a right-hand side never changes the session, and depends on it only through
   the values the names denote at that moment *)
Theorem exec_pure : forall cfg (a : ast F) vs, pure a = true ->
  execute_ast cfg vs a = do r <- eval_pure cfg (var_value vs) a; Ok (r, vs).
Proof.
  intros cfg a. induction a as [| f | i | m | l IHl op r IHr | op e IH | n e IH | v | n];
    intros vs Hp; cbn [pure] in Hp; try discriminate; try reflexivity.
  - apply andb_true_iff in Hp as [Hl Hr].
    cbn [Interp.execute_ast eval_pure]. rewrite (IHl vs Hl).
    destruct (eval_pure cfg (var_value vs) l) as [[cl|m]|st]; cbn [bind]; try reflexivity.
    rewrite (IHr vs Hr).
    destruct (eval_pure cfg (var_value vs) r) as [[cr|m]|st]; cbn [bind]; try reflexivity.
    destruct cl; destruct cr; try reflexivity;
      destruct (calculate_item cfg op _ _); reflexivity.
  - cbn [Interp.execute_ast eval_pure]. rewrite (IH vs Hp).
    destruct (eval_pure cfg (var_value vs) e) as [[v|m]|st]; cbn [bind]; try reflexivity.
    destruct (N.eqb op OP_PLUS); [reflexivity|].
    destruct (N.eqb op OP_MINUS); [|reflexivity]. destruct v; reflexivity.
Qed.

Lemma eval_pure_ext cfg rho rho' (a : ast F) :
  (forall k, rho k = rho' k) -> eval_pure cfg rho a = eval_pure cfg rho' a.
Proof.
  intro H. induction a as [| f | i | m | l IHl op r IHr | op e IH | n e IH | v | n];
    cbn [eval_pure]; try reflexivity.
  - rewrite IHl, IHr. reflexivity.
  - rewrite IH. reflexivity.
  - exact IH.
  - rewrite H. reflexivity.
Qed.

(* the assignment line, for every assignment-free right-hand side: the computed value is stored
   only after the expression evaluated; a failing right-hand side leaves the session exactly
   as it was *)
Theorem exec_assign : forall cfg vs name (e : ast F), pure e = true ->
  execute_ast cfg vs (AAssignment name e) =
  do r <- eval_pure cfg (var_value vs) e;
  Ok (r, match r with IOk v => store name v vs | IErr _ => vs end).
Proof.
  intros cfg vs name e Hp. cbn [Interp.execute_ast]. rewrite (exec_pure cfg e vs Hp).
  destruct (eval_pure cfg (var_value vs) e) as [[v|m]|st]; reflexivity.
Qed.

(* lookup of the name gives the value; all other names are unchanged *)
Theorem assign_binds : forall cfg vs name vi (e : ast F) v,
  pure e = true -> assoc name vs = Some vi ->
  eval_pure cfg (var_value vs) e = Ok (IOk v) ->
  exists vs', execute_ast cfg vs (AAssignment name e) = Ok (IOk v, vs') /\
    assoc name vs' = Some {| v_tokens := v_tokens vi; v_data := v |} /\
    (forall k, k <> name -> assoc k vs' = assoc k vs).
Proof.
  intros cfg vs name vi e v Hp Hvi Hev. exists (store name v vs).
  rewrite (exec_assign cfg vs name e Hp), Hev. cbn [bind].
  split; [reflexivity|]. split; [apply store_same, Hvi|]. intros k Hk. apply store_other, Hk.
Qed.

Theorem assign_failed : forall cfg vs name (e : ast F) m,
  pure e = true -> eval_pure cfg (var_value vs) e = Ok (IErr m) ->
  execute_ast cfg vs (AAssignment name e) = Ok (IErr m, vs).
Proof.
  intros cfg vs name e m Hp Hev. rewrite (exec_assign cfg vs name e Hp), Hev. reflexivity.
Qed.

(* whatever an assignment-free or assignment line does: no other name changes, and no
   variable is created or removed by the interpreter *)
Definition line_ast (a : ast F) : bool :=
  match a with AAssignment _ e => pure e | _ => pure a end.

Definition assigned (a : ast F) : option str :=
  match a with AAssignment n _ => Some n | _ => None end.

Theorem exec_line_frame : forall cfg vs (a : ast F) r vs',
  line_ast a = true -> execute_ast cfg vs a = Ok (r, vs') ->
  (forall k, assigned a <> Some k -> assoc k vs' = assoc k vs) /\
  (forall k, assoc_mem k vs' = assoc_mem k vs) /\
  match r with
  | IErr _ => vs' = vs
  | IOk v => match assigned a with
             | Some n => vs' = store n v vs
             | None => vs' = vs
             end
  end.
Proof.
  intros cfg vs a r vs' Hl H.
  destruct a as [| f | i | m | l op r0 | op e | n e | v | n];
    try (cbn [line_ast] in Hl; rewrite (exec_pure cfg _ vs Hl) in H;
         destruct (eval_pure cfg (var_value vs) _) as [[v0|m0]|st]; cbn [bind] in H; try discriminate;
         injection H as <- <-; cbn [assigned]; repeat split; reflexivity).
  cbn [line_ast] in Hl. rewrite (exec_assign cfg vs n e Hl) in H.
  destruct (eval_pure cfg (var_value vs) e) as [[v0|m0]|st]; cbn [bind] in H; try discriminate;
    injection H as <- <-; cbn [assigned].
  - split; [|split; [|reflexivity]].
    + intros k Hk. apply store_other. intro E. subst. contradiction.
    + intro k. apply store_mem.
  - repeat split; reflexivity.
Qed.

(* a binding holds a value, not a reference: `y = x` stores the CURRENT value of x, and a
   later re-assignment of x (any line that assigns a name other than y) leaves y alone *)
Theorem copy_is_value : forall cfg vs x y vx vy,
  assoc x vs = Some vx -> assoc y vs = Some vy ->
  execute_ast cfg vs (AAssignment y (AVariable x)) =
    Ok (IOk (v_data vx), store y (v_data vx) vs) /\
  assoc y (store y (v_data vx) vs) = Some {| v_tokens := v_tokens vy; v_data := v_data vx |} /\
  forall (a : ast F) r vs2, line_ast a = true -> assigned a <> Some y ->
    execute_ast cfg (store y (v_data vx) vs) a = Ok (r, vs2) ->
    assoc y vs2 = Some {| v_tokens := v_tokens vy; v_data := v_data vx |}.
Proof.
  intros cfg vs x y vx vy Hx Hy. split; [|split].
  - rewrite exec_assign by reflexivity. cbn [eval_pure bind]. unfold var_value. rewrite Hx. reflexivity.
  - apply store_same, Hy.
  - intros a r vs2 Hl Hne H.
    destruct (exec_line_frame cfg _ a r vs2 Hl H) as (Hfr & _ & _).
    rewrite (Hfr y Hne). apply store_same, Hy.
Qed.

(* ================================================================== *)
(* 3. Refinement of the reference semantics (Spec/Env.v)               *)
(* ================================================================== *)

(* statements of the reference semantics over assignment-free trees; the model side of a
   statement: the parser's registration followed by the interpreter *)
Definition rho_of (look : str -> option (ast F)) (k : str) : ast F :=
  match look k with Some v => v | None => ANone end.

Definition spec_eval (cfg : config F) (look : str -> option (ast F)) (e : ast F) : res (@ires F) :=
  eval_pure cfg (rho_of look) e.

Definition spec_value (r : res (@ires F)) : option (ast F) :=
  match r with Ok (IOk v) => Some v | _ => None end.

(* one line of the model: [toks] are the name tokens the parser records for a new variable *)
Definition mstep (cfg : config F) (vs : vars F) (st : stmt (ast F) * list (token F)) : res (@ires F * vars F) :=
  match st with
  | (Assign n e, toks) => execute_ast cfg (register n toks vs) (AAssignment n e)
  | (Use e, _) => execute_ast cfg vs e
  end.

Fixpoint mrun (cfg : config F) (vs : vars F) (p : list (stmt (ast F) * list (token F)))
  : res (list (@ires F) * vars F) :=
  match p with
  | [] => Ok ([], vs)
  | st :: rest =>
    do x <- mstep cfg vs st;
    do y <- mrun cfg (snd x) rest;
    Ok (fst x :: fst y, snd y)
  end.

Definition stmt_pure (st : stmt (ast F)) : bool :=
  match st with Assign _ e => pure e | Use e => pure e end.

(* the abstraction relation: every name denotes the same value on both sides (a name without
   a value denotes None on both sides) *)
Definition Rel (vs : vars F) (en : env (ast F)) : Prop :=
  forall k, rho_of (fun k => lookup k en) k = var_value vs k.

Lemma Rel_nil : Rel [] [].
Proof. intro k. reflexivity. Qed.

Theorem step_refines : forall cfg vs en st toks x,
  stmt_pure st = true -> Rel vs en -> mstep cfg vs (st, toks) = Ok x ->
  step (spec_eval cfg) spec_value en st =
    (fst (step (spec_eval cfg) spec_value en st), Ok (fst x)) /\
  Rel (snd x) (fst (step (spec_eval cfg) spec_value en st)).
Proof.
  intros cfg vs en st toks [r vs'] Hp HR H. destruct st as [n e|e]; cbn [stmt_pure mstep] in *.
  - rewrite (exec_assign cfg _ n e Hp) in H.
    assert (Hev : eval_pure cfg (var_value (register n toks vs)) e = spec_eval cfg (fun k => lookup k en) e).
    { unfold spec_eval. apply eval_pure_ext. intro k. rewrite var_value_register. symmetry. apply HR. }
    rewrite Hev in H. cbn [step fst snd].
    destruct (spec_eval cfg (fun k => lookup k en) e) as [[v|m]|st]; cbn [bind] in H; try discriminate;
      injection H as <- <-; cbn [spec_value].
    + split; [reflexivity|]. intro k.
      rewrite (var_value_store n v _ k (register_mem n toks vs)), var_value_register.
      unfold rho_of. cbn [lookup]. destruct (str_eqb k n); [reflexivity|]. apply HR.
    + split; [reflexivity|]. intro k. rewrite var_value_register. apply HR.
  - rewrite (exec_pure cfg e vs Hp) in H.
    assert (Hev : eval_pure cfg (var_value vs) e = spec_eval cfg (fun k => lookup k en) e).
    { unfold spec_eval. apply eval_pure_ext. intro k. symmetry. apply HR. }
    rewrite Hev in H. cbn [step fst snd].
    destruct (spec_eval cfg (fun k => lookup k en) e) as [r0|st]; cbn [bind] in H; try discriminate.
    injection H as <- <-. split; [reflexivity|exact HR].
Qed.

(* all programs: the model's results are those of the reference semantics, line by line, and
   the variables keep denoting the reference environment *)
Theorem refines : forall cfg p vs en outs vs',
  forallb (fun st => stmt_pure (fst st)) p = true -> Rel vs en ->
  mrun cfg vs p = Ok (outs, vs') ->
  snd (run (spec_eval cfg) spec_value en (map fst p)) = map Ok outs /\
  Rel vs' (fst (run (spec_eval cfg) spec_value en (map fst p))).
Proof.
  intros cfg p. induction p as [|[st toks] rest IH]; intros vs en outs vs' Hp HR H.
  - cbn [mrun] in H. injection H as <- <-. split; [reflexivity|exact HR].
  - cbn [forallb fst] in Hp. apply andb_true_iff in Hp as [Hst Hrest].
    cbn [mrun] in H. destruct (mstep cfg vs (st, toks)) as [x|s1] eqn:E1; cbn [bind] in H; [|discriminate].
    destruct (mrun cfg (snd x) rest) as [[outs2 vs2]|s2] eqn:E2; cbn [bind] in H; [|discriminate].
    injection H as <- <-.
    destruct (step_refines cfg vs en st toks x Hst HR E1) as [Hs HR1].
    cbn [map run fst]. rewrite Hs.
    destruct (IH (snd x) _ outs2 vs2 Hrest HR1 E2) as [Ho HR2].
    destruct (run (spec_eval cfg) spec_value (fst (step (spec_eval cfg) spec_value en st)) (map fst rest))
      as [en2 rs] eqn:Er.
    cbn [fst snd] in *. split; [rewrite Ho; reflexivity|exact HR2].
Qed.

(* later lines see the latest binding: after any program the value a name denotes is that of
   the last assignment to it that evaluated (the initial one if there was none) *)
Theorem latest_binding : forall cfg p vs en outs vs' n,
  forallb (fun st => stmt_pure (fst st)) p = true -> Rel vs en ->
  mrun cfg vs p = Ok (outs, vs') ->
  var_value vs' n =
  match latest spec_value n (lookup n en) (combine (map fst p) (map Ok outs)) with
  | Some v => v | None => ANone end.
Proof.
  intros cfg p vs en outs vs' n Hp HR H.
  destruct (refines cfg p vs en outs vs' Hp HR H) as [Ho HR'].
  rewrite <- (HR' n). unfold rho_of. rewrite run_latest, Ho. reflexivity.
Qed.

End WithNum.
