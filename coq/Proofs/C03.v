(* Proofs for property C03. *)
From SC.Model Require Import Base.
