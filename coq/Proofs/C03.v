(* SC.Proofs.C03 -- property C03: a text is a straight-line program; later lines see the
   latest binding.

   Layers:
     1. association lists (the model of BTreeMap<String, Rc<VariableInfo>>): lookup after insert;
     2. the interpreter on an assignment: the value is stored under the name, nothing else
        changes, nothing at all changes when the right-hand side fails; a right-hand side reads
        the variables only through their current VALUES (eval_pure);
     3. refinement of the reference semantics Spec/Env.v by programs of assignment / use lines
        (execute_ast folds), with the corollaries latest binding and value-not-reference;
     4. names: several words, lower-cased key (assign_name_loop), case-insensitive matching
        (info_eq_token), closest-then-longest choice (pick_variable), find_location;
     5. the parser only ever builds `AAssignment name toks e` with an assignment-free e
        (ParserPure) and never touches the session, hence the line-level theorems about
        Api.execute_text for ALL lines, and about whole texts (SessionLemmas.eval_lines).
   State of the code: the variable is registered by the interpreter AFTER the right-hand side
   evaluated (no variable without a value is ever left behind by a failing line) and the key of
   a name is its lower-cased words joined by one space (distinct names never share a variable).
   Polymorphic in the number algebra; no axioms. *)
From SC.Model Require Import Base Num Types Config Case Match Post Parser Items Interp Rules.
From SC.Model Require Import Chrono UiTokens Rx RuleFns Format Lexer Api.
From SC.Model Require Corr.
From SC.Spec Require Import Expr Env.
From SC.Proofs Require Import C02_Parser ParserPure SessionLemmas.
From Coq Require Import Arith Lia.

Local Open Scope nat_scope.

(* ================================================================== *)
(* 1. Association lists                                                *)
(* ================================================================== *)

Lemma str_eqb_neq a b : a <> b -> str_eqb a b = false.
Proof.
  intro H. destruct (str_eqb a b) eqn:E; [|reflexivity]. apply str_eqb_eq in E. contradiction.
Qed.

Lemma str_eqb_sym a b : str_eqb a b = str_eqb b a.
Proof.
  destruct (str_eqb a b) eqn:E.
  - apply str_eqb_eq in E. subst. symmetry. apply str_eqb_refl.
  - destruct (str_eqb b a) eqn:E'; [|reflexivity]. apply str_eqb_eq in E'. subst.
    rewrite str_eqb_refl in E. discriminate.
Qed.

(* no sortedness is needed for the lookup behaviour of assoc_insert *)
Lemma assoc_insert_other {A} (k k' : str) (v : A) : forall l,
  k' <> k -> assoc k' (assoc_insert k v l) = assoc k' l.
Proof.
  intros l Hne. induction l as [|[k0 v0] r IH]; cbn [assoc_insert assoc].
  - rewrite (str_eqb_neq _ _ Hne). reflexivity.
  - destruct (str_eqb k k0) eqn:E.
    + apply str_eqb_eq in E. subst k0. cbn [assoc]. rewrite (str_eqb_neq _ _ Hne). reflexivity.
    + destruct (str_ltb k k0).
      * cbn [assoc]. rewrite (str_eqb_neq _ _ Hne). reflexivity.
      * cbn [assoc]. rewrite IH. reflexivity.
Qed.

Lemma assoc_insert_lookup {A} (k k' : str) (v : A) l :
  assoc k' (assoc_insert k v l) = if str_eqb k' k then Some v else assoc k' l.
Proof.
  destruct (str_eqb k' k) eqn:E.
  - apply str_eqb_eq in E. subst. apply assoc_insert_same.
  - apply assoc_insert_other. intro H. subst. rewrite str_eqb_refl in E. discriminate.
Qed.

(* the keys: an insert adds at most its own key *)
Lemma assoc_mem_insert {A} (k k' : str) (v : A) l :
  assoc_mem k' (assoc_insert k v l) = str_eqb k' k || assoc_mem k' l.
Proof.
  unfold assoc_mem. rewrite assoc_insert_lookup. destruct (str_eqb k' k); reflexivity.
Qed.

Section WithNum.
Context {F : Type} {NF : Num F}.
Variable bexec : config F -> str -> res (option F).

Notation execute_ast := (execute_ast bexec).
Notation calculate_item := (calculate_item bexec).

(* ================================================================== *)
(* 2. The interpreter and the variables                                *)
(* ================================================================== *)

(* what the interpreter does after the right-hand side evaluated (compiler/mod.rs:87-92).
   The node carries the key [name] under which the parser looked the variable up, and the name
   tokens; an existing variable keeps its key and its name tokens; otherwise a new variable is
   registered under [var_key vs toks] = VariableInfo::to_string (the lower-cased name tokens
   joined by a space).  For every node the parser builds, name = var_key vs toks
   (parsed_key_is_var_key, section 4.1), so the written key is the lookup key; for an arbitrary
   hand-built node [written_key] says which key is written. *)
Definition written_key (name : str) (toks : list (token F)) (vs : vars F) : str :=
  match assoc name vs with Some _ => name | None => var_key vs toks end.

Definition store (name : str) (toks : list (token F)) (v : ast F) (vs : vars F) : vars F :=
  assoc_insert (written_key name toks vs)
               {| v_tokens := match assoc name vs with Some vi => v_tokens vi | None => toks end;
                  v_data := v |} vs.

Lemma store_model name toks v vs :
  store name toks v vs =
  match assoc name vs with
  | Some vi => assoc_insert name {| v_tokens := v_tokens vi; v_data := v |} vs
  | None => assoc_insert (var_key vs toks) {| v_tokens := toks; v_data := v |} vs
  end.
Proof. unfold store, written_key. destruct (assoc name vs); reflexivity. Qed.

Lemma written_key_spec name toks vs :
  (forall vi, assoc name vs = Some vi -> written_key name toks vs = name) /\
  (assoc name vs = None -> written_key name toks vs = var_key vs toks).
Proof. unfold written_key. split; [intros vi H|intro H]; rewrite H; reflexivity. Qed.

Lemma written_key_coherent name toks vs : var_key vs toks = name -> written_key name toks vs = name.
Proof. intro H. unfold written_key. destruct (assoc name vs); [reflexivity|exact H]. Qed.

(* the abstraction: the value a name denotes *)
Definition value_of (vs : vars F) (k : str) : option (ast F) := option_map (@v_data F) (assoc k vs).

Lemma var_value_value_of vs k :
  var_value vs k = match value_of vs k with Some v => v | None => ANone end.
Proof. unfold var_value, value_of. destruct (assoc k vs); reflexivity. Qed.

(* the session argument of token_to_string / var_key is not used *)
Lemma tts_irrel (vs vs' : vars F) (t : token F) : token_to_string vs t = token_to_string vs' t.
Proof. destruct t; reflexivity. Qed.

Lemma var_key_irrel (vs vs' : vars F) toks : var_key vs toks = var_key vs' toks.
Proof.
  destruct toks as [|t r]; [reflexivity|]. cbn [var_key]. rewrite (tts_irrel vs vs' t).
  generalize (to_lowercase (token_to_string vs' t)). induction r as [|x r IH]; intro acc; cbn [fold_left];
    [reflexivity|]. rewrite (tts_irrel vs vs' x). apply IH.
Qed.

Lemma store_same name toks v vs :
  assoc (written_key name toks vs) (store name toks v vs) =
  Some {| v_tokens := match assoc name vs with Some vi => v_tokens vi | None => toks end; v_data := v |}.
Proof. apply assoc_insert_same. Qed.

Lemma store_other name toks v vs k :
  k <> written_key name toks vs -> assoc k (store name toks v vs) = assoc k vs.
Proof. intro H. apply assoc_insert_other, H. Qed.

Lemma store_mem name toks v vs k :
  assoc_mem k (store name toks v vs) = str_eqb k (written_key name toks vs) || assoc_mem k vs.
Proof. apply assoc_mem_insert. Qed.

Lemma var_value_store name toks v vs k :
  var_value (store name toks v vs) k = if str_eqb k (written_key name toks vs) then v else var_value vs k.
Proof.
  unfold store, var_value. rewrite assoc_insert_lookup.
  destruct (str_eqb k (written_key name toks vs)); reflexivity.
Qed.

(* the value of an assignment-free tree ([pure], ParserPure), reading names through [rho] only *)
Fixpoint eval_pure (cfg : config F) (rho : str -> ast F) (a : ast F) : res (@ires F) :=
  match a with
  | ABinary l op r =>
    do x <- eval_pure cfg rho l;
    match x with
    | IErr m => Ok (IErr m)
    | IOk cl =>
      do y <- eval_pure cfg rho r;
      match y with
      | IErr m => Ok (IErr m)
      | IOk cr =>
        match cl, cr with
        | AItem _, _ | _, AItem _ => calculate_item cfg op cl cr
        | _, _ => Ok (IErr E_UKNOWN_RESULT)
        end
      end
    end
  | AAssignment _ _ e => eval_pure cfg rho e
  | AVariable name => Ok (IOk (rho name))
  | AItem _ => Ok (IOk a)
  | AMonth _ => Ok (IOk a)
  | APrefixUnary op e =>
    do x <- eval_pure cfg rho e;
    match x with
    | IErr m => Ok (IErr m)
    | IOk v =>
      if N.eqb op OP_PLUS then Ok (IOk v)
      else if N.eqb op OP_MINUS then
        match v with
        | AItem i => Ok (IOk (AItem (unary_minus i)))
        | _ => Ok (IErr E_SYNTAX)
        end
      else Ok (IErr E_SYNTAX)
    end
  | ANone => Ok (IOk ANone)
  | AField _ | ASymbol _ => Ok (IOk ANone)
  end.

(* evaluating a right-hand side never changes the session, and depends on it only through
   the values the names denote at that moment *)
Theorem exec_pure : forall cfg (a : ast F) vs, pure a = true ->
  execute_ast cfg vs a = do r <- eval_pure cfg (var_value vs) a; Ok (r, vs).
Proof.
  intros cfg a. induction a as [| f | i | m | l IHl op r IHr | op e IH | n nt e IH | v | n];
    intros vs Hp; cbn [pure] in Hp; try discriminate; try reflexivity.
  - apply andb_true_iff in Hp as [Hl Hr].
    cbn [Interp.execute_ast eval_pure]. rewrite (IHl vs Hl).
    destruct (eval_pure cfg (var_value vs) l) as [[cl|m]|st]; cbn [bind]; try reflexivity.
    rewrite (IHr vs Hr).
    destruct (eval_pure cfg (var_value vs) r) as [[cr|m]|st]; cbn [bind]; try reflexivity.
    destruct cl; destruct cr; try reflexivity;
      destruct (calculate_item cfg op _ _); reflexivity.
  - cbn [Interp.execute_ast eval_pure]. rewrite (IH vs Hp).
    destruct (eval_pure cfg (var_value vs) e) as [[v|m]|st]; cbn [bind]; try reflexivity.
    destruct (N.eqb op OP_PLUS); [reflexivity|].
    destruct (N.eqb op OP_MINUS); [|reflexivity]. destruct v; reflexivity.
Qed.

Lemma eval_pure_ext cfg rho rho' (a : ast F) :
  (forall k, rho k = rho' k) -> eval_pure cfg rho a = eval_pure cfg rho' a.
Proof.
  intro H. induction a as [| f | i | m | l IHl op r IHr | op e IH | n nt e IH | v | n];
    cbn [eval_pure]; try reflexivity.
  - rewrite IHl, IHr. reflexivity.
  - rewrite IH. reflexivity.
  - exact IH.
  - rewrite H. reflexivity.
Qed.

(* the assignment line, for every assignment-free right-hand side: the variable is created /
   updated only after the expression evaluated; a failing right-hand side leaves the session
   exactly as it was *)
Theorem exec_assign : forall cfg vs name toks (e : ast F), pure e = true ->
  execute_ast cfg vs (AAssignment name toks e) =
  do r <- eval_pure cfg (var_value vs) e;
  Ok (r, match r with IOk v => store name toks v vs | IErr _ => vs end).
Proof.
  intros cfg vs name toks e Hp. cbn [Interp.execute_ast]. rewrite (exec_pure cfg e vs Hp).
  destruct (eval_pure cfg (var_value vs) e) as [[v|m]|st]; cbn [bind]; try reflexivity.
  rewrite store_model. reflexivity.
Qed.

(* lookup of the written key gives the value; all other keys are unchanged.  The written key
   is [name] for an existing variable and for every name without an operator token *)
Theorem assign_binds : forall cfg vs name toks (e : ast F) v,
  pure e = true -> eval_pure cfg (var_value vs) e = Ok (IOk v) ->
  exists vs', execute_ast cfg vs (AAssignment name toks e) = Ok (IOk v, vs') /\
    assoc (written_key name toks vs) vs' =
      Some {| v_tokens := match assoc name vs with Some vi => v_tokens vi | None => toks end;
              v_data := v |} /\
    (forall k, k <> written_key name toks vs -> assoc k vs' = assoc k vs).
Proof.
  intros cfg vs name toks e v Hp Hev. exists (store name toks v vs).
  rewrite (exec_assign cfg vs name toks e Hp), Hev. cbn [bind].
  split; [reflexivity|]. split; [apply store_same|]. intros k Hk. apply store_other, Hk.
Qed.

Theorem assign_failed : forall cfg vs name toks (e : ast F) m,
  pure e = true -> eval_pure cfg (var_value vs) e = Ok (IErr m) ->
  execute_ast cfg vs (AAssignment name toks e) = Ok (IErr m, vs).
Proof.
  intros cfg vs name toks e m Hp Hev. rewrite (exec_assign cfg vs name toks e Hp), Hev. reflexivity.
Qed.

(* the trees of lines: a use, or an assignment of an assignment-free tree *)
Definition line_ast (a : ast F) : bool :=
  match a with AAssignment _ _ e => pure e | _ => pure a end.

(* the key a line writes when it evaluates in the session vs *)
Definition assigned (vs : vars F) (a : ast F) : option str :=
  match a with AAssignment n toks _ => Some (written_key n toks vs) | _ => None end.

(* whatever a line does: no other name changes, no variable disappears, an error changes nothing,
   a use changes nothing, a successful assignment is exactly [store] *)
Theorem exec_line_frame : forall cfg vs (a : ast F) r vs',
  line_ast a = true -> execute_ast cfg vs a = Ok (r, vs') ->
  (forall k, assigned vs a <> Some k -> assoc k vs' = assoc k vs) /\
  (forall k, assoc_mem k vs = true -> assoc_mem k vs' = true) /\
  match r with
  | IErr _ => vs' = vs
  | IOk v => match a with
             | AAssignment n toks _ => vs' = store n toks v vs
             | _ => vs' = vs
             end
  end.
Proof.
  intros cfg vs a r vs' Hl H.
  destruct a as [| f | i | m | l op r0 | op e | n nt e | v | n];
    try (cbn [line_ast] in Hl; rewrite (exec_pure cfg _ vs Hl) in H;
         destruct (eval_pure cfg (var_value vs) _) as [[v0|m0]|st]; cbn [bind] in H; try discriminate;
         injection H as <- <-; cbn [assigned]; repeat split; auto).
  cbn [line_ast] in Hl. rewrite (exec_assign cfg vs n nt e Hl) in H.
  destruct (eval_pure cfg (var_value vs) e) as [[v0|m0]|st]; cbn [bind] in H; try discriminate;
    injection H as <- <-; cbn [assigned].
  - split; [|split; [|reflexivity]].
    + intros k Hk. apply store_other. intro E. subst. apply Hk. reflexivity.
    + intros k Hk. rewrite store_mem, Hk. apply orb_true_r.
  - repeat split; auto.
Qed.

(* a binding holds a value, not a reference: `y = x` stores the CURRENT value of x (creating y
   if need be) under y's written key, and a later re-assignment of x (any line that writes
   another key) leaves y alone *)
Theorem copy_is_value : forall cfg vs x y ty vx,
  assoc x vs = Some vx ->
  let ky := written_key y ty vs in
  execute_ast cfg vs (AAssignment y ty (AVariable x)) =
    Ok (IOk (v_data vx), store y ty (v_data vx) vs) /\
  value_of (store y ty (v_data vx) vs) ky = Some (v_data vx) /\
  forall (a : ast F) r vs2, line_ast a = true -> assigned (store y ty (v_data vx) vs) a <> Some ky ->
    execute_ast cfg (store y ty (v_data vx) vs) a = Ok (r, vs2) ->
    value_of vs2 ky = Some (v_data vx).
Proof.
  intros cfg vs x y ty vx Hx ky. split; [|split].
  - rewrite exec_assign by reflexivity. cbn [eval_pure bind]. unfold var_value. rewrite Hx. reflexivity.
  - unfold value_of, ky. rewrite store_same. reflexivity.
  - intros a r vs2 Hl Hne H.
    destruct (exec_line_frame cfg _ a r vs2 Hl H) as (Hfr & _ & _).
    unfold value_of. rewrite (Hfr ky Hne). unfold ky. rewrite store_same. reflexivity.
Qed.

(* ================================================================== *)
(* 3. Refinement of the reference semantics (Spec/Env.v)               *)
(* ================================================================== *)

Definition rho_of (look : str -> option (ast F)) (k : str) : ast F :=
  match look k with Some v => v | None => ANone end.

Definition spec_eval (cfg : config F) (look : str -> option (ast F)) (e : ast F) : res (@ires F) :=
  eval_pure cfg (rho_of look) e.

Definition spec_value (r : res (@ires F)) : option (ast F) :=
  match r with Ok (IOk v) => Some v | _ => None end.

(* one line of the model: [toks] are the name tokens the parser puts into the assignment node *)
Definition mstep (cfg : config F) (vs : vars F) (st : stmt (ast F) * list (token F)) : res (@ires F * vars F) :=
  match st with
  | (Assign n e, toks) => execute_ast cfg vs (AAssignment n toks e)
  | (Use e, _) => execute_ast cfg vs e
  end.

Fixpoint mrun (cfg : config F) (vs : vars F) (p : list (stmt (ast F) * list (token F)))
  : res (list (@ires F) * vars F) :=
  match p with
  | [] => Ok ([], vs)
  | st :: rest =>
    do x <- mstep cfg vs st;
    do y <- mrun cfg (snd x) rest;
    Ok (fst x :: fst y, snd y)
  end.

Definition stmt_pure (st : stmt (ast F)) : bool :=
  match st with Assign _ e => pure e | Use e => pure e end.

(* the name of the statement is the key of its name tokens: true of every name without an
   operator token (section 4.1: lookup_key_is_var_key, var_key_name_toks) *)
Definition key_ok (st : stmt (ast F) * list (token F)) : Prop :=
  match st with
  | (Assign n _, toks) => forall vs, var_key vs toks = n
  | (Use _, _) => True
  end.

(* the abstraction relation: every name denotes the same value on both sides *)
Definition Rel (vs : vars F) (en : env (ast F)) : Prop :=
  forall k, rho_of (fun k => lookup k en) k = var_value vs k.

Lemma Rel_nil : Rel [] [].
Proof. intro k. reflexivity. Qed.

Theorem step_refines : forall cfg vs en st toks x,
  stmt_pure st = true -> key_ok (st, toks) -> Rel vs en -> mstep cfg vs (st, toks) = Ok x ->
  step (spec_eval cfg) spec_value en st =
    (fst (step (spec_eval cfg) spec_value en st), Ok (fst x)) /\
  Rel (snd x) (fst (step (spec_eval cfg) spec_value en st)).
Proof.
  intros cfg vs en st toks [r vs'] Hp Hk HR H. destruct st as [n e|e]; cbn [stmt_pure mstep key_ok] in *.
  - rewrite (exec_assign cfg _ n toks e Hp) in H.
    assert (Hev : eval_pure cfg (var_value vs) e = spec_eval cfg (fun k => lookup k en) e).
    { unfold spec_eval. apply eval_pure_ext. intro k. symmetry. apply HR. }
    rewrite Hev in H. cbn [step fst snd].
    destruct (spec_eval cfg (fun k => lookup k en) e) as [[v|m]|st]; cbn [bind] in H; try discriminate;
      injection H as <- <-; cbn [spec_value].
    + split; [reflexivity|]. intro k. rewrite var_value_store, (written_key_coherent n toks vs (Hk vs)).
      unfold rho_of. cbn [lookup]. destruct (str_eqb k n); [reflexivity|]. apply HR.
    + split; [reflexivity|exact HR].
  - rewrite (exec_pure cfg e vs Hp) in H.
    assert (Hev : eval_pure cfg (var_value vs) e = spec_eval cfg (fun k => lookup k en) e).
    { unfold spec_eval. apply eval_pure_ext. intro k. symmetry. apply HR. }
    rewrite Hev in H. cbn [step fst snd].
    destruct (spec_eval cfg (fun k => lookup k en) e) as [r0|st]; cbn [bind] in H; try discriminate.
    injection H as <- <-. split; [reflexivity|exact HR].
Qed.

(* all programs: the model's results are those of the reference semantics, line by line, and
   the variables keep denoting the reference environment *)
Theorem refines : forall cfg p vs en outs vs',
  forallb (fun st => stmt_pure (fst st)) p = true -> Forall key_ok p -> Rel vs en ->
  mrun cfg vs p = Ok (outs, vs') ->
  snd (run (spec_eval cfg) spec_value en (map fst p)) = map Ok outs /\
  Rel vs' (fst (run (spec_eval cfg) spec_value en (map fst p))).
Proof.
  intros cfg p. induction p as [|[st toks] rest IH]; intros vs en outs vs' Hp Hk HR H.
  - cbn [mrun] in H. injection H as <- <-. split; [reflexivity|exact HR].
  - cbn [forallb fst] in Hp. apply andb_true_iff in Hp as [Hst Hrest].
    inversion Hk as [|? ? Hk1 Hk2]; subst.
    cbn [mrun] in H. destruct (mstep cfg vs (st, toks)) as [x|s1] eqn:E1; cbn [bind] in H; [|discriminate].
    destruct (mrun cfg (snd x) rest) as [[outs2 vs2]|s2] eqn:E2; cbn [bind] in H; [|discriminate].
    injection H as <- <-.
    destruct (step_refines cfg vs en st toks x Hst Hk1 HR E1) as [Hs HR1].
    cbn [map run fst]. rewrite Hs.
    destruct (IH (snd x) _ outs2 vs2 Hrest Hk2 HR1 E2) as [Ho HR2].
    destruct (run (spec_eval cfg) spec_value (fst (step (spec_eval cfg) spec_value en st)) (map fst rest))
      as [en2 rs] eqn:Er.
    cbn [fst snd] in *. split; [rewrite Ho; reflexivity|exact HR2].
Qed.

(* with the variables created by the interpreter the abstraction is exact: a name is bound in
   the session iff the reference environment binds it (no variable without a binding) *)
Definition RelDom (vs : vars F) (en : env (ast F)) : Prop :=
  forall k, lookup k en = value_of vs k.

Lemma RelDom_Rel vs en : RelDom vs en -> Rel vs en.
Proof. intros H k. unfold rho_of. rewrite H, var_value_value_of. reflexivity. Qed.

Theorem step_refines_exact : forall cfg vs en st toks x,
  stmt_pure st = true -> key_ok (st, toks) -> RelDom vs en -> mstep cfg vs (st, toks) = Ok x ->
  RelDom (snd x) (fst (step (spec_eval cfg) spec_value en st)).
Proof.
  intros cfg vs en st toks [r vs'] Hp Hk HR H.
  pose proof (RelDom_Rel _ _ HR) as HR0. destruct st as [n e|e]; cbn [stmt_pure mstep key_ok] in *.
  - rewrite (exec_assign cfg _ n toks e Hp) in H.
    assert (Hev : eval_pure cfg (var_value vs) e = spec_eval cfg (fun k => lookup k en) e).
    { unfold spec_eval. apply eval_pure_ext. intro k. symmetry. apply HR0. }
    rewrite Hev in H. cbn [step fst snd].
    destruct (spec_eval cfg (fun k => lookup k en) e) as [[v|m]|st]; cbn [bind] in H; try discriminate;
      injection H as <- <-; cbn [spec_value]; [|exact HR].
    intro k. unfold value_of, store. rewrite assoc_insert_lookup, (written_key_coherent n toks vs (Hk vs)).
    cbn [lookup]. destruct (str_eqb k n); [reflexivity|]. apply HR.
  - rewrite (exec_pure cfg e vs Hp) in H.
    destruct (eval_pure cfg (var_value vs) e) as [r0|st]; cbn [bind] in H; try discriminate.
    injection H as <- <-. exact HR.
Qed.

(* later lines see the latest binding: after any program the value a name denotes is that of
   the last assignment to it that evaluated (the initial one if there was none) *)
Theorem latest_binding : forall cfg p vs en outs vs' n,
  forallb (fun st => stmt_pure (fst st)) p = true -> Forall key_ok p -> Rel vs en ->
  mrun cfg vs p = Ok (outs, vs') ->
  var_value vs' n =
  match latest spec_value n (lookup n en) (combine (map fst p) (map Ok outs)) with
  | Some v => v | None => ANone end.
Proof.
  intros cfg p vs en outs vs' n Hp Hk HR H.
  destruct (refines cfg p vs en outs vs' Hp Hk HR H) as [Ho HR'].
  rewrite <- (HR' n). unfold rho_of. rewrite run_latest, Ho. reflexivity.
Qed.

(* ---- programs as the parser builds them: an assignment node always carries the key of its
   own name tokens (parsed_key_is_var_key, section 4.1), so [key_ok] holds by construction ---- *)
Inductive pline :=
| PAssign (toks : list (token F)) (e : ast F)
| PUse (e : ast F).

Definition pl_ast (vs : vars F) (l : pline) : ast F :=
  match l with PAssign toks e => AAssignment (var_key vs toks) toks e | PUse e => e end.

Definition pl_stmt (l : pline) : stmt (ast F) * list (token F) :=
  match l with PAssign toks e => (Assign (var_key [] toks) e, toks) | PUse e => (Use e, []) end.

Definition pl_pure (l : pline) : bool := match l with PAssign _ e => pure e | PUse e => pure e end.

Lemma pl_key_ok l : key_ok (pl_stmt l).
Proof. destruct l as [toks e|e]; cbn [pl_stmt key_ok]; [|exact I]. intro vs. apply var_key_irrel. Qed.

Lemma mstep_pl cfg vs l : mstep cfg vs (pl_stmt l) = execute_ast cfg vs (pl_ast vs l).
Proof. destruct l as [toks e|e]; cbn [pl_stmt mstep pl_ast]; [|reflexivity]. rewrite (var_key_irrel [] vs). reflexivity. Qed.

(* one line after the other, each evaluated as the parser's tree for it *)
Fixpoint prun (cfg : config F) (vs : vars F) (p : list pline) : res (list (@ires F) * vars F) :=
  match p with
  | [] => Ok ([], vs)
  | l :: rest =>
    do x <- execute_ast cfg vs (pl_ast vs l);
    do y <- prun cfg (snd x) rest;
    Ok (fst x :: fst y, snd y)
  end.

Lemma prun_mrun cfg : forall p vs, prun cfg vs p = mrun cfg vs (map pl_stmt p).
Proof.
  induction p as [|l rest IH]; intro vs; cbn [prun mrun map]; [reflexivity|].
  rewrite mstep_pl. destruct (execute_ast cfg vs (pl_ast vs l)) as [x|st]; cbn [bind]; [|reflexivity].
  rewrite IH. reflexivity.
Qed.

Definition pl_spec (p : list pline) : list (stmt (ast F)) := map (fun l => fst (pl_stmt l)) p.

Lemma pl_forallb p : forallb pl_pure p = true ->
  forallb (fun st => stmt_pure (fst st)) (map pl_stmt p) = true.
Proof.
  induction p as [|l rest IH]; intro H; [reflexivity|]. cbn [forallb map] in *.
  apply andb_true_iff in H as [H1 H2]. rewrite (IH H2), andb_true_r. destruct l; exact H1.
Qed.

Lemma pl_all_key_ok p : Forall key_ok (map pl_stmt p).
Proof. induction p as [|l rest IH]; constructor; [apply pl_key_ok|exact IH]. Qed.

Theorem refines_parsed : forall cfg p vs en outs vs',
  forallb pl_pure p = true -> Rel vs en -> prun cfg vs p = Ok (outs, vs') ->
  snd (run (spec_eval cfg) spec_value en (pl_spec p)) = map Ok outs /\
  Rel vs' (fst (run (spec_eval cfg) spec_value en (pl_spec p))).
Proof.
  intros cfg p vs en outs vs' Hp HR H. rewrite prun_mrun in H.
  pose proof (refines cfg (map pl_stmt p) vs en outs vs' (pl_forallb p Hp) (pl_all_key_ok p) HR H) as R.
  unfold pl_spec. rewrite map_map in R. exact R.
Qed.

Theorem refines_exact_parsed : forall cfg vs en l x,
  pl_pure l = true -> RelDom vs en -> execute_ast cfg vs (pl_ast vs l) = Ok x ->
  RelDom (snd x) (fst (step (spec_eval cfg) spec_value en (fst (pl_stmt l)))).
Proof.
  intros cfg vs en l x Hp HR H. rewrite <- mstep_pl in H.
  destruct (pl_stmt l) as [st toks] eqn:E. cbn [fst].
  apply (step_refines_exact cfg vs en st toks x); try assumption.
  - destruct l; injection E as <- _; exact Hp.
  - rewrite <- E. apply pl_key_ok.
Qed.

Theorem latest_binding_parsed : forall cfg p vs en outs vs' n,
  forallb pl_pure p = true -> Rel vs en -> prun cfg vs p = Ok (outs, vs') ->
  var_value vs' n =
  match latest spec_value n (lookup n en) (combine (pl_spec p) (map Ok outs)) with
  | Some v => v | None => ANone end.
Proof.
  intros cfg p vs en outs vs' n Hp HR H. rewrite prun_mrun in H.
  pose proof (latest_binding cfg (map pl_stmt p) vs en outs vs' n (pl_forallb p Hp) (pl_all_key_ok p) HR H) as R.
  unfold pl_spec. rewrite map_map in R. exact R.
Qed.

(* ================================================================== *)
(* 4. Names                                                            *)
(* ================================================================== *)

(* ---- 4.1 several words: `w1 .. wn = e` assigns the key "lower(w1) lower(w2) .. lower(wn)"
   (joined by ONE space) and the node carries the name tokens ---- *)
Definition name_toks (ws : list str) : list (token F) := map (@TText F) ws.
Definition key_tail (ws : list str) : str := flat_map (fun w => 32%N :: to_lowercase w) ws.
Definition name_key (ws : list str) : str :=
  match ws with [] => [] | w :: r => to_lowercase w ++ key_tail r end.
Definition massign_toks (ws : list str) (e : expr F) : list (token F) :=
  name_toks ws ++ TOperator OP_EQ :: toks_of e.

Lemma nth_opt_app_here {A} (pre : list A) x r : nth_opt (pre ++ x :: r) (length pre) = Some x.
Proof. induction pre as [|y pre IH]; [reflexivity|exact IH]. Qed.

Lemma name_loop : forall (ws : list str) (pre : list (token F)) rhs vs idx fuel name,
  length pre = S idx -> length ws < fuel ->
  assign_name_loop fuel (pre ++ name_toks ws ++ TOperator OP_EQ :: rhs) vs idx name =
  (S (S (idx + length ws)), name ++ key_tail ws).
Proof.
  induction ws as [|w ws IH]; intros pre rhs vs idx fuel name Hpre Hf;
    (destruct fuel as [|fuel]; [cbn [length] in Hf; lia|]); cbn [assign_name_loop name_toks map app].
  - rewrite <- Hpre, nth_opt_app_here. cbn [N.eqb OP_EQ Pos.eqb]. rewrite Hpre.
    cbn [key_tail flat_map length]. rewrite app_nil_r, Nat.add_0_r. reflexivity.
  - rewrite <- Hpre, nth_opt_app_here. rewrite Hpre.
    change (pre ++ TText w :: map (@TText F) ws ++ TOperator OP_EQ :: rhs)
      with (pre ++ [TText w] ++ name_toks ws ++ TOperator OP_EQ :: rhs).
    rewrite app_assoc. rewrite IH.
    + cbn [token_to_string key_tail flat_map length]. fold (key_tail ws).
      rewrite <- app_assoc. cbn [app]. f_equal. lia.
    + rewrite app_length. cbn [length]. lia.
    + cbn [length] in Hf. lia.
Qed.

Lemma find_eq_name_toks : forall (ws : list str) (rhs : list (token F)),
  find_index (is_op OP_EQ) (name_toks ws ++ TOperator OP_EQ :: rhs) = Some (length ws).
Proof.
  induction ws as [|w ws IH]; intro rhs; [reflexivity|].
  cbn [name_toks map app find_index is_op]. fold (name_toks ws). rewrite IH. reflexivity.
Qed.

Theorem multiword_assign_parse : forall vs w ws (e : expr F), wf e = true ->
  parse (massign_toks (w :: ws) e) vs =
  (PAst (AAssignment (name_key (w :: ws)) (name_toks (w :: ws)) (ast_of e)), vs).
Proof.
  intros vs w ws e Hwf. unfold parse, parse_assignment, massign_toks.
  rewrite find_eq_name_toks. cbv iota beta.
  cbn [name_toks map app nth_opt]. cbv iota beta.
  pose proof (name_loop ws [TText w] (toks_of e) vs 0
                (S (length (TText w :: map (@TText F) ws ++ TOperator OP_EQ :: toks_of e)))
                (to_lowercase (token_to_string vs (TText w))) eq_refl) as Hl.
  cbn [app name_toks] in Hl. unfold name_toks in Hl. rewrite Hl; clear Hl.
  2:{ cbn [length]. rewrite app_length, map_length. lia. }
  cbv iota beta. cbn [Nat.pred Nat.add token_to_string].
  change (TText w :: map (@TText F) ws ++ TOperator OP_EQ :: toks_of e)
    with ((TText w :: map (@TText F) ws) ++ TOperator OP_EQ :: toks_of e).
  assert (Hlen : length (TText w :: map (@TText F) ws) = S (length ws))
    by (cbn [length]; rewrite map_length; reflexivity).
  assert (Hsk : skipn (S (S (length ws))) ((TText w :: map (@TText F) ws) ++ TOperator OP_EQ :: toks_of e)
                = toks_of e).
  { rewrite skipn_app, Hlen. rewrite skipn_all2 by lia.
    replace (S (S (length ws)) - S (length ws)) with 1 by lia. reflexivity. }
  assert (Hfi : firstn (S (length ws)) ((TText w :: map (@TText F) ws) ++ TOperator OP_EQ :: toks_of e)
                = TText w :: map (@TText F) ws).
  { rewrite <- Hlen at 1. rewrite firstn_app, firstn_all, Nat.sub_diag. cbn [firstn]. apply app_nil_r. }
  rewrite Hsk, Hfi.
  pose proof (c02_parse_level_suffix e []
     (parse_fuel ((TText w :: map (@TText F) ws) ++ TOperator OP_EQ :: toks_of e)) Hwf eq_refl) as Hp.
  rewrite app_nil_r in Hp. rewrite Hp.
  2:{ unfold parse_fuel. rewrite app_length. cbn [length]. lia. }
  pose proof (ast_of_not_none e) as Hn.
  unfold name_key. destruct (ast_of e); try congruence; reflexivity.
Qed.

(* the bridge between the two keys: the key the parser looks up (assign_name_loop over the
   tokens up to the first '=') IS the key the interpreter stores under (var_key of those
   tokens), for EVERY name, operator tokens included *)
Definition no_eq (ts : list (token F)) : Prop := Forall (fun t => is_op OP_EQ t = false) ts.

Lemma name_loop_gen : forall (ts : list (token F)) (pre : list (token F)) rhs vs idx fuel name,
  no_eq ts -> length pre = S idx -> length ts < fuel ->
  assign_name_loop fuel (pre ++ ts ++ TOperator OP_EQ :: rhs) vs idx name =
  (S (S (idx + length ts)),
   fold_left (fun acc t' => acc ++ 32%N :: to_lowercase (token_to_string vs t')) ts name).
Proof.
  induction ts as [|t ts IH]; intros pre rhs vs idx fuel name Hno Hpre Hf;
    (destruct fuel as [|fuel]; [cbn [length] in Hf; lia|]); cbn [assign_name_loop app].
  - rewrite <- Hpre, nth_opt_app_here. cbn [N.eqb OP_EQ Pos.eqb]. rewrite Hpre.
    cbn [fold_left length]. rewrite Nat.add_0_r. reflexivity.
  - rewrite <- Hpre, nth_opt_app_here. rewrite Hpre.
    inversion Hno as [|? ? Ht Hts]; subst.
    change (pre ++ t :: ts ++ TOperator OP_EQ :: rhs) with (pre ++ [t] ++ ts ++ TOperator OP_EQ :: rhs).
    rewrite app_assoc.
    assert (Hstep : forall nm, assign_name_loop fuel ((pre ++ [t]) ++ ts ++ TOperator OP_EQ :: rhs) vs (S idx) nm =
              (S (S (S idx + length ts)),
               fold_left (fun acc t' => acc ++ 32%N :: to_lowercase (token_to_string vs t')) ts nm)).
    { intro nm. apply IH; [exact Hts|rewrite app_length; cbn [length]; lia|cbn [length] in Hf; lia]. }
    cbn [fold_left length].
    replace (S (S (idx + S (length ts)))) with (S (S (S idx + length ts))) by lia.
    destruct t; try apply Hstep.
    cbn [is_op] in Ht. rewrite N.eqb_sym in Ht. rewrite Ht. apply Hstep.
Qed.

(* no '=' at all after the first token: the loop runs to the end of the tokens *)
Lemma name_loop_noeq : forall (ts : list (token F)) (pre : list (token F)) vs idx fuel name,
  no_eq ts -> length pre = S idx -> length ts < fuel ->
  fst (assign_name_loop fuel (pre ++ ts) vs idx name) = S idx + length ts.
Proof.
  induction ts as [|t ts IH]; intros pre vs idx fuel name Hno Hpre Hf;
    (destruct fuel as [|fuel]; [cbn [length] in Hf; lia|]); cbn [assign_name_loop].
  - rewrite app_nil_r.
    assert (Hn : nth_opt pre (S idx) = None).
    { rewrite <- Hpre. clear. induction pre as [|x pre IH]; [reflexivity|exact IH]. }
    rewrite Hn. cbn [fst length]. lia.
  - rewrite <- Hpre, nth_opt_app_here. rewrite Hpre.
    inversion Hno as [|? ? Ht Hts]; subst.
    change (pre ++ t :: ts) with (pre ++ [t] ++ ts). rewrite app_assoc.
    assert (Hstep : forall nm, fst (assign_name_loop fuel ((pre ++ [t]) ++ ts) vs (S idx) nm) = S (S idx) + length ts).
    { intro nm. apply IH; [exact Hts|rewrite app_length; cbn [length]; lia|cbn [length] in Hf; lia]. }
    cbn [length]. replace (S idx + S (length ts)) with (S (S idx) + length ts) by lia.
    destruct t; try apply Hstep.
    cbn [is_op] in Ht. rewrite N.eqb_sym in Ht. rewrite Ht. apply Hstep.
Qed.

Lemma split_first_eq : forall rest : list (token F),
  (exists ts rhs, rest = ts ++ TOperator OP_EQ :: rhs /\ no_eq ts) \/ no_eq rest.
Proof.
  induction rest as [|t r IH]; [right; constructor|].
  destruct (is_op OP_EQ t) eqn:E.
  - left. exists [], r. split; [|constructor].
    destruct t; cbn [is_op] in E; try discriminate. apply N.eqb_eq in E. subst. reflexivity.
  - destruct IH as [(ts & rhs & -> & Hno)|Hno].
    + left. exists (t :: ts), rhs. split; [reflexivity|constructor; assumption].
    + right. constructor; assumption.
Qed.

Lemma parse_level_nil f : 7 <= f -> parse_level f LAddSub (@nil (token F)) = (PErr E_NO_MORE, []).
Proof.
  intro H. do 7 (destruct f as [|f]; [lia|]). reflexivity.
Qed.

Theorem lookup_key_is_var_key : forall (t0 : token F) ts rhs vs,
  no_eq ts ->
  assign_name_loop (S (length (t0 :: ts ++ TOperator OP_EQ :: rhs))) (t0 :: ts ++ TOperator OP_EQ :: rhs) vs 0
                   (to_lowercase (token_to_string vs t0)) =
  (S (S (length ts)), var_key vs (t0 :: ts)).
Proof.
  intros t0 ts rhs vs Hno.
  pose proof (name_loop_gen ts [t0] rhs vs 0 (S (length (t0 :: ts ++ TOperator OP_EQ :: rhs)))
                (to_lowercase (token_to_string vs t0)) Hno eq_refl) as H.
  cbn [app Nat.add] in H. rewrite H; [reflexivity|]. cbn [length]. rewrite app_length. lia.
Qed.

Lemma fold_key_tail : forall (ws : list str) (vs : vars F) acc,
  fold_left (fun acc t' => acc ++ 32%N :: to_lowercase (token_to_string vs t')) (name_toks ws) acc
  = acc ++ key_tail ws.
Proof.
  induction ws as [|w ws IH]; intros vs acc; cbn [name_toks map fold_left key_tail flat_map].
  - rewrite app_nil_r. reflexivity.
  - fold (name_toks ws). rewrite IH. cbn [token_to_string]. fold (key_tail ws).
    rewrite <- app_assoc. reflexivity.
Qed.

(* word names: both keys are the space-joined lower-cased words *)
Theorem var_key_name_toks : forall (vs : vars F) ws, var_key vs (name_toks ws) = name_key ws.
Proof.
  intros vs [|w ws]; [reflexivity|]. cbn [name_toks map var_key name_key]. fold (name_toks ws).
  rewrite fold_key_tail. reflexivity.
Qed.

Lemma name_toks_no_eq ws : no_eq (name_toks ws).
Proof. induction ws as [|w ws IH]; constructor; [reflexivity|exact IH]. Qed.

(* for EVERY token list: whenever the parser builds an assignment node, its key is var_key of
   the name tokens it carries; hence the interpreter always writes the key it looked up *)
Theorem parsed_key_is_var_key : forall (tokens : list (token F)) vs name toks e vs',
  parse tokens vs = (PAst (AAssignment name toks e), vs') -> name = var_key vs toks.
Proof.
  intros tokens vs name toks e vs' H. unfold parse, parse_assignment in H.
  assert (Hplain : forall rest v0,
             (fst (parse_level (parse_fuel tokens) LAddSub rest), v0) = (PAst (AAssignment name toks e), vs') -> False).
  { intros rest v0 E. injection E as E _.
    destruct (parse_level (parse_fuel tokens) LAddSub rest) as [r i] eqn:Ep. cbn [fst] in E. subst r.
    pose proof (parse_level_pure _ _ _ _ _ Ep) as Hp. discriminate. }
  destruct (find_index (is_op OP_EQ) tokens) as [k|]; [|exfalso; exact (Hplain _ _ H)].
  destruct tokens as [|t0 rest]; [exfalso; exact (Hplain _ _ H)|]. cbn [nth_opt] in H.
  destruct (split_first_eq rest) as [(ts & rhs & -> & Hno)|Hno].
  - rewrite (lookup_key_is_var_key t0 ts rhs vs Hno) in H. cbv iota beta in H. cbn [Nat.pred] in H.
    assert (Hfi : firstn (S (length ts)) (t0 :: ts ++ TOperator OP_EQ :: rhs) = t0 :: ts).
    { cbn [firstn]. f_equal. rewrite firstn_app, firstn_all, Nat.sub_diag. cbn [firstn]. apply app_nil_r. }
    rewrite Hfi in H.
    destruct (parse_level (parse_fuel (t0 :: ts ++ TOperator OP_EQ :: rhs)) LAddSub
                          (skipn (S (S (length ts))) (t0 :: ts ++ TOperator OP_EQ :: rhs))) as [[a|m|] i].
    + destruct a; try (injection H as <- <- _ _; reflexivity); try discriminate.
      exfalso. exact (Hplain _ _ H).
    + discriminate.
    + discriminate.
  - destruct (assign_name_loop (S (length (t0 :: rest))) (t0 :: rest) vs 0 (to_lowercase (token_to_string vs t0)))
      as [idx nm] eqn:El.
    pose proof (name_loop_noeq rest [t0] vs 0 (S (length (t0 :: rest))) (to_lowercase (token_to_string vs t0))
                  Hno eq_refl) as Hi.
    cbn [app] in Hi. rewrite El in Hi. cbn [fst] in Hi. rewrite Hi in H by (cbn [length]; lia).
    replace (skipn (1 + length rest) (t0 :: rest)) with (@nil (token F)) in H
      by (symmetry; apply skipn_all2; cbn [length]; lia).
    rewrite parse_level_nil in H by (unfold parse_fuel; lia). discriminate.
Qed.

(* hence a word-name assignment writes exactly the key it is looked up under *)
Theorem word_name_written_key : forall (vs : vars F) ws,
  written_key (name_key ws) (name_toks ws) vs = name_key ws.
Proof. intros vs ws. apply written_key_coherent, var_key_name_toks. Qed.

(* the written key of a parsed assignment is always the key it was looked up under *)
Theorem parsed_written_key : forall (tokens : list (token F)) vs name toks e vs',
  parse tokens vs = (PAst (AAssignment name toks e), vs') -> forall vs0, written_key name toks vs0 = name.
Proof.
  intros tokens vs name toks e vs' H vs0. apply written_key_coherent.
  rewrite (parsed_key_is_var_key _ _ _ _ _ _ H). apply var_key_irrel.
Qed.

(* ---- 4.1b distinct names never share a variable: the key determines the lower-cased words
   (words are texts without a space) ---- *)
Definition nosp (x : str) : Prop := ~ In 32%N x.

Lemma key_tail_shape ws : key_tail ws = [] \/ exists t, key_tail ws = 32%N :: t.
Proof. destruct ws as [|w r]; [left; reflexivity|right; eexists; reflexivity]. Qed.

Lemma split_at_space : forall (a a' r r' : str),
  nosp a -> nosp a' ->
  (r = [] \/ exists t, r = 32%N :: t) -> (r' = [] \/ exists t, r' = 32%N :: t) ->
  a ++ r = a' ++ r' -> a = a' /\ r = r'.
Proof.
  unfold nosp. induction a as [|c a IH]; intros [|c' a'] r r' Ha Ha' Hr Hr' E; cbn [app] in E.
  - split; [reflexivity|exact E].
  - exfalso. destruct Hr as [->|[t ->]]; [discriminate|]. injection E as <- _. apply Ha'. left. reflexivity.
  - exfalso. destruct Hr' as [->|[t ->]]; [discriminate|]. injection E as -> _. apply Ha. left. reflexivity.
  - injection E as -> E.
    destruct (IH a' r r') as [-> ->]; auto.
    + intro H. apply Ha. right. exact H.
    + intro H. apply Ha'. right. exact H.
Qed.

Lemma key_tail_inj : forall ws ws',
  Forall (fun w => nosp (to_lowercase w)) ws -> Forall (fun w => nosp (to_lowercase w)) ws' ->
  key_tail ws = key_tail ws' -> map to_lowercase ws = map to_lowercase ws'.
Proof.
  induction ws as [|w ws IH]; intros [|w' ws'] H H' E; cbn [key_tail flat_map app] in E;
    try discriminate; [reflexivity|].
  fold (key_tail ws) in E. fold (key_tail ws') in E. injection E as E.
  inversion H as [|? ? Hw Hws]; inversion H' as [|? ? Hw' Hws']; subst.
  destruct (split_at_space _ _ _ _ Hw Hw' (key_tail_shape ws) (key_tail_shape ws') E) as [E1 E2].
  cbn [map]. rewrite E1, (IH ws' Hws Hws' E2). reflexivity.
Qed.

Theorem name_key_injective : forall w ws w' ws',
  Forall (fun x => nosp (to_lowercase x)) (w :: ws) ->
  Forall (fun x => nosp (to_lowercase x)) (w' :: ws') ->
  name_key (w :: ws) = name_key (w' :: ws') ->
  map to_lowercase (w :: ws) = map to_lowercase (w' :: ws').
Proof.
  intros w ws w' ws' H H' E. cbn [name_key] in E.
  inversion H as [|? ? Hw Hws]; inversion H' as [|? ? Hw' Hws']; subst.
  destruct (split_at_space _ _ _ _ Hw Hw' (key_tail_shape ws) (key_tail_shape ws') E) as [E1 E2].
  cbn [map]. rewrite E1, (key_tail_inj ws ws' Hws Hws' E2). reflexivity.
Qed.

(* lower-casing never produces a space: ASCII by case analysis, the rest by a check of the
   regenerated Unicode table *)
Lemma lower_char_nosp (c : N) : c <> 32%N -> ~ In 32%N (lower_char c).
Proof.
  intros Hc. unfold lower_char. destruct (N.ltb c 128) eqn:E.
  - destruct (andb (N.leb 65 c) (N.leb c 90)) eqn:E2.
    + apply andb_true_iff in E2 as [H1 H2]. apply N.leb_le in H1. intros [H|[]]. lia.
    + intros [H|[]]. congruence.
  - assert (Htab : forallb (fun kv => negb (existsb (N.eqb 32) (snd kv))) UnicodeTables.lower_table = true)
      by (vm_compute; reflexivity).
    destruct (nlookup c UnicodeTables.lower_table) as [v|] eqn:El.
    + assert (Hin : In (c, v) UnicodeTables.lower_table).
      { clear Htab. revert El. induction UnicodeTables.lower_table as [|[k0 v0] r IH]; cbn [nlookup]; [discriminate|].
        destruct (N.eqb c k0) eqn:Ek.
        - apply N.eqb_eq in Ek. subst. intro H. injection H as ->. left. reflexivity.
        - destruct (N.ltb c k0); [discriminate|]. intro H. right. apply IH, H. }
      rewrite forallb_forall in Htab. specialize (Htab _ Hin). cbn [snd] in Htab.
      intro H32. apply negb_true_iff in Htab.
      assert (existsb (N.eqb 32) v = true) by (apply existsb_exists; exists 32%N; split; [exact H32|reflexivity]).
      congruence.
    + intros [H|[]]. congruence.
Qed.

Lemma to_lowercase_nosp (x : str) : nosp x -> nosp (to_lowercase x).
Proof.
  unfold nosp, to_lowercase. induction x as [|c x IH]; intro H; cbn [flat_map]; [exact H|].
  intro Hin. apply in_app_or in Hin as [Hin|Hin].
  - apply (lower_char_nosp c); [|exact Hin]. intro E. apply H. left. exact E.
  - apply IH; [|exact Hin]. intro H2. apply H. right. exact H2.
Qed.

(* two names (non-empty word lists, no space inside a word) with the same key are the same
   name up to letter case *)
Theorem distinct_names_distinct_keys : forall w ws w' ws',
  Forall nosp (w :: ws) -> Forall nosp (w' :: ws') ->
  name_key (w :: ws) = name_key (w' :: ws') ->
  map to_lowercase (w :: ws) = map to_lowercase (w' :: ws').
Proof.
  intros w ws w' ws' H H'. apply name_key_injective;
    (eapply Forall_impl; [|eassumption]); intros a Ha; apply to_lowercase_nosp, Ha.
Qed.

(* ---- 4.2 letter case: the key is lower-cased, and token comparison is case-insensitive on
   both sides, so neither the case of the definition nor that of the use matters ---- *)
Theorem name_key_ci : forall ws ws',
  map to_lowercase ws = map to_lowercase ws' -> name_key ws = name_key ws'.
Proof.
  assert (Ht : forall ws ws', map to_lowercase ws = map to_lowercase ws' -> key_tail ws = key_tail ws').
  { induction ws as [|w ws IH]; intros [|w' ws'] H; cbn [map] in H; try discriminate; [reflexivity|].
    injection H as H1 H2. cbn [key_tail flat_map]. fold (key_tail ws). fold (key_tail ws').
    rewrite H1, (IH ws' H2). reflexivity. }
  intros [|w ws] [|w' ws'] H; cbn [map] in H; try discriminate; [reflexivity|].
  injection H as H1 H2. cbn [name_key]. rewrite H1, (Ht ws ws' H2). reflexivity.
Qed.

Lemma ci_eqb_lower_r x a a' : to_lowercase a = to_lowercase a' -> ci_eqb x a = ci_eqb x a'.
Proof. intro H. unfold ci_eqb. rewrite H. reflexivity. Qed.

Lemma ci_eqb_lower_l x a a' : to_lowercase a = to_lowercase a' -> ci_eqb a x = ci_eqb a' x.
Proof. intro H. unfold ci_eqb. rewrite H. reflexivity. Qed.

Lemma field_compare_ci a a' f : to_lowercase a = to_lowercase a' ->
  token_field_compare (@TText F a) f = token_field_compare (@TText F a') f.
Proof.
  intro H. destruct f; cbn [token_field_compare]; try reflexivity.
  - destruct expected as [v|]; cbn [opt_expected]; [apply ci_eqb_lower_r, H|reflexivity].
  - induction items as [|it r IH]; cbn [existsb]; [reflexivity|].
    rewrite IH, (ci_eqb_lower_r it a a' H). reflexivity.
Qed.

(* the use side: a token written in another letter case compares equal to whatever the
   original compares equal to *)
Theorem use_case_irrelevant : forall (ti : token_info F) a a' (p : token F),
  ti_ty ti = Some (TText a) -> to_lowercase a = to_lowercase a' ->
  info_eq_token (set_type ti (Some (TText a'))) p = info_eq_token ti p.
Proof.
  intros ti a a' p Hty H. unfold info_eq_token. rewrite Hty. cbn [set_type ti_ty].
  destruct p; cbn [token_match]; try reflexivity.
  - symmetry. apply ci_eqb_lower_l, H.
  - symmetry. apply field_compare_ci, H.
Qed.

(* the definition side: the letter case of the recorded name tokens is irrelevant *)
Theorem definition_case_irrelevant : forall (ti : token_info F) b b',
  to_lowercase b = to_lowercase b' ->
  info_eq_token ti (TText b) = info_eq_token ti (TText b').
Proof.
  intros ti b b' H. unfold info_eq_token. destruct (ti_ty ti) as [l|]; [|reflexivity].
  destruct l; cbn [token_match]; try reflexivity.
  - apply ci_eqb_lower_r, H.
  - apply field_compare_ci, H.
Qed.

Theorem text_tokens_match_ci : forall (ti : token_info F) a b,
  ti_ty ti = Some (TText a) -> to_lowercase a = to_lowercase b -> info_eq_token ti (TText b) = true.
Proof.
  intros ti a b Hty H. unfold info_eq_token. rewrite Hty. cbn [token_match]. unfold ci_eqb.
  rewrite H. apply str_eqb_refl.
Qed.

(* find_location and pick_variable see the tokens of a line only through info_eq_token *)
Definition same_matches (t t' : token_info F) : Prop := forall p, info_eq_token t p = info_eq_token t' p.

Lemma prefix_match_congr : forall (ts ts' : list (token_info F)) pat,
  Forall2 same_matches ts ts' -> prefix_match ts pat = prefix_match ts' pat.
Proof.
  intros ts ts' pat H. revert pat. induction H as [|t t' r r' Ht Hr IH]; intros [|p pr]; cbn [prefix_match];
    try reflexivity.
  rewrite (Ht p), IH. reflexivity.
Qed.

Lemma find_location_from_congr : forall (ts ts' : list (token_info F)) pat start,
  Forall2 same_matches ts ts' -> find_location_from ts pat start = find_location_from ts' pat start.
Proof.
  intros ts ts' pat start H. revert start. induction H as [|t t' r r' Ht Hr IH]; intro start;
    cbn [find_location_from]; [reflexivity|].
  rewrite (prefix_match_congr (t :: r) (t' :: r') pat) by (constructor; assumption).
  rewrite IH. reflexivity.
Qed.

Lemma find_location_congr : forall (ts ts' : list (token_info F)) pat,
  Forall2 same_matches ts ts' -> find_location ts pat = find_location ts' pat.
Proof.
  intros ts ts' pat H. unfold find_location. destruct pat as [|p pr].
  - destruct H; reflexivity.
  - rewrite (find_location_from_congr ts ts' _ 0 H). reflexivity.
Qed.

Theorem pick_variable_congr : forall (vs : vars F) (ts ts' : list (token_info F)) best,
  Forall2 same_matches ts ts' -> pick_variable vs ts best = pick_variable vs ts' best.
Proof.
  intros vs ts ts' best H. revert best. induction vs as [|[name vi] rest IH]; intro best;
    cbn [pick_variable]; [reflexivity|].
  rewrite (find_location_congr ts ts' _ H).
  destruct (find_location ts' (v_tokens vi)) as [loc|st]; cbn [bind]; [apply IH|reflexivity].
Qed.

(* a line and the same line in another letter case *)
Inductive recased : token_info F -> token_info F -> Prop :=
| rc_same t : recased t t
| rc_text t a a' : ti_ty t = Some (TText a) -> to_lowercase a = to_lowercase a' ->
                   recased t (set_type t (Some (TText a'))).

Theorem case_insensitive_use : forall (vs : vars F) (ts ts' : list (token_info F)) best,
  Forall2 recased ts ts' -> pick_variable vs ts best = pick_variable vs ts' best.
Proof.
  intros vs ts ts' best H. apply pick_variable_congr.
  induction H as [|t t' r r' Ht Hr IH]; constructor; [|exact IH].
  destruct Ht as [t|t a a' Hty Hlow]; intro p; [reflexivity|].
  symmetry. apply (use_case_irrelevant t a a' p Hty Hlow).
Qed.

(* ---- 4.3 closest, then longest ---- *)
(* (st, sz) is at least as good a match as (st', sz'): it starts earlier, or at the same place
   and is at least as long *)
Definition at_least (st sz st' sz' : nat) : Prop := st < st' \/ (st = st' /\ sz' <= sz).

Definition upd (best : option (nat * str * nat)) (loc : option nat) (name : str) (len : nat) :=
  match loc with
  | None => best
  | Some start =>
    match best with
    | None => Some (start, name, len)
    | Some (cstart, _, csize) =>
      if (Nat.eqb start cstart && Nat.ltb csize len) || Nat.ltb start cstart
      then Some (start, name, len) else best
    end
  end.

Lemma upd_spec best loc name len :
  (forall st n sz, best = Some (st, n, sz) ->
     exists st0 n0 sz0, upd best loc name len = Some (st0, n0, sz0) /\ at_least st0 sz0 st sz) /\
  (forall st, loc = Some st ->
     exists st0 n0 sz0, upd best loc name len = Some (st0, n0, sz0) /\ at_least st0 sz0 st len) /\
  (upd best loc name len = best \/ exists st, loc = Some st /\ upd best loc name len = Some (st, name, len)).
Proof.
  unfold upd, at_least. destruct loc as [start|]; [destruct best as [[[cs cn] csz]|]|].
  - destruct (Nat.eqb_spec start cs); destruct (Nat.ltb_spec csz len); destruct (Nat.ltb_spec start cs);
      cbn [andb orb]; (split; [|split]);
      try (intros st n0 sz0 E; injection E as <- <- <-);
      try (intros st E; injection E as <-);
      try (left; reflexivity); try (right; eexists; split; reflexivity);
      do 3 eexists; (split; [reflexivity|lia]).
  - split; [|split].
    + intros; discriminate.
    + intros st E. injection E as <-. do 3 eexists. split; [reflexivity|lia].
    + right. eexists. split; reflexivity.
  - split; [|split].
    + intros st n sz E. do 3 eexists. split; [exact E|lia].
    + intros; discriminate.
    + left. reflexivity.
Qed.

Lemma at_least_trans a b c d e f : at_least a b c d -> at_least c d e f -> at_least a b e f.
Proof. unfold at_least. lia. Qed.

Lemma pick_variable_cons name vi (rest : vars F) tail best :
  pick_variable ((name, vi) :: rest) tail best =
  do loc <- find_location tail (v_tokens vi);
  pick_variable rest tail (upd best loc name (length (v_tokens vi))).
Proof. reflexivity. Qed.

(* for all variable lists: the chosen variable matches, and it is at least as good as every
   variable that matches: none starts earlier, and none starting at the same place is longer *)
Theorem pick_variable_best : forall (vs : vars F) tail best r,
  pick_variable vs tail best = Ok r ->
  (forall st n sz, best = Some (st, n, sz) ->
     exists st0 n0 sz0, r = Some (st0, n0, sz0) /\ at_least st0 sz0 st sz) /\
  (forall name vi st, In (name, vi) vs -> find_location tail (v_tokens vi) = Ok (Some st) ->
     exists st0 n0 sz0, r = Some (st0, n0, sz0) /\ at_least st0 sz0 st (length (v_tokens vi))) /\
  (r = best \/ exists name vi st, In (name, vi) vs /\ find_location tail (v_tokens vi) = Ok (Some st) /\
                                  r = Some (st, name, length (v_tokens vi))).
Proof.
  induction vs as [|[name vi] rest IH]; intros tail best r H.
  - cbn [pick_variable] in H. injection H as <-. split; [|split].
    + intros st n sz E. do 3 eexists. split; [exact E|unfold at_least; lia].
    + intros name vi st [].
    + left. reflexivity.
  - rewrite pick_variable_cons in H.
    destruct (find_location tail (v_tokens vi)) as [loc|s0] eqn:E; cbn [bind] in H; [|discriminate].
    destruct (IH tail _ r H) as (H1 & H2 & H3).
    destruct (upd_spec best loc name (length (v_tokens vi))) as (U1 & U2 & U3).
    split; [|split].
    + intros st n sz Eb. destruct (U1 st n sz Eb) as (a & b & c & Eu & Hal).
      destruct (H1 a b c Eu) as (a' & b' & c' & Er & Hal'). do 3 eexists. split; [exact Er|].
      eapply at_least_trans; eassumption.
    + intros name' vi' st [Hin|Hin] Hf.
      * injection Hin as <- <-. rewrite E in Hf. injection Hf as ->.
        destruct (U2 st eq_refl) as (a & b & c & Eu & Hal).
        destruct (H1 a b c Eu) as (a' & b' & c' & Er & Hal'). do 3 eexists. split; [exact Er|].
        eapply at_least_trans; eassumption.
      * exact (H2 name' vi' st Hin Hf).
    + destruct H3 as [H3|(n' & v' & st & Hin & Hf & Er)].
      * destruct U3 as [U3|(st & El & Eu)].
        -- left. congruence.
        -- right. exists name, vi, st. split; [left; reflexivity|]. split; [rewrite E, El; reflexivity|congruence].
      * right. exists n', v', st. split; [right; exact Hin|]. split; assumption.
Qed.

(* ---- 4.4 find_location: the least index at which the whole name matches ---- *)
(* [occurs_at tokens pat k]: the whole pattern matches the tokens from index k on *)
Definition occurs_at (tokens : list (token_info F)) (pat : list (token F)) (k : nat) : Prop :=
  prefix_match (skipn k tokens) pat = true.

Lemma find_from_some : forall (tokens : list (token_info F)) pat s r,
  find_location_from tokens pat s = Some r ->
  exists k, r = s + k /\ occurs_at tokens pat k /\ forall j, j < k -> ~ occurs_at tokens pat j.
Proof.
  unfold occurs_at. induction tokens as [|t rest IH]; intros pat s r H; cbn [find_location_from] in H; [discriminate|].
  destruct (prefix_match (t :: rest) pat) eqn:E.
  - injection H as <-. exists 0. split; [lia|]. split; [exact E|]. intros j Hj. lia.
  - destruct (IH pat (S s) r H) as (k & -> & Hk & Hmin). exists (S k). split; [lia|]. split; [exact Hk|].
    intros [|j] Hj; cbn [skipn]; [rewrite E; discriminate|]. apply Hmin. lia.
Qed.

Lemma find_from_none : forall (tokens : list (token_info F)) pat s,
  find_location_from tokens pat s = None -> forall j, j < length tokens -> ~ occurs_at tokens pat j.
Proof.
  unfold occurs_at. induction tokens as [|t rest IH]; intros pat s H j Hj; cbn [length] in Hj; [lia|].
  cbn [find_location_from] in H. destruct (prefix_match (t :: rest) pat) eqn:E; [discriminate|].
  destruct j as [|j]; cbn [skipn]; [rewrite E; discriminate|]. apply (IH pat (S s) H). lia.
Qed.

Lemma occurs_in_range (tokens : list (token_info F)) p0 pat k :
  occurs_at tokens (p0 :: pat) k -> k < length tokens.
Proof.
  unfold occurs_at. intro H. destruct (Nat.lt_ge_cases k (length tokens)) as [Hl|Hg]; [exact Hl|].
  rewrite skipn_all2 in H by exact Hg. discriminate.
Qed.

(* soundness and completeness: Some k iff k is the least index where the whole name matches *)
Theorem find_location_some_iff : forall (tokens : list (token_info F)) p0 pat k,
  find_location tokens (p0 :: pat) = Ok (Some k) <->
  (occurs_at tokens (p0 :: pat) k /\ forall j, j < k -> ~ occurs_at tokens (p0 :: pat) j).
Proof.
  intros tokens p0 pat k. unfold find_location. split.
  - intro H. injection H as H. destruct (find_from_some _ _ _ _ H) as (k' & -> & Hk & Hmin).
    split; assumption.
  - intros [Hk Hmin]. f_equal.
    destruct (find_location_from tokens (p0 :: pat) 0) as [r|] eqn:E.
    + destruct (find_from_some _ _ _ _ E) as (k' & -> & Hk' & Hmin'). cbn [Nat.add]. f_equal.
      destruct (Nat.lt_trichotomy k k') as [Hlt|[Heq|Hgt]]; [|symmetry; exact Heq|].
      * exfalso. exact (Hmin' k Hlt Hk).
      * exfalso. exact (Hmin k' Hgt Hk').
    + exfalso. exact (find_from_none _ _ _ E k (occurs_in_range _ _ _ _ Hk) Hk).
Qed.

(* ... and None iff the name occurs nowhere *)
Theorem find_location_none_iff : forall (tokens : list (token_info F)) p0 pat,
  find_location tokens (p0 :: pat) = Ok None <-> forall j, ~ occurs_at tokens (p0 :: pat) j.
Proof.
  intros tokens p0 pat. unfold find_location. split.
  - intro H. injection H as H. intros j Hj.
    exact (find_from_none _ _ _ H j (occurs_in_range _ _ _ _ Hj) Hj).
  - intro H. destruct (find_location_from tokens (p0 :: pat) 0) as [r|] eqn:E; [|reflexivity].
    destruct (find_from_some _ _ _ _ E) as (k' & _ & Hk' & _). exfalso. exact (H k' Hk').
Qed.

(* it never panics on a name (names are non-empty: firstn end_ tokens with a first token) *)
Theorem find_location_total : forall (tokens : list (token_info F)) p0 pat,
  exists r, find_location tokens (p0 :: pat) = Ok r.
Proof. intros. eexists. reflexivity. Qed.

(* every occurrence is seen: wherever the name stands in the line, a match is reported, at
   that place or at an earlier occurrence (formerly refuted by `a a b` for the name `a b`) *)
Lemma prefix_match_app : forall (mid post : list (token_info F)) pat,
  Forall2 (fun t p => info_eq_token t p = true) mid pat -> prefix_match (mid ++ post) pat = true.
Proof.
  intros mid post pat H. induction H as [|t p r pr Ht Hr IH]; cbn [app prefix_match].
  - destruct post; reflexivity.
  - rewrite Ht, IH. reflexivity.
Qed.

Theorem find_location_complete : forall (pre mid post : list (token_info F)) p0 pat,
  Forall2 (fun t p => info_eq_token t p = true) mid (p0 :: pat) ->
  exists k, k <= length pre /\ find_location (pre ++ mid ++ post) (p0 :: pat) = Ok (Some k).
Proof.
  intros pre mid post p0 pat H.
  assert (Hocc : occurs_at (pre ++ mid ++ post) (p0 :: pat) (length pre)).
  { unfold occurs_at. rewrite skipn_app, skipn_all, Nat.sub_diag. cbn [app skipn]. apply prefix_match_app, H. }
  unfold find_location.
  destruct (find_location_from (pre ++ mid ++ post) (p0 :: pat) 0) as [r|] eqn:E.
  - destruct (find_from_some _ _ _ _ E) as (k & -> & Hk & Hmin). exists k. split; [|reflexivity].
    destruct (Nat.le_gt_cases k (length pre)) as [Hle|Hgt]; [exact Hle|].
    exfalso. exact (Hmin _ Hgt Hocc).
  - exfalso. exact (find_from_none _ _ _ E _ (occurs_in_range _ _ _ _ Hocc) Hocc).
Qed.

(* when no earlier token matches the first token of the name, the place is exact *)
Theorem find_location_finds : forall (pre mid post : list (token_info F)) p0 pat,
  Forall (fun t => info_eq_token t p0 = false) pre ->
  Forall2 (fun t p => info_eq_token t p = true) mid (p0 :: pat) ->
  find_location (pre ++ mid ++ post) (p0 :: pat) = Ok (Some (length pre)).
Proof.
  intros pre mid post p0 pat Hpre Hmid. apply find_location_some_iff. split.
  - unfold occurs_at. rewrite skipn_app, skipn_all, Nat.sub_diag. cbn [app skipn]. apply prefix_match_app, Hmid.
  - intros j Hj. unfold occurs_at.
    assert (Hs : exists t r, skipn j (pre ++ mid ++ post) = t :: r /\ info_eq_token t p0 = false).
    { clear Hmid. revert j Hj. induction Hpre as [|t pre' Ht Hp IH]; intros j Hj; cbn [length] in Hj; [lia|].
      destruct j as [|j]; [exists t; eexists; split; [reflexivity|exact Ht]|].
      cbn [app skipn]. apply IH. lia. }
    destruct Hs as (t & r & -> & Ht). cbn [prefix_match]. rewrite Ht. discriminate.
Qed.

(* the former witness of the defect: the name `a b` in `a a b` is found at index 1 *)
Definition txt (w : string) : token_info F :=
  {| ti_start := 0; ti_end := 0; ti_ty := Some (TText (s w)); ti_text := s w; ti_active := true |}.

Theorem find_location_overlap_example :
  find_location [txt "a"; txt "a"; txt "b"] [TText (s "a"); TText (s "b")] = Ok (Some 1).
Proof. vm_compute. reflexivity. Qed.

End WithNum.

(* ================================================================== *)
(* 5. Every line, every text                                           *)
(* ================================================================== *)
Section Lines.
Context {F : Type} {NF : Num F}.

(* ---- 5.1 what Parser.parse returns, for EVERY token list: the session as it was (the parser
   never touches it) and a line tree: an assignment-free tree, or `AAssignment name toks e`
   with an assignment-free e (ParserPure.parse_level_pure) ---- *)
Theorem parse_shape : forall (tokens : list (token F)) vs r vs',
  parse tokens vs = (r, vs') ->
  vs' = vs /\ match r with PAst a => line_ast a = true | _ => True end.
Proof.
  intros tokens vs r vs' H. unfold parse, parse_assignment in H.
  assert (Hplain : forall rest,
             (fst (parse_level (parse_fuel tokens) LAddSub rest), vs) = (r, vs') ->
             vs' = vs /\ match r with PAst a => line_ast a = true | _ => True end).
  { intros rest E. injection E as <- <-. split; [reflexivity|].
    destruct (parse_level (parse_fuel tokens) LAddSub rest) as [[a|m|] i] eqn:E; cbn [fst]; try exact I.
    pose proof (parse_level_pure _ _ _ _ _ E) as Hp. destruct a; try exact Hp; discriminate. }
  destruct (find_index (is_op OP_EQ) tokens) as [k|]; [|exact (Hplain _ H)].
  destruct (nth_opt tokens 0) as [t0|]; [|exact (Hplain _ H)].
  destruct (assign_name_loop (S (length tokens)) tokens vs 0 (to_lowercase (token_to_string vs t0)))
    as [idx name].
  destruct (parse_level (parse_fuel tokens) LAddSub (skipn idx tokens)) as [[a|m|] i] eqn:E.
  - pose proof (parse_level_pure _ _ _ _ _ E) as Hp.
    destruct a; try (injection H as <- <-; split; [reflexivity|exact Hp]).
    exact (Hplain _ H).
  - injection H as <- <-. split; [reflexivity|exact I].
  - injection H as <- <-. split; [reflexivity|exact I].
Qed.

(* ---- 5.2 one line of text through Api.execute_text ---- *)
Variable lx : lexdata.
Variable ck : clock.

Definition only_differs_at (vs vs' : vars F) (name : str) : Prop :=
  forall k, k <> name -> assoc k vs' = assoc k vs.

Definition line_failed (o : option (line_obs (F:=F))) : Prop :=
  match o with
  | None => True
  | Some obs => match lo_result obs with LErr _ => True | LOk _ _ => False end
  end.

(* the session after a line: unchanged, or exactly one [store] of the line's value *)
Theorem line_effect : forall cfg lang vs line o vs',
  execute_text lx ck cfg lang vs line = Ok (o, vs') ->
  vs' = vs \/
  exists obs out v name toks, o = Some obs /\ lo_result obs = LOk out v /\ vs' = store name toks v vs.
Proof.
  intros cfg lang vs line o vs' H. unfold execute_text in H.
  destruct line as [|c0 l0]; [injection H as <- <-; left; reflexivity|].
  destruct (tokinize lx ck cfg lang vs (c0 :: l0)) as [[st tokens]|s0]; cbn [bind] in H; [|discriminate].
  destruct (ts_infos st) as [|i0 infos]; [injection H as <- <-; left; reflexivity|].
  destruct (parse tokens vs) as [r vs1] eqn:Ep.
  destruct (parse_shape tokens vs r vs1 Ep) as [-> Hr].
  destruct r as [a|m|]; [|injection H as <- <-; left; reflexivity|discriminate].
  destruct (execute_ast (basic_execute lx ck) cfg vs a) as [[r2 vs2]|s2] eqn:Ee; cbn [bind] in H; [|discriminate].
  destruct (exec_line_frame (basic_execute lx ck) cfg vs a r2 vs2 Hr Ee) as (_ & _ & Hv).
  destruct r2 as [v|m].
  - destruct (format_result cfg lang (ck_year ck) v) as [out|]; cbn [bind] in H; [|discriminate].
    injection H as <- <-.
    destruct a; try (left; exact Hv).
    right. do 5 eexists. split; [reflexivity|]. split; [reflexivity|exact Hv].
  - injection H as <- <-. left. exact Hv.
Qed.

(* every line changes at most one variable *)
Theorem line_changes_one_name : forall cfg lang vs line o vs',
  execute_text lx ck cfg lang vs line = Ok (o, vs') ->
  exists name, only_differs_at vs vs' name.
Proof.
  intros cfg lang vs line o vs' H.
  destruct (line_effect cfg lang vs line o vs' H) as [->|(obs & out & v & name & toks & _ & _ & ->)].
  - exists []. intros k _. reflexivity.
  - exists (written_key name toks vs). intros k Hk. apply store_other, Hk.
Qed.

(* a line that fails (error or nothing to show) leaves the session EXACTLY as it was *)
Theorem failed_line_preserves_bindings : forall cfg lang vs line o vs',
  execute_text lx ck cfg lang vs line = Ok (o, vs') -> line_failed o -> vs' = vs.
Proof.
  intros cfg lang vs line o vs' H Hf.
  destruct (line_effect cfg lang vs line o vs' H) as [->|(obs & out & v & name & toks & -> & Hr & _)];
    [reflexivity|].
  cbn [line_failed] in Hf. rewrite Hr in Hf. contradiction.
Qed.

(* ---- 5.3 whole texts (SessionLemmas: execute / execute_session = eval_lines) ---- *)
(* failing lines, however many, leave the session exactly as it was *)
Theorem failed_lines_preserve_bindings : forall cfg lang lines vs os vs',
  eval_lines lx ck cfg lang vs lines = Ok (os, vs') -> Forall line_failed os -> vs' = vs.
Proof.
  intros cfg lang lines. induction lines as [|l rest IH]; intros vs os vs' H Hf;
    cbn [eval_lines] in H.
  - injection H as <- <-. reflexivity.
  - destruct (execute_text lx ck cfg lang vs l) as [[o v1]|s0] eqn:E1; [|discriminate].
    destruct (eval_lines lx ck cfg lang v1 rest) as [[os1 v2]|s1] eqn:E2; [|discriminate].
    injection H as <- <-. inversion Hf as [|? ? Ho Hos]; subst.
    rewrite (IH v1 os1 v2 E2 Hos). exact (failed_line_preserves_bindings cfg lang vs l o v1 E1 Ho).
Qed.

(* a failing line is without effect on the rest of the text: removing it changes neither the
   results of the other lines nor the final session *)
Theorem failed_line_removable : forall cfg lang l1 l l2 vs os vs',
  eval_lines lx ck cfg lang vs (l1 ++ l :: l2) = Ok (os, vs') ->
  (exists o, nth_error os (length l1) = Some o /\ line_failed o) ->
  eval_lines lx ck cfg lang vs (l1 ++ l2) = Ok (firstn (length l1) os ++ skipn (S (length l1)) os, vs').
Proof.
  intros cfg lang l1 l l2 vs os vs' H (o & Hn & Hf).
  rewrite eval_lines_app in H. rewrite eval_lines_app.
  destruct (eval_lines lx ck cfg lang vs l1) as [[os1 v1]|s1] eqn:E1; [|discriminate].
  pose proof (eval_lines_length lx ck _ _ _ _ _ _ E1) as Hl1.
  cbn [eval_lines] in H.
  destruct (execute_text lx ck cfg lang v1 l) as [[o' v2]|s2] eqn:E2; [|discriminate].
  destruct (eval_lines lx ck cfg lang v2 l2) as [[os2 v3]|s3] eqn:E3; [|discriminate].
  injection H as <- <-.
  rewrite nth_error_app2 in Hn by lia. rewrite Hl1, Nat.sub_diag in Hn. cbn [nth_error] in Hn.
  injection Hn as ->.
  rewrite (failed_line_preserves_bindings cfg lang v1 l o v2 E2 Hf) in E3. rewrite E3.
  rewrite <- Hl1. rewrite firstn_app, firstn_all, Nat.sub_diag. cbn [firstn]. rewrite app_nil_r.
  rewrite skipn_app. rewrite skipn_all2 by lia.
  replace (S (length os1) - length os1) with 1 by lia. reflexivity.
Qed.

End Lines.

(* ================================================================== *)
(* 6. Non-vacuity and the listed defects, through the whole model at   *)
(*    binary64 (Corr.run of multi-line texts, vm_compute)              *)
(* ================================================================== *)

Fixpoint text_of (ls : list string) : str :=
  match ls with
  | [] => []
  | [x] => s x
  | x :: r => s x ++ 10%N :: text_of r
  end.

Definition CK : clock := {| ck_today := 20000; ck_year := 2024 |}.

(* per line: None (empty slot), Some (true, output) or Some (false, error message) *)
Definition outs (ls : list string) : list (option (bool * str)) :=
  match Corr.run CK Corr.init_state [Corr.OExec (s "en") (text_of ls)] with
  | [Corr.MRes r] =>
    map (fun l => match l with
                  | None => None
                  | Some o => match lo_result o with
                              | LErr m => Some (false, m)
                              | LOk out _ => Some (true, out)
                              end
                  end) (er_lines r)
  | _ => []
  end.

Definition ok (x : string) : option (bool * str) := Some (true, s x).
Definition err (x : string) : option (bool * str) := Some (false, s x).

Local Open Scope string_scope.


Theorem examples :
  outs ["x = 2"; "y = x"; "x = 7"; "y"] = [ok "2"; ok "2"; ok "7"; ok "2"] /\
  outs ["a b = 3"; "a = 1"; "a b + a"] = [ok "3"; ok "1"; ok "4"] /\
  outs ["x = 3"; "x = x + 1"; "x = x * x"; "x"] = [ok "3"; ok "4"; ok "16"; ok "16"] /\
  outs ["My Var = 4"; "my var * 2"; "-MY VAR"] = [ok "4"; ok "8"; ok "-4"] /\
  outs ["x = 3"; "x = 3 hours * 2 hours"; "x"; "x = 2 *"; "x + 1"]
    = [ok "3"; err "Unknown calculation"; ok "3"; err "No more token"; ok "4"].
Proof. vm_compute. repeat split; reflexivity. Qed.

(* formerly a listed defect (fixed in /repo 542d9d0): an occurrence overlapping a failed partial
   match is found *)
Theorem overlap_example :
  outs ["a b = 3"; "foo a b"; "a a b"; "a b c = 5"; "a a b a b c"] = [ok "3"; ok "3"; ok "3"; ok "5"; ok "8"].
Proof. vm_compute. reflexivity. Qed.

(* formerly a listed defect (C03-ghost-variable): a failing assignment of a new name leaves no
   variable behind; the later `a b + 1` is `a` + 1 again, and a failed first assignment of z
   leaves later uses of z plain text *)
Theorem ghost_repaired :
  outs ["a = 2"; "a b = 3 hours * 2 hours"; "a b + 1"] = [ok "2"; err "Unknown calculation"; ok "3"] /\
  outs ["z = 3 hours * 2 hours"; "z + 1"; "z = 4"; "z + 1"]
    = [err "Unknown calculation"; ok "1"; ok "4"; ok "5"].
Proof. vm_compute. split; reflexivity. Qed.

(* formerly a listed defect (C03-name-key-collision): `ab` and `a b` are different variables *)
Theorem collision_repaired :
  outs ["ab = 1"; "a b = 2"; "ab"; "a b"] = [ok "1"; ok "2"; ok "1"; ok "2"] /\
  outs ["a bc = 1"; "ab c = 2"; "a bc + ab c"] = [ok "1"; ok "2"; ok "3"].
Proof. vm_compute. split; reflexivity. Qed.

(* a name whose second or later word is an operator word (`sum` is an alias of +), or that holds
   an operator character (net-pay): the operator token is part of the key ("grand +"), for the
   lookup as for the storage; `grand sum` and `grand` are two independent variables, the longer
   name wins, and re-binding `grand sum` replaces its value *)
Theorem operator_word_name :
  outs ["grand sum = 10"; "grand = 7"; "grand sum"; "grand"; "grand sum = 3"; "grand sum + grand"]
    = [ok "10"; ok "7"; ok "10"; ok "7"; ok "3"; ok "10"] /\
  outs ["grand sum = 10"; "grand sum = 25"; "grand sum + 1"; "Grand Sum * 2"]
    = [ok "10"; ok "25"; ok "26"; ok "50"] /\
  outs ["net-pay = 100"; "net-pay = 150"; "net-pay + 1"] = [ok "100"; ok "150"; ok "151"].
Proof. vm_compute. repeat split; reflexivity. Qed.

(* formerly a defect (repaired in /repo 60764fa): the parser looked a variable up under the key
   without the operator tokens, so `grand sum = ..` overwrote a bound `grand`; now the lookup key
   is the storage key and the two are independent variables in either order *)
Theorem operator_word_crosswrite_repaired :
  outs ["grand = 7"; "grand sum = 10"; "grand"; "grand sum"] = [ok "7"; ok "10"; ok "7"; ok "10"] /\
  outs ["grand sum = 10"; "grand = 7"; "grand sum = 3"; "grand sum"; "grand"]
    = [ok "10"; ok "7"; ok "3"; ok "3"; ok "7"].
Proof. vm_compute. split; reflexivity. Qed.
