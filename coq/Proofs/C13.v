(* Proofs for property C13. *)
From SC.Model Require Import Base.
